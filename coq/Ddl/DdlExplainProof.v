(* C04 (part C) -- the DDL printers' "(children N)" headers equal the number of children they
   emit, for every combination of optional fields and every list length; hence their output is a
   well-formed tree (up to [norm_line]).  Model: Ddl/DdlExplainModel.v.

   Where the Go code does NOT have the property the model is faithful and the failure is a lemma
   ([*_refuted]); the main theorems are then equivalences: header = emitted children IFF the
   stated condition on the fields. *)
From Coq Require Import List NArith Arith Bool Lia.
From DC Require Import Tree.LineTree Tree.LineTreeProof
     Select.SelectExplainModel Select.SelectExplainProof Ddl.DdlExplainModel.
Import ListNotations.

(* ---------------------------------------------------------------------------------------- *)
(** * A block of lines prints a forest *)

(* after normalisation the lines are the rendering of the trees [ts] at depth [d] *)
Definition emits (ls : list line) (d : nat) (ts : list rose) : Prop :=
  nrm ls = render_forest d ts.

Lemma emits_nil d : emits [] d [].
Proof. reflexivity. Qed.

Lemma emits_app a b d ta tb : emits a d ta -> emits b d tb -> emits (a ++ b) d (ta ++ tb).
Proof. unfold emits. intros Ha Hb. rewrite nrm_app, render_forest_app, Ha, Hb. reflexivity. Qed.

Lemma emits_of_tree ls d t : nrm ls = render d t -> emits ls d [t].
Proof. unfold emits. intros H. rewrite render_forest_one. exact H. Qed.

Lemma tree_of_emits ls d t : emits ls d [t] -> nrm ls = render d t.
Proof. unfold emits. rewrite render_forest_one. trivial. Qed.

Lemma emits_render d t : emits (render d t) d [t].
Proof. apply emits_of_tree, nrm_render. Qed.

Lemma emits_node d t : emits (node d t) d [t].
Proof. apply emits_render. Qed.

Lemma emits_nodes d ts : emits (nodes d ts) d ts.
Proof. apply nrm_forest. Qed.

Lemma emits_opt_node d o : emits (opt_node d o) d (opt_list o).
Proof. apply opt_node_forest. Qed.

Lemma emits_when (b : bool) X d T : emits X d T -> emits (when b X) d (when b T).
Proof. destruct b; [trivial|reflexivity]. Qed.

Lemma emits_if (b : bool) X Y d TX TY :
  emits X d TX -> emits Y d TY -> emits (if b then X else Y) d (if b then TX else TY).
Proof. destruct b; trivial. Qed.

Lemma norm_hdr_pos d lab k : norm_line (hdr_pos d lab k) = mkLine d lab (kcount k).
Proof. destruct k; reflexivity. Qed.

(* a header line followed by the block printed beneath it: the forest form (no claim about the
   count) and the tree form (count = number of trees) *)
Lemma forest_of_emits d lab n body ts :
  emits body (S d) ts ->
  nrm (hdr d lab n :: body) = mkLine d lab (kcount n) :: render_forest (S d) ts.
Proof. intros H. rewrite nrm_cons, norm_hdr, H. reflexivity. Qed.

Lemma forest_of_emits_pos d lab n body ts :
  emits body (S d) ts ->
  nrm (hdr_pos d lab n :: body) = mkLine d lab (kcount n) :: render_forest (S d) ts.
Proof. intros H. rewrite nrm_cons, norm_hdr_pos, H. reflexivity. Qed.

Lemma emits_hdr d lab n body ts :
  n = length ts -> emits body (S d) ts -> emits (hdr d lab n :: body) d [Node lab ts].
Proof.
  intros -> H. apply emits_of_tree. rewrite (forest_of_emits _ _ _ _ _ H), render_node. reflexivity.
Qed.

Lemma emits_hdr_pos d lab n body ts :
  n = length ts -> emits body (S d) ts -> emits (hdr_pos d lab n :: body) d [Node lab ts].
Proof.
  intros -> H. apply emits_of_tree. rewrite (forest_of_emits_pos _ _ _ _ _ H), render_node. reflexivity.
Qed.

Lemma emits_leaf d lab : emits [leaf d lab] d [T_leaf lab].
Proof. reflexivity. Qed.

Lemma emits_cons_leaf d lab rest ts :
  emits rest d ts -> emits (leaf d lab :: rest) d (T_leaf lab :: ts).
Proof. intros H. apply (emits_app [leaf d lab] rest d [T_leaf lab] ts (emits_leaf d lab) H). Qed.

Lemma emits_flat_map {A} (f : A -> list line) (g : A -> rose) d l :
  (forall x, emits (f x) d [g x]) -> emits (flat_map f l) d (map g l).
Proof.
  intros H. induction l as [|x l IH]; [reflexivity|]. cbn [flat_map map].
  apply (emits_app _ _ _ [g x] (map g l)); [apply H|exact IH].
Qed.

Lemma emits_map_leaf {A} (f : A -> list N) d (l : list A) :
  emits (map (fun x => leaf d (f x)) l) d (map (fun x => T_leaf (f x)) l).
Proof.
  induction l as [|x l IH]; [reflexivity|]. cbn [map]. apply emits_cons_leaf. exact IH.
Qed.

Lemma emits_repeat_leaf d lab n : emits (repeat (leaf d lab) n) d (repeat (T_leaf lab) n).
Proof. induction n as [|n IH]; [reflexivity|]. cbn [repeat]. apply emits_cons_leaf. exact IH. Qed.

Definition nilable_tree (o : option rose) : rose :=
  match o with Some t => t | None => nil_tree end.

Lemma emits_node_nilable d o : emits (node_nilable d o) d [nilable_tree o].
Proof. destruct o; apply emits_render. Qed.

(* `match o with Some a => <block> | None => [] end` *)
Definition opt_block {A} (f : A -> rose) (o : option A) : list rose :=
  match o with Some a => [f a] | None => [] end.

Lemma emits_opt_block {A} (X : A -> list line) (f : A -> rose) d (o : option A) :
  (forall a, emits (X a) d [f a]) ->
  emits (match o with Some a => X a | None => [] end) d (opt_block f o).
Proof. intros H. destruct o; [apply H|reflexivity]. Qed.

Lemma length_opt_block {A} (f : A -> rose) (o : option A) : length (opt_block f o) = b2n (is_some o).
Proof. destruct o; reflexivity. Qed.

Lemma length_when1 {A} (b : bool) (x : A) : length (when b [x]) = b2n b.
Proof. destruct b; reflexivity. Qed.

Lemma nonempty_length {A} (l : list A) : nonempty l = pos (length l).
Proof. destruct l; reflexivity. Qed.

Lemma expr_list_emits d ts : emits (expr_list d ts) d [T_EL ts].
Proof. apply emits_of_tree, expr_list_tree. Qed.

(* `if len(xs) > 0 { "ExpressionList (children n)"; members } else { "ExpressionList" }` *)
Lemma el_or_leaf_emits d ts :
  emits (if nonempty ts then hdr d L_ExpressionList (length ts) :: nodes (S d) ts
         else [leaf d L_ExpressionList]) d [T_EL ts].
Proof.
  destruct ts as [|t ts]; [apply emits_leaf|]. cbn [nonempty]. unfold T_EL.
  apply emits_hdr; [reflexivity|apply emits_nodes].
Qed.

(* ---------------------------------------------------------------------------------------- *)
(** * Header count and directly printed children of a block in forest form *)

Lemma counts_of_forest ls d lab n ts :
  nrm ls = mkLine d lab (kcount n) :: render_forest (S d) ts ->
  header_count ls = n /\ direct_children ls = length ts.
Proof.
  intros H. rewrite <- header_count_nrm, <- direct_children_nrm, H.
  rewrite header_count_kcount, direct_children_forest by reflexivity. split; reflexivity.
Qed.

Lemma check_lines_of_tree ls t : nrm ls = render 0 t -> check_lines ls = true.
Proof. intros H. apply check_lines_spec. exists t. exact H. Qed.

(* a list of lines whose direct-children count differs from the header is no tree *)
Lemma not_tree_of_counts ls :
  header_count ls <> direct_children ls -> forall d t, nrm ls <> render d t.
Proof. intros Hne d t H. apply Hne. eapply tree_counts_agree. exact H. Qed.

(* ---------------------------------------------------------------------------------------- *)
(** * Codec / statistics functions of a column *)

Definition fn_tree (f : fn_call) : rose :=
  Node (L_Function (fn_name f)) (when (nonempty (fn_args f)) [T_EL (fn_args f)]).

Lemma plain_function_emits d f : emits (explain_plain_function d f) d [fn_tree f].
Proof.
  unfold explain_plain_function, fn_tree. destruct (nonempty (fn_args f)); cbn [when].
  - apply emits_hdr; [reflexivity|]. apply (emits_hdr (S d)); [reflexivity|apply emits_nodes].
  - apply emits_leaf.
Qed.

Definition codec_tree (cs : list fn_call) : rose := Node L_Function_CODEC [T_EL (map fn_tree cs)].
Definition statistics_tree (ss : list fn_call) : rose :=
  Node L_Function_STATISTICS [T_EL (map fn_tree ss)].

Lemma codec_expr_emits d cs : emits (explain_codec_expr d cs) d [codec_tree cs].
Proof.
  unfold explain_codec_expr, codec_tree. apply emits_hdr; [reflexivity|].
  apply (emits_hdr (S d)); [symmetry; apply map_length|].
  apply emits_flat_map. intros f. apply plain_function_emits.
Qed.

Lemma statistics_expr_emits d ss : emits (explain_statistics_expr d ss) d [statistics_tree ss].
Proof.
  unfold explain_statistics_expr, statistics_tree. apply emits_hdr; [reflexivity|].
  apply (emits_hdr (S d)); [symmetry; apply map_length|].
  apply emits_flat_map. intros f. apply plain_function_emits.
Qed.

(* ---------------------------------------------------------------------------------------- *)
(** * Column *)

Definition column_children (c : column_decl) : list rose :=
  opt_list (cd_type c)
  ++ when (pos (cd_settings c)) [T_leaf L_Set]
  ++ (match cd_default c with
      | Some t => [t]
      | None => when (has_ephemeral_default c) [T_leaf L_Function_defaultValueOfTypeName]
      end)
  ++ opt_list (cd_ttl c)
  ++ opt_block codec_tree (cd_codec c)
  ++ when (nonempty (cd_statistics c)) [statistics_tree (cd_statistics c)]
  ++ when (nonempty (cd_comment c)) [T_leaf (L_Literal_q (cd_comment c))].

Definition column_tree (c : column_decl) : rose :=
  Node (L_ColumnDeclaration (cd_name c)) (column_children c).

(* THE count-vs-emit statement for Column: unconditional *)
Theorem count_column_children_correct c :
  count_column_children c = length (column_children c).
Proof.
  unfold count_column_children, column_children, has_ephemeral_default.
  rewrite !app_length, !length_opt_list, !length_when1, length_opt_block.
  destruct (cd_default c); cbn [is_some negb andb orb length];
    [change (b2n true) with 1|rewrite length_when1, andb_true_r]; lia.
Qed.

Lemma column_body_emits d c :
  emits (opt_node (S d) (cd_type c)
         ++ when (pos (cd_settings c)) [leaf (S d) L_Set]
         ++ (match cd_default c with
             | Some t => node (S d) t
             | None => when (has_ephemeral_default c) [leaf (S d) L_Function_defaultValueOfTypeName]
             end)
         ++ opt_node (S d) (cd_ttl c)
         ++ (match cd_codec c with Some cs => explain_codec_expr (S d) cs | None => [] end)
         ++ when (nonempty (cd_statistics c)) (explain_statistics_expr (S d) (cd_statistics c))
         ++ when (nonempty (cd_comment c)) [leaf (S d) (L_Literal_q (cd_comment c))])
        (S d) (column_children c).
Proof.
  unfold column_children.
  repeat apply emits_app.
  - apply emits_opt_node.
  - apply emits_when, emits_leaf.
  - destruct (cd_default c); [apply emits_node|apply emits_when, emits_leaf].
  - apply emits_opt_node.
  - apply emits_opt_block. intros cs. apply codec_expr_emits.
  - apply emits_when, statistics_expr_emits.
  - apply emits_when, emits_leaf.
Qed.

Theorem explain_column_tree d c : nrm (explain_column d c) = render d (column_tree c).
Proof.
  apply tree_of_emits. unfold explain_column, column_tree.
  apply emits_hdr_pos; [apply count_column_children_correct|apply column_body_emits].
Qed.

Lemma column_emits d c : emits (explain_column d c) d [column_tree c].
Proof. apply emits_of_tree, explain_column_tree. Qed.

Corollary column_counts_agree d c :
  header_count (explain_column d c) = direct_children (explain_column d c).
Proof. eapply tree_counts_agree. apply explain_column_tree. Qed.

Corollary explain_column_check c : check_lines (explain_column 0 c) = true.
Proof. eapply check_lines_of_tree. apply explain_column_tree. Qed.

(* ---------------------------------------------------------------------------------------- *)
(** * Index *)

Definition key_ident_or_node (k : key_expr) : rose :=
  match k_view k with KV_ident n => T_leaf (L_Identifier n) | _ => k_tree k end.

Definition index_children (i : index_def) : list rose :=
  opt_block key_ident_or_node (ix_expr i) ++ opt_list (ix_type i).

Definition index_tree (i : index_def) : rose := Node L_Index (index_children i).

Theorem count_index_children_correct i : count_index_children i = length (index_children i).
Proof.
  unfold count_index_children, index_children.
  rewrite app_length, length_opt_block, length_opt_list. reflexivity.
Qed.

Lemma key_ident_or_node_emits d k :
  emits (match k_view k with
         | KV_ident n => [leaf d (L_Identifier n)]
         | _ => node d (k_tree k)
         end) d [key_ident_or_node k].
Proof. unfold key_ident_or_node. destruct (k_view k); first [apply emits_leaf|apply emits_node]. Qed.

Theorem explain_index_tree d i : nrm (explain_index d i) = render d (index_tree i).
Proof.
  apply tree_of_emits. unfold explain_index, index_tree.
  apply emits_hdr; [apply count_index_children_correct|].
  unfold index_children. apply emits_app; [|apply emits_opt_node].
  apply (emits_opt_block (fun k => match k_view k with
                                   | KV_ident n => [leaf (S d) (L_Identifier n)]
                                   | _ => node (S d) (k_tree k)
                                   end)).
  intros k. apply key_ident_or_node_emits.
Qed.

Lemma index_emits d i : emits (explain_index d i) d [index_tree i].
Proof. apply emits_of_tree, explain_index_tree. Qed.

Corollary index_counts_agree d i :
  header_count (explain_index d i) = direct_children (explain_index d i).
Proof. eapply tree_counts_agree. apply explain_index_tree. Qed.

Corollary explain_index_check i : check_lines (explain_index 0 i) = true.
Proof. eapply check_lines_of_tree. apply explain_index_tree. Qed.

(* ---------------------------------------------------------------------------------------- *)
(** * Projection *)

Definition tuple_wrap_tree (ts : list rose) : rose := Node L_Function_tuple [T_EL ts].

Lemma tuple_wrap_emits d ts : emits (explain_tuple_wrap d ts) d [tuple_wrap_tree ts].
Proof.
  unfold explain_tuple_wrap, tuple_wrap_tree. apply emits_hdr; [reflexivity|].
  apply (emits_hdr (S d)); [reflexivity|apply emits_nodes].
Qed.

(* one expression printed directly, several wrapped in a tuple *)
Definition one_or_tuple (ts : list rose) : list rose :=
  match ts with [] => [] | [t] => [t] | _ => [tuple_wrap_tree ts] end.

Lemma length_one_or_tuple ts : length (one_or_tuple ts) = b2n (nonempty ts).
Proof. destruct ts as [|a [|b r]]; reflexivity. Qed.

(* the line side is `match l with [] => [] | [o] => node d o | obs => explain_tuple_wrap d obs end` *)
Ltac one_or_tuple_tac l :=
  let a := fresh "a" in let b := fresh "b" in let r := fresh "r" in
  destruct l as [|a [|b r]]; [apply emits_nil|apply emits_node|apply tuple_wrap_emits].

Definition proj_select_children (q : proj_select) : list rose :=
  when (nonempty (ps_with q)) [T_EL (ps_with q)]
  ++ when (nonempty (ps_columns q)) [T_EL (ps_columns q)]
  ++ when (nonempty (ps_group_by q)) [T_EL (ps_group_by q)]
  ++ one_or_tuple (ps_order_by q).

Definition proj_select_tree (q : proj_select) : rose :=
  Node L_ProjectionSelectQuery (proj_select_children q).

Definition projection_tree (p : projection) : rose :=
  Node L_Projection (opt_block proj_select_tree (pj_select p)).

Theorem count_projection_select_children_correct q :
  count_projection_select_children q = length (proj_select_children q).
Proof.
  unfold count_projection_select_children, proj_select_children.
  rewrite !app_length, !length_when1, length_one_or_tuple. lia.
Qed.

Theorem explain_projection_select_tree d q :
  nrm (explain_projection_select_query d q) = render d (proj_select_tree q).
Proof.
  apply tree_of_emits. unfold explain_projection_select_query, proj_select_tree.
  apply emits_hdr; [apply count_projection_select_children_correct|].
  unfold proj_select_children. repeat apply emits_app.
  - apply emits_when, expr_list_emits.
  - apply emits_when, expr_list_emits.
  - apply emits_when, expr_list_emits.
  - one_or_tuple_tac (ps_order_by q).
Qed.

Theorem explain_projection_tree d p : nrm (explain_projection d p) = render d (projection_tree p).
Proof.
  apply tree_of_emits. unfold explain_projection, projection_tree.
  apply emits_hdr; [symmetry; apply length_opt_block|].
  apply emits_opt_block. intros q. apply emits_of_tree, explain_projection_select_tree.
Qed.

Lemma projection_emits d p : emits (explain_projection d p) d [projection_tree p].
Proof. apply emits_of_tree, explain_projection_tree. Qed.

Corollary projection_counts_agree d p :
  header_count (explain_projection d p) = direct_children (explain_projection d p).
Proof. eapply tree_counts_agree. apply explain_projection_tree. Qed.

(* ---------------------------------------------------------------------------------------- *)
(** * TTL clauses *)

Definition te_tree (e : ttl_element) : rose :=
  Node L_TTLElement (nilable_tree (te_expr e) :: opt_list (te_where e)).

Definition ttl_elements_tree (els : list ttl_element) : rose := T_EL (map te_tree els).

Definition ttl_legacy_tree (t : ttl_clause) : rose :=
  T_EL (Node L_TTLElement [nilable_tree (ttl_expression t)]
        :: map (fun x => Node L_TTLElement [x]) (ttl_expressions t)).

Lemma ttl_elements_emits d els : emits (explain_ttl_elements d els) d [ttl_elements_tree els].
Proof.
  unfold explain_ttl_elements, ttl_elements_tree, T_EL.
  apply emits_hdr; [symmetry; apply map_length|].
  apply emits_flat_map. intros e. unfold te_tree.
  apply emits_hdr; [destruct (te_where e); reflexivity|].
  apply (emits_app _ _ _ [nilable_tree (te_expr e)]); [apply emits_node_nilable|apply emits_opt_node].
Qed.

Lemma ttl_legacy_emits d t : emits (explain_ttl_legacy d t) d [ttl_legacy_tree t].
Proof.
  unfold explain_ttl_legacy, ttl_legacy_tree, T_EL.
  apply emits_hdr; [cbn [length]; rewrite map_length; reflexivity|].
  apply (emits_app (hdr (S d) L_TTLElement 1 :: node_nilable (S (S d)) (ttl_expression t)) _ _
                   [Node L_TTLElement [nilable_tree (ttl_expression t)]]).
  - apply emits_hdr; [reflexivity|apply emits_node_nilable].
  - apply emits_flat_map. intros x. apply emits_hdr; [reflexivity|apply emits_node].
Qed.

Lemma emits_flat_map_in {A} (f : A -> list line) (g : A -> rose) d l :
  (forall x, In x l -> emits (f x) d [g x]) -> emits (flat_map f l) d (map g l).
Proof.
  intros H. induction l as [|x l IH]; [reflexivity|]. cbn [flat_map map].
  apply (emits_app _ _ _ [g x] (map g l)); [apply H; left; reflexivity|].
  apply IH. intros y Hy. apply H. right. exact Hy.
Qed.

(* ---------------------------------------------------------------------------------------- *)
(** * AlterCommand: the pieces *)

Definition ident_trees (s : list N) : list rose := when (nonempty s) [T_leaf (L_Identifier s)].
Definition comment_trees (s : list N) : list rose := when (nonempty s) [T_leaf (L_Literal_q s)].
Definition ident_list_tree (names : list (list N)) : rose :=
  T_EL (map (fun n => T_leaf (L_Identifier n)) names).

Lemma ident_if_emits d s : emits (ident_if d s) (S d) (ident_trees s).
Proof. apply emits_when, emits_leaf. Qed.

Lemma comment_if_emits d s : emits (comment_if d s) (S d) (comment_trees s).
Proof. apply emits_when, emits_leaf. Qed.

Lemma ident_list_emits d names : emits (ident_list d names) d [ident_list_tree names].
Proof.
  unfold ident_list, ident_list_tree, T_EL. apply emits_hdr; [symmetry; apply map_length|].
  apply (emits_map_leaf L_Identifier).
Qed.

Lemma length_ident_trees s : length (ident_trees s) = b2n (nonempty s).
Proof. apply length_when1. Qed.

Lemma length_comment_trees s : length (comment_trees s) = b2n (nonempty s).
Proof. apply length_when1. Qed.

Definition T_all : rose := T_leaf L_Partition_ID_all.
Definition part_wrapped_tree (p : partition) : rose := Node L_Partition [pt_tree p].
Definition part_id_tree (p : partition) : rose :=
  match pt_view p with
  | PV_literal v => Node (L_Partition_ID_Literal v) [pt_tree p]
  | _ => Node L_Partition_ID [pt_tree p]
  end.
Definition part_all_or_wrapped_tree (p : partition) : rose :=
  if is_all p then T_all else part_wrapped_tree p.
Definition part_id_or_wrapped_tree (is_id : bool) (p : partition) : rose :=
  if is_id then part_id_tree p else part_wrapped_tree p.
Definition part_group_tree (is_id is_part : bool) (p : partition) : rose :=
  if is_all p then T_all else if is_id then part_id_tree p
  else if is_part then pt_tree p else part_wrapped_tree p.
Definition part_update_tree (is_id : bool) (p : partition) : rose :=
  if is_all p then T_all else if is_id then part_id_tree p else part_wrapped_tree p.

Lemma part_wrapped_emits d p : emits (part_wrapped d p) (S d) [part_wrapped_tree p].
Proof. apply emits_hdr; [reflexivity|apply emits_node]. Qed.

Lemma part_id_emits d p : emits (part_id d p) (S d) [part_id_tree p].
Proof.
  unfold part_id, part_id_tree. destruct (pt_view p); (apply emits_hdr; [reflexivity|apply emits_node]).
Qed.

Lemma part_all_or_wrapped_emits d o :
  emits (part_all_or_wrapped d o) (S d) (opt_block part_all_or_wrapped_tree o).
Proof.
  destruct o as [p|]; [|apply emits_nil]. cbn [part_all_or_wrapped opt_block].
  unfold part_all_or_wrapped_tree. destruct (is_all p); [apply emits_leaf|apply part_wrapped_emits].
Qed.

Lemma part_id_or_wrapped_emits d is_id o :
  emits (part_id_or_wrapped d is_id o) (S d) (opt_block (part_id_or_wrapped_tree is_id) o).
Proof.
  destruct o as [p|]; [|apply emits_nil]. cbn [part_id_or_wrapped opt_block].
  unfold part_id_or_wrapped_tree. destruct is_id; [apply part_id_emits|apply part_wrapped_emits].
Qed.

Lemma part_group_emits d is_id is_part o :
  emits (part_group d is_id is_part o) (S d) (opt_block (part_group_tree is_id is_part) o).
Proof.
  destruct o as [p|]; [|apply emits_nil]. cbn [part_group opt_block].
  unfold part_group_tree. destruct (is_all p); [apply emits_leaf|].
  destruct is_id; [apply part_id_emits|].
  destruct is_part; [apply emits_node|apply part_wrapped_emits].
Qed.

Lemma part_update_emits d is_id o :
  emits (part_update d is_id o) (S d) (opt_block (part_update_tree is_id) o).
Proof.
  destruct o as [p|]; [|apply emits_nil]. cbn [part_update opt_block].
  unfold part_update_tree. destruct (is_all p); [apply emits_leaf|].
  destruct is_id; [apply part_id_emits|apply part_wrapped_emits].
Qed.

(* a statistics kind in ALTER ... ADD / MODIFY STATISTICS: always one ExpressionList child *)
Definition stat_type_tree (f : fn_call) : rose := Node (L_Function (fn_name f)) [T_EL (fn_args f)].

Lemma statistics_type_function_emits d f :
  emits (explain_statistics_type_function d f) d [stat_type_tree f].
Proof.
  unfold explain_statistics_type_function, stat_type_tree.
  apply emits_hdr; [reflexivity|apply el_or_leaf_emits].
Qed.

Theorem explain_statistics_type_function_tree d f :
  nrm (explain_statistics_type_function d f) = render d (stat_type_tree f).
Proof. apply tree_of_emits, statistics_type_function_emits. Qed.

Definition stat_children (c : alter_command) : list rose :=
  when (nonempty (ac_stat_columns c)) [ident_list_tree (ac_stat_columns c)]
  ++ when (nonempty (ac_stat_types c)) [T_EL (map stat_type_tree (ac_stat_types c))].

Definition stat_tree (c : alter_command) : rose := Node L_Stat (stat_children c).

Lemma statistics_command_emits d c :
  emits (explain_statistics_command d c) (S d) [stat_tree c].
Proof.
  unfold explain_statistics_command, stat_tree.
  apply emits_hdr; [unfold stat_children; rewrite app_length, !length_when1; reflexivity|].
  unfold stat_children. apply emits_app.
  - apply emits_when, ident_list_emits.
  - apply emits_when. unfold T_EL. apply emits_hdr; [symmetry; apply map_length|].
    apply emits_flat_map. intros f. apply statistics_type_function_emits.
Qed.

Definition assignment_tree (a : assignment) : rose :=
  Node (L_Assignment (as_column a)) [nilable_tree (as_value a)].

Definition constraint_tree (o : option rose) : rose := Node L_Constraint (opt_list o).

(* ---------------------------------------------------------------------------------------- *)
(** * AlterCommand: the children and the count *)

Definition alter_children (c : alter_command) : list rose :=
  match ac_type c with
  | AT_AddColumn => opt_block column_tree (ac_column c) ++ ident_trees (ac_after_column c)
  | AT_ModifyColumn =>
      opt_block column_tree (ac_column c) ++ ident_trees (ac_after_column c)
      ++ when (pos (ac_settings c)) [T_leaf L_Set]
      ++ when (nonempty (ac_reset_settings c)) [ident_list_tree (ac_reset_settings c)]
  | AT_DropColumn => ident_trees (ac_column_name c)
  | AT_RenameColumn => ident_trees (ac_column_name c) ++ ident_trees (ac_new_name c)
  | AT_ClearColumn =>
      ident_trees (ac_column_name c) ++ opt_block part_all_or_wrapped_tree (ac_partition c)
  | AT_CommentColumn => ident_trees (ac_column_name c) ++ comment_trees (ac_comment c)
  | AT_ModifyComment => comment_trees (ac_comment c)
  | AT_AddIndex =>
      (match ac_index_def c with
       | Some i => if is_some (ix_expr i) || is_some (ix_type i) then [index_tree i]
                   else ident_trees (ac_index c)
       | None => ident_trees (ac_index c)
       end)
      ++ ident_trees (ac_after_index c)
  | AT_DropIndex | AT_ClearIndex =>
      ident_trees (ac_index c) ++ opt_block part_all_or_wrapped_tree (ac_partition c)
  | AT_MaterializeIndex =>
      ident_trees (ac_index c)
      ++ opt_block (part_id_or_wrapped_tree (ac_partition_is_id c)) (ac_partition c)
  | AT_MaterializeColumn =>
      ident_trees (ac_column_name c) ++ opt_block part_wrapped_tree (ac_partition c)
  | AT_AddConstraint => opt_block constraint_tree (ac_constraint c)
  | AT_DropConstraint => ident_trees (ac_constraint_name c)
  | AT_ModifyTTL =>
      (match ac_ttl c with
       | Some t =>
           if nonempty (ttl_elements t) then [ttl_elements_tree (ttl_elements t)]
           else if is_some (ttl_expression t) then [ttl_legacy_tree t]
           else []
       | None => []
       end)
  | AT_ModifySetting => [T_leaf L_Set]
  | AT_DropPartition | AT_DropDetachedPartition | AT_DetachPartition | AT_AttachPartition
  | AT_ReplacePartition | AT_FetchPartition | AT_MovePartition | AT_FreezePartition
  | AT_ApplyPatches | AT_ApplyDeletedMask =>
      opt_block (part_group_tree (ac_partition_is_id c) (ac_is_part c)) (ac_partition c)
  | AT_Freeze => []
  | AT_DeleteWhere => opt_list (ac_where c)
  | AT_Update =>
      opt_block (part_update_tree (ac_partition_is_id c)) (ac_partition c)
      ++ opt_list (ac_where c)
      ++ when (nonempty (ac_assignments c)) [T_EL (map assignment_tree (ac_assignments c))]
  | AT_AddProjection => opt_block projection_tree (ac_projection c)
  | AT_DropProjection | AT_MaterializeProjection | AT_ClearProjection =>
      ident_trees (ac_projection_name c)
  | AT_AddStatistics | AT_ModifyStatistics
  | AT_DropStatistics | AT_ClearStatistics | AT_MaterializeStatistics => [stat_tree c]
  | AT_ModifyOrderBy => one_or_tuple (ac_order_by c)
  | AT_ModifySampleBy => opt_list (ac_sample_by c)
  | AT_ModifyQuery => opt_list (ac_query c)
  | AT_ResetSetting =>
      when (nonempty (ac_reset_settings c)) [ident_list_tree (ac_reset_settings c)]
  | AT_MaterializeTTL | AT_RemoveTTL | AT_RemoveSampleBy | AT_Other _ =>
      opt_block pt_tree (ac_partition c)
  end.

Definition alter_tree (c : alter_command) : rose :=
  Node (L_AlterCommand (alter_type_label c)) (alter_children c).

(* the condition under which countAlterCommandChildren agrees with explainAlterCommand
   (Properties/C04_ddl.v says where the parser establishes it, and where it does not) *)
Definition inv_alter_count_b (c : alter_command) : bool :=
  match ac_type c with
  | AT_AddColumn =>
      (* the tally is shared with MODIFY COLUMN and counts Settings / ResetSettings, which the
         ADD COLUMN emission does not print *)
      negb (pos (ac_settings c)) && negb (nonempty (ac_reset_settings c))
  | AT_ModifyTTL =>
      (* the tally looks at TTL.Expression, the emission at TTL.Elements first *)
      match ac_ttl c with
      | Some t => negb (nonempty (ttl_elements t)) || is_some (ttl_expression t)
      | None => true
      end
  | AT_AddStatistics | AT_ModifyStatistics =>
      (* the Stat node is printed unconditionally *)
      nonempty (ac_stat_columns c) || nonempty (ac_stat_types c)
  | AT_DropStatistics | AT_ClearStatistics | AT_MaterializeStatistics =>
      nonempty (ac_stat_columns c)
  | _ => true
  end.

Definition inv_alter_count (c : alter_command) : Prop := inv_alter_count_b c = true.

(* nothing else is needed for the block to be a tree *)
Definition inv_alter (c : alter_command) : Prop := inv_alter_count c.

Ltac length_norm :=
  rewrite ?app_length, ?length_opt_block, ?length_opt_list, ?length_when1,
          ?length_ident_trees, ?length_comment_trees, ?length_one_or_tuple.

(* THE count-vs-emit statement for countAlterCommandChildren / explainAlterCommand, for every
   command type and every combination of fields: an equivalence *)
Theorem count_alter_command_children_correct c :
  inv_alter_count c <-> count_alter_command_children c = length (alter_children c).
Proof.
  unfold inv_alter_count, inv_alter_count_b, count_alter_command_children, alter_children.
  destruct (ac_type c);
    try (length_norm; cbn [length]; split; [intros _; lia|reflexivity]).
  - (* ADD_COLUMN *)
    length_norm. destruct (pos (ac_settings c)), (nonempty (ac_reset_settings c));
      cbn [negb andb b2n]; split; intros H; first [lia|discriminate|reflexivity].
  - (* ADD_INDEX *)
    destruct (ac_index_def c) as [i|]; [destruct (is_some (ix_expr i) || is_some (ix_type i))|];
      length_norm; cbn [length]; split; first [intros _; lia|reflexivity].
  - (* MODIFY_TTL *)
    destruct (ac_ttl c) as [t|]; [|split; reflexivity].
    destruct (nonempty (ttl_elements t)), (is_some (ttl_expression t));
      cbn [negb orb b2n length]; split; intros H; first [lia|discriminate|reflexivity].
  - (* RESET_SETTING *)
    length_norm. destruct (nonempty (ac_reset_settings c)); split; reflexivity.
  - (* ADD_STATISTICS *)
    destruct (nonempty (ac_stat_columns c) || nonempty (ac_stat_types c));
      cbn [length]; split; intros H; first [lia|discriminate|reflexivity].
  - (* MODIFY_STATISTICS *)
    destruct (nonempty (ac_stat_columns c) || nonempty (ac_stat_types c));
      cbn [length]; split; intros H; first [lia|discriminate|reflexivity].
  - (* DROP_STATISTICS *)
    destruct (nonempty (ac_stat_columns c));
      cbn [length]; split; intros H; first [lia|discriminate|reflexivity].
  - (* CLEAR_STATISTICS *)
    destruct (nonempty (ac_stat_columns c));
      cbn [length]; split; intros H; first [lia|discriminate|reflexivity].
  - (* MATERIALIZE_STATISTICS *)
    destruct (nonempty (ac_stat_columns c));
      cbn [length]; split; intros H; first [lia|discriminate|reflexivity].
  - (* MODIFY_ORDER_BY *)
    length_norm. destruct (nonempty (ac_order_by c)); split; reflexivity.
  - (* MODIFY_SAMPLE_BY *)
    length_norm. destruct (is_some (ac_sample_by c)); split; reflexivity.
  - (* MODIFY_QUERY *)
    length_norm. destruct (is_some (ac_query c)); split; reflexivity.
Qed.

(* ---------------------------------------------------------------------------------------- *)
(** * AlterCommand: the emission *)

Definition alter_body (d : nat) (c : alter_command) : list line := tl (explain_alter_command d c).

Lemma explain_alter_command_eq d c :
  explain_alter_command d c
  = hdr_pos d (L_AlterCommand (alter_type_label c)) (count_alter_command_children c)
    :: alter_body d c.
Proof. reflexivity. Qed.

Ltac emits_auto :=
  repeat first
    [ apply emits_nil
    | apply emits_app
    | apply ident_if_emits
    | apply comment_if_emits
    | apply part_all_or_wrapped_emits
    | apply part_id_or_wrapped_emits
    | apply part_group_emits
    | apply part_update_emits
    | apply part_wrapped_emits
    | apply emits_opt_node
    | apply emits_leaf
    | apply emits_node
    | apply emits_node_nilable
    | apply ident_list_emits
    | apply expr_list_emits
    | apply column_emits
    | apply index_emits
    | apply projection_emits
    | apply emits_when
    | (apply emits_opt_block; intro) ].

Lemma alter_body_emits d c :
  emits (alter_body d c) (S d) (alter_children c).
Proof.
  unfold alter_body, explain_alter_command, alter_children. cbn [tl].
  destruct (ac_type c); try solve [emits_auto]; try solve [apply statistics_command_emits].
  - (* ADD_INDEX *)
    apply emits_app; [|apply ident_if_emits].
    destruct (ac_index_def c) as [i|]; [|apply ident_if_emits].
    destruct (is_some (ix_expr i) || is_some (ix_type i)); [apply index_emits|apply ident_if_emits].
  - (* ADD_CONSTRAINT *)
    destruct (ac_constraint c) as [[e|]|]; cbn [opt_block]; unfold constraint_tree; cbn [opt_list].
    + apply emits_hdr; [reflexivity|apply emits_node].
    + apply emits_leaf.
    + apply emits_nil.
  - (* MODIFY_TTL *)
    destruct (ac_ttl c) as [t|]; [|apply emits_nil].
    destruct (nonempty (ttl_elements t)); [apply ttl_elements_emits|].
    destruct (is_some (ttl_expression t)); [apply ttl_legacy_emits|apply emits_nil].
  - (* UPDATE *)
    emits_auto. unfold T_EL. apply emits_hdr; [symmetry; apply map_length|].
    apply emits_flat_map. intros a. unfold assignment_tree.
    apply emits_hdr; [reflexivity|apply emits_node_nilable].
  - (* MODIFY_ORDER_BY *)
    one_or_tuple_tac (ac_order_by c).
Qed.

(* the forest form: no condition on the tally *)
Lemma explain_alter_command_forest d c :
  nrm (explain_alter_command d c)
  = mkLine d (L_AlterCommand (alter_type_label c)) (kcount (count_alter_command_children c))
    :: render_forest (S d) (alter_children c).
Proof.
  rewrite explain_alter_command_eq. apply forest_of_emits_pos, alter_body_emits.
Qed.

Theorem explain_alter_command_tree d c :
  inv_alter c -> nrm (explain_alter_command d c) = render d (alter_tree c).
Proof.
  intros Hc. rewrite explain_alter_command_forest.
  apply count_alter_command_children_correct in Hc. rewrite Hc. reflexivity.
Qed.

Lemma alter_command_emits d c : inv_alter c -> emits (explain_alter_command d c) d [alter_tree c].
Proof. intros H. apply emits_of_tree, explain_alter_command_tree, H. Qed.

(* header = number of lines printed directly beneath, IFF the tally condition *)
Theorem alter_counts_agree_iff d c :
  header_count (explain_alter_command d c) = direct_children (explain_alter_command d c)
  <-> inv_alter_count c.
Proof.
  destruct (counts_of_forest _ _ _ _ _ (explain_alter_command_forest d c)) as [-> ->].
  symmetry. apply count_alter_command_children_correct.
Qed.

Corollary explain_alter_command_check c :
  inv_alter c -> check_lines (explain_alter_command 0 c) = true.
Proof. intros H. eapply check_lines_of_tree. apply explain_alter_command_tree, H. Qed.

(* outside the tally condition the block is not a tree, at any depth *)
Corollary alter_not_tree d c :
  ~ inv_alter_count c ->
  forall d' t, nrm (explain_alter_command d c) <> render d' t.
Proof.
  intros Hn. apply not_tree_of_counts. intros H. apply Hn. apply (alter_counts_agree_iff d c). exact H.
Qed.

(* ---------------------------------------------------------------------------------------- *)
(** * AlterQuery *)

Definition alter_query_children (n : alter_query) : list rose :=
  [T_EL (map alter_tree (aq_commands n))]
  ++ ident_trees (aq_database n)
  ++ [T_leaf (L_Identifier (aq_table n))]
  ++ ident_trees (aq_format n)
  ++ when (pos (aq_settings n)) [T_leaf L_Set].

Definition alter_query_tree (n : alter_query) : rose :=
  Node (alter_query_label n) (alter_query_children n).

Theorem count_alter_query_children_correct n :
  count_alter_query_children n = length (alter_query_children n).
Proof.
  unfold count_alter_query_children, alter_query_children. length_norm. cbn [length].
  destruct (nonempty (aq_database n)); cbn [b2n]; lia.
Qed.

Definition inv_alter_query (n : alter_query) : Prop := Forall inv_alter (aq_commands n).

Theorem explain_alter_query_tree d n :
  inv_alter_query n -> nrm (explain_alter_query d n) = render d (alter_query_tree n).
Proof.
  intros Hi. apply tree_of_emits. unfold explain_alter_query, alter_query_tree.
  apply emits_hdr; [apply count_alter_query_children_correct|].
  unfold alter_query_children.
  change (hdr (S d) L_ExpressionList (length (aq_commands n))
          :: flat_map (explain_alter_command (S (S d))) (aq_commands n)
          ++ ident_if d (aq_database n) ++ [leaf (S d) (L_Identifier (aq_table n))]
          ++ ident_if d (aq_format n) ++ when (pos (aq_settings n)) [leaf (S d) L_Set])
    with ((hdr (S d) L_ExpressionList (length (aq_commands n))
           :: flat_map (explain_alter_command (S (S d))) (aq_commands n))
          ++ ident_if d (aq_database n) ++ [leaf (S d) (L_Identifier (aq_table n))]
          ++ ident_if d (aq_format n) ++ when (pos (aq_settings n)) [leaf (S d) L_Set]).
  apply emits_app; [|emits_auto].
  unfold T_EL. apply emits_hdr; [symmetry; apply map_length|].
  apply emits_flat_map_in. intros c Hc. apply alter_command_emits.
  unfold inv_alter_query in Hi. rewrite Forall_forall in Hi. apply Hi, Hc.
Qed.

Corollary alter_query_counts_agree d n :
  inv_alter_query n ->
  header_count (explain_alter_query d n) = direct_children (explain_alter_query d n).
Proof. intros H. eapply tree_counts_agree. apply explain_alter_query_tree, H. Qed.

Corollary explain_alter_query_check n :
  inv_alter_query n -> check_lines (explain_alter_query 0 n) = true.
Proof. intros H. eapply check_lines_of_tree. apply explain_alter_query_tree, H. Qed.

(* ---------------------------------------------------------------------------------------- *)
(** * CreateQuery: the pieces *)


Definition engine_tree (e : engine) : rose :=
  Node (L_Function (en_name e)) (when (en_has_parens e) [T_EL (en_params e)]).

Lemma engine_emits d e : emits (explain_engine d e) d [engine_tree e].
Proof.
  unfold explain_engine, engine_tree. destruct (en_has_parens e); cbn [when]; [|apply emits_leaf].
  apply emits_hdr; [reflexivity|apply el_or_leaf_emits].
Qed.

Lemma tuple_literal_emits d es : emits (explain_tuple_literal d es) d [tuple_wrap_tree es].
Proof.
  unfold explain_tuple_literal, tuple_wrap_tree. apply emits_hdr; [reflexivity|apply el_or_leaf_emits].
Qed.

Definition ident_leaf (nm : list N) : rose := T_leaf (L_Identifier nm).

Definition pk_trees (pk : list key_expr) : list rose :=
  match pk with
  | [] => []
  | [k] => [match k_view k with
            | KV_ident nm => ident_leaf nm
            | KV_tuple es => tuple_wrap_tree es
            | KV_other => k_tree k
            end]
  | _ => [tuple_wrap_tree (map k_tree pk)]
  end.

Definition ob_trees (mods : bool) (ob : list key_expr) : list rose :=
  match ob with
  | [] => []
  | [k] => [match k_view k with
            | KV_ident nm =>
                if mods then Node L_StorageOrderByElement [ident_leaf nm] else ident_leaf nm
            | KV_tuple es => if mods then T_leaf L_Function_tuple else tuple_wrap_tree es
            | KV_other => k_tree k
            end]
  | _ => [tuple_wrap_tree (map k_tree ob)]
  end.

Definition inner_ob_trees (ob : list key_expr) : list rose :=
  match ob with
  | [] => []
  | [k] => [key_ident_or_node k]
  | _ => [tuple_wrap_tree (map k_tree ob)]
  end.

Lemma length_pk_trees pk : length (pk_trees pk) = b2n (nonempty pk).
Proof. destruct pk as [|a [|b r]]; reflexivity. Qed.

Lemma length_ob_trees mods ob : length (ob_trees mods ob) = b2n (nonempty ob).
Proof. destruct ob as [|a [|b r]]; reflexivity. Qed.

Lemma length_inner_ob_trees ob : length (inner_ob_trees ob) = b2n (nonempty ob).
Proof. destruct ob as [|a [|b r]]; reflexivity. Qed.

Lemma storage_primary_key_emits d pk : emits (explain_storage_primary_key d pk) d (pk_trees pk).
Proof.
  destruct pk as [|a [|b r]]; [apply emits_nil| |apply tuple_wrap_emits].
  cbn [explain_storage_primary_key pk_trees].
  destruct (k_view a); [apply emits_leaf|apply tuple_literal_emits|apply emits_node].
Qed.

Lemma storage_order_by_emits d mods ob :
  emits (explain_storage_order_by d mods ob) d (ob_trees mods ob).
Proof.
  destruct ob as [|a [|b r]]; [apply emits_nil| |apply tuple_wrap_emits].
  cbn [explain_storage_order_by ob_trees].
  destruct (k_view a), mods;
    first [apply emits_leaf|apply tuple_literal_emits|apply emits_node
          |apply emits_hdr; [reflexivity|apply emits_leaf]].
Qed.

Lemma inner_order_by_emits d ob : emits (explain_inner_order_by d ob) d (inner_ob_trees ob).
Proof.
  destruct ob as [|a [|b r]]; [apply emits_nil| |apply tuple_wrap_emits].
  cbn [explain_inner_order_by inner_ob_trees]. apply key_ident_or_node_emits.
Qed.

Definition create_ttl_tree (t : ttl_clause) : rose :=
  if nonempty (ttl_elements t) then ttl_elements_tree (ttl_elements t) else ttl_legacy_tree t.

Lemma create_ttl_emits d t : emits (explain_create_ttl d t) d [create_ttl_tree t].
Proof.
  unfold explain_create_ttl, create_ttl_tree.
  destruct (nonempty (ttl_elements t)); [apply ttl_elements_emits|apply ttl_legacy_emits].
Qed.

(* ---- "Storage definition" ---- *)

Definition storage_children (n : create_query) : list rose :=
  opt_block engine_tree (cq_engine n)
  ++ opt_block key_ident_or_node (cq_partition_by n)
  ++ pk_trees (cq_primary_key n)
  ++ ob_trees (cq_order_by_has_modifiers n) (cq_order_by n)
  ++ opt_list (cq_sample_by n)
  ++ opt_block create_ttl_tree (cq_ttl n)
  ++ when (settings_in_storage n) [T_leaf L_Set].

Definition storage_tree (n : create_query) : rose := Node L_Storage_definition (storage_children n).

(* the storageChildren sub-tally: unconditional *)
Theorem count_storage_children_correct n :
  count_storage_children n = length (storage_children n).
Proof.
  unfold count_storage_children, storage_children.
  rewrite !app_length, !length_opt_block, length_pk_trees, length_ob_trees, length_opt_list, length_when1.
  lia.
Qed.

Theorem explain_storage_definition_tree d n :
  nrm (explain_storage_definition d n) = render d (storage_tree n).
Proof.
  apply tree_of_emits. unfold explain_storage_definition, storage_tree.
  apply emits_hdr_pos; [apply count_storage_children_correct|].
  unfold storage_children. repeat apply emits_app.
  - apply emits_opt_block. intros e. apply engine_emits.
  - apply (emits_opt_block (fun k => match k_view k with
                                     | KV_ident nm => [leaf (S d) (L_Identifier nm)]
                                     | _ => node (S d) (k_tree k)
                                     end)).
    intros k. apply key_ident_or_node_emits.
  - apply storage_primary_key_emits.
  - apply storage_order_by_emits.
  - apply emits_opt_node.
  - apply emits_opt_block. intros t. apply create_ttl_emits.
  - apply emits_when, emits_leaf.
Qed.

Corollary storage_counts_agree d n :
  header_count (explain_storage_definition d n) = direct_children (explain_storage_definition d n).
Proof. eapply tree_counts_agree. apply explain_storage_definition_tree. Qed.

(* ---- "Columns definition" ---- *)

Definition constraint_item_tree (e : option rose) : rose := Node L_Constraint [nilable_tree e].

Definition inline_pk_trees (n : create_query) : list rose :=
  if cq_has_empty_columns_primary_key n then [tuple_wrap_tree []]
  else match cq_columns_primary_key n with
       | _ :: _ :: _ => [tuple_wrap_tree (cq_columns_primary_key n)]
       | pks => pks
       end.

Definition columns_definition_children (n : create_query) : list rose :=
  when (nonempty (cq_columns n)) [T_EL (map column_tree (cq_columns n))]
  ++ when (nonempty (cq_indexes n)) [T_EL (map index_tree (cq_indexes n))]
  ++ when (nonempty (cq_projections n)) [T_EL (map projection_tree (cq_projections n))]
  ++ when (nonempty (cq_constraints n)) [T_EL (map constraint_item_tree (cq_constraints n))]
  ++ when (nonempty (primary_key_columns n))
          [Node L_Function_tuple [ident_list_tree (primary_key_columns n)]]
  ++ when (has_inline_primary_key n) (inline_pk_trees n).

Definition columns_definition_tree (n : create_query) : rose :=
  Node L_Columns_definition (columns_definition_children n).

Lemma length_inline_pk n :
  length (when (has_inline_primary_key n) (inline_pk_trees n)) = b2n (has_inline_primary_key n).
Proof.
  unfold has_inline_primary_key, inline_pk_trees.
  destruct (cq_has_empty_columns_primary_key n); [rewrite orb_true_r; reflexivity|].
  rewrite orb_false_r. destruct (cq_columns_primary_key n) as [|a [|b r]]; reflexivity.
Qed.

(* the childrenCount sub-tally: unconditional *)
Theorem count_columns_definition_children_correct n :
  count_columns_definition_children n = length (columns_definition_children n).
Proof.
  unfold count_columns_definition_children, columns_definition_children.
  rewrite !app_length, length_inline_pk, !length_when1. lia.
Qed.

Lemma el_of_emits {A} (f : A -> list line) (g : A -> rose) d (l : list A) :
  (forall x, emits (f x) (S d) [g x]) ->
  emits (hdr d L_ExpressionList (length l) :: flat_map f l) d [T_EL (map g l)].
Proof.
  intros H. unfold T_EL. apply emits_hdr; [symmetry; apply map_length|]. apply emits_flat_map, H.
Qed.

Theorem explain_columns_definition_tree d n :
  nrm (explain_columns_definition d n) = render d (columns_definition_tree n).
Proof.
  apply tree_of_emits. unfold explain_columns_definition, columns_definition_tree.
  apply emits_hdr; [apply count_columns_definition_children_correct|].
  unfold columns_definition_children. repeat apply emits_app.
  - apply emits_when, el_of_emits. intros c. apply column_emits.
  - apply emits_when, el_of_emits. intros i. apply index_emits.
  - apply emits_when, el_of_emits. intros p. apply projection_emits.
  - apply emits_when, el_of_emits. intros e. unfold constraint_item_tree.
    apply emits_hdr; [reflexivity|apply emits_node_nilable].
  - apply emits_when. apply emits_hdr; [reflexivity|apply ident_list_emits].
  - apply emits_when. unfold inline_pk_trees.
    destruct (cq_has_empty_columns_primary_key n).
    + unfold tuple_wrap_tree. apply emits_hdr; [reflexivity|apply emits_leaf].
    + destruct (cq_columns_primary_key n) as [|a [|b r]];
        [apply emits_nil|apply emits_nodes|apply tuple_wrap_emits].
Qed.

Corollary columns_definition_counts_agree d n :
  header_count (explain_columns_definition d n) = direct_children (explain_columns_definition d n).
Proof. eapply tree_counts_agree. apply explain_columns_definition_tree. Qed.

(* hasColumnPrimaryKey (count side of the main tally) and primaryKeyColumns (sub-tally) agree *)
Lemma has_column_primary_key_spec n :
  has_column_primary_key n = nonempty (primary_key_columns n).
Proof.
  unfold has_column_primary_key, primary_key_columns.
  induction (cq_columns n) as [|c cs IH]; [reflexivity|]. cbn [existsb filter].
  destruct (cd_primary_key c); [reflexivity|exact IH].
Qed.

(* ---------------------------------------------------------------------------------------- *)
(** * CreateQuery: the general variant *)

Definition as_select_trees (n : create_query) : list rose :=
  match cq_as_select n with
  | Some s => [if nonempty (cq_format n) then as_no_format s else as_plain s]
  | None => []
  end.

Lemma length_as_select_trees n : length (as_select_trees n) = b2n (is_some (cq_as_select n)).
Proof. unfold as_select_trees. destruct (cq_as_select n); reflexivity. Qed.

Lemma as_select_emits d n : emits (explain_as_select d n) d (as_select_trees n).
Proof.
  unfold explain_as_select, as_select_trees. destruct (cq_as_select n) as [s|]; [|apply emits_nil].
  destruct (nonempty (cq_format n)); apply emits_node.
Qed.

Definition window_targets_trees (n : create_query) : list rose :=
  match cq_inner_engine n with
  | Some e => [Node L_ViewTargets
                 [Node L_Storage_definition (engine_tree e :: inner_ob_trees (cq_order_by n))]]
  | None => []
  end.

Lemma window_view_targets_emits d n :
  emits (explain_window_view_targets d n) (S d) (window_targets_trees n).
Proof.
  unfold explain_window_view_targets, window_targets_trees.
  destruct (cq_inner_engine n) as [e|]; [|apply emits_nil].
  apply emits_hdr; [reflexivity|].
  apply emits_hdr; [cbn [length]; rewrite length_inner_ob_trees; reflexivity|].
  apply (emits_app _ _ _ [engine_tree e]); [apply engine_emits|apply inner_order_by_emits].
Qed.

Lemma length_window_targets n :
  length (when (window_inner n) (window_targets_trees n)) = b2n (window_inner n).
Proof.
  unfold window_inner, window_targets_trees.
  destruct (cq_window_view n), (cq_inner_engine n); reflexivity.
Qed.

Definition name_trees (n : create_query) : list rose :=
  if cq_create_database n then [ident_leaf (create_name n)]
  else if has_database n then [ident_leaf (cq_database n); ident_leaf (create_name n)]
  else [ident_leaf (create_name n)].

Lemma length_name_trees n : length (name_trees n) = 1 + b2n (has_database n).
Proof.
  unfold name_trees, has_database. destruct (cq_create_database n).
  - rewrite andb_false_r. reflexivity.
  - destruct (nonempty (cq_database n) && negb false && (nonempty (cq_table n) || nonempty (cq_view n)));
      reflexivity.
Qed.

Definition storage_piece_trees (n : create_query) : list rose :=
  if has_storage n then
    [if cq_materialized n then Node L_ViewTargets [storage_tree n] else storage_tree n]
  else when (cq_materialized n && cq_to n) [T_leaf L_ViewTargets].

Definition create_general_children (n : create_query) : list rose :=
  name_trees n
  ++ when (has_columns_block n) [columns_definition_tree n]
  ++ when (cq_has_refresh n) [Node L_Refresh [T_leaf L_TimeInterval]]
  ++ when (cq_materialized n) (as_select_trees n)
  ++ storage_piece_trees n
  ++ when (cq_window_view n) (as_select_trees n)
  ++ when (window_inner n) (window_targets_trees n)
  ++ when (negb (cq_materialized n) && negb (cq_window_view n)) (as_select_trees n)
  ++ opt_list (cq_as_table_function n)
  ++ ident_trees (cq_format n)
  ++ comment_trees (cq_comment n)
  ++ when (settings_after_comment n) [T_leaf L_Set]
  ++ when (pos (cq_query_settings n)) [T_leaf L_Set].

Definition create_general_label (n : create_query) : list N :=
  if cq_create_database n then L_CreateQuery (create_name n ++ SPC)
  else if has_database n then L_CreateQuery (cq_database n ++ SPC ++ create_name n)
  else L_CreateQuery (create_name n).

(* the AS SELECT statement is printed by three separate `if`s (materialized view: before the
   storage; window view: before the ViewTargets; otherwise: after the storage) but counted once *)
Definition inv_create_general_b (n : create_query) : bool :=
  negb (cq_materialized n && cq_window_view n && is_some (cq_as_select n)).

Lemma length_when_list {A} (b : bool) (l : list A) : length (when b l) = if b then length l else 0.
Proof. destruct b; reflexivity. Qed.

(* THE count-vs-emit statement for the main tally of explainCreateQuery: an equivalence *)
Theorem count_create_query_children_correct n :
  inv_create_general_b n = true <->
  count_create_query_children n = length (create_general_children n).
Proof.
  unfold count_create_query_children, create_general_children, storage_piece_trees, inv_create_general_b.
  rewrite !app_length, length_name_trees, length_window_targets, !length_when_list,
          length_as_select_trees, length_opt_list, length_ident_trees, length_comment_trees.
  change (has_storage n) with (has_storage_child n). cbn [length].
  destruct (cq_materialized n), (cq_window_view n), (is_some (cq_as_select n)),
           (has_storage_child n), (cq_to n);
    cbn [negb andb b2n length when]; unfold b2n;
    split; intros H; first [lia|discriminate|reflexivity].
Qed.

Definition create_general_tail (d : nat) (n : create_query) : list line :=
  when (has_columns_block n) (explain_columns_definition (S d) n)
  ++ when (cq_has_refresh n) [hdr (S d) L_Refresh 1; leaf (S (S d)) L_TimeInterval]
  ++ when (cq_materialized n) (explain_as_select (S d) n)
  ++ (if has_storage n then
        if cq_materialized n
        then hdr (S d) L_ViewTargets 1 :: explain_storage_definition (S (S d)) n
        else explain_storage_definition (S d) n
      else when (cq_materialized n && cq_to n) [leaf (S d) L_ViewTargets])
  ++ when (cq_window_view n) (explain_as_select (S d) n)
  ++ when (window_inner n) (explain_window_view_targets d n)
  ++ when (negb (cq_materialized n) && negb (cq_window_view n)) (explain_as_select (S d) n)
  ++ opt_node (S d) (cq_as_table_function n)
  ++ ident_if d (cq_format n)
  ++ comment_if d (cq_comment n)
  ++ when (settings_after_comment n) [leaf (S d) L_Set]
  ++ when (pos (cq_query_settings n)) [leaf (S d) L_Set].

Definition name_leaves (d : nat) (n : create_query) : list line :=
  if cq_create_database n then [leaf (S d) (L_Identifier (create_name n))]
  else if has_database n then [leaf (S d) (L_Identifier (cq_database n));
                               leaf (S d) (L_Identifier (create_name n))]
  else [leaf (S d) (L_Identifier (create_name n))].

Lemma explain_create_general_eq d n :
  explain_create_general d n
  = hdr d (create_general_label n) (count_create_query_children n)
    :: name_leaves d n ++ create_general_tail d n.
Proof.
  unfold explain_create_general, create_general_label, name_leaves.
  fold (create_general_tail d n).
  destruct (cq_create_database n); [reflexivity|]. destruct (has_database n); reflexivity.
Qed.

Lemma storage_definition_emits d n : emits (explain_storage_definition d n) d [storage_tree n].
Proof. apply emits_of_tree, explain_storage_definition_tree. Qed.

Lemma create_general_body_emits d n :
  emits (name_leaves d n ++ create_general_tail d n) (S d) (create_general_children n).
Proof.
  unfold create_general_children, create_general_tail. apply emits_app.
  - unfold name_leaves, name_trees, ident_leaf. destruct (cq_create_database n); [apply emits_leaf|].
    destruct (has_database n); [apply emits_cons_leaf|]; apply emits_leaf.
  - repeat apply emits_app.
    + apply emits_when, emits_of_tree, explain_columns_definition_tree.
    + apply emits_when. apply emits_hdr; [reflexivity|apply emits_leaf].
    + apply emits_when, as_select_emits.
    + unfold storage_piece_trees. destruct (has_storage n); [|apply emits_when, emits_leaf].
      destruct (cq_materialized n); [|apply storage_definition_emits].
      apply emits_hdr; [reflexivity|apply storage_definition_emits].
    + apply emits_when, as_select_emits.
    + apply emits_when, window_view_targets_emits.
    + apply emits_when, as_select_emits.
    + apply emits_opt_node.
    + apply ident_if_emits.
    + apply comment_if_emits.
    + apply emits_when, emits_leaf.
    + apply emits_when, emits_leaf.
Qed.

Lemma explain_create_general_forest d n :
  nrm (explain_create_general d n)
  = mkLine d (create_general_label n) (kcount (count_create_query_children n))
    :: render_forest (S d) (create_general_children n).
Proof. rewrite explain_create_general_eq. apply forest_of_emits, create_general_body_emits. Qed.

(* ---------------------------------------------------------------------------------------- *)
(** * CreateQuery: CREATE FUNCTION, CREATE / ALTER USER, CREATE DICTIONARY *)

Definition create_function_children (n : create_query) : list rose :=
  ident_leaf (cq_function_name n) :: opt_list (cq_function_body n).

Lemma explain_create_function_forest d n :
  nrm (explain_create_function d n)
  = mkLine d (L_CreateFunctionQuery (cq_function_name n)) (kcount 2)
    :: render_forest (S d) (create_function_children n).
Proof.
  unfold explain_create_function, create_function_children, ident_leaf.
  apply forest_of_emits. apply emits_cons_leaf, emits_opt_node.
Qed.

Definition create_user_children (n : create_query) : list rose :=
  if cq_has_authentication_data n then
    if nonempty (cq_authentication_values n) then
      map (fun v => Node L_AuthenticationData [T_leaf (L_Literal_q v)]) (cq_authentication_values n)
    else if pos (cq_ssh_key_count n) then
      [Node L_AuthenticationData (repeat (T_leaf L_PublicSSHKey) (cq_ssh_key_count n))]
    else [T_leaf L_AuthenticationData]
  else [].

Definition create_user_tree (n : create_query) : rose := Node L_CreateUserQuery (create_user_children n).

(* the CREATE / ALTER USER variant: unconditional *)
Theorem explain_create_user_tree d n : nrm (explain_create_user d n) = render d (create_user_tree n).
Proof.
  apply tree_of_emits. unfold explain_create_user, create_user_tree, create_user_children.
  destruct (cq_has_authentication_data n); [|apply emits_leaf].
  destruct (nonempty (cq_authentication_values n)).
  - apply emits_hdr; [symmetry; apply map_length|]. apply emits_flat_map. intros v.
    apply emits_hdr; [reflexivity|apply emits_leaf].
  - destruct (pos (cq_ssh_key_count n)).
    + apply emits_hdr; [reflexivity|].
      apply emits_hdr; [symmetry; apply repeat_length|apply emits_repeat_leaf].
    + apply emits_hdr; [reflexivity|apply emits_leaf].
Qed.

Definition create_dictionary_children (n : create_query) : list rose :=
  ident_trees (cq_database n)
  ++ [ident_leaf (cq_table n)]
  ++ when (nonempty (cq_dictionary_attrs n)) [T_EL (cq_dictionary_attrs n)]
  ++ opt_list (cq_dictionary_def n)
  ++ comment_trees (cq_comment n).

Definition create_dictionary_label (n : create_query) : list N :=
  if nonempty (cq_database n) then L_CreateQuery (cq_database n ++ SPC ++ cq_table n)
  else L_CreateQuery (cq_table n).

Definition create_dictionary_tree (n : create_query) : rose :=
  Node (create_dictionary_label n) (create_dictionary_children n).

(* the CREATE DICTIONARY tally: unconditional *)
Theorem count_create_dictionary_children_correct n :
  count_create_dictionary_children n = length (create_dictionary_children n).
Proof.
  unfold count_create_dictionary_children, create_dictionary_children. length_norm. cbn [length]. lia.
Qed.

Theorem explain_create_dictionary_tree d n :
  nrm (explain_create_dictionary d n) = render d (create_dictionary_tree n).
Proof.
  apply tree_of_emits.
  assert (E : explain_create_dictionary d n
              = hdr d (create_dictionary_label n) (count_create_dictionary_children n)
                :: ident_if d (cq_database n)
                ++ [leaf (S d) (L_Identifier (cq_table n))]
                ++ when (nonempty (cq_dictionary_attrs n)) (expr_list (S d) (cq_dictionary_attrs n))
                ++ opt_node (S d) (cq_dictionary_def n)
                ++ comment_if d (cq_comment n)).
  { unfold explain_create_dictionary, create_dictionary_label, ident_if.
    destruct (nonempty (cq_database n)); reflexivity. }
  rewrite E. unfold create_dictionary_tree.
  apply emits_hdr; [apply count_create_dictionary_children_correct|].
  unfold create_dictionary_children, ident_leaf. emits_auto.
Qed.

(* ---------------------------------------------------------------------------------------- *)
(** * CreateQuery: all variants *)

Definition is_user (n : create_query) : bool := cq_create_user n || cq_alter_user n.

Definition create_label (n : create_query) : list N :=
  if cq_create_function n then L_CreateFunctionQuery (cq_function_name n)
  else if is_user n then L_CreateUserQuery
  else if cq_create_dictionary n then create_dictionary_label n
  else create_general_label n.

Definition create_children (n : create_query) : list rose :=
  if cq_create_function n then create_function_children n
  else if is_user n then create_user_children n
  else if cq_create_dictionary n then create_dictionary_children n
  else create_general_children n.

(* the number in the header line *)
Definition create_header_count (n : create_query) : nat :=
  if cq_create_function n then 2
  else if is_user n then length (create_user_children n)
  else if cq_create_dictionary n then count_create_dictionary_children n
  else count_create_query_children n.

Definition create_tree (n : create_query) : rose := Node (create_label n) (create_children n).

(* the condition under which the header of explainCreateQuery agrees with what it prints *)
Definition inv_create_b (n : create_query) : bool :=
  if cq_create_function n then is_some (cq_function_body n)     (* `children := 2`, the body printed only when non-nil *)
  else if is_user n then true
  else if cq_create_dictionary n then true
  else inv_create_general_b n.

Definition inv_create (n : create_query) : Prop := inv_create_b n = true.

Theorem create_header_count_correct n :
  inv_create n <-> create_header_count n = length (create_children n).
Proof.
  unfold inv_create, inv_create_b, create_header_count, create_children.
  destruct (cq_create_function n).
  - unfold create_function_children. cbn [length]. rewrite length_opt_list.
    destruct (is_some (cq_function_body n)); cbn [b2n]; split; intros H;
      first [lia|discriminate|reflexivity].
  - destruct (is_user n); [split; reflexivity|].
    destruct (cq_create_dictionary n);
      [split; [intros _; apply count_create_dictionary_children_correct|reflexivity]|].
    apply count_create_query_children_correct.
Qed.

Lemma explain_create_query_forest d n :
  nrm (explain_create_query d n)
  = mkLine d (create_label n) (kcount (create_header_count n))
    :: render_forest (S d) (create_children n).
Proof.
  unfold explain_create_query, create_label, create_header_count, create_children.
  fold (is_user n).
  destruct (cq_create_function n); [apply explain_create_function_forest|].
  destruct (is_user n); [rewrite explain_create_user_tree; apply render_node|].
  destruct (cq_create_dictionary n).
  - rewrite explain_create_dictionary_tree, count_create_dictionary_children_correct. apply render_node.
  - apply explain_create_general_forest.
Qed.

Theorem explain_create_query_tree d n :
  inv_create n -> nrm (explain_create_query d n) = render d (create_tree n).
Proof.
  intros H. rewrite explain_create_query_forest.
  apply create_header_count_correct in H. rewrite H. reflexivity.
Qed.

(* header = number of lines printed directly beneath, IFF the condition; no other restriction *)
Theorem create_counts_agree_iff d n :
  header_count (explain_create_query d n) = direct_children (explain_create_query d n)
  <-> inv_create n.
Proof.
  destruct (counts_of_forest _ _ _ _ _ (explain_create_query_forest d n)) as [-> ->].
  symmetry. apply create_header_count_correct.
Qed.

Corollary explain_create_query_check n :
  inv_create n -> check_lines (explain_create_query 0 n) = true.
Proof. intros H. eapply check_lines_of_tree. apply explain_create_query_tree, H. Qed.

Corollary create_not_tree d n :
  ~ inv_create n -> forall d' t, nrm (explain_create_query d n) <> render d' t.
Proof.
  intros Hn. apply not_tree_of_counts. intros H. apply Hn. apply (create_counts_agree_iff d n). exact H.
Qed.

(* ---------------------------------------------------------------------------------------- *)
From Coq Require Import String.
Local Open Scope string_scope.
Local Open Scope list_scope.
Local Open Scope nat_scope.

(** * Witnesses: field combinations for which the Go code prints a header that differs from what
      it emits.  Each is the AST the parser builds for the SQL text quoted with it (checked by the
      ddlcount correspondence, which runs these very cases against parser.Explain). *)

Definition empty_alter (t : alter_type) : alter_command :=
  {| ac_type := t; ac_column := None; ac_column_name := []; ac_after_column := []; ac_new_name := [];
     ac_index := []; ac_index_def := None; ac_after_index := []; ac_constraint := None;
     ac_constraint_name := []; ac_partition := None; ac_partition_is_id := false; ac_is_part := false;
     ac_from_table := false; ac_ttl := None; ac_settings := 0; ac_where := None; ac_assignments := [];
     ac_projection := None; ac_projection_name := []; ac_stat_columns := []; ac_stat_types := [];
     ac_comment := []; ac_order_by := []; ac_sample_by := None; ac_reset_settings := [];
     ac_query := None |}.

Definition set_ttl (c : alter_command) (t : option ttl_clause) : alter_command :=
  {| ac_type := ac_type c; ac_column := ac_column c; ac_column_name := ac_column_name c;
     ac_after_column := ac_after_column c; ac_new_name := ac_new_name c; ac_index := ac_index c;
     ac_index_def := ac_index_def c; ac_after_index := ac_after_index c;
     ac_constraint := ac_constraint c; ac_constraint_name := ac_constraint_name c;
     ac_partition := ac_partition c; ac_partition_is_id := ac_partition_is_id c;
     ac_is_part := ac_is_part c; ac_from_table := ac_from_table c; ac_ttl := t;
     ac_settings := ac_settings c; ac_where := ac_where c; ac_assignments := ac_assignments c;
     ac_projection := ac_projection c; ac_projection_name := ac_projection_name c;
     ac_stat_columns := ac_stat_columns c; ac_stat_types := ac_stat_types c;
     ac_comment := ac_comment c; ac_order_by := ac_order_by c; ac_sample_by := ac_sample_by c;
     ac_reset_settings := ac_reset_settings c; ac_query := ac_query c |}.

Definition set_stats (c : alter_command) (cols : list (list N)) (types : list fn_call) : alter_command :=
  {| ac_type := ac_type c; ac_column := ac_column c; ac_column_name := ac_column_name c;
     ac_after_column := ac_after_column c; ac_new_name := ac_new_name c; ac_index := ac_index c;
     ac_index_def := ac_index_def c; ac_after_index := ac_after_index c;
     ac_constraint := ac_constraint c; ac_constraint_name := ac_constraint_name c;
     ac_partition := ac_partition c; ac_partition_is_id := ac_partition_is_id c;
     ac_is_part := ac_is_part c; ac_from_table := ac_from_table c; ac_ttl := ac_ttl c;
     ac_settings := ac_settings c; ac_where := ac_where c; ac_assignments := ac_assignments c;
     ac_projection := ac_projection c; ac_projection_name := ac_projection_name c;
     ac_stat_columns := cols; ac_stat_types := types;
     ac_comment := ac_comment c; ac_order_by := ac_order_by c; ac_sample_by := ac_sample_by c;
     ac_reset_settings := ac_reset_settings c; ac_query := ac_query c |}.

(* ALTER TABLE t ADD STATISTICS          (also MODIFY / DROP / CLEAR / MATERIALIZE STATISTICS
   without a column list): "AlterCommand ADD_STATISTICS" has no count, "Stat (children 0)" is
   printed beneath it *)
Definition w_add_statistics_empty : alter_command := empty_alter AT_AddStatistics.

Lemma alter_statistics_without_columns_refuted :
  header_count (explain_alter_command 0 w_add_statistics_empty) = 0 /\
  direct_children (explain_alter_command 0 w_add_statistics_empty) = 1 /\
  check_lines (explain_alter_command 0 w_add_statistics_empty) = false.
Proof. vm_compute. repeat split. Qed.

(* ALTER TABLE t MODIFY TTL              (no expression: Elements = [{Expr: nil}], Expression = nil):
   the tally looks at TTL.Expression, the emission at TTL.Elements *)
Definition w_modify_ttl_nil : alter_command :=
  set_ttl (empty_alter AT_ModifyTTL)
          (Some {| ttl_elements := [ {| te_expr := None; te_where := None |} ];
                   ttl_expression := None; ttl_expressions := [] |}).

Lemma alter_modify_ttl_without_expression_refuted :
  header_count (explain_alter_command 0 w_modify_ttl_nil) = 0 /\
  direct_children (explain_alter_command 0 w_modify_ttl_nil) = 1 /\
  check_lines (explain_alter_command 0 w_modify_ttl_nil) = false.
Proof. vm_compute. repeat split. Qed.

(* ADD COLUMN with cmd.Settings set (the tally is shared with MODIFY COLUMN, the emission is not);
   the parser never sets Settings / ResetSettings on an ADD COLUMN command *)
Definition w_add_column_settings : alter_command :=
  {| ac_type := AT_AddColumn; ac_column := None; ac_column_name := []; ac_after_column := []; ac_new_name := [];
     ac_index := []; ac_index_def := None; ac_after_index := []; ac_constraint := None;
     ac_constraint_name := []; ac_partition := None; ac_partition_is_id := false; ac_is_part := false;
     ac_from_table := false; ac_ttl := None; ac_settings := 1; ac_where := None; ac_assignments := [];
     ac_projection := None; ac_projection_name := []; ac_stat_columns := []; ac_stat_types := [];
     ac_comment := []; ac_order_by := []; ac_sample_by := None; ac_reset_settings := [];
     ac_query := None |}.

Lemma alter_add_column_settings_refuted :
  header_count (explain_alter_command 0 w_add_column_settings) = 1 /\
  direct_children (explain_alter_command 0 w_add_column_settings) = 0 /\
  check_lines (explain_alter_command 0 w_add_column_settings) = false.
Proof. vm_compute. repeat split. Qed.

Definition empty_create : create_query :=
  {| cq_create_function := false; cq_function_name := []; cq_function_body := None;
     cq_create_user := false; cq_alter_user := false; cq_has_authentication_data := false;
     cq_authentication_values := []; cq_ssh_key_count := 0;
     cq_create_dictionary := false; cq_dictionary_attrs := []; cq_dictionary_def := None;
     cq_create_database := false; cq_database := []; cq_table := []; cq_view := [];
     cq_columns := []; cq_indexes := []; cq_projections := []; cq_constraints := [];
     cq_columns_primary_key := []; cq_has_empty_columns_primary_key := false;
     cq_engine := None; cq_inner_engine := None; cq_order_by := []; cq_order_by_has_modifiers := false;
     cq_partition_by := None; cq_primary_key := []; cq_sample_by := None; cq_ttl := None;
     cq_settings := 0; cq_query_settings := 0; cq_settings_before_comment := false;
     cq_comment := []; cq_has_refresh := false; cq_materialized := false; cq_window_view := false;
     cq_to := false; cq_as_select := None; cq_as_table_function := None; cq_format := [] |}.

(* CREATE FUNCTION f AS                 (no body: FunctionBody = nil): "(children 2)", one child *)
Definition w_create_function_no_body : create_query :=
  {| cq_create_function := true; cq_function_name := bytes_of "f"; cq_function_body := None;
     cq_create_user := false; cq_alter_user := false; cq_has_authentication_data := false;
     cq_authentication_values := []; cq_ssh_key_count := 0;
     cq_create_dictionary := false; cq_dictionary_attrs := []; cq_dictionary_def := None;
     cq_create_database := false; cq_database := []; cq_table := []; cq_view := [];
     cq_columns := []; cq_indexes := []; cq_projections := []; cq_constraints := [];
     cq_columns_primary_key := []; cq_has_empty_columns_primary_key := false;
     cq_engine := None; cq_inner_engine := None; cq_order_by := []; cq_order_by_has_modifiers := false;
     cq_partition_by := None; cq_primary_key := []; cq_sample_by := None; cq_ttl := None;
     cq_settings := 0; cq_query_settings := 0; cq_settings_before_comment := false;
     cq_comment := []; cq_has_refresh := false; cq_materialized := false; cq_window_view := false;
     cq_to := false; cq_as_select := None; cq_as_table_function := None; cq_format := [] |}.

Lemma create_function_without_body_refuted :
  header_count (explain_create_query 0 w_create_function_no_body) = 2 /\
  direct_children (explain_create_query 0 w_create_function_no_body) = 1 /\
  check_lines (explain_create_query 0 w_create_function_no_body) = false.
Proof. vm_compute. repeat split. Qed.

(* CREATE MATERIALIZED WINDOW VIEW v AS SELECT 1      (the parser accepts both keywords):
   the AS SELECT statement is counted once and printed twice *)
Definition select_1_tree : rose :=
  Node L_SelectWithUnionQuery
    [Node L_ExpressionList
       [Node L_SelectQuery [Node L_ExpressionList [Node L_Literal_UInt64_1 []]]]].

Definition w_create_materialized_window_view : create_query :=
  {| cq_create_function := false; cq_function_name := []; cq_function_body := None;
     cq_create_user := false; cq_alter_user := false; cq_has_authentication_data := false;
     cq_authentication_values := []; cq_ssh_key_count := 0;
     cq_create_dictionary := false; cq_dictionary_attrs := []; cq_dictionary_def := None;
     cq_create_database := false; cq_database := []; cq_table := []; cq_view := bytes_of "v";
     cq_columns := []; cq_indexes := []; cq_projections := []; cq_constraints := [];
     cq_columns_primary_key := []; cq_has_empty_columns_primary_key := false;
     cq_engine := None; cq_inner_engine := None; cq_order_by := []; cq_order_by_has_modifiers := false;
     cq_partition_by := None; cq_primary_key := []; cq_sample_by := None; cq_ttl := None;
     cq_settings := 0; cq_query_settings := 0; cq_settings_before_comment := false;
     cq_comment := []; cq_has_refresh := false; cq_materialized := true; cq_window_view := true;
     cq_to := false;
     cq_as_select := Some {| as_plain := select_1_tree; as_no_format := select_1_tree |};
     cq_as_table_function := None; cq_format := [] |}.

Lemma create_materialized_window_view_refuted :
  header_count (explain_create_query 0 w_create_materialized_window_view) = 2 /\
  direct_children (explain_create_query 0 w_create_materialized_window_view) = 3 /\
  check_lines (explain_create_query 0 w_create_materialized_window_view) = false.
Proof. vm_compute. repeat split. Qed.
