(* Checker over the generated shared-state inventory (Gen/SharedAccess.v) and the theorems that
   connect it to the model of Conc/ConcModel.v.

   ============================================================================================
   TRUSTED BASE: the translator's soundness argument (what `conforms` / `cmd_conforms` assume)
   ============================================================================================
   The Go code is not modelled statement by statement.  The link between the Go code and the
   abstract threads / commands of ConcModel.v is the following claim about
   /verif/translator/cmd/sharedgen, which is argued here and tested by mutation (see the report),
   not proved in Coq:

     (S) Every store that code of the five library packages can perform, after package
         initialisation, into memory that a second goroutine calling Parse, Explain,
         ExplainStatements or json.Marshal can also reach, is performed by a statement listed in
         inv_var_writes or inv_tree_writes, and every range over a map in the post-parse code is
         listed in inv_map_ranges.

   Memory reachable by two concurrent calls is of three kinds.
   (a) Package-level variables of the five packages and what they point to.  The translator
       type-checks every non-test file of token, lexer, ast, parser, internal/explain from source,
       for the build-tag sets {} and {verif}; it aborts on any parse or type error, so the
       inventory is never partial.  For every function body outside `func init()` it lists: every
       assignment, op-assignment, ++/--, range-assignment whose left-hand side is rooted (through
       any chain of selectors, indexes, slices, dereferences, type assertions, conversions) in a
       package-level variable of ANY package; delete/clear/copy/append whose first argument is so
       rooted; `&v`, `v[:]` of an array, pointer-receiver method calls on v; and every other use of
       a reference-typed package-level variable that is not an index read, a range, len/cap, a
       comparison or a call of it ("ref-escape": the reference could reach code that writes through
       it).  Hence a write through a package-level variable that is NOT listed would have to go
       through a reference obtained by one of the allowed read forms, i.e. through an element read
       out of a package-level map/slice; today's package-level variables (token.Keywords
       map[string]Token, token.tokens [194]string, parser.intervalUnits map[string]bool) have
       pointer-free elements, and pkg_vars records the type of each variable so that a future
       variable with reference-typed elements is visible to the reviewer of the inventory.
       Writes inside init() are listed separately (inv_var_init_writes); the Go memory model orders
       package initialisation before main.main and hence before every goroutine of the client.
   (b) The parsed statement (the caller's tree) handed to Explain / ExplainStatements /
       json.Marshal.  The code that runs on it is internal/explain, the methods of package ast
       (Pos/End/MarshalJSON ...) and parser/explain.go; encoding/json itself only reads its
       argument.  In those files every function parameter, receiver and function-literal parameter
       is taken to point into the caller's tree.  Locals are classified by a flow-insensitive
       greatest-fixpoint analysis: a local is FRESH only if every definition of it is a composite
       literal, its address, make/new, nil/constant, an append whose first argument is fresh, the
       address of a local, a conversion of a string, the result of a function of
       strings/strconv/fmt/math/unicode/utf8, or another fresh local; everything else (selector,
       index, dereference, type assertion or type switch of something, range element, call result)
       is TREE when rooted in a tree variable and UNKNOWN otherwise.  The fields of a fresh local
       that is only ever used as `v.f` or `return v` and only defined by literals are tracked the
       same way.  A store `lhs = e`, `lhs op= e`, `lhs++`, or range-assignment is listed unless lhs
       names the own storage of a local (no pointer, slice or map is crossed) or the pointer
       crossed last is a FRESH local; so are append/copy/delete/clear on a non-fresh first argument
       (append may write the spare capacity of the tree's backing array), calls into sort/slices
       with a non-fresh argument, pointer-receiver methods of non-library types on non-fresh
       receivers (the *strings.Builder sink parameter excepted), and `&x` of a non-fresh x that is
       neither assigned to a local nor passed to a library function.  UNKNOWN bases are listed
       with kind "unknown-alias:...": the analysis over-approximates.  What it does not see:
       stores performed by reflection or unsafe (reflect in the post-parse code and any import
       outside a fixed list of pure standard packages are listed in inv_goroutines_and_unsafe, as
       are go statements, "%p" formats and fields of non-library named types inside ast nodes);
       and stores performed inside the standard library on arguments it is handed (only
       fmt/strings/strconv/unicode/utf8/math/encoding/json are called from the post-parse code;
       they do not modify their arguments -- trusted).
   (c) Memory private to one call (the Parser and Lexer objects created by parser.Parse/New, the
       strings.Builder created by Explain, locals): not shared by construction; the inventory check
       (a) guarantees no package-level variable holds such an object.
       Function literals in package-level initialisers of those files are analysed as functions
       of their own; an import, by those files, of a module package other than ast, token and
       internal/explain (code that would run on the tree without being analysed) is listed in
       inv_goroutines_and_unsafe.
   The restore pattern (s_restored) is recognised only in the exact shape
         saved (:)= LOC ; LOC = v ; defer func() { LOC = saved }()
   as three consecutive statements of one block with LOC textually identical, and only if `saved`
   is a local that is assigned nowhere else in the function (other than by the saving statement of
   another instance of the pattern) and whose address is never taken; s_restore_fresh
   says whether `saved` is declared by that `:=`.  When it is not (explainExplainQuery reuses
   `format` / `savedSettings` declared at function level), the claim that `saved` still holds the
   original value when the deferred closure runs is part of the trusted base and is checked
   dynamically (harness phase D: deep snapshot before/after); `restore_shared_var_sites` lists
   those sites.  Go runs deferred calls when the surrounding FUNCTION returns or panics, so the
   `body` of CTempDefer is the rest of the function, which is what the model says.

   Outside the model altogether: the Go memory model (the theorem is the standard "no conflicting
   accesses => race free and sequentially consistent per thread" argument over an interleaving
   semantics, which is what Go guarantees for data-race-free programs), the Go run time, and the
   client not writing the exported variable token.Keywords.
   ============================================================================================ *)
From Coq Require Import String List Bool NArith.
From DC Require Import Conc.SharedInv Conc.ConcModel Conc.Interleave.
Import ListNotations.

(* ------------------------------------------------------------------------------------------ *)
(* the checker                                                                                *)

Definition mem_str (k : string) (l : list string) : bool := existsb (String.eqb k) l.

Definition is_nil {A} (l : list A) : bool := match l with [] => true | _ => false end.

Definition write_sites (inv : inventory) : list site := inv_var_writes inv ++ inv_tree_writes inv.

(* write sites that the committed allow-list does not mention *)
Definition unlisted_writes (inv : inventory) (allowed : list string) : list site :=
  filter (fun s => negb (mem_str (s_key s) allowed)) (write_sites inv).

(* write sites that are present AND listed: the known findings of this run *)
Definition known_sites (inv : inventory) (allowed : list string) : list site :=
  filter (fun s => mem_str (s_key s) allowed) (write_sites inv).

(* allow-list entries with no site: the finding has disappeared (informational) *)
Definition stale_allowed (inv : inventory) (allowed : list string) : list string :=
  filter (fun k => negb (mem_str k (map s_key (write_sites inv)))) allowed.

Definition check_shared (inv : inventory) (allowed : list string) : bool :=
  is_nil (unlisted_writes inv allowed) &&
  is_nil (inv_map_ranges inv) &&
  is_nil (inv_goroutines_and_unsafe inv).

Definition all_tree_writes_restored (inv : inventory) : bool :=
  forallb s_restored (inv_tree_writes inv).

(* restored sites whose saved variable is not declared by the saving statement itself *)
Definition restore_shared_var_sites (inv : inventory) : list site :=
  filter (fun s => s_restored s && negb (s_restore_fresh s)) (inv_tree_writes inv).

(* ------------------------------------------------------------------------------------------ *)
(* facts about the checker                                                                    *)

Lemma is_nil_true {A} (l : list A) : is_nil l = true <-> l = [].
Proof. destruct l; cbn; split; intro H; congruence. Qed.

Lemma mem_str_In k l : mem_str k l = true <-> In k l.
Proof.
  unfold mem_str. rewrite existsb_exists. split.
  - intros (x & Hin & E). apply String.eqb_eq in E. subst. exact Hin.
  - intro H. exists k. split; [exact H|apply String.eqb_refl].
Qed.

Lemma unlisted_nil_all_listed inv allowed :
  unlisted_writes inv allowed = [] ->
  forall s, In s (write_sites inv) -> In (s_key s) allowed.
Proof.
  intros H s Hin. apply mem_str_In.
  destruct (mem_str (s_key s) allowed) eqn:E; [reflexivity|].
  assert (Hf : In s (unlisted_writes inv allowed)).
  { apply filter_In. split; [exact Hin|]. rewrite E. reflexivity. }
  rewrite H in Hf. contradiction.
Qed.

Lemma unlisted_nil_empty inv :
  unlisted_writes inv [] = [] <-> inv_var_writes inv = [] /\ inv_tree_writes inv = [].
Proof.
  split.
  - intro H. apply app_eq_nil.
    destruct (inv_var_writes inv ++ inv_tree_writes inv) as [|s r] eqn:E; [reflexivity|].
    exfalso. apply (unlisted_nil_all_listed inv [] H s). unfold write_sites. rewrite E. left. reflexivity.
  - intros [H1 H2]. unfold unlisted_writes, write_sites. rewrite H1, H2. reflexivity.
Qed.

Lemma check_shared_spec inv allowed :
  check_shared inv allowed = true <->
  unlisted_writes inv allowed = [] /\ inv_map_ranges inv = [] /\ inv_goroutines_and_unsafe inv = [].
Proof.
  unfold check_shared. rewrite !andb_true_iff, !is_nil_true. tauto.
Qed.

Lemma may_write_may_access t l : may_write t l -> may_access t l.
Proof.
  induction t as [o|k IH|l' k IH|l' v k IH]; cbn; intro H.
  - exact H.
  - apply IH, H.
  - right. destruct H as (v & Hv). exists v. apply IH, Hv.
  - destruct H as [H|H]; [left; exact H|right; apply IH, H].
Qed.

(* ------------------------------------------------------------------------------------------ *)
(* C10: from the inventory to the interleaving theorem                                        *)

Section Conformance.
  Variable inv : inventory.
  (* [at_site i l k]: in thread i, the store into location l is performed by the Go statement with
     key k.  Claim (S) above says such a statement exists in the inventory for every store into
     shared memory; this is the hypothesis [conforms]. *)
  Variable at_site : nat -> loc -> string -> Prop.

  Definition shared_write (ts : list thread) (i : nat) (l : loc) : Prop :=
    (exists ti, nth_error ts i = Some ti /\ may_write ti l) /\
    (exists j tj, j <> i /\ nth_error ts j = Some tj /\ may_access tj l).

  Definition conforms (ts : list thread) : Prop :=
    forall i l, shared_write ts i l ->
      exists s, at_site i l (s_key s) /\
                match l with
                | LVar _ => In s (inv_var_writes inv)
                | LTree _ => In s (inv_tree_writes inv)
                end.

  (* different calls work on different parsed statements *)
  Definition trees_disjoint (ts : list thread) : Prop :=
    forall i j ti tj p, i <> j -> nth_error ts i = Some ti -> nth_error ts j = Some tj ->
                        may_access ti (LTree p) -> may_access tj (LTree p) -> False.

  Lemma no_writes_private ts :
    inv_var_writes inv = [] -> inv_tree_writes inv = [] -> conforms ts -> private ts.
  Proof.
    intros Hv Ht Hc i j ti tj l Hne Hi Hj Hw Ha.
    destruct (Hc i l) as (s & _ & Hin).
    - split; [exists ti; auto|]. exists j, tj. auto.
    - destruct l; [rewrite Hv in Hin|rewrite Ht in Hin]; contradiction.
  Qed.

  Lemma distinct_trees_private ts :
    inv_var_writes inv = [] -> conforms ts -> trees_disjoint ts -> private ts.
  Proof.
    intros Hv Hc Hd i j ti tj l Hne Hi Hj Hw Ha.
    destruct l as [x|p].
    - destruct (Hc i (LVar x)) as (s & _ & Hin).
      + split; [exists ti; auto|]. exists j, tj. auto.
      + rewrite Hv in Hin. contradiction.
    - exact (Hd i j ti tj p Hne Hi Hj (may_write_may_access _ _ Hw) Ha).
  Qed.

  (* the conclusion of C10 over the model: for every initial memory and every schedule *)
  Definition concurrent_calls_behave_as_alone (ts : list thread) : Prop :=
    forall m0 c tr, exec (ts, m0) c tr ->
      race_free tr /\
      (forall i t0, nth_error ts i = Some t0 ->
         exists t ms, nth_error (fst c) i = Some t /\
                      solo_steps (length (proj i tr)) t0 m0 = (t, ms, proj i tr)) /\
      (forall i t0 o, nth_error ts i = Some t0 -> nth_error (fst c) i = Some (TDone o) ->
         solo_obs t0 m0 = o /\ snd (solo t0 m0) = proj i tr).

  (* no findings at all: any number of calls, on different inputs or on the same statement *)
  Theorem check_shared_nil_sound ts :
    check_shared inv [] = true -> conforms ts -> concurrent_calls_behave_as_alone ts.
  Proof.
    intros Hchk Hc m0 c tr Hex.
    apply check_shared_spec in Hchk as (Hu & _ & _).
    apply unlisted_nil_empty in Hu as [Hv Ht].
    apply interleave_private; [|exact Hex]. apply no_writes_private; assumption.
  Qed.

  (* the write set of the abstract program is empty, literally *)
  Theorem check_shared_nil_no_shared_writes ts :
    check_shared inv [] = true -> conforms ts -> forall i l, ~ shared_write ts i l.
  Proof.
    intros Hchk Hc i l Hs.
    apply check_shared_spec in Hchk as (Hu & _ & _).
    apply unlisted_nil_empty in Hu as [Hv Ht].
    destruct (Hc i l Hs) as (s & _ & Hin).
    destruct l; [rewrite Hv in Hin|rewrite Ht in Hin]; contradiction.
  Qed.

  (* no package-level writes: any number of calls on DIFFERENT parsed statements *)
  Theorem distinct_trees_sound ts :
    inv_var_writes inv = [] -> conforms ts -> trees_disjoint ts ->
    concurrent_calls_behave_as_alone ts.
  Proof.
    intros Hv Hc Hd m0 c tr Hex.
    apply interleave_private; [|exact Hex]. apply distinct_trees_private; assumption.
  Qed.

  (* with known findings: every store into shared memory happens at a listed, known site *)
  Theorem check_shared_known_only ts allowed :
    check_shared inv allowed = true -> conforms ts ->
    forall i l, shared_write ts i l -> exists k, at_site i l k /\ In k allowed.
  Proof.
    intros Hchk Hc i l Hs.
    apply check_shared_spec in Hchk as (Hu & _ & _).
    destruct (Hc i l Hs) as (s & Hat & Hin).
    exists (s_key s). split; [exact Hat|].
    apply (unlisted_nil_all_listed inv allowed Hu). unfold write_sites. apply in_or_app.
    destruct l; [left|right]; exact Hin.
  Qed.

  (* ---------------------------------------------------------------------------------------- *)
  (* C11: from the inventory to the restore discipline                                        *)

  (* claim (S) for one call: every plain store of the abstract command is an inventoried write
     that does not carry the restore pattern, every temporary edit with deferred restore is an
     inventoried tree write that carries it, every run-time choice is an inventoried map range *)
  Definition cmd_conforms (c : cmd) : Prop :=
    (forall k, In k (plain_write_keys c) ->
       exists s, s_key s = k /\
                 (In s (inv_var_writes inv) \/ (In s (inv_tree_writes inv) /\ s_restored s = false))) /\
    (forall k, In k (deferred_write_keys c) ->
       exists s, s_key s = k /\ In s (inv_tree_writes inv) /\ s_restored s = true) /\
    (forall k, In k (nondet_keys c) -> exists s, s_key s = k /\ In s (inv_map_ranges inv)).

  Lemma no_plain_keys_disciplined c : plain_write_keys c = [] -> disciplined c.
  Proof.
    induction c as [| l0 | | c1 IH1 c2 IH2 | l0 c1 IH1 c2 IH2 | k l0 v | k l0 v body IH
                   | k l0 v body IH | c IH | k]; cbn; intro H; auto; try discriminate.
    - apply app_eq_nil in H as [H1 H2]. auto.
    - apply app_eq_nil in H as [H1 H2]. auto.
  Qed.

  Lemma no_nondet_keys_nondet_free c : nondet_keys c = [] -> nondet_free c.
  Proof.
    induction c as [| l0 | | c1 IH1 c2 IH2 | l0 c1 IH1 c2 IH2 | k l0 v | k l0 v body IH
                   | k l0 v body IH | c IH | k]; cbn; intro H; auto; try discriminate.
    - apply app_eq_nil in H as [H1 H2]. auto.
    - apply app_eq_nil in H as [H1 H2]. auto.
  Qed.

  Theorem restored_inventory_disciplined c :
    inv_var_writes inv = [] -> all_tree_writes_restored inv = true -> cmd_conforms c -> disciplined c.
  Proof.
    intros Hv Hall (Hp & _ & _). apply no_plain_keys_disciplined.
    destruct (plain_write_keys c) as [|k r] eqn:E; [reflexivity|]. exfalso.
    destruct (Hp k (or_introl eq_refl)) as (s & _ & [Hin|[Hin Hr]]).
    - rewrite Hv in Hin. contradiction.
    - unfold all_tree_writes_restored in Hall. rewrite forallb_forall in Hall.
      rewrite (Hall s Hin) in Hr. discriminate.
  Qed.

  Theorem no_map_ranges_nondet_free c :
    inv_map_ranges inv = [] -> cmd_conforms c -> nondet_free c.
  Proof.
    intros Hm (_ & _ & Hn). apply no_nondet_keys_nondet_free.
    destruct (nondet_keys c) as [|k r] eqn:E; [reflexivity|]. exfalso.
    destruct (Hn k (or_introl eq_refl)) as (s & _ & Hin). rewrite Hm in Hin. contradiction.
  Qed.

  (* the conclusion of C11 over the model *)
  Definition explain_is_readonly_and_repeatable : Prop :=
    forall h c, Forall cmd_conforms h -> cmd_conforms c ->
    forall m o o1 o2 o3,
      let m' := fst (run_history h m o) in
      (* deeply unchanged: by the history, and by the call, on normal and on panicking exit *)
      (forall l, m' l = m l) /\
      (forall l, r_mem (exec_cmd c m' o1) l = m l) /\
      (* same output (and same panic / no panic) as in a fresh process *)
      r_out (exec_cmd c m' o1) = r_out (exec_cmd c m o2) /\
      r_outcome (exec_cmd c m' o1) = r_outcome (exec_cmd c m o2) /\
      (* calling again returns byte-identical output *)
      r_out (exec_cmd c (r_mem (exec_cmd c m o2)) o3) = r_out (exec_cmd c m o2).

  Theorem restored_inventory_sound :
    inv_var_writes inv = [] -> all_tree_writes_restored inv = true -> inv_map_ranges inv = [] ->
    explain_is_readonly_and_repeatable.
  Proof.
    intros Hv Hall Hm h c Hh Hc m o o1 o2 o3 m'.
    assert (Dh : Forall disciplined h).
    { apply Forall_forall. intros x Hx. rewrite Forall_forall in Hh.
      apply restored_inventory_disciplined; auto. }
    assert (Dc : disciplined c) by (apply restored_inventory_disciplined; auto).
    assert (Nc : nondet_free c) by (apply no_map_ranges_nondet_free; auto).
    destruct (history_independent h c Dh Dc Nc m o o1 o2) as (H1 & H2 & H3 & H4).
    repeat split; auto.
    apply repeat_identical; assumption.
  Qed.
End Conformance.

(* ------------------------------------------------------------------------------------------ *)
(* the hypotheses are satisfiable by non-trivial objects                                      *)

Local Open Scope string_scope.

Definition example_site : site :=
  mk_site "internal/explain" "explainInsertQuery" "sq.Format" "field-store" "sq.Format = nil"
          "internal/explain|explainInsertQuery|sq.Format = nil" true true
          "defer func() { sq.Format = savedFormat }()".

Definition example_inventory : inventory := mk_inventory [] [] [] [example_site] [] [].

Example example_check_known :
  check_shared example_inventory ["internal/explain|explainInsertQuery|sq.Format = nil"] = true /\
  check_shared example_inventory [] = false /\
  all_tree_writes_restored example_inventory = true.
Proof. vm_compute. repeat split. Qed.

(* a command with a real temporary edit conforms to that inventory *)
Example example_cmd_conforms :
  cmd_conforms example_inventory
    (CTempDefer "internal/explain|explainInsertQuery|sq.Format = nil" (LTree 0%N) 0%N
       (CSeq (CEmit (LTree 0%N)) CPanic)).
Proof.
  repeat split; cbn; intros k H; try contradiction.
  destruct H as [<-|[]]. exists example_site. cbn. auto.
Qed.

(* two threads on different statements conform to an inventory without writes *)
Example example_conforms :
  conforms (mk_inventory [] [] [] [] [] []) (fun _ _ _ => False)
    [ TRd (LTree 0%N) (fun v => TWr (LTree 1%N) v (TDone [v]));
      TRd (LTree 0%N) (fun v => TWr (LTree 2%N) v (TRd (LVar 5%N) (fun w => TDone [v; w]))) ].
Proof.
  intros i l ((ti & Hi & Hw) & (j & tj & Hne & Hj & Ha)). exfalso.
  exact (private_example i j ti tj l (fun E => Hne (eq_sym E)) Hi Hj Hw Ha).
Qed.
