(* The per-run obligations of C10 and C11 over the GENERATED inventory, discharged by computation.
   This file is re-checked whenever Gen/SharedAccess.v or Gen/SharedAllowed.v changes.  The
   [Print]ed values come first and never fail, so that a check script can say WHICH obligation
   broke and at which site before the corresponding lemma stops the compilation. *)
From Coq Require Import String List Bool NArith.
From DC Require Import Conc.SharedInv Conc.ConcModel Conc.Interleave Conc.SharedCheck.
From DC Require Import Gen.SharedAccess Gen.SharedAllowed.
Import ListNotations.
Local Open Scope string_scope.

Definition obligations : list (string * bool) := Eval vm_compute in
  [ ("C10.check_shared", check_shared inventory allowed);
    ("C10.no_package_level_writes", is_nil (inv_var_writes inventory));
    ("C10.no_findings_at_all", check_shared inventory []);
    ("C11.all_tree_writes_restored", all_tree_writes_restored inventory);
    ("C11.no_map_ranges", is_nil (inv_map_ranges inventory));
    ("C11.no_package_level_writes", is_nil (inv_var_writes inventory)) ].
Print obligations.

(* keys of write sites that known_findings.json does not list: each one is a VIOLATION *)
Definition C10_unlisted_keys : list string := Eval vm_compute in
  map s_key (unlisted_writes inventory allowed).
Print C10_unlisted_keys.

(* keys of write sites that are present and listed: one KNOWN-FINDING line each *)
Definition C10_known_site_keys : list string := Eval vm_compute in
  map s_key (known_sites inventory allowed).
Print C10_known_site_keys.

(* listed keys with no site any more (the finding was fixed or the statement was reworded) *)
Definition C10_stale_allowed_keys : list string := Eval vm_compute in stale_allowed inventory allowed.
Print C10_stale_allowed_keys.

(* tree writes without the deferred-restore pattern: each one breaks C11 *)
Definition C11_unrestored_keys : list string := Eval vm_compute in
  map s_key (filter (fun s => negb (s_restored s)) (inv_tree_writes inventory)).
Print C11_unrestored_keys.

(* restored sites whose saved variable is shared (trusted, checked dynamically by phase D) *)
Definition C11_restore_shared_var_keys : list string := Eval vm_compute in
  map s_key (restore_shared_var_sites inventory).
Print C11_restore_shared_var_keys.

Definition C11_map_range_keys : list string := Eval vm_compute in map s_key (inv_map_ranges inventory).
Print C11_map_range_keys.

Definition C10_other_keys : list string := Eval vm_compute in
  map s_key (inv_goroutines_and_unsafe inventory).
Print C10_other_keys.

(* whether there are no findings at all (false on a tree with known findings) *)
Definition C10_no_findings : bool := Eval vm_compute in check_shared inventory [].

Lemma C10_no_findings_spec : check_shared inventory [] = C10_no_findings.
Proof. vm_compute. reflexivity. Qed.

Lemma C10_known_sites : map s_key (known_sites inventory allowed) = C10_known_site_keys.
Proof. vm_compute. reflexivity. Qed.

(* ---- obligations ---- *)

Lemma C10_check_shared_ok : check_shared inventory allowed = true.
Proof. vm_compute. reflexivity. Qed.

Lemma C10_var_writes_nil : inv_var_writes inventory = [].
Proof. vm_compute. reflexivity. Qed.

Lemma C11_all_restored : all_tree_writes_restored inventory = true.
Proof. vm_compute. reflexivity. Qed.

Lemma C11_no_map_ranges : inv_map_ranges inventory = [].
Proof. vm_compute. reflexivity. Qed.

(* ---- consequences for the generated inventory ---- *)

Definition C10_distinct_statements_stmt : Prop :=
  forall at_site ts, conforms inventory at_site ts -> trees_disjoint ts ->
                     concurrent_calls_behave_as_alone ts.

Lemma C10_distinct_statements : C10_distinct_statements_stmt.
Proof.
  intros at_site ts Hc Hd. eapply distinct_trees_sound; eauto. exact C10_var_writes_nil.
Qed.

Definition C10_shared_writes_only_at_known_sites_stmt : Prop :=
  forall at_site ts, conforms inventory at_site ts ->
  forall i l, shared_write ts i l -> exists k, at_site i l k /\ In k allowed.

Lemma C10_shared_writes_only_at_known_sites : C10_shared_writes_only_at_known_sites_stmt.
Proof.
  intros at_site ts Hc. eapply check_shared_known_only; eauto. exact C10_check_shared_ok.
Qed.

(* full strength (same statement shared by the calls): holds as soon as there is no finding left *)
Definition C10_full_stmt : Prop :=
  forall at_site ts, conforms inventory at_site ts -> concurrent_calls_behave_as_alone ts.

Lemma C10_full_if_no_findings : C10_no_findings = true -> C10_full_stmt.
Proof.
  intros H at_site ts Hc. eapply check_shared_nil_sound; eauto.
  rewrite C10_no_findings_spec. exact H.
Qed.

Lemma C11_holds : explain_is_readonly_and_repeatable inventory.
Proof.
  apply restored_inventory_sound.
  - exact C10_var_writes_nil.
  - exact C11_all_restored.
  - exact C11_no_map_ranges.
Qed.
