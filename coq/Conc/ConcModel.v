(* Model of concurrent calls into the library (C10) and of one call's effect on the caller's
   tree (C11).  Total computable definitions only; the theorems are in Conc/Interleave.v.

   Part 1  threads as finite interaction trees over a shared memory, interleaving semantics.
   Part 2  a command language for ONE call (sequential): reads, emits, panics, plain writes,
           temporary edits with and without deferred restore, recover, map-range nondeterminism. *)
From Coq Require Import String List NArith Bool Arith.
Import ListNotations.

(* ------------------------------------------------------------------------------------------ *)
(* Part 1: threads, shared memory, interleavings                                              *)

Definition id := N.
Definition val := N.

(* LVar: a package-level variable (or something reachable from one);
   LTree: a cell (field, slice element) of a parsed statement handed to Explain / json.Marshal. *)
Inductive loc := LVar (i : id) | LTree (i : id).

Definition loc_eqb (a b : loc) : bool :=
  match a, b with
  | LVar i, LVar j => N.eqb i j
  | LTree i, LTree j => N.eqb i j
  | _, _ => false
  end.

Definition mem := loc -> val.

Definition upd (m : mem) (l : loc) (v : val) : mem :=
  fun l' => if loc_eqb l l' then v else m l'.

(* what a thread asks the memory to do *)
Inductive Act := ALocal | ARd (l : loc) | AWr (l : loc) (v : val).

(* what happened: the action together with the value a read returned *)
Inductive event := ELocal | ERd (l : loc) (v : val) | EWr (l : loc) (v : val).

Definition act_of (e : event) : Act :=
  match e with ELocal => ALocal | ERd l _ => ARd l | EWr l v => AWr l v end.

(* A thread is a deterministic program whose next action depends only on the values it has read:
   a well-founded tree, branching on the result of every read.  [TDone obs] ends the thread with the
   observation it has computed (the bytes Explain returns). *)
Inductive thread :=
| TDone (obs : list val)
| TLocal (k : thread)
| TRd (l : loc) (k : val -> thread)
| TWr (l : loc) (v : val) (k : thread).

Definition tstep (t : thread) (m : mem) : option (thread * mem * event) :=
  match t with
  | TDone _ => None
  | TLocal k => Some (k, m, ELocal)
  | TRd l k => Some (k (m l), m, ERd l (m l))
  | TWr l v k => Some (k, upd m l v, EWr l v)
  end.

(* the solo run of a thread *)
Fixpoint solo (t : thread) (m : mem) : list val * mem * list event :=
  match t with
  | TDone o => (o, m, [])
  | TLocal k => let '(o, m', es) := solo k m in (o, m', ELocal :: es)
  | TRd l k => let '(o, m', es) := solo (k (m l)) m in (o, m', ERd l (m l) :: es)
  | TWr l v k => let '(o, m', es) := solo k (upd m l v) in (o, m', EWr l v :: es)
  end.

Definition solo_obs (t : thread) (m : mem) : list val := fst (fst (solo t m)).

(* the first n steps of the solo run (fewer if the thread ends earlier) *)
Fixpoint solo_steps (n : nat) (t : thread) (m : mem) : thread * mem * list event :=
  match n with
  | O => (t, m, [])
  | S n' =>
      match tstep t m with
      | None => (t, m, [])
      | Some (t', m', e) => let '(t'', m'', es) := solo_steps n' t' m' in (t'', m'', e :: es)
      end
  end.

Definition config := (list thread * mem)%type.
Definition trace := list (nat * event).

Fixpoint set_nth {A} (n : nat) (x : A) (l : list A) : list A :=
  match l, n with
  | [], _ => []
  | _ :: r, O => x :: r
  | a :: r, S n' => a :: set_nth n' x r
  end.

(* one scheduling decision: thread i performs its next action; a decision naming a finished or
   non-existent thread is a no-op *)
Definition cstep (i : nat) (c : config) : config * trace :=
  match nth_error (fst c) i with
  | None => (c, [])
  | Some t =>
      match tstep t (snd c) with
      | None => (c, [])
      | Some (t', m', e) => ((set_nth i t' (fst c), m'), [(i, e)])
      end
  end.

(* a schedule is any list of thread indices *)
Fixpoint run (s : list nat) (c : config) : config * trace :=
  match s with
  | [] => (c, [])
  | i :: s' => let '(c', tr1) := cstep i c in let '(c'', tr2) := run s' c' in (c'', tr1 ++ tr2)
  end.

(* the events of thread i in a trace, in order *)
Definition proj (i : nat) (tr : trace) : list event :=
  map snd (filter (fun p => Nat.eqb (fst p) i) tr).

(* locations a thread may touch, over all values its reads could return *)
Fixpoint may_access (t : thread) (l : loc) : Prop :=
  match t with
  | TDone _ => False
  | TLocal k => may_access k l
  | TRd l' k => l' = l \/ exists v, may_access (k v) l
  | TWr l' _ k => l' = l \/ may_access k l
  end.

Fixpoint may_write (t : thread) (l : loc) : Prop :=
  match t with
  | TDone _ => False
  | TLocal k => may_write k l
  | TRd _ k => exists v, may_write (k v) l
  | TWr l' _ k => l' = l \/ may_write k l
  end.

Definition accesses (e : event) (l : loc) : Prop :=
  match e with ELocal => False | ERd l' _ => l' = l | EWr l' _ => l' = l end.

Definition writes (e : event) (l : loc) : Prop :=
  match e with EWr l' _ => l' = l | _ => False end.

(* two events conflict: same location, at least one of them a write *)
Definition conflict (e1 e2 : event) : Prop :=
  exists l, (writes e1 l /\ accesses e2 l) \/ (accesses e1 l /\ writes e2 l).

(* The model has no synchronisation actions at all, so no event of one thread happens-before an
   event of another: every conflicting pair of events of two different threads is a data race. *)
Definition race_free (tr : trace) : Prop :=
  forall i j e1 e2, In (i, e1) tr -> In (j, e2) tr -> i <> j -> ~ conflict e1 e2.

(* boolean versions, for the refutation by computation *)
Definition ev_loc (e : event) : option loc :=
  match e with ELocal => None | ERd l _ => Some l | EWr l _ => Some l end.
Definition ev_is_write (e : event) : bool := match e with EWr _ _ => true | _ => false end.

Definition conflictb (e1 e2 : event) : bool :=
  match ev_loc e1, ev_loc e2 with
  | Some l1, Some l2 => loc_eqb l1 l2 && (ev_is_write e1 || ev_is_write e2)
  | _, _ => false
  end.

Definition has_race (tr : trace) : bool :=
  existsb (fun p => existsb (fun q => negb (Nat.eqb (fst p) (fst q)) && conflictb (snd p) (snd q)) tr) tr.

(* no thread ever writes a location that another thread may touch *)
Definition private (ts : list thread) : Prop :=
  forall i j ti tj l, i <> j -> nth_error ts i = Some ti -> nth_error ts j = Some tj ->
                      may_write ti l -> may_access tj l -> False.

(* no thread ever writes at all *)
Definition write_free (ts : list thread) : Prop :=
  forall i ti l, nth_error ts i = Some ti -> ~ may_write ti l.

(* every schedule, relationally (the last step is at the end of the trace) *)
Inductive exec (c0 : config) : config -> trace -> Prop :=
| exec_nil : exec c0 c0 []
| exec_step : forall c tr i t t' m' e,
    exec c0 c tr -> nth_error (fst c) i = Some t -> tstep t (snd c) = Some (t', m', e) ->
    exec c0 (set_nth i t' (fst c), m') (tr ++ [(i, e)]).

(* The model of explainInsertQuery / explainExplainQuery on the cell `sq.Format` (location l):
     if sq.Format != nil { saved := sq.Format; sq.Format = nil; defer func() { sq.Format = saved }() }
     ... print the SELECT: emits sq.Format if it is non-nil ...
   The observation is the Format the printer saw while printing (0 = nil = suppressed). *)
Definition explain_insert (l : loc) : thread :=
  TRd l (fun f =>
    if N.eqb f 0%N
    then TRd l (fun seen => TDone [seen])
    else TWr l 0%N (TRd l (fun seen => TWr l f (TDone [seen])))).

(* ------------------------------------------------------------------------------------------ *)
(* Part 2: one call, sequentially: temporary edits, defer, panic, recover                     *)

Inductive outcome := Normal | Panic.

(* The string carried by the writing and the nondeterministic constructors is the key of the Go
   statement (Gen/SharedAccess.v) the constructor stands for. *)
Inductive cmd :=
| CSkip
| CEmit (l : loc)                                   (* read l, append the value to the output *)
| CPanic                                            (* a run-time panic (index out of range, nil dereference ...) *)
| CSeq (c1 c2 : cmd)
| CIf (l : loc) (c1 c2 : cmd)                       (* if l == 0 then c1 else c2 *)
| CWrite (k : string) (l : loc) (v : val)           (* plain assignment l = v *)
| CTempDefer (k : string) (l : loc) (v : val) (body : cmd)
      (* saved := l; l = v; defer func() { l = saved }(); body      -- body = rest of the function *)
| CTempPlain (k : string) (l : loc) (v : val) (body : cmd)
      (* saved := l; l = v; body; l = saved                         -- restore by plain assignment *)
| CRecover (c : cmd)                                (* defer func() { recover() }() around c *)
| CNondet (k : string).                             (* emit a value chosen by the run time: range over a map *)

Record result := mk_result {
  r_mem : mem;
  r_outcome : outcome;
  r_out : list val;       (* what was emitted *)
  r_oracle : list val     (* unconsumed run-time choices *)
}.

(* [o] is the oracle resolving CNondet *)
Fixpoint exec_cmd (c : cmd) (m : mem) (o : list val) : result :=
  match c with
  | CSkip => mk_result m Normal [] o
  | CEmit l => mk_result m Normal [m l] o
  | CPanic => mk_result m Panic [] o
  | CSeq c1 c2 =>
      let r1 := exec_cmd c1 m o in
      match r_outcome r1 with
      | Panic => r1
      | Normal =>
          let r2 := exec_cmd c2 (r_mem r1) (r_oracle r1) in
          mk_result (r_mem r2) (r_outcome r2) (r_out r1 ++ r_out r2) (r_oracle r2)
      end
  | CIf l c1 c2 => if N.eqb (m l) 0%N then exec_cmd c1 m o else exec_cmd c2 m o
  | CWrite _ l v => mk_result (upd m l v) Normal [] o
  | CTempDefer _ l v body =>
      let saved := m l in
      let r := exec_cmd body (upd m l v) o in
      (* the deferred closure runs when the function returns AND when it panics *)
      mk_result (upd (r_mem r) l saved) (r_outcome r) (r_out r) (r_oracle r)
  | CTempPlain _ l v body =>
      let saved := m l in
      let r := exec_cmd body (upd m l v) o in
      match r_outcome r with
      | Normal => mk_result (upd (r_mem r) l saved) Normal (r_out r) (r_oracle r)
      | Panic => r       (* the assignment after the body is never reached *)
      end
  | CRecover c =>
      let r := exec_cmd c m o in
      mk_result (r_mem r) Normal (r_out r) (r_oracle r)
  | CNondet _ =>
      match o with
      | [] => mk_result m Normal [0%N] []
      | x :: o' => mk_result m Normal [x] o'
      end
  end.

(* only reads, emits, panics and temporary edits with DEFERRED restore *)
Fixpoint disciplined (c : cmd) : Prop :=
  match c with
  | CSkip | CEmit _ | CPanic | CNondet _ => True
  | CSeq c1 c2 | CIf _ c1 c2 => disciplined c1 /\ disciplined c2
  | CWrite _ _ _ => False
  | CTempDefer _ _ _ body => disciplined body
  | CTempPlain _ _ _ _ => False
  | CRecover c => disciplined c
  end.

Fixpoint nondet_free (c : cmd) : Prop :=
  match c with
  | CSkip | CEmit _ | CPanic | CWrite _ _ _ => True
  | CSeq c1 c2 | CIf _ c1 c2 => nondet_free c1 /\ nondet_free c2
  | CTempDefer _ _ _ body | CTempPlain _ _ _ body => nondet_free body
  | CRecover c => nondet_free c
  | CNondet _ => False
  end.

(* keys of the write constructors / of the nondeterministic constructors of a command *)
Fixpoint plain_write_keys (c : cmd) : list string :=
  match c with
  | CSkip | CEmit _ | CPanic | CNondet _ => []
  | CSeq c1 c2 | CIf _ c1 c2 => plain_write_keys c1 ++ plain_write_keys c2
  | CWrite k _ _ => [k]
  | CTempDefer _ _ _ body => plain_write_keys body
  | CTempPlain k _ _ body => k :: plain_write_keys body
  | CRecover c => plain_write_keys c
  end.

Fixpoint deferred_write_keys (c : cmd) : list string :=
  match c with
  | CSkip | CEmit _ | CPanic | CNondet _ | CWrite _ _ _ => []
  | CSeq c1 c2 | CIf _ c1 c2 => deferred_write_keys c1 ++ deferred_write_keys c2
  | CTempDefer k _ _ body => k :: deferred_write_keys body
  | CTempPlain _ _ _ body => deferred_write_keys body
  | CRecover c => deferred_write_keys c
  end.

Fixpoint nondet_keys (c : cmd) : list string :=
  match c with
  | CSkip | CEmit _ | CPanic | CWrite _ _ _ => []
  | CSeq c1 c2 | CIf _ c1 c2 => nondet_keys c1 ++ nondet_keys c2
  | CTempDefer _ _ _ body | CTempPlain _ _ _ body => nondet_keys body
  | CRecover c => nondet_keys c
  | CNondet k => [k]
  end.

(* a history of earlier calls, each one recovered by its caller; the oracle is threaded through *)
Fixpoint run_history (h : list cmd) (m : mem) (o : list val) : mem * list val :=
  match h with
  | [] => (m, o)
  | c :: h' => let r := exec_cmd (CRecover c) m o in run_history h' (r_mem r) (r_oracle r)
  end.
