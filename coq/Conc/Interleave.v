(* Theorems about the model of Conc/ConcModel.v.

   (i)   interleave_private / interleave_write_free: if no thread writes a location another thread
         may touch (in particular: if no thread writes at all), then for EVERY schedule the trace is
         race free and every thread's sequence of events -- the values its reads returned included --
         is a prefix of its solo run from the same initial memory; a finished thread has exactly the
         observation and the events of its solo run.
   (ii)  shared_tree_write_refuted: two threads running the explainInsertQuery model on the same
         tree cell, and a schedule under which one of them observes something its solo run never
         observes; the trace has a data race; the memory is nevertheless restored at the end.
   (iii) restore_discipline: a call built from reads, emits, panics, recovers and temporary edits
         with DEFERRED restore leaves the memory unchanged for every outcome (normal or panic);
         plain_restore_leaks: with the restore as a plain assignment after the body a panicking
         body leaves the memory changed.  history_independent: after any history of such calls
         (panicking ones recovered) a map-range-free call returns what it returns in a fresh process. *)
From Coq Require Import String List NArith Bool Arith Lia.
From DC Require Import Conc.ConcModel.
Import ListNotations.

(* ------------------------------------------------------------------------------------------ *)
(* basics                                                                                     *)

Lemma loc_eqb_eq a b : loc_eqb a b = true <-> a = b.
Proof.
  destruct a as [i|i], b as [j|j]; cbn; rewrite ?N.eqb_eq; split; intro H;
    try congruence; try discriminate.
Qed.

Lemma loc_eqb_refl a : loc_eqb a a = true.
Proof. apply loc_eqb_eq. reflexivity. Qed.

Lemma loc_eqb_neq a b : loc_eqb a b = false <-> a <> b.
Proof.
  split.
  - intros H E. apply loc_eqb_eq in E. congruence.
  - intro H. destruct (loc_eqb a b) eqn:E; [|reflexivity]. apply loc_eqb_eq in E. contradiction.
Qed.

Lemma loc_eq_dec (a b : loc) : {a = b} + {a <> b}.
Proof.
  destruct (loc_eqb a b) eqn:E.
  - left. apply loc_eqb_eq. exact E.
  - right. apply loc_eqb_neq. exact E.
Qed.

Lemma set_nth_length {A} (n : nat) (x : A) (l : list A) : length (set_nth n x l) = length l.
Proof. revert n. induction l as [|a r IH]; intros [|n]; cbn; auto. Qed.

Lemma nth_error_set_nth_eq {A} (l : list A) : forall n x y,
  nth_error l n = Some y -> nth_error (set_nth n x l) n = Some x.
Proof.
  induction l as [|a r IH]; intros [|n] x y H; cbn in *; try discriminate; auto.
  eapply IH. exact H.
Qed.

Lemma nth_error_set_nth_neq {A} (l : list A) : forall n k x,
  n <> k -> nth_error (set_nth n x l) k = nth_error l k.
Proof.
  induction l as [|a r IH]; intros [|n] [|k] x H; cbn; auto; try congruence.
Qed.

Lemma proj_snoc_same i e tr : proj i (tr ++ [(i, e)]) = proj i tr ++ [e].
Proof. unfold proj. rewrite filter_app, map_app. cbn. rewrite Nat.eqb_refl. reflexivity. Qed.

Lemma proj_snoc_other i j e tr : i <> j -> proj j (tr ++ [(i, e)]) = proj j tr.
Proof.
  intro H. unfold proj. rewrite filter_app, map_app. cbn.
  destruct (Nat.eqb i j) eqn:E; [apply Nat.eqb_eq in E; contradiction|].
  cbn. apply app_nil_r.
Qed.

Lemma in_proj i e tr : In (i, e) tr -> In e (proj i tr).
Proof.
  intro H. unfold proj. apply in_map_iff. exists (i, e). split; [reflexivity|].
  apply filter_In. split; [exact H|]. cbn. apply Nat.eqb_refl.
Qed.

(* ------------------------------------------------------------------------------------------ *)
(* one step of one thread                                                                     *)

Lemma tstep_agree t m ms t' m' e :
  tstep t m = Some (t', m', e) ->
  (forall l, may_access t l -> m l = ms l) ->
  exists ms', tstep t ms = Some (t', ms', e) /\ forall l, may_access t' l -> m' l = ms' l.
Proof.
  destruct t as [o|k|l k|l v k]; intros H Hag; cbn in H; try discriminate;
    injection H as <- <- <-.
  - exists ms. split; [reflexivity|]. intros l Hl. apply Hag. exact Hl.
  - exists ms. cbn. rewrite <- (Hag l (or_introl eq_refl)). split; [reflexivity|].
    intros l' Hl'. apply Hag. right. exists (m l). exact Hl'.
  - exists (upd ms l v). split; [reflexivity|]. intros l' Hl'. unfold upd.
    destruct (loc_eqb l l'); [reflexivity|]. apply Hag. right. exact Hl'.
Qed.

Lemma tstep_mono t m t' m' e :
  tstep t m = Some (t', m', e) ->
  (forall l, may_access t' l -> may_access t l) /\
  (forall l, may_write t' l -> may_write t l) /\
  (forall l, accesses e l -> may_access t l) /\
  (forall l, writes e l -> may_write t l) /\
  (forall l, ~ writes e l -> m' l = m l).
Proof.
  destruct t as [o|k|l k|l v k]; intro H; cbn in H; try discriminate;
    injection H as <- <- <-; cbn.
  - repeat split; auto; intros; contradiction.
  - repeat split; auto.
    + intros l' Hl'. right. exists (m l). exact Hl'.
    + intros l' Hl'. exists (m l). exact Hl'.
    + intros; contradiction.
  - repeat split; auto.
    intros l' Hl'. unfold upd. destruct (loc_eqb l l') eqn:E; [|reflexivity].
    apply loc_eqb_eq in E. contradiction.
Qed.

(* ------------------------------------------------------------------------------------------ *)
(* solo runs                                                                                  *)

Lemma solo_steps_S n t m :
  solo_steps (S n) t m =
  match tstep t m with
  | None => (t, m, [])
  | Some (t', m', e) => let '(t'', m'', es) := solo_steps n t' m' in (t'', m'', e :: es)
  end.
Proof. reflexivity. Qed.

Lemma solo_steps_snoc n : forall t0 m0 t ms evs t' ms' e,
  solo_steps n t0 m0 = (t, ms, evs) -> length evs = n -> tstep t ms = Some (t', ms', e) ->
  solo_steps (S n) t0 m0 = (t', ms', evs ++ [e]).
Proof.
  induction n as [|n IH]; intros t0 m0 t ms evs t' ms' e H Hlen Hst.
  - cbn in H. inversion H; subst. rewrite solo_steps_S, Hst. reflexivity.
  - rewrite solo_steps_S in H. rewrite solo_steps_S.
    destruct (tstep t0 m0) as [[[t1 m1] e1]|] eqn:E.
    + destruct (solo_steps n t1 m1) as [[t2 m2] es] eqn:E2.
      inversion H; subst. cbn in Hlen. injection Hlen as Hlen.
      rewrite (IH _ _ _ _ _ _ _ _ E2 Hlen Hst). reflexivity.
    + inversion H; subst. cbn in Hlen. discriminate.
Qed.

Lemma solo_steps_done n : forall t m o m' es,
  solo_steps n t m = (TDone o, m', es) -> solo t m = (o, m', es).
Proof.
  induction n as [|n IH]; intros t m o m' es H.
  - cbn in H. inversion H; subst. reflexivity.
  - rewrite solo_steps_S in H. destruct t as [o1|k|l k|l v k]; cbn [tstep] in H.
    + inversion H; subst. reflexivity.
    + destruct (solo_steps n k m) as [[t2 m2] es2] eqn:E. inversion H; subst.
      cbn [solo]. rewrite (IH _ _ _ _ _ E). reflexivity.
    + destruct (solo_steps n (k (m l)) m) as [[t2 m2] es2] eqn:E. inversion H; subst.
      cbn [solo]. rewrite (IH _ _ _ _ _ E). reflexivity.
    + destruct (solo_steps n k (upd m l v)) as [[t2 m2] es2] eqn:E. inversion H; subst.
      cbn [solo]. rewrite (IH _ _ _ _ _ E). reflexivity.
Qed.

(* ------------------------------------------------------------------------------------------ *)
(* the per-thread invariant                                                                   *)

Definition tinv (m0 : mem) (t0 t : thread) (m : mem) (evs : list event) : Prop :=
  (exists ms, solo_steps (length evs) t0 m0 = (t, ms, evs) /\
              forall l, may_access t l -> m l = ms l) /\
  (forall l, may_access t l -> may_access t0 l) /\
  (forall l, may_write t l -> may_write t0 l) /\
  (forall e l, In e evs -> accesses e l -> may_access t0 l) /\
  (forall e l, In e evs -> writes e l -> may_write t0 l).

Lemma tinv_init m0 t0 : tinv m0 t0 t0 m0 [].
Proof.
  repeat split; auto; try (intros; contradiction).
  exists m0. split; [reflexivity|auto].
Qed.

Lemma tinv_own_step m0 t0 t m evs t' m' e :
  tinv m0 t0 t m evs -> tstep t m = Some (t', m', e) -> tinv m0 t0 t' m' (evs ++ [e]).
Proof.
  intros (Hs & Hacc & Hwr & Heacc & Hewr) Hst.
  destruct Hs as (ms & Hsolo & Hag).
  destruct (tstep_agree _ _ ms _ _ _ Hst Hag) as (ms' & Hst' & Hag').
  destruct (tstep_mono _ _ _ _ _ Hst) as (Ma & Mw & Mea & Mew & _).
  repeat split.
  - exists ms'. split; [|exact Hag'].
    rewrite app_length. cbn [length]. rewrite Nat.add_1_r.
    eapply solo_steps_snoc; eauto.
  - intros l Hl. apply Hacc, Ma, Hl.
  - intros l Hl. apply Hwr, Mw, Hl.
  - intros e0 l Hin Ha. apply in_app_or in Hin as [Hin|[<-|[]]].
    + eapply Heacc; eauto.
    + apply Hacc, Mea, Ha.
  - intros e0 l Hin Hw. apply in_app_or in Hin as [Hin|[<-|[]]].
    + eapply Hewr; eauto.
    + apply Hwr, Mew, Hw.
Qed.

Lemma tinv_other_step m0 t0 t m m' evs :
  tinv m0 t0 t m evs -> (forall l, may_access t0 l -> m' l = m l) -> tinv m0 t0 t m' evs.
Proof.
  intros (Hs & Hacc & Hwr & Heacc & Hewr) Hsame.
  destruct Hs as (ms & Hsolo & Hag).
  repeat split; auto.
  exists ms. split; [exact Hsolo|]. intros l Hl. rewrite (Hsame l (Hacc l Hl)). apply Hag, Hl.
Qed.

Theorem exec_invariant ts0 m0 c tr :
  private ts0 -> exec (ts0, m0) c tr ->
  length (fst c) = length ts0 /\
  (forall i e, In (i, e) tr -> exists t0, nth_error ts0 i = Some t0) /\
  (forall i t0, nth_error ts0 i = Some t0 ->
     exists t, nth_error (fst c) i = Some t /\ tinv m0 t0 t (snd c) (proj i tr)).
Proof.
  intros Hpriv Hex. induction Hex as [|c tr i t t' m' e Hex IH Hnth Hst].
  - cbn. split; [reflexivity|]. split; [intros i e []|].
    intros i t0 H. exists t0. split; [exact H|apply tinv_init].
  - destruct IH as (Hlen & Hev & Hinv).
    assert (Hi0 : exists ti0, nth_error ts0 i = Some ti0).
    { destruct (nth_error ts0 i) as [ti0|] eqn:E; [eauto|].
      apply nth_error_None in E. assert (i < length (fst c)) by (apply nth_error_Some; congruence). lia. }
    destruct Hi0 as (ti0 & Hi0).
    cbn [fst snd]. split; [rewrite set_nth_length; exact Hlen|]. split.
    + intros j e0 Hin. apply in_app_or in Hin as [Hin|[Heq|[]]].
      * eapply Hev; eauto.
      * inversion Heq; subst. eauto.
    + intros j tj0 Hj. destruct (Hinv j tj0 Hj) as (tj & Hnj & Htj).
      destruct (Nat.eq_dec i j) as [<-|Hne].
      * assert (tj = t) by congruence. subst tj.
        exists t'. split; [eapply nth_error_set_nth_eq; eauto|].
        rewrite proj_snoc_same. eapply tinv_own_step; eauto.
      * exists tj. split; [rewrite nth_error_set_nth_neq by exact Hne; exact Hnj|].
        rewrite proj_snoc_other by exact Hne.
        eapply tinv_other_step; [exact Htj|].
        intros l Hl.
        destruct (tstep_mono _ _ _ _ _ Hst) as (_ & _ & _ & Mew & Mmem).
        apply Mmem. intro Hw.
        destruct (Hinv i ti0 Hi0) as (ti & Hni & (_ & _ & Hwr_i & _)).
        assert (ti = t) by congruence. subst ti.
        exact (Hpriv i j ti0 tj0 l Hne Hi0 Hj (Hwr_i l (Mew l Hw)) Hl).
Qed.

(* ------------------------------------------------------------------------------------------ *)
(* (i) the theorem                                                                            *)

(* Statement, for every initial memory and EVERY schedule (exec ranges over all of them):
   1. the trace has no data race;
   2. whatever thread i has done so far is exactly the first steps of its solo run, with the same
      read results, and its current state is the state of the solo run at that point;
   3. a finished thread returns the observation of its solo run and has performed exactly the
      events of its solo run. *)
Theorem interleave_private ts0 m0 c tr :
  private ts0 -> exec (ts0, m0) c tr ->
  race_free tr /\
  (forall i t0, nth_error ts0 i = Some t0 ->
     exists t ms, nth_error (fst c) i = Some t /\
                  solo_steps (length (proj i tr)) t0 m0 = (t, ms, proj i tr)) /\
  (forall i t0 o, nth_error ts0 i = Some t0 -> nth_error (fst c) i = Some (TDone o) ->
     solo_obs t0 m0 = o /\ snd (solo t0 m0) = proj i tr).
Proof.
  intros Hpriv Hex.
  destruct (exec_invariant _ _ _ _ Hpriv Hex) as (Hlen & Hev & Hinv).
  split; [|split].
  - intros i j e1 e2 H1 H2 Hne (l & Hc).
    destruct (Hev _ _ H1) as (ti0 & Hi0). destruct (Hev _ _ H2) as (tj0 & Hj0).
    destruct (Hinv _ _ Hi0) as (ti & _ & (_ & _ & _ & Hai & Hwi)).
    destruct (Hinv _ _ Hj0) as (tj & _ & (_ & _ & _ & Haj & Hwj)).
    apply in_proj in H1. apply in_proj in H2.
    destruct Hc as [[Hw Ha]|[Ha Hw]].
    + exact (Hpriv i j ti0 tj0 l Hne Hi0 Hj0 (Hwi _ _ H1 Hw) (Haj _ _ H2 Ha)).
    + exact (Hpriv j i tj0 ti0 l (fun E => Hne (eq_sym E)) Hj0 Hi0 (Hwj _ _ H2 Hw) (Hai _ _ H1 Ha)).
  - intros i t0 H0. destruct (Hinv _ _ H0) as (t & Hn & ((ms & Hs & _) & _)).
    exists t, ms. split; assumption.
  - intros i t0 o H0 Hdone. destruct (Hinv _ _ H0) as (t & Hn & ((ms & Hs & _) & _)).
    assert (t = TDone o) by congruence. subst t.
    apply solo_steps_done in Hs. unfold solo_obs. rewrite Hs. split; reflexivity.
Qed.

Lemma write_free_private ts : write_free ts -> private ts.
Proof. intros H i j ti tj l _ Hi _ Hw _. exact (H i ti l Hi Hw). Qed.

(* the special case asked for by C10: nobody writes *)
Theorem interleave_write_free ts0 m0 c tr :
  write_free ts0 -> exec (ts0, m0) c tr ->
  race_free tr /\
  (forall i t0, nth_error ts0 i = Some t0 ->
     exists t ms, nth_error (fst c) i = Some t /\
                  solo_steps (length (proj i tr)) t0 m0 = (t, ms, proj i tr)) /\
  (forall i t0 o, nth_error ts0 i = Some t0 -> nth_error (fst c) i = Some (TDone o) ->
     solo_obs t0 m0 = o /\ snd (solo t0 m0) = proj i tr).
Proof. intro H. apply interleave_private. apply write_free_private. exact H. Qed.

(* schedules as lists of thread indices are instances of exec *)
Lemma run_exec_gen s : forall c0 c1 tr1 c2 tr2,
  exec c0 c1 tr1 -> run s c1 = (c2, tr2) -> exec c0 c2 (tr1 ++ tr2).
Proof.
  induction s as [|i s IH]; intros c0 c1 tr1 c2 tr2 Hex Hrun.
  - cbn in Hrun. inversion Hrun; subst. rewrite app_nil_r. exact Hex.
  - cbn [run] in Hrun. destruct (cstep i c1) as [c' ev] eqn:Ec.
    destruct (run s c') as [c'' tr'] eqn:Er. inversion Hrun; subst. clear Hrun.
    unfold cstep in Ec. destruct (nth_error (fst c1) i) as [t|] eqn:En.
    + destruct (tstep t (snd c1)) as [[[t' m'] e]|] eqn:Et.
      * inversion Ec; subst. clear Ec. rewrite app_assoc.
        eapply IH; [|exact Er]. eapply exec_step; eauto.
      * inversion Ec; subst. cbn. eapply IH; eauto.
    + inversion Ec; subst. cbn. eapply IH; eauto.
Qed.

Lemma run_exec s c0 c tr : run s c0 = (c, tr) -> exec c0 c tr.
Proof. intro H. apply (run_exec_gen s c0 c0 [] c tr (exec_nil c0) H). Qed.

Corollary schedule_private ts0 m0 s :
  private ts0 ->
  let '(c, tr) := run s (ts0, m0) in
  race_free tr /\
  forall i t0 o, nth_error ts0 i = Some t0 -> nth_error (fst c) i = Some (TDone o) ->
                 solo_obs t0 m0 = o.
Proof.
  intro Hp. destruct (run s (ts0, m0)) as [c tr] eqn:E. apply run_exec in E.
  destruct (interleave_private _ _ _ _ Hp E) as (Hr & _ & Hd).
  split; [exact Hr|]. intros i t0 o H0 H1. exact (proj1 (Hd i t0 o H0 H1)).
Qed.

(* the hypotheses are satisfiable by a non-trivial object: two threads that read a shared cell
   and each write a cell of their own *)
Example private_example :
  private [ TRd (LTree 0%N) (fun v => TWr (LTree 1%N) v (TDone [v]));
            TRd (LTree 0%N) (fun v => TWr (LTree 2%N) v (TRd (LVar 5%N) (fun w => TDone [v; w]))) ].
Proof.
  intros i j ti tj l Hne Hi Hj Hw Ha.
  destruct i as [|[|i]], j as [|[|j]]; cbn in Hi, Hj; try congruence;
    try (destruct i; discriminate); try (destruct j; discriminate);
    inversion Hi; inversion Hj; subst; cbn in Hw, Ha.
  - destruct Hw as (v & [<-|[]]). destruct Ha as [E|(w & [E|[E|(u & [])]])]; discriminate.
  - destruct Hw as (v & [<-|(u & [])]). destruct Ha as [E|(w & [E|[]])]; discriminate.
Qed.

(* ------------------------------------------------------------------------------------------ *)
(* (ii) the converse witness: one write on a shared tree cell                                 *)

Lemma conflictb_sound e1 e2 : conflictb e1 e2 = true -> conflict e1 e2.
Proof.
  destruct e1 as [|l1 v1|l1 v1], e2 as [|l2 v2|l2 v2]; cbn; intro H; try discriminate;
    apply andb_true_iff in H as [Hl Hw]; apply loc_eqb_eq in Hl; subst; cbn in Hw;
    try discriminate; exists l2; cbn; auto.
Qed.

Lemma has_race_sound tr : has_race tr = true -> ~ race_free tr.
Proof.
  unfold has_race. intros H Hrf.
  apply existsb_exists in H as ([i e1] & Hin1 & H).
  apply existsb_exists in H as ([j e2] & Hin2 & H).
  apply andb_true_iff in H as [Hne Hc]. cbn in Hne, Hc.
  apply negb_true_iff, Nat.eqb_neq in Hne.
  exact (Hrf i j e1 e2 Hin1 Hin2 Hne (conflictb_sound _ _ Hc)).
Qed.

(* two goroutines explain the SAME parsed INSERT ... SELECT ... FORMAT statement *)
Definition racy_threads : list thread := [explain_insert (LTree 0%N); explain_insert (LTree 0%N)].
Definition mem_format7 : mem := fun l => match l with LTree 0%N => 7%N | _ => 0%N end.
(* T0 saves Format and clears it; T1 sees nil and takes the no-edit branch; T0 prints, restores,
   finishes; T1 prints and sees the restored Format that its solo run never prints *)
Definition bad_schedule : list nat := [0; 0; 1; 0; 0; 1]%nat.

Lemma shared_tree_write_refuted :
  let '(c, tr) := run bad_schedule (racy_threads, mem_format7) in
  solo_obs (explain_insert (LTree 0%N)) mem_format7 = [0%N] /\
  nth_error (fst c) 0 = Some (TDone [0%N]) /\
  nth_error (fst c) 1 = Some (TDone [7%N]) /\
  has_race tr = true /\
  snd c (LTree 0%N) = 7%N.
Proof. vm_compute. repeat split; reflexivity. Qed.

(* in words: the conclusion of (i) fails for this program *)
Theorem shared_tree_write_breaks_solo_equivalence :
  exists s c tr i o,
    run s (racy_threads, mem_format7) = (c, tr) /\
    nth_error (fst c) i = Some (TDone o) /\
    (exists t0, nth_error racy_threads i = Some t0 /\ solo_obs t0 mem_format7 <> o) /\
    ~ race_free tr.
Proof.
  destruct (run bad_schedule (racy_threads, mem_format7)) as [c tr] eqn:E.
  exists bad_schedule, c, tr, 1%nat, [7%N].
  pose proof shared_tree_write_refuted as H. rewrite E in H.
  destruct H as (Hsolo & _ & H1 & Hrace & _).
  split; [exact E|]. split; [exact H1|]. split.
  - exists (explain_insert (LTree 0%N)). split; [reflexivity|]. rewrite Hsolo. discriminate.
  - apply has_race_sound. exact Hrace.
Qed.

(* and it is not private, as (i) requires *)
Lemma racy_threads_not_private : ~ private racy_threads.
Proof.
  intro H. apply (H 0%nat 1%nat _ _ (LTree 0%N) (Nat.neq_0_succ 0) eq_refl eq_refl).
  - cbn. exists 7%N. cbn. left. reflexivity.
  - cbn. left. reflexivity.
Qed.

(* ------------------------------------------------------------------------------------------ *)
(* (iii) temporary edit with deferred restore                                                 *)

Theorem restore_discipline c :
  disciplined c -> forall m o l, r_mem (exec_cmd c m o) l = m l.
Proof.
  induction c as [| l0 | | c1 IH1 c2 IH2 | l0 c1 IH1 c2 IH2 | k l0 v | k l0 v body IH
                 | k l0 v body IH | c IH | k]; intros D m o l; cbn [disciplined] in D.
  - reflexivity.
  - reflexivity.
  - reflexivity.
  - destruct D as [D1 D2]. cbn [exec_cmd].
    destruct (r_outcome (exec_cmd c1 m o)) eqn:E.
    + cbn [r_mem]. rewrite (IH2 D2). apply (IH1 D1).
    + apply (IH1 D1).
  - destruct D as [D1 D2]. cbn [exec_cmd]. destruct (N.eqb (m l0) 0); [apply (IH1 D1)|apply (IH2 D2)].
  - contradiction.
  - cbn [exec_cmd r_mem]. unfold upd at 1. destruct (loc_eqb l0 l) eqn:E.
    + apply loc_eqb_eq in E. subst. reflexivity.
    + rewrite (IH D). unfold upd. rewrite E. reflexivity.
  - contradiction.
  - cbn [exec_cmd r_mem]. apply (IH D).
  - cbn [exec_cmd]. destruct o; reflexivity.
Qed.

(* the outcome is arbitrary: the statement above covers a panicking body and a returning body alike *)
Corollary restore_discipline_both_outcomes k l v body :
  disciplined body -> forall m o,
  (forall l', r_mem (exec_cmd (CTempDefer k l v body) m o) l' = m l') /\
  (r_outcome (exec_cmd (CTempDefer k l v body) m o) = r_outcome (exec_cmd body (upd m l v) o)).
Proof.
  intros D m o. split; [|reflexivity]. intro l'. apply restore_discipline. exact D.
Qed.

(* without the defer a panicking body leaves the edit behind (the defect class of the former
   package-level flag that was reset by a plain assignment) *)
Theorem plain_restore_leaks :
  exists k l v body m o,
    r_outcome (exec_cmd (CTempPlain k l v body) m o) = Panic /\
    r_mem (exec_cmd (CTempPlain k l v body) m o) l <> m l /\
    (* the same edit with a deferred restore is invisible *)
    r_mem (exec_cmd (CTempDefer k l v body) m o) l = m l.
Proof.
  exists "sq.Format = nil"%string, (LTree 0%N), 0%N, CPanic, mem_format7, [].
  cbn. repeat split; try reflexivity. discriminate.
Qed.

(* a returning body hides the difference: plain restore is only wrong on the panic path *)
Lemma plain_restore_normal k l v body m o :
  disciplined body -> r_outcome (exec_cmd body (upd m l v) o) = Normal ->
  forall l', r_mem (exec_cmd (CTempPlain k l v body) m o) l' = m l'.
Proof.
  intros D Hn l'. cbn [exec_cmd]. rewrite Hn. cbn [r_mem]. unfold upd at 1.
  destruct (loc_eqb l l') eqn:E.
  - apply loc_eqb_eq in E. subst. reflexivity.
  - rewrite (restore_discipline body D). unfold upd. rewrite E. reflexivity.
Qed.

(* the result of a call without map ranges depends only on the memory contents *)
Theorem exec_ext c :
  nondet_free c -> forall m1 m2 o1 o2, (forall l, m1 l = m2 l) ->
  r_outcome (exec_cmd c m1 o1) = r_outcome (exec_cmd c m2 o2) /\
  r_out (exec_cmd c m1 o1) = r_out (exec_cmd c m2 o2) /\
  (forall l, r_mem (exec_cmd c m1 o1) l = r_mem (exec_cmd c m2 o2) l).
Proof.
  induction c as [| l0 | | c1 IH1 c2 IH2 | l0 c1 IH1 c2 IH2 | k l0 v | k l0 v body IH
                 | k l0 v body IH | c IH | k]; intros N m1 m2 o1 o2 Hm; cbn [nondet_free] in N.
  - cbn. auto.
  - cbn. rewrite (Hm l0). auto.
  - cbn. auto.
  - destruct N as [N1 N2]. cbn [exec_cmd].
    destruct (IH1 N1 m1 m2 o1 o2 Hm) as (Ho & Hout & Hmem). rewrite <- Ho.
    destruct (r_outcome (exec_cmd c1 m1 o1)).
    + destruct (IH2 N2 _ _ (r_oracle (exec_cmd c1 m1 o1)) (r_oracle (exec_cmd c1 m2 o2)) Hmem)
        as (Ho2 & Hout2 & Hmem2).
      cbn [r_outcome r_out r_mem]. rewrite Hout, Hout2. auto.
    + auto.
  - destruct N as [N1 N2]. cbn [exec_cmd]. rewrite (Hm l0).
    destruct (N.eqb (m2 l0) 0); [apply (IH1 N1)|apply (IH2 N2)]; exact Hm.
  - cbn. repeat split. intro l. unfold upd. destruct (loc_eqb l0 l); auto.
  - cbn [exec_cmd r_outcome r_out r_mem].
    assert (Hu : forall l, upd m1 l0 v l = upd m2 l0 v l).
    { intro l. unfold upd. destruct (loc_eqb l0 l); auto. }
    destruct (IH N _ _ o1 o2 Hu) as (Ho & Hout & Hmem).
    repeat split; auto. intro l. unfold upd at 1 3. destruct (loc_eqb l0 l); auto.
  - cbn [exec_cmd].
    assert (Hu : forall l, upd m1 l0 v l = upd m2 l0 v l).
    { intro l. unfold upd. destruct (loc_eqb l0 l); auto. }
    destruct (IH N _ _ o1 o2 Hu) as (Ho & Hout & Hmem). rewrite <- Ho.
    destruct (r_outcome (exec_cmd body (upd m1 l0 v) o1)) eqn:E.
    + cbn [r_outcome r_out r_mem]. repeat split; auto.
      intro l. unfold upd at 1 3. destruct (loc_eqb l0 l); auto.
    + rewrite E. repeat split; auto.
  - cbn [exec_cmd r_outcome r_out r_mem]. destruct (IH N _ _ o1 o2 Hm) as (Ho & Hout & Hmem). auto.
  - contradiction.
Qed.

Lemma history_preserves h :
  Forall disciplined h -> forall m o l, fst (run_history h m o) l = m l.
Proof.
  induction h as [|c h IH]; intros HD m o l.
  - reflexivity.
  - inversion HD as [|c' h' Dc Dh]; subst. cbn [run_history].
    rewrite (IH Dh). apply (restore_discipline (CRecover c)). exact Dc.
Qed.

(* C11 over the model: deep immutability, byte-identical repetition, history independence *)
Theorem history_independent h c :
  Forall disciplined h -> disciplined c -> nondet_free c ->
  forall m o o1 o2,
    let m' := fst (run_history h m o) in
    (* the statement is unchanged by the history and by the call *)
    (forall l, m' l = m l) /\
    (forall l, r_mem (exec_cmd c m' o1) l = m l) /\
    (* the call returns what it returns in a fresh process, whatever the map iteration order *)
    r_out (exec_cmd c m' o1) = r_out (exec_cmd c m o2) /\
    r_outcome (exec_cmd c m' o1) = r_outcome (exec_cmd c m o2).
Proof.
  intros Hh Dc Nc m o o1 o2 m'.
  assert (Hm : forall l, m' l = m l) by (intro l; apply history_preserves; exact Hh).
  destruct (exec_ext c Nc m' m o1 o2 Hm) as (Ho & Hout & _).
  repeat split; auto.
  intro l. rewrite (restore_discipline c Dc). apply Hm.
Qed.

Corollary repeat_identical c :
  disciplined c -> nondet_free c -> forall m o o',
  r_out (exec_cmd c (r_mem (exec_cmd c m o)) o') = r_out (exec_cmd c m o).
Proof.
  intros D N m o o'.
  destruct (exec_ext c N (r_mem (exec_cmd c m o)) m o' o (restore_discipline c D m o)) as (_ & H & _).
  exact H.
Qed.

(* a range over a map makes the output depend on the run time's choice *)
Lemma nondet_breaks_repeatability :
  exists c m o1 o2, r_out (exec_cmd c m o1) <> r_out (exec_cmd c m o2).
Proof.
  exists (CNondet "for k := range m"%string), mem_format7, [1%N], [2%N]. cbn. discriminate.
Qed.

(* non-trivial instance of the hypotheses: the shape of explainExplainQuery (three temporary edits,
   a body that prints and may panic), followed by a second call *)
Example disciplined_example :
  let c := CTempDefer "swu.Settings = nil" (LTree 1%N) 0%N
             (CTempDefer "sq.Format = nil" (LTree 0%N) 0%N
                (CSeq (CEmit (LTree 0%N)) (CIf (LTree 2%N) CPanic (CEmit (LTree 1%N))))) in
  disciplined c /\ nondet_free c /\
  r_outcome (exec_cmd c mem_format7 []) = Panic /\
  r_mem (exec_cmd c mem_format7 []) (LTree 0%N) = 7%N.
Proof. cbn. repeat split. Qed.
