(* Types of the shared-state inventory that /verif/translator/cmd/sharedgen generates into
   Gen/SharedAccess.v.  Definitions only. *)
From Coq Require Import List String NArith Bool.
Import ListNotations.

(* a package-level variable *)
Record var_decl := mk_var {
  v_pkg      : string;   (* package path relative to the module root *)
  v_name     : string;
  v_type     : string;   (* Go type, as text *)
  v_shape    : string;   (* map | slice | pointer | chan | func | interface | array | struct | basic *)
  v_is_ref   : bool;     (* values of the type contain references *)
  v_init     : string;   (* declaration | init() | declaration+init() | zero *)
  v_exported : bool;
  v_uses     : N         (* identifier uses outside init() *)
}.

(* a program point of the Go code *)
Record site := mk_site {
  s_pkg    : string;
  s_func   : string;     (* enclosing top-level function, methods as "( *T).M" without the space *)
  s_target : string;     (* the variable / the written location, as text *)
  s_kind   : string;
  s_text   : string;     (* the statement, white space normalised *)
  s_key    : string;     (* package|function|statement text [#n]: stable under line moves *)
  s_restored      : bool;    (* tree writes: `saved (:)= LOC; LOC = v; defer func() { LOC = saved }()` *)
  s_restore_fresh : bool;    (* ... and `saved` is declared by that very `:=` *)
  s_restore_text  : string
}.

Record inventory := mk_inventory {
  inv_pkg_vars        : list var_decl;
  inv_var_writes      : list site;   (* writes to package-level variables outside declarations and init() *)
  inv_var_init_writes : list site;   (* the same inside init(): allowed, listed *)
  inv_tree_writes     : list site;   (* writes through parameters / receivers in the post-parse code *)
  inv_map_ranges      : list site;   (* range over a map in the post-parse code *)
  inv_goroutines_and_unsafe : list site
}.
