(* C01/C03 (layer G): boolean checks over the inventories generated next to the nil-flow graphs
   (Gen/ParserNil.v) and the reviewed lists (Gen/ParserNilAllowed.v).  Definitions only. *)
From Coq Require Import List NArith Bool String.
From DC Require Import Nil.NilLang Nil.NilCheck.
Import ListNotations.
Local Open Scope N_scope.

Definition mem_str (s : string) (l : list string) : bool := existsb (String.eqb s) l.

(* an inventory entry (key, guard) is fine when a guard was recognised or the key is reviewed *)
Definition guarded_or_reviewed (reviewed : list string) (e : string * string) : bool :=
  negb (String.eqb (snd e) "unguarded") || mem_str (fst e) reviewed.

(* explicit panics and divisions have no recognised guard: each must be reviewed *)
Definition reviewed_only (reviewed : list string) (e : string * string) : bool := mem_str (fst e) reviewed.

(* the reviewed graph sites name uncertified sites of the generated program, with the same key *)
Definition reviewed_sites_ok (uncert reviewed : list (N * string)) : bool :=
  forallb (fun r => existsb (fun u => N.eqb (fst u) (fst r) && String.eqb (snd u) (snd r)) uncert) reviewed.

Definition instr_at (P : prog) (f pc : N) : option node :=
  match getf P f with Some g => getn g pc | None => None end.

(* a conversion site (key, status, f, pc):
   status 0  the operand is an allocation (nothing to check);
   status 1  node pc of f is [ISet x (RConv y t) n] and
             - y is certainly usable there (certificate), or
             - x goes straight to [IRet [AV x]] and f DECLARES its result possibly typed-nil (cl = false in its
               spec): the verified checker then makes every consumer normalise or test it, or
             - the key is reviewed. *)
Definition conv_ok (P : prog) (reviewed : list string) (c : string * N * N * N) : bool :=
  let '(key, status, f, pc) := c in
  N.eqb status 0 ||
  match instr_at P f pc with
  | Some nd =>
      match nd_instr nd with
      | ISet x (RConv y _) n =>
          (has (nd_nn nd) y && has (nd_cl nd) y) ||
          (match instr_at P f n, getf P f with
           | Some nd', Some g =>
               match nd_instr nd', fs_results (fn_spec g) with
               | IRet [AV x'], [(_, false)] => N.eqb x x'
               | _, _ => false
               end
           | _, _ => false
           end) ||
          mem_str key reviewed
      | _ => false
      end
  | None => false
  end.

(* a store that must deliver a usable value: node pc of f is an IStore whose operand is certainly usable *)
Definition store_usable (P : prog) (s : N * N) : bool :=
  match instr_at P (fst s) (snd s) with
  | Some nd => match nd_instr nd with
               | IStore x _ _ _ => has (nd_nn nd) x && has (nd_cl nd) x
               | _ => false
               end
  | None => false
  end.

(* the result spec of function f *)
Definition results_of (P : prog) (f : N) : list av :=
  match getf P f with Some g => fs_results (fn_spec g) | None => [] end.
