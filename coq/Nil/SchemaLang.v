(* C03: the vocabulary of Gen/AstSchema.v -- the Go types of the fields of package ast as encoding/json
   sees them.  Definitions only. *)
From Coq Require Import List String.
Import ListNotations.

Inductive jtype :=
| JStr | JBool | JInt | JFloat
| JPtr (t : jtype)
| JSlice (t : jtype)                 (* slices and arrays *)
| JMap (k t : jtype)
| JStruct (n : string)               (* a named struct type, described by an sdecl *)
| JIface (n : string)                (* an interface type; "interface{}" is the empty interface *)
| JChan | JFunc | JComplex | JUnsafe. (* what encoding/json rejects with UnsupportedTypeError *)

Record field := mkField { f_name : string; f_type : jtype; f_skip : bool (* json:"-" or unexported *) }.

(* s_custom: the type has a MarshalJSON method.  s_fix = Some i: that method has the shape
   "if the value held directly by field i is a NaN/+Inf/-Inf float64, encode the struct with that field
   replaced by a string; otherwise encode the struct as it is" (recognised syntactically by the generator). *)
Record sdecl := mkDecl { s_name : string; s_custom : bool; s_fix : option nat; s_fields : list field }.
