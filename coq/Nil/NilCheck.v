(* C01/C03 (layer G): the boolean certificate checker for nil-flow graphs.  Purely local: one pass
   over the nodes of every function; each node is checked against the annotations of its successors
   and the specs of its callees.  No fixpoint.  Definitions only; soundness is in NilSound.v. *)
From Coq Require Import List NArith Bool.
From DC Require Import Nil.NilLang.
Import ListNotations.
Local Open Scope N_scope.

(* an annotation: (nn, cl) -- bit x of nn: variable x is not VNil; bit x of cl: x is not VTNil *)
Definition ann := (N * N)%type.
Definition has (m x : N) : bool := N.testbit m x.
Definition subset (a b : N) : bool := N.eqb (N.ldiff a b) 0.
Definition setb (m x : N) (b : bool) : N := if b then N.setbit m x else N.clearbit m x.

Definition a_set (a : ann) (x : N) (v : av) : ann := (setb (fst a) x (fst v), setb (snd a) x (snd v)).
(* everything t claims is claimed by s *)
Definition a_le (t s : ann) : bool := subset (fst t) (fst s) && subset (snd t) (snd s).
Definition a_get (a : ann) (x : N) : av := (has (fst a) x, has (snd a) x).

Definition arg_av (a : ann) (g : arg) : av :=
  match g with AV x => a_get a x | AGood => (true, true) | ANil => (false, true) end.

Definition rhs_av (a : ann) (r : rhs) : av :=
  match r with
  | RAlloc => (true, true)
  | RNil => (false, true)
  | RCopy y => a_get a y
  | RUnknown => (false, true)
  | RUnknownDirty => (false, false)
  | RConv y _ => (true, has (fst a) y && has (snd a) y)
  | RNormalize y => (has (fst a) y && has (snd a) y, true)
  | RAssert y ti => (has (fst a) y && (ti || has (snd a) y), negb ti || has (snd a) y)
  end.

(* the guarantee got meets the requirement req *)
Definition av_ok (req got : av) : bool := implb (fst req) (fst got) && implb (snd req) (snd got).

Fixpoint all2 {A B : Type} (f : A -> B -> bool) (l : list A) (m : list B) : bool :=
  match l, m with
  | [], [] => true
  | x :: l', y :: m' => f x y && all2 f l' m'
  | _, _ => false
  end.

Fixpoint assign_av (a : ann) (rets : list (option N)) (rs : list av) : ann :=
  match rets, rs with
  | Some x :: rets', v :: rs' => assign_av (a_set a x v) rets' rs'
  | None :: rets', _ :: rs' => assign_av a rets' rs'
  | _, _ => a
  end.

(* the annotation at function entry: parameter i is variable i *)
Fixpoint entry_ann (i : N) (ps : list av) : ann :=
  match ps with
  | [] => (0, 0)
  | v :: ps' => a_set (entry_ann (N.succ i) ps') i v
  end.

Definition mem (s : N) (l : list N) : bool := existsb (N.eqb s) l.

Section Check.
Variable c03 : bool.
Variable P : prog.
Variable allow : list N.

Definition tgt (g : func) (n : N) (k : ann -> bool) : bool :=
  match getn g n with Some t => k (nd_nn t, nd_cl t) | None => false end.
Definition edge (g : func) (n : N) (s : ann) : bool := tgt g n (fun t => a_le t s).

(* a conversion of a possibly nil pointer is only allowed for the declared typed-nil types *)
Definition rhs_chk (a : ann) (r : rhs) : bool :=
  match r with RConv y t => has (fst a) y || mem t (p_tn P) | _ => true end.

Definition store_ok (m : smode) (a : ann) (x : N) : bool :=
  match m with
  | SStrict => has (fst a) x && has (snd a) x
  | SClean => has (snd a) x
  | SDirty => negb c03 || has (snd a) x
  end.
Definition store_post (m : smode) (a : ann) (x : N) : ann :=
  match m with
  | SStrict => a_set a x (true, true)
  | SClean => (fst a, N.setbit (snd a) x)
  | SDirty => a
  end.

Definition instr_ok (g : func) (i : instr) (a : ann) : bool :=
  match i with
  | ISet x r n => rhs_chk a r && edge g n (a_set a x (rhs_av a r))
  | IGuard x n1 n2 =>
      (* the nil branch of a test of a certainly non-nil variable is dead: nothing to check *)
      edge g n1 (N.setbit (fst a) x, snd a) && (has (fst a) x || edge g n2 (a_set a x (false, true)))
  | ITypeTest x y ti tgt n1 n2 =>
      let ycl := has (snd a) y in
      (* a successful test against a pointer type of which no typed nil exists yields a non-nil pointer *)
      let notn := match tgt with Some T => negb ti && negb (mem T (p_tn P)) | None => false end in
      edge g n1 (a_set (N.setbit (fst a) y, snd a) x (ti || ycl || notn, negb ti || ycl)) &&
      edge g n2 (a_set a x (false, true))
  | IUse x s n => ((has (fst a) x && has (snd a) x) || mem s allow) && edge g n (a_set a x (true, true))
  | IStore x m s n => (store_ok m a x || mem s allow) && edge g n (store_post m a x)
  | ICall f args rets n =>
      match getf P f with
      | None => false
      | Some fn' =>
          all2 av_ok (fs_params (fn_spec fn')) (map (arg_av a) args) &&
          Nat.eqb (length rets) (length (fs_results (fn_spec fn'))) &&
          edge g n (assign_av a rets (fs_results (fn_spec fn')))
      end
  | IBranch n1 n2 => edge g n1 a && edge g n2 a
  | IRet rs => all2 av_ok (fs_results (fn_spec g)) (map (arg_av a) rs)
  | IHalt => true
  end.

Definition node_ok (g : func) (nd : node) : bool := instr_ok g (nd_instr nd) (nd_nn nd, nd_cl nd).

Definition entry_ok (g : func) : bool := edge g 0 (entry_ann 0 (fs_params (fn_spec g))).

Definition check_func (g : func) : bool := entry_ok g && forallb (node_ok g) (fn_body g).

Definition check_prog : bool :=
  match getf P (p_main P) with None => false | Some _ => forallb check_func (p_funcs P) end.

End Check.
