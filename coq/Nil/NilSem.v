(* C01/C03 (layer G): small-step semantics of nil-flow graphs, with an explicit call stack.
   Nondeterminism (heap reads, results of external functions, data-dependent branches, the outcome of
   a type test) is resolved by an oracle, a list of numbers consumed left to right (0 when exhausted).
   Definitions only. *)
From Coq Require Import List NArith Bool.
From DC Require Import Nil.NilLang.
Import ListNotations.
Local Open Scope N_scope.

Definition env := N -> val.
Definition upd (e : env) (x : N) (v : val) : env := fun y => if N.eqb y x then v else e y.

Record frame := mkFrame { fr_f : N; fr_pc : N; fr_env : env; fr_rets : list (option N) }.
Record conf := mkConf { c_f : N; c_pc : N; c_env : env; c_orc : list N; c_stack : list frame }.

Inductive outcome :=
| Next (c : conf)
| Done (vs : list val)      (* the entry function returned vs *)
| Halted                    (* IHalt: the run is outside the scope of the reading *)
| Bad (site : N)            (* nil dereference (IUse) or forbidden store (IStore) at the site *)
| Stuck.                    (* malformed program: excluded by the checker *)

Definition pop (o : list N) : N * list N := match o with [] => (0, []) | k :: o' => (k, o') end.

(* k = 0: nil; k = 1: usable; k >= 2 (dirty cells only): a typed nil of the (k-2)-th possible type *)
Definition pick (tn : list N) (k : N) (dirty : bool) : val :=
  if N.eqb k 0 then VNil
  else if N.eqb k 1 then VPtr
  else if dirty then match nth_error tn (N.to_nat (k - 2)) with Some t => VTNil t | None => VPtr end
  else VPtr.

Definition conv (t : N) (v : val) : val := match v with VNil => VTNil t | _ => v end.
Definition normalize (v : val) : val := match v with VTNil _ => VNil | _ => v end.
Definition assertv (toiface : bool) (v : val) : val :=
  match v with VPtr => VPtr | VTNil t => if toiface then VTNil t else VNil | VNil => VNil end.

Definition eval_arg (e : env) (a : arg) : val :=
  match a with AV x => e x | AGood => VPtr | ANil => VNil end.

Definition eval_rhs (tn : list N) (e : env) (r : rhs) (o : list N) : val * list N :=
  match r with
  | RAlloc => (VPtr, o)
  | RNil => (VNil, o)
  | RCopy y => (e y, o)
  | RUnknown => let '(k, o') := pop o in (pick tn k false, o')
  | RUnknownDirty => let '(k, o') := pop o in (pick tn k true, o')
  | RConv y t => (conv t (e y), o)
  | RNormalize y => (normalize (e y), o)
  | RAssert y ti => (assertv ti (e y), o)
  end.

(* c03 = false: the C01 reading (a typed nil may be stored into a dirty class);
   c03 = true: the C03 reading (no typed nil may be stored anywhere) *)
Definition store_bad (c03 : bool) (m : smode) (v : val) : bool :=
  match m, v with
  | SStrict, VPtr => false
  | SStrict, _ => true
  | SClean, VTNil _ => true
  | SDirty, VTNil _ => c03
  | _, _ => false
  end.

(* parameters are the variables 0 .. k-1; every other variable starts as nil *)
Definition bind_params (vals : list val) : env := fun x => nth (N.to_nat x) vals VNil.

Fixpoint assign (rets : list (option N)) (vals : list val) (e : env) : env :=
  match rets, vals with
  | Some x :: rs, v :: vs => assign rs vs (upd e x v)
  | None :: rs, _ :: vs => assign rs vs e
  | _, _ => e
  end.

Definition step (c03 : bool) (p : prog) (c : conf) : outcome :=
  match getf p (c_f c) with None => Stuck | Some fn =>
  match getn fn (c_pc c) with None => Stuck | Some nd =>
  let e := c_env c in
  let goto pc e' o := Next (mkConf (c_f c) pc e' o (c_stack c)) in
  match nd_instr nd with
  | ISet x r n => let '(v, o) := eval_rhs (p_tn p) e r (c_orc c) in goto n (upd e x v) o
  | IGuard x n1 n2 => match e x with VNil => goto n2 e (c_orc c) | _ => goto n1 e (c_orc c) end
  | ITypeTest x y ti tgt n1 n2 =>
      let test v := let '(k, o) := pop (c_orc c) in
                    if N.eqb k 0 then goto n2 (upd e x VNil) o else goto n1 (upd e x (assertv ti v)) o in
      match e y, tgt with
      | VNil, _ => goto n2 (upd e x VNil) (c_orc c)
      | VTNil t, Some T => if N.eqb t T then goto n1 (upd e x (assertv ti (VTNil t))) (c_orc c)
                           else goto n2 (upd e x VNil) (c_orc c)
      | v, _ => test v
      end
  | IUse x s n => match e x with VPtr => goto n e (c_orc c) | _ => Bad s end
  | IStore x m s n => if store_bad c03 m (e x) then Bad s else goto n e (c_orc c)
  | ICall f args rets n =>
      Next (mkConf f 0 (bind_params (map (eval_arg e) args)) (c_orc c)
                   (mkFrame (c_f c) n e rets :: c_stack c))
  | IBranch n1 n2 => let '(k, o) := pop (c_orc c) in goto (if N.eqb k 0 then n2 else n1) e o
  | IRet rs =>
      let vs := map (eval_arg e) rs in
      match c_stack c with
      | [] => Done vs
      | fr :: stk => Next (mkConf (fr_f fr) (fr_pc fr) (assign (fr_rets fr) vs (fr_env fr)) (c_orc c) stk)
      end
  | IHalt => Halted
  end end end.

(* n steps; a final outcome (Done, Halted, Bad, Stuck) is kept *)
Fixpoint run (c03 : bool) (p : prog) (n : nat) (c : conf) : outcome :=
  match n with
  | O => Next c
  | S n' => match step c03 p c with Next c' => run c03 p n' c' | o => o end
  end.

Definition init (p : prog) (args : list val) (orc : list N) : conf :=
  mkConf (p_main p) 0 (bind_params args) orc [].
