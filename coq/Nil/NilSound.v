(* C01/C03 (layer G): soundness of the nil-flow checker.
   If [check_prog c03 P allow = true] then no run of P (any arguments meeting the entry function's
   parameter spec, any oracle, any number of steps) reaches [Stuck], reaches [Bad s] only for s in allow,
   every function returns values meeting its result spec, and [Done vs] meets the entry function's. *)
From Coq Require Import List NArith Bool Arith Lia.
From DC Require Import Nil.NilLang Nil.NilSem Nil.NilCheck.
Import ListNotations.
Local Open Scope N_scope.

(* ---- bit sets ---- *)
Lemma subset_spec : forall a b x, subset a b = true -> has a x = true -> has b x = true.
Proof.
  unfold subset, has. intros a b x Hs Ha.
  apply N.eqb_eq in Hs.
  assert (Hb : N.testbit (N.ldiff a b) x = false) by (rewrite Hs; apply N.bits_0).
  rewrite N.ldiff_spec, Ha in Hb. simpl in Hb.
  destruct (N.testbit b x); [reflexivity | discriminate].
Qed.

Lemma has_setb : forall m x b y, has (setb m x b) y = if N.eqb y x then b else has m y.
Proof.
  unfold has, setb. intros m x b y. destruct b.
  - rewrite N.setbit_eqb. rewrite (N.eqb_sym x y). destruct (N.eqb y x); reflexivity.
  - rewrite N.clearbit_eqb. rewrite (N.eqb_sym x y). destruct (N.eqb y x); simpl.
    + apply andb_false_r.
    + apply andb_true_r.
Qed.

Lemma has_setbit : forall m x y, has (N.setbit m x) y = if N.eqb y x then true else has m y.
Proof. intros m x y. exact (has_setb m x true y). Qed.

Lemma mem_In : forall s l, mem s l = true -> In s l.
Proof.
  unfold mem. intros s l H. apply existsb_exists in H. destruct H as [y [Hy E]].
  apply N.eqb_eq in E. subst. exact Hy.
Qed.

(* ---- satisfaction ---- *)
Definition tnil (v : val) : bool := match v with VTNil _ => true | _ => false end.
(* tn: the pointer types of which a typed nil may exist (p_tn of the program) *)
Definition tn_ok (tn : list N) (v : val) : Prop := forall t, v = VTNil t -> In t tn.
Definition val_sat (tn : list N) (v : val) (q : av) : Prop :=
  (fst q = true -> v <> VNil) /\ (snd q = true -> tnil v = false) /\ tn_ok tn v.
Definition sat (tn : list N) (e : env) (a : ann) : Prop := forall x, val_sat tn (e x) (a_get a x).

Lemma tn_ok_ptr : forall tn, tn_ok tn VPtr.
Proof. intros tn t H. discriminate H. Qed.
Lemma tn_ok_nil : forall tn, tn_ok tn VNil.
Proof. intros tn t H. discriminate H. Qed.
Lemma sat_ptr : forall tn q, val_sat tn VPtr q.
Proof. intros tn q. split; [intros _; discriminate | split; [reflexivity | apply tn_ok_ptr]]. Qed.
Lemma sat_nil : forall tn b, val_sat tn VNil (false, b).
Proof. intros tn b. split; [intro H; discriminate H | split; [reflexivity | apply tn_ok_nil]]. Qed.

Section Sat.
Variable tn : list N.

Lemma sat_le : forall e s t, a_le t s = true -> sat tn e s -> sat tn e t.
Proof.
  intros e s t Hle Hs x. unfold a_le in Hle. apply andb_true_iff in Hle. destruct Hle as [H1 H2].
  destruct (Hs x) as [Ha [Hb Hc]]. unfold a_get in *. simpl in *. split; [|split].
  - intro Hx. apply Ha. eapply subset_spec; eauto.
  - intro Hx. apply Hb. eapply subset_spec; eauto.
  - exact Hc.
Qed.

Lemma sat_set : forall e a x v q, sat tn e a -> val_sat tn v q -> sat tn (upd e x v) (a_set a x q).
Proof.
  intros e a x v q Hs Hv y. unfold upd, a_set, a_get. simpl. rewrite !has_setb.
  destruct (N.eqb y x).
  - exact Hv.
  - exact (Hs y).
Qed.

Lemma sat_setnn : forall e a x, sat tn e a -> e x <> VNil -> sat tn e (N.setbit (fst a) x, snd a).
Proof.
  intros e a x Hs Hx y. unfold a_get. simpl. rewrite has_setbit.
  destruct (N.eqb y x) eqn:E.
  - apply N.eqb_eq in E. subst y. split; [intros _; exact Hx | exact (proj2 (Hs x))].
  - exact (Hs y).
Qed.

Lemma sat_setcl : forall e a x, sat tn e a -> tnil (e x) = false -> sat tn e (fst a, N.setbit (snd a) x).
Proof.
  intros e a x Hs Hx y. unfold a_get. simpl. rewrite has_setbit.
  destruct (N.eqb y x) eqn:E.
  - apply N.eqb_eq in E. subst y. destruct (Hs x) as [Ha [_ Hc]].
    split; [exact Ha | split; [intros _; exact Hx | exact Hc]].
  - exact (Hs y).
Qed.

Lemma sat_ext : forall e e' a, (forall x, e x = e' x) -> sat tn e a -> sat tn e' a.
Proof. intros e e' a H Hs x. rewrite <- H. exact (Hs x). Qed.

Lemma sat_set_same : forall e a x q, sat tn e a -> val_sat tn (e x) q -> sat tn e (a_set a x q).
Proof.
  intros e a x q Hs Hv. apply (sat_ext (upd e x (e x))).
  - intro y. unfold upd. destruct (N.eqb y x) eqn:E; [apply N.eqb_eq in E; subst; reflexivity | reflexivity].
  - apply sat_set; assumption.
Qed.

Lemma arg_sound : forall e a g, sat tn e a -> val_sat tn (eval_arg e g) (arg_av a g).
Proof.
  intros e a g Hs. destruct g as [x | |]; simpl.
  - exact (Hs x).
  - apply sat_ptr.
  - apply sat_nil.
Qed.

Lemma pick_sat : forall k d, val_sat tn (pick tn k d) (false, negb d).
Proof.
  intros k d. unfold pick.
  destruct (N.eqb k 0); [apply sat_nil|].
  destruct (N.eqb k 1); [apply sat_ptr|].
  destruct d; [|apply sat_ptr].
  destruct (nth_error tn (N.to_nat (k - 2))) as [t|] eqn:En; [|apply sat_ptr].
  split; [intro H; discriminate H | split; [intro H; discriminate H|]].
  intros t' Ht. inversion Ht; subst. eapply nth_error_In; eauto.
Qed.

Lemma rhs_sound : forall P e a r o v o', sat tn e a -> p_tn P = tn -> rhs_chk P a r = true ->
  eval_rhs tn e r o = (v, o') -> val_sat tn v (rhs_av a r).
Proof.
  intros P e a r o v o' Hs Htn Hchk He. destruct r as [ | | y | | | y t | y | y ti]; simpl in *.
  - injection He as Hv Ho; subst v o'. apply sat_ptr.
  - injection He as Hv Ho; subst v o'. apply sat_nil.
  - injection He as Hv Ho; subst v o'. exact (Hs y).
  - destruct (pop o) as [k o'']. injection He as Hv Ho; subst v o'. exact (pick_sat k false).
  - destruct (pop o) as [k o'']. injection He as Hv Ho; subst v o'. exact (pick_sat k true).
  - injection He as Hv Ho; subst v o'. destruct (Hs y) as [H1 [H2 H3]]. unfold a_get in *. simpl in *. split; [|split].
    + intros _. destruct (e y); discriminate.
    + intro H. apply andb_true_iff in H. destruct H as [Ha Hb]. specialize (H1 Ha). specialize (H2 Hb).
      destruct (e y); simpl in *; congruence.
    + intros t' Ht. destruct (e y) eqn:Ey; simpl in Ht.
      * injection Ht as Ht; subst t'. rewrite Htn in Hchk. apply orb_true_iff in Hchk. destruct Hchk as [Hn | Hm].
        -- exfalso. apply (H1 Hn). reflexivity.
        -- apply mem_In. exact Hm.
      * apply H3. exact Ht.
      * discriminate Ht.
  - injection He as Hv Ho; subst v o'. destruct (Hs y) as [H1 [H2 H3]]. unfold a_get in *. simpl in *. split; [|split].
    + intro H. apply andb_true_iff in H. destruct H as [Ha Hb]. specialize (H1 Ha). specialize (H2 Hb).
      destruct (e y); simpl in *; congruence.
    + intros _. destruct (e y); reflexivity.
    + intros t' Ht. destruct (e y); discriminate Ht.
  - injection He as Hv Ho; subst v o'. destruct (Hs y) as [H1 [H2 H3]]. unfold a_get in *. simpl in *. split; [|split].
    + intro H. apply andb_true_iff in H. destruct H as [Ha Hb]. specialize (H1 Ha).
      destruct (e y) eqn:Ey; simpl; try congruence.
      destruct ti; simpl in *; [discriminate | specialize (H2 Hb); discriminate H2].
    + intro H. destruct (e y) eqn:Ey; simpl; try reflexivity.
      destruct ti; simpl in *; [specialize (H2 H); discriminate H2 | reflexivity].
    + intros t' Ht. destruct (e y) eqn:Ey; simpl in Ht; try discriminate Ht.
      destruct ti; [apply H3; exact Ht | discriminate Ht].
Qed.

Lemma av_ok_sat : forall req got v, av_ok req got = true -> val_sat tn v got -> val_sat tn v req.
Proof.
  intros [r1 r2] [g1 g2] v H [H1 [H2 H3]]. unfold av_ok in H. simpl in *. apply andb_true_iff in H. destruct H as [Ha Hb].
  split; [|split].
  - intro Hr; simpl in Hr; subst. apply H1. destruct g1; [reflexivity | simpl in Ha; discriminate Ha].
  - intro Hr; simpl in Hr; subst. apply H2. destruct g2; [reflexivity | simpl in Hb; discriminate Hb].
  - exact H3.
Qed.

Lemma all2_sat : forall e a reqs gs, sat tn e a -> all2 av_ok reqs (map (arg_av a) gs) = true ->
  Forall2 (val_sat tn) (map (eval_arg e) gs) reqs.
Proof.
  intros e a reqs. induction reqs as [|q reqs IH]; intros gs Hs H; destruct gs as [|g gs]; simpl in *; try discriminate.
  - constructor.
  - apply andb_true_iff in H. destruct H as [H1 H2]. constructor.
    + eapply av_ok_sat; eauto. apply arg_sound; assumption.
    + apply IH; assumption.
Qed.

Lemma assign_sat : forall rets vals rs e a, sat tn e a -> Forall2 (val_sat tn) vals rs ->
  sat tn (assign rets vals e) (assign_av a rets rs).
Proof.
  induction rets as [|r rets IH]; intros vals rs e a Hs HF.
  - simpl. exact Hs.
  - destruct r as [x|]; simpl.
    + inversion HF as [|v q vs qs Hv HF']; subst; [exact Hs|]. apply IH; [apply sat_set; assumption | assumption].
    + inversion HF as [|v q vs qs Hv HF']; subst; [exact Hs|]. apply IH; assumption.
Qed.

(* the entry annotation only speaks about parameters, whose values meet the spec *)
Lemma entry_sat' : forall ps vals i, Forall2 (val_sat tn) vals ps ->
  forall x, val_sat tn (if N.ltb x i then VPtr else nth (N.to_nat (x - i)) vals VNil) (a_get (entry_ann i ps) x).
Proof.
  induction ps as [|q ps IH]; intros vals i HF x.
  - inversion HF. simpl. unfold a_get, has. simpl. rewrite ?N.bits_0.
    destruct (N.ltb x i); [apply sat_ptr|]. destruct (N.to_nat (x - i)); apply sat_nil.
  - inversion HF as [|v q' vs qs Hv HF']; subst. simpl entry_ann.
    unfold a_get, a_set. simpl fst. simpl snd. rewrite !has_setb.
    destruct (N.eqb x i) eqn:E.
    + apply N.eqb_eq in E. subst x. rewrite N.ltb_irrefl, N.sub_diag. simpl. exact Hv.
    + specialize (IH vs (N.succ i) HF' x). unfold a_get in IH.
      apply N.eqb_neq in E.
      destruct (N.ltb x i) eqn:L.
      * assert (L' : N.ltb x (N.succ i) = true) by (apply N.ltb_lt; apply N.ltb_lt in L; lia).
        rewrite L' in IH. exact IH.
      * apply N.ltb_ge in L.
        assert (L' : N.ltb x (N.succ i) = false) by (apply N.ltb_ge; lia).
        rewrite L' in IH.
        replace (N.to_nat (x - i)) with (S (N.to_nat (x - N.succ i))) by lia.
        simpl. exact IH.
Qed.

Lemma bind_sat : forall ps vals, Forall2 (val_sat tn) vals ps -> sat tn (bind_params vals) (entry_ann 0 ps).
Proof.
  intros ps vals HF x. pose proof (entry_sat' ps vals 0 HF x) as H.
  assert (L : N.ltb x 0 = false) by (apply N.ltb_ge; lia). rewrite L, N.sub_0_r in H. exact H.
Qed.

End Sat.

(* ---- the invariant ---- *)
Section Sound.
Variable c03 : bool.
Variable P : prog.
Variable allow : list N.
Hypothesis Hchk : check_prog c03 P allow = true.

Let tn := p_tn P.
Let val_sat := val_sat tn.
Let sat := sat tn.

Definition nann (t : node) : ann := (nd_nn t, nd_cl t).

Lemma funcs_ok : forall f g, getf P f = Some g -> check_func c03 P allow g = true.
Proof.
  intros f g Hg. unfold check_prog in Hchk. destruct (getf P (p_main P)); [|discriminate].
  rewrite forallb_forall in Hchk. apply Hchk. unfold getf, nth_N in Hg. eapply nth_error_In; eauto.
Qed.

Lemma node_ok_at : forall g pc t, check_func c03 P allow g = true -> getn g pc = Some t ->
  instr_ok c03 P allow g (nd_instr t) (nann t) = true.
Proof.
  intros g pc t Hc Ht. unfold check_func in Hc. apply andb_true_iff in Hc. destruct Hc as [_ Hc].
  rewrite forallb_forall in Hc. apply (Hc t). unfold getn, nth_N in Ht. eapply nth_error_In; eauto.
Qed.

Lemma edge_sat : forall g n s e, edge g n s = true -> sat e s -> exists t, getn g n = Some t /\ sat e (nann t).
Proof.
  unfold edge, tgt. intros g n s e H Hs. destruct (getn g n) as [t|]; [|discriminate].
  exists t. split; [reflexivity|]. eapply sat_le; eauto.
Qed.

(* a suspended frame resumes correctly for every tuple of results meeting the callee's spec *)
Definition frame_ok (results : list av) (fr : frame) : Prop :=
  exists g, getf P (fr_f fr) = Some g /\
    forall vals, Forall2 val_sat vals results ->
      exists t, getn g (fr_pc fr) = Some t /\ sat (assign (fr_rets fr) vals (fr_env fr)) (nann t).

Fixpoint stack_ok (f : N) (stk : list frame) : Prop :=
  match stk with
  | [] => f = p_main P
  | fr :: stk' => (exists gf, getf P f = Some gf /\ frame_ok (fs_results (fn_spec gf)) fr) /\ stack_ok (fr_f fr) stk'
  end.

Definition conf_ok (c : conf) : Prop :=
  exists g t, getf P (c_f c) = Some g /\ getn g (c_pc c) = Some t /\ sat (c_env c) (nann t) /\
              stack_ok (c_f c) (c_stack c).

Definition main_results : list av :=
  match getf P (p_main P) with Some g => fs_results (fn_spec g) | None => [] end.
Definition main_params : list av :=
  match getf P (p_main P) with Some g => fs_params (fn_spec g) | None => [] end.

Definition outcome_ok (o : outcome) : Prop :=
  match o with
  | Next c => conf_ok c
  | Done vs => Forall2 val_sat vs main_results
  | Halted => True
  | Bad s => In s allow
  | Stuck => False
  end.

Lemma step_ok : forall c, conf_ok c -> outcome_ok (step c03 P c).
Proof.
  intros c [g [t [Hg [Ht [Hs Hstk]]]]].
  pose proof (funcs_ok _ _ Hg) as Hcf.
  pose proof (node_ok_at _ _ _ Hcf Ht) as Hi.
  unfold step. rewrite Hg, Ht.
  destruct (nd_instr t) as [x r n | x n1 n2 | x y ti tgt n1 n2 | x s n | x m s n | f args rets n | n1 n2 | rs | ]; simpl in Hi.
  - (* ISet *)
    apply andb_true_iff in Hi. destruct Hi as [Hrc Hi].
    destruct (eval_rhs (p_tn P) (c_env c) r (c_orc c)) as [v o] eqn:Er.
    destruct (edge_sat _ _ _ (upd (c_env c) x v) Hi) as [t' [Ht' Hs']].
    { apply sat_set; [assumption | eapply (rhs_sound tn P); eauto]. }
    simpl. exists g, t'. simpl. auto.
  - (* IGuard *)
    apply andb_true_iff in Hi. destruct Hi as [H1 H2].
    destruct (c_env c x) eqn:Ex.
    + apply orb_true_iff in H2. destruct H2 as [H2 | H2].
      { exfalso. destruct (Hs x) as [Hn _]. apply (Hn H2). exact Ex. }
      destruct (edge_sat _ _ _ (c_env c) H2) as [t' [Ht' Hs']].
      { apply sat_set_same; [assumption|]. rewrite Ex. apply sat_nil. }
      simpl. exists g, t'. simpl. auto.
    + destruct (edge_sat _ _ _ (c_env c) H1) as [t' [Ht' Hs']].
      { apply (sat_setnn tn (c_env c) (nann t)); [assumption | rewrite Ex; discriminate]. }
      simpl. exists g, t'. simpl. auto.
    + destruct (edge_sat _ _ _ (c_env c) H1) as [t' [Ht' Hs']].
      { apply (sat_setnn tn (c_env c) (nann t)); [assumption | rewrite Ex; discriminate]. }
      simpl. exists g, t'. simpl. auto.
  - (* ITypeTest *)
    apply andb_true_iff in Hi. destruct Hi as [H1 H2].
    assert (Hfail : forall o, outcome_ok (Next (mkConf (c_f c) n2 (upd (c_env c) x VNil) o (c_stack c)))).
    { intro o. destruct (edge_sat _ _ _ (upd (c_env c) x VNil) H2) as [t' [Ht' Hs']].
      { apply sat_set; [assumption|]. apply sat_nil. }
      simpl. exists g, t'. simpl. auto. }
    (* a successful test: y is not nil, and if y is a typed nil and the target is a pointer type, it is that type *)
    assert (Hok : forall o, c_env c y <> VNil ->
               (forall t' T, c_env c y = VTNil t' -> tgt = Some T -> t' = T) ->
               outcome_ok (Next (mkConf (c_f c) n1 (upd (c_env c) x (assertv ti (c_env c y))) o (c_stack c)))).
    { intros o Hy Hty. destruct (edge_sat _ _ _ (upd (c_env c) x (assertv ti (c_env c y))) H1) as [t' [Ht' Hs']].
      { apply (sat_set tn (c_env c) (N.setbit (nd_nn t) y, nd_cl t)); [apply (sat_setnn tn (c_env c) (nann t)); assumption|].
        destruct (Hs y) as [_ [Hcl Htn]]. unfold a_get, nann in Hcl. simpl in Hcl.
        destruct (c_env c y) as [|ty|] eqn:Ey; simpl.
        - congruence.
        - destruct ti; simpl.
          + split; [intros _; discriminate | split; [intro H; specialize (Hcl H); discriminate Hcl | exact Htn]].
          + split; [|split; [reflexivity | apply tn_ok_nil]].
            intro H. exfalso. apply orb_true_iff in H. destruct H as [H | H].
            * specialize (Hcl H). discriminate Hcl.
            * destruct tgt as [T|]; [|discriminate H]. apply negb_true_iff in H.
              rewrite <- (Hty ty T eq_refl eq_refl) in H.
              assert (Hin : In ty tn) by (apply Htn; reflexivity).
              unfold mem in H. assert (Hex : existsb (N.eqb ty) (p_tn P) = true).
              { apply existsb_exists. exists ty. split; [exact Hin | apply N.eqb_refl]. }
              rewrite Hex in H. discriminate H.
        - apply sat_ptr. }
      simpl. exists g, t'. simpl. auto. }
    destruct (c_env c y) as [|ty|] eqn:Ey.
    + destruct tgt; apply Hfail.
    + destruct tgt as [T|].
      * destruct (N.eqb ty T) eqn:ET; [|apply Hfail].
        apply N.eqb_eq in ET. subst T. apply Hok; [discriminate|].
        intros t' T' H1' H2'. inversion H1'; inversion H2'; subst; reflexivity.
      * destruct (pop (c_orc c)) as [k o]. destruct (N.eqb k 0); [apply Hfail | apply Hok; [discriminate|]].
        intros t' T' _ H2'. discriminate H2'.
    + assert (Hp : forall o, outcome_ok (Next (mkConf (c_f c) n1 (upd (c_env c) x (assertv ti VPtr)) o (c_stack c)))).
      { intro o. apply Hok; [discriminate|]. intros t' T' H1'. discriminate H1'. }
      destruct tgt; destruct (pop (c_orc c)) as [k o]; destruct (N.eqb k 0); try apply Hfail; apply Hp.
  - (* IUse *)
    apply andb_true_iff in Hi. destruct Hi as [H1 H2].
    destruct (c_env c x) as [|tx|] eqn:Ex.
    + simpl. apply orb_true_iff in H1. destruct H1 as [H1 | H1]; [|apply mem_In; assumption].
      apply andb_true_iff in H1. destruct H1 as [Ha _]. destruct (Hs x) as [Hn _]. exfalso. apply (Hn Ha). exact Ex.
    + simpl. apply orb_true_iff in H1. destruct H1 as [H1 | H1]; [|apply mem_In; assumption].
      apply andb_true_iff in H1. destruct H1 as [_ Hb]. destruct (Hs x) as [_ [Hn _]]. exfalso.
      specialize (Hn Hb). rewrite Ex in Hn. discriminate Hn.
    + destruct (edge_sat _ _ _ (c_env c) H2) as [t' [Ht' Hs']].
      { apply sat_set_same; [assumption|]. rewrite Ex. apply sat_ptr. }
      simpl. exists g, t'. simpl. auto.
  - (* IStore *)
    apply andb_true_iff in Hi. destruct Hi as [H1 H2].
    destruct (store_bad c03 m (c_env c x)) eqn:Eb.
    + simpl. apply orb_true_iff in H1. destruct H1 as [H1 | H1]; [|apply mem_In; assumption].
      exfalso. destruct (Hs x) as [Hn [Hc _]]. unfold a_get, nann in Hn, Hc. simpl in Hn, Hc.
      destruct m; simpl in H1, Eb.
      * apply andb_true_iff in H1. destruct H1 as [Ha Hb]. specialize (Hn Ha). specialize (Hc Hb).
        destruct (c_env c x); simpl in *; congruence.
      * specialize (Hc H1). destruct (c_env c x); simpl in *; congruence.
      * destruct (c_env c x); try discriminate. subst c03. simpl in H1. specialize (Hc H1). simpl in Hc. discriminate Hc.
    + destruct (edge_sat _ _ _ (c_env c) H2) as [t' [Ht' Hs']].
      { destruct m; simpl.
        - apply sat_set_same; [assumption|]. simpl in Eb. destruct (c_env c x); try discriminate. apply sat_ptr.
        - apply (sat_setcl tn (c_env c) (nann t)); [assumption|]. simpl in Eb. destruct (c_env c x); try discriminate; reflexivity.
        - assumption. }
      simpl. exists g, t'. simpl. auto.
  - (* ICall *)
    destruct (getf P f) as [fn'|] eqn:Ef; [|discriminate].
    apply andb_true_iff in Hi. destruct Hi as [Hi H3]. apply andb_true_iff in Hi. destruct Hi as [H1 H2].
    pose proof (funcs_ok _ _ Ef) as Hcf'.
    assert (He : entry_ok fn' = true).
    { unfold check_func in Hcf'. apply andb_true_iff in Hcf'. exact (proj1 Hcf'). }
    unfold entry_ok in He.
    destruct (edge_sat _ _ _ (bind_params (map (eval_arg (c_env c)) args)) He) as [t' [Ht' Hs']].
    { apply bind_sat. eapply all2_sat; eauto. }
    simpl. exists fn', t'. simpl. split; [exact Ef|]. split; [exact Ht'|]. split; [exact Hs'|].
    split; [|exact Hstk].
    exists fn'. split; [exact Ef|]. exists g. simpl. split; [exact Hg|].
    intros vals HF.
    destruct (edge_sat _ _ _ (assign rets vals (c_env c)) H3) as [t'' [Ht'' Hs'']].
    { apply assign_sat; assumption. }
    exists t''. auto.
  - (* IBranch *)
    apply andb_true_iff in Hi. destruct Hi as [H1 H2].
    destruct (pop (c_orc c)) as [k o]. destruct (N.eqb k 0).
    + destruct (edge_sat _ _ _ (c_env c) H2) as [t' [Ht' Hs']]; [assumption|]. simpl. exists g, t'. simpl. auto.
    + destruct (edge_sat _ _ _ (c_env c) H1) as [t' [Ht' Hs']]; [assumption|]. simpl. exists g, t'. simpl. auto.
  - (* IRet *)
    pose proof (all2_sat tn _ _ _ _ Hs Hi) as HF.
    destruct (c_stack c) as [|fr stk] eqn:Estk.
    + simpl. simpl in Hstk. unfold main_results. rewrite <- Hstk, Hg. exact HF.
    + simpl in Hstk. destruct Hstk as [[gf [Hgf Hfr]] Hrest].
      rewrite Hg in Hgf. inversion Hgf; subst gf.
      destruct Hfr as [g' [Hg' Hres]]. destruct (Hres _ HF) as [t' [Ht' Hs']].
      simpl. exists g', t'. simpl. auto.
  - (* IHalt *)
    exact I.
Qed.

Lemma run_ok : forall n c, conf_ok c -> outcome_ok (run c03 P n c).
Proof.
  induction n as [|n IH]; intros c Hc; simpl.
  - exact Hc.
  - pose proof (step_ok c Hc) as Hs. destruct (step c03 P c) as [c' | vs | | s |]; auto.
Qed.

Lemma init_ok : forall args orc, Forall2 val_sat args main_params -> conf_ok (init P args orc).
Proof.
  intros args orc HF. unfold init, main_params in *.
  destruct (getf P (p_main P)) as [g|] eqn:Eg.
  - pose proof (funcs_ok _ _ Eg) as Hcf. unfold check_func in Hcf. apply andb_true_iff in Hcf.
    destruct Hcf as [He _]. unfold entry_ok in He.
    destruct (edge_sat _ _ _ (bind_params args) He) as [t [Ht Hs]]; [apply (bind_sat tn); assumption|].
    exists g, t. simpl. auto.
  - unfold check_prog in Hchk. rewrite Eg in Hchk. discriminate.
Qed.

(* Main theorem *)
Theorem check_sound : forall args orc n, Forall2 val_sat args main_params ->
  outcome_ok (run c03 P n (init P args orc)).
Proof. intros args orc n HF. apply run_ok. apply init_ok. exact HF. Qed.

(* every function that returns, returns values meeting its spec *)
Theorem ret_sound : forall c g t rs, conf_ok c -> getf P (c_f c) = Some g -> getn g (c_pc c) = Some t ->
  nd_instr t = IRet rs -> Forall2 val_sat (map (eval_arg (c_env c)) rs) (fs_results (fn_spec g)).
Proof.
  intros c g t rs [g' [t' [Hg' [Ht' [Hs _]]]]] Hg Ht Hi.
  rewrite Hg in Hg'. inversion Hg'; subst g'. rewrite Ht in Ht'. inversion Ht'; subst t'.
  pose proof (node_ok_at _ _ _ (funcs_ok _ _ Hg) Ht) as Hok. rewrite Hi in Hok. simpl in Hok.
  eapply (all2_sat tn); eauto.
Qed.

End Sound.

(* arguments that are all usable meet any parameter spec of the same length *)
Lemma all_ptr_sat : forall tn ps, Forall2 (val_sat tn) (map (fun _ => VPtr) ps) ps.
Proof. induction ps; simpl; constructor; auto. apply sat_ptr. Qed.

(* ---- the statements used by Properties/C01_nil.v and C03_nil.v ---- *)

(* the entry function is called with usable arguments (Parse(ctx, r) with non-nil ctx and r) *)
Definition ptr_args (P : prog) : list val := map (fun _ => VPtr) (main_params P).

(* what a value guaranteed (nn, cl) can be *)
Definition meets (P : prog) (v : val) (q : av) : Prop := val_sat (p_tn P) v q.

Theorem nil_safe : forall c03 P allow, check_prog c03 P allow = true -> forall orc n,
  match run c03 P n (init P (ptr_args P) orc) with
  | Bad s => In s allow
  | Stuck => False
  | Done vs => Forall2 (meets P) vs (main_results P)
  | Halted => True
  | Next _ => True
  end.
Proof.
  intros c03 P allow H orc n.
  pose proof (check_sound c03 P allow H (ptr_args P) orc n (all_ptr_sat (p_tn P) (main_params P))) as Hs.
  destruct (run c03 P n (init P (ptr_args P) orc)); simpl in Hs; auto.
Qed.

(* whenever a function of the program returns, the returned values meet its result spec *)
Theorem returns_meet_spec : forall c03 P allow, check_prog c03 P allow = true -> forall orc n c,
  run c03 P n (init P (ptr_args P) orc) = Next c ->
  forall g t rs, getf P (c_f c) = Some g -> getn g (c_pc c) = Some t -> nd_instr t = IRet rs ->
  Forall2 (meets P) (map (eval_arg (c_env c)) rs) (fs_results (fn_spec g)).
Proof.
  intros c03 P allow H orc n c Hr g t rs Hg Ht Hi.
  pose proof (check_sound c03 P allow H (ptr_args P) orc n (all_ptr_sat (p_tn P) (main_params P))) as Hs.
  rewrite Hr in Hs. simpl in Hs. eapply ret_sound; eauto.
Qed.

(* a function whose spec declares every result clean never returns a typed nil *)
Definition spec_clean (P : prog) (f : N) : bool :=
  match getf P f with Some g => forallb snd (fs_results (fn_spec g)) | None => false end.

Theorem clean_results : forall c03 P allow f, check_prog c03 P allow = true -> spec_clean P f = true ->
  forall orc n c, run c03 P n (init P (ptr_args P) orc) = Next c -> c_f c = f ->
  forall g t rs, getf P f = Some g -> getn g (c_pc c) = Some t -> nd_instr t = IRet rs ->
  Forall (fun v => tnil v = false) (map (eval_arg (c_env c)) rs).
Proof.
  intros c03 P allow f H Hc orc n c Hr Hf g t rs Hg Ht Hi. subst f.
  pose proof (returns_meet_spec c03 P allow H orc n c Hr g t rs Hg Ht Hi) as HF.
  unfold spec_clean in Hc. rewrite Hg in Hc.
  revert Hc. induction HF as [|v q vs qs' Hv HF IH]; intro Hc; [constructor|].
  simpl in Hc. apply andb_true_iff in Hc. destruct Hc as [Hq Hc].
  constructor; [apply (proj1 (proj2 Hv)); exact Hq | apply IH; exact Hc].
Qed.
