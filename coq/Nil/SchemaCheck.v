(* C03: json.Marshal of a parser-built tree succeeds.

   encoding/json.Marshal walks a value guided by its type.  It fails in exactly these ways:
     (a) UnsupportedTypeError  - a chan, func, complex or unsafe.Pointer value, or a map whose key type is
                                 neither a string, an integer nor a TextMarshaler;
     (b) UnsupportedValueError - a NaN or infinite float, or a pointer cycle ("encountered a cycle", after
                                 1000 nested pointers/slices/maps);
     (c) MarshalerError        - a MarshalJSON/MarshalText method returns an error or invalid JSON.
   (Invalid UTF-8 in strings is replaced, never an error; nil pointers, slices, maps and interfaces
   encode as null.)

   Model.  [jval] is a tree-shaped picture of a Go value: [VBack] stands for a pointer to an object
   that is already being encoded higher up (the only way a cycle can show up during the walk), [VFloat
   false] for a NaN/Inf float, [VOpaque] for a value of an unsupported type.  [wt S impls v t] says that
   v is a value of type t for the schema S (struct declarations) and the closed world [impls] of dynamic
   types behind each interface.  [marshal_ok S v] is the walk of encoding/json: it fails on VBack, on a
   non-finite float and on VOpaque; a struct with the custom marshaller shape (s_fix = Some i) encodes a
   float held directly by field i as a string and everything else as usual.

   Theorem [schema_sound]: if the boolean check [schema_ok] holds for the schema, every well-typed value
   without VBack is encoded successfully -- i.e. for the ast package json.Marshal can fail only on a
   cyclic value; a non-finite float cannot make it fail because floats occur only directly behind
   Literal.Value, where the custom marshaller replaces them.

   Why parser-built trees are acyclic (not proved here; the harness walks every accepted tree): every
   node is created by one `&ast.T{...}` expression (an Alloc site of Gen/ParserNil.v) and becomes
   reachable from another node only by being stored into a field or appended to a list of a node that
   is created at the same time or was created earlier and is still under construction by the same or an
   enclosing parse function; the stored value is the fresh result of a parse call or a local that
   was itself obtained that way.  No parse function receives or reads back an enclosing (ancestor) node:
   the `create`/`sel`/`asterisk`/`matcher`/`fn` parameters are filled in, never stored into one of
   their own descendants, and there are no parent pointers in package ast.  A child can be shared
   (wrapWithAlias stores `expr` into a new AliasedExpr while the caller drops its own reference), which
   makes the structure a DAG at worst, never a cycle. *)
From Coq Require Import List String Bool Arith.
From DC Require Import Nil.SchemaLang.
Import ListNotations.
Local Open Scope string_scope.

Inductive jval :=
| VStr | VBool | VInt
| VFloat (finite : bool)
| VNull                          (* nil pointer, slice, map or interface *)
| VRef (v : jval)                (* non-nil pointer *)
| VBack                          (* pointer to an object that is being encoded: a cycle *)
| VList (vs : list jval)         (* elements of a slice, array or map *)
| VRec (n : string) (fs : list jval)   (* struct of type n: its fields in declaration order *)
| VDyn (t : jtype) (v : jval)    (* interface holding a value of dynamic type t *)
| VOpaque.                       (* chan, func, complex, unsafe.Pointer *)

Definition any_name : string := "interface{}".

Section Schema.
Variable S : list sdecl.
Variable impls : list (string * list jtype).   (* named interfaces *)
Variable anys : list jtype.                     (* dynamic types stored into interface{} cells *)

Definition lookup (n : string) : option sdecl := find (fun d => String.eqb (s_name d) n) S.
Definition impls_of (n : string) : option (list jtype) :=
  if String.eqb n any_name then Some anys
  else match find (fun p => String.eqb (fst p) n) impls with Some p => Some (snd p) | None => None end.

Fixpoint jtype_eqb (a b : jtype) : bool :=
  match a, b with
  | JStr, JStr | JBool, JBool | JInt, JInt | JFloat, JFloat => true
  | JPtr x, JPtr y | JSlice x, JSlice y => jtype_eqb x y
  | JMap k x, JMap l y => jtype_eqb k l && jtype_eqb x y
  | JStruct n, JStruct m | JIface n, JIface m => String.eqb n m
  | JChan, JChan | JFunc, JFunc | JComplex, JComplex | JUnsafe, JUnsafe => true
  | _, _ => false
  end.

Lemma jtype_eqb_eq : forall a b, jtype_eqb a b = true -> a = b.
Proof.
  induction a; destruct b; simpl; intro H; try discriminate; try reflexivity.
  - f_equal. auto.
  - f_equal. auto.
  - apply andb_true_iff in H. destruct H. f_equal; auto.
  - apply String.eqb_eq in H. subst. reflexivity.
  - apply String.eqb_eq in H. subst. reflexivity.
Qed.

(* ---- typing ---- *)
Fixpoint wt (v : jval) (t : jtype) {struct v} : bool :=
  match v, t with
  | VStr, JStr | VBool, JBool | VInt, JInt | VFloat _, JFloat => true
  | VNull, (JPtr _ | JSlice _ | JMap _ _ | JIface _) => true
  | VRef v', JPtr t' => wt v' t'
  | VBack, JPtr _ => true
  | VList vs, (JSlice t' | JMap _ t') =>
      (fix all (l : list jval) : bool := match l with [] => true | x :: l' => wt x t' && all l' end) vs
  | VRec n fs, JStruct m =>
      String.eqb n m &&
      match lookup n with
      | None => false
      | Some d =>
          (fix go (l : list jval) (ds : list field) : bool :=
             match l, ds with
             | [], [] => true
             | x :: l', f :: ds' => wt x (f_type f) && go l' ds'
             | _, _ => false
             end) fs (s_fields d)
      end
  | VDyn t' v', JIface n =>
      match impls_of n with
      | Some ts => existsb (jtype_eqb t') ts && wt v' t'
      | None => false
      end
  | VOpaque, (JChan | JFunc | JComplex | JUnsafe) => true
  | _, _ => false
  end.

(* ---- the walk of encoding/json ---- *)
Definition is_float_dyn (v : jval) : bool :=
  match v with VDyn JFloat (VFloat _) => true | _ => false end.
Definition fixed_here (fx : option nat) (i : nat) (v : jval) : bool :=
  match fx with Some j => Nat.eqb i j && is_float_dyn v | None => false end.

Fixpoint marshal_ok (v : jval) : bool :=
  match v with
  | VStr | VBool | VInt | VNull => true
  | VFloat finite => finite
  | VRef v' => marshal_ok v'
  | VBack => false
  | VList vs => (fix all (l : list jval) : bool := match l with [] => true | x :: l' => marshal_ok x && all l' end) vs
  | VRec n fs =>
      match lookup n with
      | None => false
      | Some d =>
          (fix go (i : nat) (l : list jval) (ds : list field) : bool :=
             match l, ds with
             | [], [] => true
             | x :: l', f :: ds' => (f_skip f || fixed_here (s_fix d) i x || marshal_ok x) && go (Datatypes.S i) l' ds'
             | _, _ => false
             end) 0 fs (s_fields d)
      end
  | VDyn _ v' => marshal_ok v'
  | VOpaque => false
  end.

Fixpoint noback (v : jval) : bool :=
  match v with
  | VBack => false
  | VRef v' | VDyn _ v' => noback v'
  | VList vs | VRec _ vs => (fix all (l : list jval) : bool := match l with [] => true | x :: l' => noback x && all l' end) vs
  | _ => true
  end.

(* ---- the check ---- *)
Definition is_some {A : Type} (o : option A) : bool := match o with Some _ => true | None => false end.

(* a type whose values encoding/json can always encode (given that the structs and interfaces it names are fine) *)
Fixpoint tfine (t : jtype) : bool :=
  match t with
  | JStr | JBool | JInt => true
  | JFloat => false
  | JPtr t' | JSlice t' => tfine t'
  | JMap k t' => (match k with JStr | JInt => true | _ => false end) && tfine t'
  | JStruct n => is_some (lookup n)
  | JIface n => negb (String.eqb n any_name) && is_some (impls_of n)
  | JChan | JFunc | JComplex | JUnsafe => false
  end.

Definition is_any (t : jtype) : bool := match t with JIface n => String.eqb n any_name | _ => false end.

Fixpoint fields_ok (fx : option nat) (i : nat) (ds : list field) : bool :=
  match ds with
  | [] => true
  | f :: ds' =>
      (f_skip f ||
       match fx with
       | Some j => if Nat.eqb i j then is_any (f_type f) else tfine (f_type f)
       | None => tfine (f_type f)
       end) && fields_ok fx (Datatypes.S i) ds'
  end.

Definition decl_ok (d : sdecl) : bool :=
  (* a custom marshaller must have the recognised shape; the shape is only claimed for custom marshallers *)
  (if s_custom d then is_some (s_fix d) else negb (is_some (s_fix d))) &&
  fields_ok (s_fix d) 0 (s_fields d).

Definition any_ok (t : jtype) : bool := match t with JFloat => true | _ => tfine t end.

Definition schema_ok : bool :=
  forallb decl_ok S && forallb (fun p => forallb tfine (snd p)) impls && forallb any_ok anys &&
  negb (existsb (fun p => String.eqb (fst p) any_name) impls).

End Schema.

(* ---- induction principle for the nested type ---- *)
Section JvalInd.
Variable P : jval -> Prop.
Hypothesis HStr : P VStr.
Hypothesis HBool : P VBool.
Hypothesis HInt : P VInt.
Hypothesis HFloat : forall b, P (VFloat b).
Hypothesis HNull : P VNull.
Hypothesis HRef : forall v, P v -> P (VRef v).
Hypothesis HBack : P VBack.
Hypothesis HList : forall vs, Forall P vs -> P (VList vs).
Hypothesis HRec : forall n fs, Forall P fs -> P (VRec n fs).
Hypothesis HDyn : forall t v, P v -> P (VDyn t v).
Hypothesis HOpaque : P VOpaque.

Fixpoint jval_ind' (v : jval) : P v :=
  match v with
  | VStr => HStr | VBool => HBool | VInt => HInt | VFloat b => HFloat b | VNull => HNull
  | VRef v' => HRef v' (jval_ind' v')
  | VBack => HBack
  | VList vs => HList vs ((fix f (l : list jval) : Forall P l :=
                             match l with [] => Forall_nil P | x :: l' => Forall_cons x (jval_ind' x) (f l') end) vs)
  | VRec n fs => HRec n fs ((fix f (l : list jval) : Forall P l :=
                             match l with [] => Forall_nil P | x :: l' => Forall_cons x (jval_ind' x) (f l') end) fs)
  | VDyn t v' => HDyn t v' (jval_ind' v')
  | VOpaque => HOpaque
  end.
End JvalInd.

Section Sound.
Variable S : list sdecl.
Variable impls : list (string * list jtype).
Variable anys : list jtype.
Hypothesis Hok : schema_ok S impls anys = true.

Let wt := wt S impls anys.
Let tfine := tfine S impls anys.
Let marshal_ok := marshal_ok S.

Lemma decls_ok : forall n d, lookup S n = Some d -> decl_ok S impls anys d = true.
Proof.
  intros n d H. unfold schema_ok in Hok.
  apply andb_true_iff in Hok. destruct Hok as [H1 _]. apply andb_true_iff in H1. destruct H1 as [H1 _].
  apply andb_true_iff in H1. destruct H1 as [H1 _].
  rewrite forallb_forall in H1. apply H1. unfold lookup in H. apply find_some in H. exact (proj1 H).
Qed.

Lemma impl_types_fine : forall n ts t, negb (String.eqb n any_name) = true -> impls_of impls anys n = Some ts ->
  existsb (jtype_eqb t) ts = true -> tfine t = true.
Proof.
  intros n ts t Hn Hi He. unfold impls_of in Hi.
  destruct (String.eqb n any_name); [discriminate|].
  destruct (find (fun p => String.eqb (fst p) n) impls) as [p|] eqn:Ef; [|discriminate].
  inversion Hi; subst ts. apply find_some in Ef. destruct Ef as [Hin _].
  unfold schema_ok in Hok. apply andb_true_iff in Hok. destruct Hok as [H1 _].
  apply andb_true_iff in H1. destruct H1 as [H1 _]. apply andb_true_iff in H1. destruct H1 as [_ H2].
  rewrite forallb_forall in H2. specialize (H2 p Hin). rewrite forallb_forall in H2.
  apply existsb_exists in He. destruct He as [t' [Hin' Heq]]. apply jtype_eqb_eq in Heq. subst t'.
  apply H2. exact Hin'.
Qed.

Lemma any_types_ok : forall t, existsb (jtype_eqb t) anys = true -> any_ok S impls anys t = true.
Proof.
  intros t He. unfold schema_ok in Hok. apply andb_true_iff in Hok. destruct Hok as [H1 _].
  apply andb_true_iff in H1. destruct H1 as [_ H3]. rewrite forallb_forall in H3.
  apply existsb_exists in He. destruct He as [t' [Hin Heq]]. apply jtype_eqb_eq in Heq. subst t'. auto.
Qed.

(* the statement proved by induction on the value *)
Definition good (v : jval) : Prop :=
  (forall t, tfine t = true -> wt v t = true -> noback v = true -> marshal_ok v = true) /\
  (wt v (JIface any_name) = true -> noback v = true -> is_float_dyn v = true \/ marshal_ok v = true).

Lemma good_all : forall v, good v.
Proof.
  apply jval_ind'; unfold good.
  - split; intros; reflexivity || (right; reflexivity).
  - split; intros; reflexivity || (right; reflexivity).
  - split; intros; reflexivity || (right; reflexivity).
  - intro b. split.
    + intros t Ht Hw _. destruct t; simpl in *; discriminate.
    + intro Hw. simpl in Hw. discriminate.
  - split; intros; reflexivity || (right; reflexivity).
  - intros v [IH _]. split.
    + intros t Ht Hw Hn. destruct t; simpl in Hw; try discriminate. simpl. apply (IH t); assumption.
    + intro Hw. simpl in Hw. discriminate.
  - split.
    + intros t _ _ Hn. simpl in Hn. discriminate.
    + intros _ Hn. simpl in Hn. discriminate.
  - intros vs HF. split.
    + intros t Ht Hw Hn.
      assert (He : exists t', tfine t' = true /\
                (fix all (l : list jval) : bool := match l with [] => true | x :: l' => wt x t' && all l' end) vs = true).
      { destruct t; simpl in Hw; try discriminate.
        - exists t. split; [exact Ht | exact Hw].
        - exists t2. split; [|exact Hw]. simpl in Ht. apply andb_true_iff in Ht. exact (proj2 Ht). }
      destruct He as [t' [Ht' Hall]]. clear Hw Ht. simpl in Hn. simpl.
      induction HF as [|x l Hx HF IH]; [reflexivity|].
      apply andb_true_iff in Hall. destruct Hall as [Hw1 Hw2].
      apply andb_true_iff in Hn. destruct Hn as [Hn1 Hn2].
      apply andb_true_iff. split; [apply (proj1 Hx t'); assumption | apply IH; assumption].
    + intro Hw. simpl in Hw. discriminate.
  - intros n fs HF. split.
    + intros t Ht Hw Hn. destruct t; simpl in Hw; try discriminate.
      apply andb_true_iff in Hw. destruct Hw as [_ Hw].
      simpl. destruct (lookup S n) as [d|] eqn:El; [|discriminate].
      pose proof (decls_ok _ _ El) as Hd. unfold decl_ok in Hd. apply andb_true_iff in Hd. destruct Hd as [_ Hf].
      simpl in Hn. revert Hw Hn Hf. generalize (s_fields d) as ds. generalize 0 as i.
      induction HF as [|x l Hx HF IH]; intros i ds Hw Hn Hf.
      * destruct ds; [reflexivity | discriminate].
      * destruct ds as [|f ds]; [discriminate|].
        apply andb_true_iff in Hw. destruct Hw as [Hw1 Hw2].
        apply andb_true_iff in Hn. destruct Hn as [Hn1 Hn2].
        simpl in Hf. apply andb_true_iff in Hf. destruct Hf as [Hf1 Hf2].
        apply andb_true_iff. split; [|apply IH; assumption].
        destruct (f_skip f); [reflexivity|]. simpl in Hf1. simpl.
        destruct (s_fix d) as [j|]; simpl.
        -- destruct (Nat.eqb i j).
           ++ unfold is_any in Hf1. destruct (f_type f) eqn:Eft; try discriminate.
              apply String.eqb_eq in Hf1. rewrite Hf1 in Hw1.
              destruct (proj2 Hx Hw1 Hn1) as [Hfl | Hm].
              ** rewrite Hfl. reflexivity.
              ** rewrite Hm. apply orb_true_r.
           ++ simpl. apply (proj1 Hx (f_type f)); assumption.
        -- apply (proj1 Hx (f_type f)); assumption.
    + intro Hw. simpl in Hw. discriminate.
  - intros t v [IH _]. split.
    + intros t0 Ht Hw Hn. destruct t0; simpl in Hw; try discriminate.
      simpl in Ht. apply andb_true_iff in Ht. destruct Ht as [Hna Hsome].
      destruct (impls_of impls anys n) as [ts|] eqn:Ei; [|discriminate].
      apply andb_true_iff in Hw. destruct Hw as [He Hw].
      simpl. apply (IH t); [eapply impl_types_fine; eauto | exact Hw | exact Hn].
    + intros Hw Hn. simpl in Hw. unfold impls_of in Hw. simpl in Hw.
      apply andb_true_iff in Hw. destruct Hw as [He Hw].
      pose proof (any_types_ok _ He) as Ha. unfold any_ok in Ha.
      destruct t; try (right; simpl; apply (IH _ Ha Hw Hn)).
      left. destruct v; simpl in Hw; try discriminate. reflexivity.
  - split.
    + intros t Ht Hw _. destruct t; simpl in *; discriminate.
    + intro Hw. simpl in Hw. discriminate.
Qed.

Theorem schema_sound : forall v t, tfine t = true -> wt v t = true -> noback v = true -> marshal_ok v = true.
Proof. intros v t. exact (proj1 (good_all v) t). Qed.

(* json.Marshal of a well-typed value can fail only on a cycle *)
Corollary marshal_fails_only_on_cycle : forall v t, tfine t = true -> wt v t = true ->
  marshal_ok v = false -> noback v = false.
Proof.
  intros v t Ht Hw Hm. destruct (noback v) eqn:En; [|reflexivity].
  rewrite (schema_sound v t Ht Hw En) in Hm. discriminate.
Qed.

End Sound.
