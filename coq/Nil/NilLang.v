(* C01/C03 (layer G, whole parser): the language of nil-flow graphs.
   Generated instance: DC.Gen.ParserNil (by /verif/translator/cmd/nilgen).  Definitions only.

   One graph per Go function.  Variables are the parameters (receiver first; variables 0..k-1), the
   results, the locals and the translator's temporaries of pointer, interface, slice, map, chan or func
   type -- everything that can be nil.  Heap cells (struct fields, slice elements) are not variables:
   reading one is [RUnknown].

   A value is abstracted to one of three shapes.  Go has TWO notions of "nil" for an interface value:
     VNil   the nil pointer / nil slice / nil map / the nil interface      (x == nil is true)
     VTNil  an interface holding a nil pointer ("typed nil")               (x == nil is FALSE, x.M() still
            dereferences nil as soon as M touches its receiver)
     VPtr   a usable value: non-nil pointer, or interface holding one
   Only interface-typed variables can hold VTNil; it is born by [RConv] (implicit pointer->interface
   conversion) of VNil. *)
From Coq Require Import List NArith Bool.
Import ListNotations.
Local Open Scope N_scope.

Inductive val := VNil | VTNil | VPtr.

(* operand of a call / return: a variable, a certainly usable value (&T{..}, a number, a string, ...), nil *)
Inductive arg := AV (x : N) | AGood | ANil.

Inductive rhs :=
| RAlloc                       (* &T{..}, new, make, composite literal, constant: usable *)
| RNil                         (* the literal nil, the zero value of `var x T` *)
| RCopy (y : N)
| RUnknown                     (* heap read (field, element, map), result of an external function that cannot
                                  build a typed nil: VNil or VPtr, never VTNil (see IStore) *)
| RUnknownDirty                (* anything: VNil, VTNil or VPtr *)
| RConv (y : N)                (* implicit/explicit conversion pointer -> interface: VNil becomes VTNil *)
| RNormalize (y : N)           (* Go: `if v := reflect.ValueOf(y); y == nil || (v.Kind() == reflect.Ptr && v.IsNil())
                                  { return nil }; return y` -- VTNil becomes VNil (parseStatement) *)
| RAssert (y : N) (toiface : bool).
                               (* value of a SUCCESSFUL type assertion y.(T) / type-switch binding; toiface: T is
                                  an interface type (the dynamic value is kept), otherwise T is a pointer type
                                  (a typed nil yields the nil pointer) *)

(* Heap cells are partitioned into classes by the translator ("field T.F", "elements of []E", ...).
   The model has no heap; instead every store into a class is an obligation, and a load from the class
   is translated according to what the obligations of that class guarantee:
     SStrict  the stored value must be VPtr             -- loads from the class are [RAlloc]
     SClean   the stored value must not be VTNil        -- loads from the class are [RUnknown]
     SDirty   nothing is required for C01               -- loads from the class are [RUnknownDirty];
              for C03 (flag c03 of the semantics) the value must not be VTNil. *)
Inductive smode := SStrict | SClean | SDirty.

Inductive instr :=
| ISet (x : N) (r : rhs) (n : N)                         (* x := r *)
| IGuard (x : N) (nn nl : N)                             (* x != nil ? nn : nl *)
| ITypeTest (x y : N) (toiface : bool) (nok nfail : N)   (* x, ok := y.(T); ok ? nok : nfail *)
| IUse (x : N) (site : N) (n : N)                        (* dereference of x: crashes unless x is VPtr *)
| IStore (x : N) (m : smode) (site : N) (n : N)          (* x is written into a heap cell (field, element,
                                                            append, composite literal); see smode *)
| ICall (f : N) (args : list arg) (rets : list (option N)) (n : N)
| IBranch (n1 n2 : N)                                    (* data-dependent branch *)
| IRet (rs : list arg).

(* Certificate (untrusted): per node the set nn of variables that are certainly not VNil and the set cl
   of variables that are certainly not VTNil, as bit masks; per function, for every parameter what the
   callers guarantee and for every result what the function guarantees: (not VNil?, not VTNil?). *)
Definition av := (bool * bool)%type.
Record node := mkNode { nd_instr : instr; nd_nn : N; nd_cl : N }.
Record fspec := mkSpec { fs_params : list av; fs_results : list av }.
Record func := mkFunc { fn_spec : fspec; fn_body : list node }.
Record prog := mkProg { p_funcs : list func; p_main : N }.

Definition nth_N {A : Type} (l : list A) (n : N) : option A := nth_error l (N.to_nat n).
Definition getf (p : prog) (f : N) : option func := nth_N (p_funcs p) f.
Definition getn (g : func) (pc : N) : option node := nth_N (fn_body g) pc.
