(* C01/C03 (layer G, whole parser): the language of nil-flow graphs.
   Generated instance: DC.Gen.ParserNil (by /verif/translator/cmd/nilgen).  Definitions only.

   One graph per Go function.  Variables are the parameters (receiver first; variables 0..k-1), the
   results, the locals and the translator's temporaries of pointer, interface, slice, map, chan or func
   type -- everything that can be nil.  Heap cells (struct fields, slice elements) are not variables:
   reading one is [RAlloc], [RUnknown] or [RUnknownDirty] depending on the class of the cell (see smode).
   The translation rules (what is TRUSTED) are listed at the top of /verif/translator/cmd/nilgen/main.go.

   A value is abstracted to one of three shapes.  Go has TWO notions of "nil" for an interface value:
     VNil   the nil pointer / nil slice / nil map / the nil interface      (x == nil is true)
     VTNil t  an interface holding a nil pointer of pointer type number t ("typed nil")
                                                                           (x == nil is FALSE, x.M() still
            dereferences nil as soon as M touches its receiver; x.( *T) succeeds iff T is type t)
     VPtr   a usable value: non-nil pointer, or interface holding one
   Only interface-typed variables can hold VTNil; it is born by [RConv] (implicit pointer->interface
   conversion) of VNil. *)
From Coq Require Import List NArith Bool.
Import ListNotations.
Local Open Scope N_scope.

Inductive val := VNil | VTNil (t : N) | VPtr.

(* operand of a call / return: a variable, a certainly usable value (&T{..}, a number, a string, ...), nil *)
Inductive arg := AV (x : N) | AGood | ANil.

Inductive rhs :=
| RAlloc                       (* &T{..}, new, make, composite literal, constant: usable *)
| RNil                         (* the literal nil, the zero value of `var x T` *)
| RCopy (y : N)
| RUnknown                     (* read of a clean heap cell, result of an external function that cannot build a
                                  typed nil: VNil or VPtr, never VTNil (see smode) *)
| RUnknownDirty                (* read of a dirty heap cell, interface result of an external function:
                                  VNil, VPtr or VTNil t for a t in p_tn *)
| RConv (y : N) (t : N)        (* implicit/explicit conversion of a pointer of static type number t to an
                                  interface: VNil becomes VTNil t *)
| RNormalize (y : N)           (* Go: `if v := reflect.ValueOf(y); y == nil || (v.Kind() == reflect.Ptr && v.IsNil())
                                  { return nil }; return y` -- VTNil becomes VNil (parseStatement) *)
| RAssert (y : N) (toiface : bool).
                               (* value of a SUCCESSFUL type assertion y.(T) / type-switch binding; toiface: T is
                                  an interface type (the dynamic value is kept), otherwise T is a pointer type
                                  (a typed nil yields the nil pointer) *)

(* Heap cells are partitioned into classes by the translator ("field T.F", "elements of []E", ...).
   The model has no heap; instead every store into a class is an obligation, and a load from the class
   is translated according to what the obligations of that class guarantee:
     SStrict  the stored value must be VPtr             -- loads from the class are [RAlloc]
     SClean   the stored value must not be VTNil        -- loads from the class are [RUnknown]
     SDirty   nothing is required for C01               -- loads from the class are [RUnknownDirty];
              for C03 (flag c03 of the semantics) the value must not be VTNil. *)
Inductive smode := SStrict | SClean | SDirty.

Inductive instr :=
| ISet (x : N) (r : rhs) (n : N)                         (* x := r *)
| IGuard (x : N) (nn nl : N)                             (* x != nil ? nn : nl *)
| ITypeTest (x y : N) (toiface : bool) (tgt : option N) (nok nfail : N)
                                                         (* x, ok := y.(T); ok ? nok : nfail.  tgt = Some t: T is the
                                                            pointer type number t (a typed nil of another type fails
                                                            the test, one of type t passes it and yields nil) *)
| IUse (x : N) (site : N) (n : N)                        (* dereference of x: crashes unless x is VPtr *)
| IStore (x : N) (m : smode) (site : N) (n : N)          (* x is written into a heap cell (field, element,
                                                            append, composite literal); see smode *)
| ICall (f : N) (args : list arg) (rets : list (option N)) (n : N)
| IBranch (n1 n2 : N)                                    (* data-dependent branch *)
| IRet (rs : list arg)
| IHalt.                                                 (* the run is not continued: in the C03 reading, the point
                                                            where a parse error is recorded (C03 speaks about
                                                            runs that return a nil error) *)

(* Certificate (untrusted): per node the set nn of variables that are certainly not VNil and the set cl
   of variables that are certainly not VTNil, as bit masks; per function, for every parameter what the
   callers guarantee and for every result what the function guarantees: (not VNil?, not VTNil?). *)
Definition av := (bool * bool)%type.
Record node := mkNode { nd_instr : instr; nd_nn : N; nd_cl : N }.
Record fspec := mkSpec { fs_params : list av; fs_results : list av }.
Record func := mkFunc { fn_spec : fspec; fn_body : list node }.
(* p_tn: the pointer types of which a typed nil may exist at all (the types t of the [RConv y t] whose
   operand is not certainly non-nil); a value read from a dirty heap cell is VNil, VPtr or VTNil t for
   some t in p_tn. *)
Record prog := mkProg { p_funcs : list func; p_main : N; p_tn : list N }.

Definition nth_N {A : Type} (l : list A) (n : N) : option A := nth_error l (N.to_nat n).
Definition getf (p : prog) (f : N) : option func := nth_N (p_funcs p) f.
Definition getn (g : func) (pc : N) : option node := nth_N (fn_body g) pc.
