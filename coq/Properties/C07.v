(* C07 -- a query renders the same wherever it is embedded.

   PROPERTY: "The EXPLAIN text of a SELECT query (starting with SELECT or WITH, without its own
   FORMAT/SETTINGS/INTO OUTFILE tail) appears verbatim, merely indented, inside the EXPLAIN text of
   any statement that embeds it as a FROM subquery, IN/EXISTS/scalar subquery, CTE body, JOIN
   operand, CREATE VIEW ... AS, INSERT ... SELECT or EXPLAIN target, and wrapping the whole query
   in parentheses at statement level changes nothing.  Rendering a query never depends on what
   surrounds it or on what was rendered before it."

   FULL STATEMENT: see Embed/C07Statement.v.  What is proved here is the PRINTER half,
   [C07_printer]; the PARSER half (an embedded query parses to the same AST as on its own, and
   "(" q ")" parses to the AST of q -- the delimiter-simulation lemma of DESIGN C06/C07) is NOT
   proved: `partial`, covered by the metamorphic harness /verif/harness/cmd/embed only (which
   refuted it once, for statement-level `WITH ... UNION`; fixed in /repo 5f679c112).

   [C07_printer] = (a) the shift law of the printers over the inventory GENERATED from
   /repo/internal/explain (per-run obligations [C07_inventory_checked], [C07_select_printers_closed],
   [C07_select_printers_test_free], by vm_compute), under the translator's soundness claim (D)
   stated in Embed/DepthCheck.v ([DepthCheck.conforms], a hypothesis of the statement);
   (b) tail insensitivity and the block theorems over the hand-written model
   Select/SelectExplainModel.v; (c) no hidden state: C10_no_findings = true and C11. *)
From Coq Require Import String List Bool NArith.
From DC Require Import Tree.LineTree Tree.LineTreeProof.
From DC Require Import Select.SelectExplainModel Select.SelectExplainProof.
From DC Require Import Embed.DepthInv Embed.DepthShift Embed.DepthCheck Embed.DepthObligations.
From DC Require Import Embed.EmbedContextModel Embed.EmbedSelect Embed.C07Statement.
From DC Require Import Gen.DepthUses Gen.DepthAllowed.
From DC Require Import Conc.SharedInv Conc.SharedCheck Conc.SharedObligations Gen.SharedAccess.
Import ListNotations.
Local Open Scope string_scope.

(* ---- the calculus, independent of the inventory ---- *)

Theorem C07_shift_law :
  forall p, built p -> forall d, p d = map (shift d) (p 0).
Proof. exact shift_law. Qed.
Print Assumptions C07_shift_law.

Theorem C07_shift_law_depth_tests :
  forall p, built_t p -> forall d, p (S d) = map (shift d) (p 1).
Proof. exact shift_law_pos. Qed.
Print Assumptions C07_shift_law_depth_tests.

Theorem C07_shift_law_guarded_tests :
  forall p, built0 p -> forall d, p d = map (shift d) (p 0).
Proof. exact shift_law_guarded. Qed.
Print Assumptions C07_shift_law_guarded_tests.

(* the exception: a depth test evaluated at depth 0 breaks the law between 0 and 1 *)
Theorem C07_depth_test_is_an_exception :
  built_t explain_header /\ explain_header 1 <> map (shift 1) (explain_header 0).
Proof. exact depth_test_is_an_exception. Qed.
Print Assumptions C07_depth_test_is_an_exception.

(* checker => law, for any inventory, under claim (D) *)
Theorem C07_checker_sound :
  forall inv al data sem enters quarantine S,
    DepthCheck.conforms inv al data sem enters -> check_depth inv al quarantine = true ->
    closed_b inv S = true -> test_free_b inv S = true ->
    forall f a, str_in f S = true -> (forall g, enters f a g -> ~ In g quarantine) ->
    forall d, sem f a d = map (shift d) (sem f a 0).
Proof. exact checked_shift_guarded. Qed.
Print Assumptions C07_checker_sound.

(* ---- per-run obligations over the generated inventory ---- *)

Theorem C07_inventory_checked : check_depth depth_inventory c07_allow quarantined_funcs = true.
Proof. exact C07_check_depth_ok. Qed.
Print Assumptions C07_inventory_checked.

Theorem C07_select_printers_closed : closed_b depth_inventory select_zero_closure = true.
Proof. exact C07_select_closed. Qed.
Print Assumptions C07_select_printers_closed.

Theorem C07_select_printers_test_free : test_free_b depth_inventory select_zero_closure = true.
Proof. exact C07_select_test_free. Qed.
Print Assumptions C07_select_printers_test_free.

(* whether the inventory is clean without any quarantine (true today; it was false while the
   BACKUP / RESTORE / DESCRIBE absolute-depth findings existed, fixed in /repo 8ca5f6e9c; the check
   script prints a KNOWN-FINDING line per quarantined function) *)
Theorem C07_clean_value : check_depth_clean depth_inventory c07_allow = C07_clean.
Proof. exact C07_clean_spec. Qed.
Print Assumptions C07_clean_value.

(* ---- the parts ---- *)

Theorem C07_generated : C07_generated_stmt.
Proof. exact C07Statement.C07_generated. Qed.
Print Assumptions C07_generated.

(* Node on a *ast.SelectWithUnionQuery (the dispatch of Node's type switch is a hypothesis) *)
Theorem C07_node_on_select :
  forall data sem enters, DepthCheck.conforms depth_inventory c07_allow data sem enters ->
  forall is_union : data -> Prop,
    (forall q d, is_union q -> sem "Node" q d = sem "explainSelectWithUnionQuery" q d) ->
  forall q, is_union q -> avoids_findings data enters "explainSelectWithUnionQuery" q ->
  forall d, sem "Node" q d = map (shift d) (sem "Node" q 0).
Proof. exact C07_shift_node_union. Qed.
Print Assumptions C07_node_on_select.

Theorem C07_tail_insensitive :
  forall d n t, tail_free n ->
    explain_select_with_union_query_tail d n t = explain_select_with_union_query d n.
Proof. exact tail_insensitive. Qed.
Print Assumptions C07_tail_insensitive.

Theorem C07_model : C07_model_stmt.
Proof. exact C07Statement.C07_model. Qed.
Print Assumptions C07_model.

Theorem C07_no_hidden_state : C10_no_findings = true /\ explain_is_readonly_and_repeatable inventory.
Proof. exact C07Statement.C07_no_hidden_state. Qed.
Print Assumptions C07_no_hidden_state.

(* ---- the printer half of C07 ---- *)

Theorem C07_printer : C07_printer_stmt.
Proof. exact C07_printer_holds. Qed.
Print Assumptions C07_printer.

(* ---- the hypotheses are satisfiable by non-trivial objects ---- *)

(* claim (D) for a two-function package with a clean inventory *)
Example C07_conforms_satisfiable :
  check_depth_clean toy_inv toy_allow = true /\
  DepthCheck.conforms toy_inv toy_allow unit toy_sem (fun _ _ _ => False).
Proof. exact (conj toy_check toy_conforms). Qed.

(* a trace with a guarded depth test obeys the law at every depth *)
Example C07_guarded_trace :
  guarded example_trace = true /\ test_sites example_trace <> [] /\
  forall d, denote example_trace d = map (shift d) (denote example_trace 0).
Proof. exact (conj (proj1 example_trace_guarded) (conj (proj2 example_trace_guarded) example_trace_law)). Qed.

(* a tail-free query satisfying the model invariants; and a query with a FORMAT tail, which CREATE
   ... AS prints differently (the property's exclusion is needed) *)
Example C07_model_satisfiable : inv_union uq0 /\ tail_free uq0.
Proof. exact uq0_ok. Qed.

Example C07_tail_exclusion_needed :
  explain_as_select_without_format 0 uq_fmt <> explain_select_with_union_query 0 uq_fmt.
Proof. exact tail_matters. Qed.
