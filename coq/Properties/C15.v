(* C15 -- "If the io.Reader passed to Parse returns an error other than io.EOF at any point of the
   stream, Parse returns a non-nil error that wraps or equals that error."

   Stream level (Properties/C15_stream.v, kept): for ARBITRARY scripts and every sequence of
   Peek/ReadRune calls, errorTrackingReader.err is the first non-EOF error any Read call returned.
   This file lifts it to the lexer and the driver:

   * `lexrun s k fuel` = lexer.New over the scripted reader s (ANY script: Err / DataErr chunks
     anywhere, empty reads, data after errors), followed by k NextToken calls: the items returned and
     the lexer state, whose l_src is the bufio.Reader + errorTrackingReader state.  The lexer model
     touches the stream through Peek and ReadRune only, and Lexer/LexerSim.v proves function by
     function that it maps related stream states to related stream states; instantiated with the
     diagonal relation  R st st' := st = st' /\ reachable s st  this says that every invariant of the
     two bufio operations is an invariant of the whole lexer (C15_lexer_preserves_stream_invariants).
     Hence C15_error_is_tracked: if any Read performed during the run returned a non-EOF error, the
     first such error e is what Lexer.Err() returns.
   * ParseStatements (Driver/DriverModel.v) tests p.lexer.Err() after its loop.  st_final is the
     reader state when it does so; the parser reaches it through NextToken calls only (checked on
     /repo: Gen/ReaderUse.v, C14_reader_use), however many the statement parser needed -- the theorems
     quantify over all k.  C15_driver_reports: with a context that is never cancelled, the returned
     error is ReadErr = fmt.Errorf("read error: %w", p.lexer.Err()), and the wrapped error is e.

   `lexrun s k fuel = None` would mean that the lexer model ran out of fuel, i.e. NextToken not
   returning.  It never happens: Lexer/LexerTotalGen.v re-proves the totality of the lexer (C12)
   over an ABSTRACT stream with a measure that Peek does not increase and that a ReadRune returning
   a rune decreases; Stream/BufioMeasure.v shows that "window bytes + data bytes still in the
   script" is such a measure for bufio.Reader in EVERY state over EVERY script (Err / DataErr chunks
   anywhere, empty reads up to io.ErrNoProgress, data after errors, explicit EOF followed by data);
   Lexer/LexerTotalBufio.v instantiates.  Hence for every script s, every k and every
   fuel > length (data_of s) -- the number of data bytes; neither chunks nor empty reads count --
   `lexrun s k fuel = Some _` (C15_lexrun_total), and Tokenize returns on every reader with exactly
   one EOF (C15_tokenize_total_any_reader).
   The theorems come in two forms: the original ones, conditional on `lexrun s k fuel = Some _`
   (they hold for every fuel), and the `_total` ones at the end, which carry no such hypothesis:
   C15_error_is_tracked_total, C15_driver_reports_total, C15_driver_returns_read_error_total and
   C15_parse_reports_read_error (the final form: for every script and every number of NextToken
   calls, if a Read that was performed returned a non-EOF error e, ParseStatements with a
   never-cancelled context returns ReadErr wrapping e; the only hypotheses left are C16's progress
   hypotheses on the abstract statement parser `ps`).

   What "returns an error at any point of the stream" means here: a Read call that was actually
   performed returned it (first_read_error, BufioProof's ghost log of Read calls).  An error the
   reader WOULD return later is not reported if the lexer stops reading before: NextToken returns
   EOF at a NUL character without reading further (C15_example_nul_stops_reading). *)
From Coq Require Import List NArith.
From DC Require Import Base.Utf8 Base.Stream Base.Item Gen.TokenTable.
From DC Require Import Lexer.LexerModel Lexer.LexerSim Lexer.LexerTotalGen Lexer.LexerTotalBufio.
From DC Require Import Stream.Simulation Stream.BufioModel Stream.BufioProof Stream.BufioMeasure.
From DC Require Driver.DriverModel Driver.DriverProof.
Import ListNotations.

(* ---------- invariants of the stream operations are invariants of the lexer ---------- *)

Theorem C15_lexer_preserves_stream_invariants :
  forall (S : Type) (o : stream_ops S) (P : S -> Prop),
    (forall n s, P s -> P (snd (s_peek o n s))) ->
    (forall s, P s -> P (snd (s_read_rune o s))) ->
    forall k fuel l items l',
      P (l_src l) -> run_lexer o k fuel l = Some (items, l') -> P (l_src l').
Proof. exact (@run_lexer_inv). Qed.
Print Assumptions C15_lexer_preserves_stream_invariants.

Theorem C15_lexer_new_preserves_stream_invariants :
  forall (S : Type) (o : stream_ops S) (P : S -> Prop),
    (forall n s, P s -> P (snd (s_peek o n s))) ->
    (forall s, P s -> P (snd (s_read_rune o s))) ->
    forall s, P s -> P (l_src (init_lex o s)).
Proof. exact (@init_lex_inv). Qed.
Print Assumptions C15_lexer_new_preserves_stream_invariants.

(* the items of lexrun are the NextToken results *)
Theorem C15_lexrun_items : forall s k fuel,
  option_map fst (lexrun s k fuel) =
  next_n bufio_stream k fuel (init_lex bufio_stream (bufio_init s)).
Proof. exact lexrun_items. Qed.
Print Assumptions C15_lexrun_items.

(* ---------- the lexer's reader state ---------- *)

Theorem C15_lexrun_reachable : forall s k fuel items lx,
  lexrun s k fuel = Some (items, lx) -> reachable s (l_src lx).
Proof. exact lexrun_reachable. Qed.
Print Assumptions C15_lexrun_reachable.

(* any script, any number of NextToken calls: Lexer.Err() is exactly the first non-EOF error
   returned by any Read call performed so far; no loop of the bufio model ran out of fuel; errors
   are handed out in script order, none lost or invented *)
Theorem C15_tracked_is_first_read_error : forall s k fuel items lx,
  lexrun s k fuel = Some (items, lx) ->
  let st := l_src lx in
  diverged st = false /\
  tracked_err st = first_read_error st /\
  script_errs s = read_errors st ++ script_errs (script st).
Proof. exact lexrun_tracked. Qed.
Print Assumptions C15_tracked_is_first_read_error.

(* THE property at the lexer *)
Theorem C15_error_is_tracked : forall s k fuel items lx e,
  lexrun s k fuel = Some (items, lx) ->
  first_read_error (l_src lx) = Some e ->
  tracked_err (l_src lx) = Some e /\ hd_error (script_errs s) = Some e.
Proof. exact lexrun_error_is_tracked. Qed.
Print Assumptions C15_error_is_tracked.

(* conversely nothing is tracked unless a Read returned it *)
Theorem C15_nothing_tracked_without_error : forall s k fuel items lx,
  lexrun s k fuel = Some (items, lx) ->
  tracked_err (l_src lx) = None -> read_errors (l_src lx) = [].
Proof. exact lexrun_no_error_untracked. Qed.
Print Assumptions C15_nothing_tracked_without_error.

(* first error wins: more NextToken calls (from any lexer state) never change it *)
Theorem C15_tracked_monotone_lexer : forall k fuel (l : @lex bstate) items l' e,
  run_lexer bufio_stream k fuel l = Some (items, l') ->
  tracked_err (l_src l) = Some e -> tracked_err (l_src l') = Some e.
Proof. exact run_lexer_tracked_monotone. Qed.
Print Assumptions C15_tracked_monotone_lexer.

(* ---------- the driver ---------- *)

(* ParseStatements with p.lexer.Err() != nil: the read error, unless the context was cancelled *)
Theorem C15_driver_read_failed :
  forall (stmt err : Type) (ps : list item -> option stmt * list item * list err)
         (mk_parallel : stmt -> list stmt -> stmt) (ctx_err : DriverModel.ctx_error)
         done ts ss e rest,
    (forall j, done j = false) ->
    DriverModel.run ps mk_parallel done ctx_err true ts = DriverModel.Finished ss e rest ->
    e = DriverModel.ReadErr /\ rest = [].
Proof. exact run_read_failed. Qed.
Print Assumptions C15_driver_read_failed.

(* THE property at the driver.  st_final = l_src lx, the reader state after the k NextToken calls
   the parser made (any k); read_failed := p.lexer.Err() != nil in that state; ts = any token list
   (in particular driver_tokens items). *)
Theorem C15_driver_reports :
  forall (stmt err : Type) (ps : list item -> option stmt * list item * list err)
         (mk_parallel : stmt -> list stmt -> stmt) (ctx_err : DriverModel.ctx_error)
         done s k fuel items lx e ts ss er rest,
    (forall j, done j = false) ->
    lexrun s k fuel = Some (items, lx) ->
    first_read_error (l_src lx) = Some e ->
    DriverModel.run ps mk_parallel done ctx_err (read_failed_of (l_src lx)) ts =
      DriverModel.Finished ss er rest ->
    er = DriverModel.ReadErr /\ rest = [] /\ tracked_err (l_src lx) = Some e.
Proof. exact driver_reports_read_error. Qed.
Print Assumptions C15_driver_reports.

(* with the progress hypotheses of C16 the driver terminates: the read error IS returned *)
Theorem C15_driver_returns_read_error :
  forall (stmt err : Type) (ps : list item -> option stmt * list item * list err)
         (mk_parallel : stmt -> list stmt -> stmt) (ctx_err : DriverModel.ctx_error)
         done s k fuel items lx e ts,
    (forall ts, ts <> [] -> length (DriverProof.rem (ps ts)) < length ts) ->
    DriverProof.rem (ps []) = [] ->
    (forall j, done j = false) ->
    lexrun s k fuel = Some (items, lx) ->
    first_read_error (l_src lx) = Some e ->
    exists ss,
      DriverModel.parse_statements ps mk_parallel done ctx_err (read_failed_of (l_src lx)) ts =
        Some (ss, DriverModel.ReadErr) /\
      tracked_err (l_src lx) = Some e.
Proof. exact driver_returns_read_error. Qed.
Print Assumptions C15_driver_returns_read_error.

(* and the read error is never reported unless a Read returned a non-EOF error: the one wrapped *)
Theorem C15_driver_read_error_only_if :
  forall (stmt err : Type) (ps : list item -> option stmt * list item * list err)
         (mk_parallel : stmt -> list stmt -> stmt) (ctx_err : DriverModel.ctx_error)
         done s k fuel items lx ts ss rest,
    lexrun s k fuel = Some (items, lx) ->
    DriverModel.run ps mk_parallel done ctx_err (read_failed_of (l_src lx)) ts =
      DriverModel.Finished ss DriverModel.ReadErr rest ->
    exists e, first_read_error (l_src lx) = Some e /\ tracked_err (l_src lx) = Some e /\
              hd_error (script_errs s) = Some e.
Proof. exact driver_read_error_only_if. Qed.
Print Assumptions C15_driver_read_error_only_if.

(* ---------- the lexer over bufio is total over EVERY script: no fuel hypothesis ---------- *)

(* totality of the lexer model over an abstract stream with a measure (C12 generalised) *)
Theorem C15_lexer_total_over_any_measured_stream :
  forall (St : Type) (o : stream_ops St) (smu : St -> nat),
    (forall n s, smu (snd (s_peek o n s)) <= smu s) ->
    (forall s r, fst (s_read_rune o s) = Some r -> smu (snd (s_read_rune o s)) < smu s) ->
    forall s k fuel, smu s < fuel ->
      exists items l', run_lexer o k fuel (init_lex o s) = Some (items, l') /\ length items = k /\
        LexerTotalGen.wf l' /\ LexerTotalGen.mu smu l' <= smu s.
Proof. exact (@run_lexer_init_total). Qed.
Print Assumptions C15_lexer_total_over_any_measured_stream.

(* the measure on bufio.Reader states: every state, every script *)
Theorem C15_bufio_peek_keeps_measure : forall n st, bmu (snd (bufio_peek n st)) = bmu st.
Proof. exact bufio_peek_mu. Qed.
Print Assumptions C15_bufio_peek_keeps_measure.

Theorem C15_bufio_read_rune_decreases_measure : forall st r,
  fst (bufio_read_rune st) = Some r -> bmu (snd (bufio_read_rune st)) < bmu st.
Proof. exact bufio_read_rune_mu. Qed.
Print Assumptions C15_bufio_read_rune_decreases_measure.

(* NextToken returns from every lexer state (l.eof -> l.ch = 0) over bufio *)
Theorem C15_next_token_total : forall fuel (l : @lex bstate),
  bufio_wf l -> bufio_mu l < fuel ->
  exists it l', next_token bufio_stream fuel l = Some (it, l') /\ bufio_wf l' /\ bufio_mu l' <= bufio_mu l.
Proof. exact next_token_bufio_total. Qed.
Print Assumptions C15_next_token_total.

(* lexer.New(r) + k NextToken calls: for EVERY script and k, every fuel above the number of data bytes *)
Theorem C15_lexrun_total : forall s k fuel, length (data_of s) < fuel ->
  exists items lx, lexrun s k fuel = Some (items, lx) /\ length items = k.
Proof. exact lexrun_total. Qed.
Print Assumptions C15_lexrun_total.

Theorem C15_lexrun_never_out_of_fuel : forall s k,
  exists fuel0, forall fuel, fuel0 <= fuel -> lexrun s k fuel <> None.
Proof. exact lexrun_never_out_of_fuel. Qed.
Print Assumptions C15_lexrun_never_out_of_fuel.

(* Tokenize over any reader whatsoever: returns, one EOF, last, sticky *)
Theorem C15_tokenize_total_any_reader : forall s,
  exists pre e,
    bufio_tokens s = Some (pre ++ [e]) /\ it_tok e = T_EOF /\
    Forall (fun i => it_tok i <> T_EOF) pre /\ length (pre ++ [e]) <= length (data_of s) + 1 /\
    forall k, bufio_next_tokens (length (pre ++ [e]) + k) s = Some ((pre ++ [e]) ++ repeat e k).
Proof. exact bufio_tokenize_total. Qed.
Print Assumptions C15_tokenize_total_any_reader.

(* C15_tracked_is_first_read_error without the fuel hypothesis *)
Theorem C15_tracked_is_first_read_error_total : forall s k fuel, length (data_of s) < fuel ->
  exists items lx,
    lexrun s k fuel = Some (items, lx) /\ length items = k /\
    reachable s (l_src lx) /\
    diverged (l_src lx) = false /\
    tracked_err (l_src lx) = first_read_error (l_src lx) /\
    script_errs s = read_errors (l_src lx) ++ script_errs (script (l_src lx)).
Proof. exact lexrun_total_tracked. Qed.
Print Assumptions C15_tracked_is_first_read_error_total.

(* THE property at the lexer, unconditional *)
Theorem C15_error_is_tracked_total : forall s k fuel, length (data_of s) < fuel ->
  exists items lx,
    lexrun s k fuel = Some (items, lx) /\
    (forall e, first_read_error (l_src lx) = Some e ->
       tracked_err (l_src lx) = Some e /\ hd_error (script_errs s) = Some e) /\
    (tracked_err (l_src lx) = None -> read_errors (l_src lx) = []).
Proof. exact lexrun_total_error_is_tracked. Qed.
Print Assumptions C15_error_is_tracked_total.

(* C15_driver_reports without the fuel hypothesis *)
Theorem C15_driver_reports_total :
  forall (stmt err : Type) (ps : list item -> option stmt * list item * list err)
         (mk_parallel : stmt -> list stmt -> stmt) (ctx_err : DriverModel.ctx_error)
         done s k fuel,
    (forall j, done j = false) ->
    length (data_of s) < fuel ->
    exists items lx,
      lexrun s k fuel = Some (items, lx) /\
      forall e, first_read_error (l_src lx) = Some e ->
        tracked_err (l_src lx) = Some e /\
        forall ts ss er rest,
          DriverModel.run ps mk_parallel done ctx_err (read_failed_of (l_src lx)) ts =
            DriverModel.Finished ss er rest ->
          er = DriverModel.ReadErr /\ rest = [].
Proof. exact driver_reports_read_error_total. Qed.
Print Assumptions C15_driver_reports_total.

(* THE property at the driver, unconditional in the reader and the lexer *)
Theorem C15_driver_returns_read_error_total :
  forall (stmt err : Type) (ps : list item -> option stmt * list item * list err)
         (mk_parallel : stmt -> list stmt -> stmt) (ctx_err : DriverModel.ctx_error)
         done s k fuel,
    (forall ts, ts <> [] -> length (DriverProof.rem (ps ts)) < length ts) ->
    DriverProof.rem (ps []) = [] ->
    (forall j, done j = false) ->
    length (data_of s) < fuel ->
    exists items lx,
      lexrun s k fuel = Some (items, lx) /\
      forall e, first_read_error (l_src lx) = Some e ->
        tracked_err (l_src lx) = Some e /\
        forall ts, exists ss,
          DriverModel.parse_statements ps mk_parallel done ctx_err (read_failed_of (l_src lx)) ts =
            Some (ss, DriverModel.ReadErr).
Proof. exact driver_returns_read_error_total. Qed.
Print Assumptions C15_driver_returns_read_error_total.

(* ... with the canonical fuel lexfuel s = length (data_of s) + 1, context.Background(), and the
   token list the lexer produced *)
Theorem C15_parse_reports_read_error :
  forall (stmt err : Type) (ps : list item -> option stmt * list item * list err)
         (mk_parallel : stmt -> list stmt -> stmt) (ctx_err : DriverModel.ctx_error) s k,
    (forall ts, ts <> [] -> length (DriverProof.rem (ps ts)) < length ts) ->
    DriverProof.rem (ps []) = [] ->
    exists items lx,
      lexrun s k (lexfuel s) = Some (items, lx) /\
      forall e, first_read_error (l_src lx) = Some e ->
        tracked_err (l_src lx) = Some e /\
        exists ss,
          DriverModel.parse_statements ps mk_parallel DriverModel.never ctx_err
            (read_failed_of (l_src lx)) (driver_tokens items) = Some (ss, DriverModel.ReadErr).
Proof. exact parse_reports_read_error. Qed.
Print Assumptions C15_parse_reports_read_error.

(* ---------- non-vacuity ---------- *)
Local Open Scope N_scope.

(* what the examples show of a run: token kinds, lexer at eof?, Lexer.Err(), the non-EOF errors the
   Read calls returned, what the reader has not delivered yet *)
Definition summary (r : option (list item * @lex bstate)) :=
  match r with
  | Some (its, lx) =>
      Some (map it_tok its, l_eof lx, tracked_err (l_src lx), read_errors (l_src lx), script (l_src lx))
  | None => None
  end.

Definition ex_select_sp : list N := [83; 69; 76; 69; 67; 84; 32].   (* "SELECT " *)

(* "SELECT 1" then an error: SELECT, NUMBER, EOF; the error is read while scanning the number *)
Example C15_example_error_at_end :
  let s := [Data (ex_select_sp ++ [49]); Err 7] in
  summary (lexrun s 1 10%nat) = Some ([T_SELECT], false, None, [], [Err 7]) /\
  summary (lexrun s 3 10%nat) = Some ([T_SELECT; T_NUMBER; T_EOF], true, Some 7, [7], []).
Proof. vm_compute. split; reflexivity. Qed.

(* a transient error: the lexer takes the failed ReadRune for the end of input -- "1" is never
   read -- and the error is tracked *)
Example C15_example_transient_error :
  let s := [Data ex_select_sp; Err 7; Data [49]] in
  summary (lexrun s 3 10%nat) = Some ([T_SELECT; T_EOF; T_EOF], true, Some 7, [7], [Data [49]]).
Proof. vm_compute. reflexivity. Qed.

(* the driver on that run: read error (whatever the statement parser `ps` does) *)
Example C15_example_driver :
  let s := [Data ex_select_sp; Err 7; Data [49]] in
  forall (ps : list item -> option nat * list item * list nat) lx items,
    lexrun s 3 10%nat = Some (items, lx) ->
    DriverModel.run ps (fun a _ => a) DriverModel.never DriverModel.Canceled
      (read_failed_of (l_src lx)) [] = DriverModel.Finished [] DriverModel.ReadErr [].
Proof.
  intros s ps lx items H. vm_compute in H. injection H as _ <-. vm_compute. reflexivity.
Qed.

(* no error: nothing tracked *)
Example C15_example_clean :
  summary (lexrun [Data (ex_select_sp ++ [49])] 3 10%nat) =
    Some ([T_SELECT; T_NUMBER; T_EOF], true, None, [], []).
Proof. vm_compute. reflexivity. Qed.

(* why the hypothesis is "a Read that was performed returned e": NextToken returns EOF at a NUL
   character and never reads on, so an error the reader would return later is never seen *)
Example C15_example_nul_stops_reading :
  summary (lexrun [Data [49; 0; 32; 50]; Err 7] 4 10%nat) =
    Some ([T_NUMBER; T_EOF; T_EOF; T_EOF], false, None, [], [Err 7]).
Proof. vm_compute. reflexivity. Qed.

(* the fuel of the _total theorems on a hostile script: empty reads, a transient error inside a token,
   data together with an error, an explicit EOF followed by data, 150 empty reads (io.ErrNoProgress) *)
Example C15_example_hostile_script :
  lexfuel hostile_script = 12%nat /\
  summary (lexrun hostile_script 3 (lexfuel hostile_script)) =
    Some ([T_IDENT; T_EOF; T_EOF], true, Some 7, [7],
          [Data [76; 69; 67; 84; 32]; DataErr [49; 32] 9; Err 0; Data [50]] ++ repeat (Data []) 150 ++ [Data [51]]).
Proof. vm_compute. split; reflexivity. Qed.

(* the bound is tight up to the constant: one unit less than lexfuel and the model runs out of fuel *)
Example C15_example_fuel_needed :
  lexrun [Data [97; 98; 99]] 1 3%nat = None /\ lexrun [Data [97; 98; 99]] 1 (lexfuel [Data [97; 98; 99]]) <> None.
Proof. vm_compute. split; [reflexivity|discriminate]. Qed.
