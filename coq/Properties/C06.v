(* C06 — statements in a script are parsed independently.
   "Parsing a script 's1; s2; ...; sn' of valid statements yields exactly the statements obtained by parsing each si on
    its own, in the same order ...; nothing carries over from one statement to the next.  Semicolons inside string
    literals, quoted identifiers and comments never split a statement, and empty statements between semicolons are ignored."

   Proved here and in Properties/C06_driver.v:
   (driver)  for a statement parser that is delimiter-respecting on each segment, ParseStatements maps
             s1 ; s2 ; ... ; sn (with any extra/leading/trailing/doubled semicolons) to [ps s1; ...; ps sn], the only
             state threaded between iterations being the remaining tokens and the error list — C06_driver_script,
             C06_driver_concat, C05_driver_semicolons in C06_driver.v;
   (lexer)   a ';' inside a quoted string literal never becomes a SEMICOLON token: for EVERY byte string v (so also for
             those containing ';'), lexing its quoted spelling gives exactly one STRING token and EOF
             (C06_semicolon_inside_string_literal); a ';' inside a comment never becomes a token: a separator made of
             whitespace and complete comments — whose bodies may contain any bytes, in particular ';' — is invisible to the
             non-comment token stream (C06_semicolon_inside_comment).
   PARTIAL:  that the real statement parsers are delimiter-respecting on every valid statement (the simulation lemma of
             DESIGN.md C06) is not proved; it is covered by the joined-vs-individual comparison on the implementation
             (cancel -semis).  Quoted identifiers ("…", `…`) containing ';' are covered by the lexer correspondence and, for
             plain ASCII bodies, by C05's follow-independence lemma for quoted tokens. *)
From Coq Require Import List NArith String.
From DC Require Import Gen.ParserState Base.Item Gen.TokenTable Lexer.LexerModel Lexer.LexerStringsSpec Lexer.LexerStrings
                       Lexer.LexerLayoutSpec Lexer.LexerLayout.
Import ListNotations.

Theorem C06_semicolon_inside_string_literal : forall v, bytes_ok v ->
  exists e, tokenize (quote v) =
    Some [mk_item T_STRING v {| p_off := 1; p_line := 1; p_col := 1 |} false; e] /\ it_tok e = T_EOF /\ it_val e = [].
Proof. exact tokenize_quote. Qed.
Print Assumptions C06_semicolon_inside_string_literal.

Theorem C06_semicolon_inside_comment : forall w b : list N, is_sep w -> lex_sig_raw (w ++ b) = lex_sig_raw b.
Proof. exact F1_leading. Qed.
Print Assumptions C06_semicolon_inside_comment.

(* "Nothing carries over from one statement to the next": the state of a Parser is exactly the token window, the error
   list, the lexer and the verification counter; the lexer's is the reader, the current rune, the position and the eof flag
   (regenerated from the struct declarations on every run: a new field — a mode flag, a counter, a cache — breaks this and
   must be argued not to leak between statements). *)
Theorem C06_parser_state_is_window_and_errors :
  parser_struct_fields = ["lexer"; "current"; "peek"; "peekPeek"; "errors"; "verif"]%string /\
  lexer_struct_fields = ["reader"; "source"; "ch"; "pos"; "eof"]%string.
Proof. split; reflexivity. Qed.
Print Assumptions C06_parser_state_is_window_and_errors.

(* non-vacuity: "-- a;b\n" and "/* ; /* ; */ */" are separators, and 'a;b' is one STRING *)
Example C06_comment_with_semicolon_is_a_separator :
  lex_sig_raw ([45; 45; 32; 97; 59; 98; 10] ++ [47; 42; 59; 47; 42; 59; 42; 47; 42; 47] ++ [49])%N = lex_sig_raw [49%N] /\
  option_map (map it_tok) (tokenize [39; 97; 59; 98; 39; 59; 49]%N) = Some [T_STRING; T_SEMICOLON; T_NUMBER; T_EOF].
Proof. vm_compute. split; reflexivity. Qed.
