(* C01, lexer half.  "For every byte string ... the call returns normally ...; it never panics": Parse runs the lexer
   on the caller's goroutine, so a panic in lexer.go is a panic of Parse.  The lexer model (Lexer/LexerModel.v, the
   whole of lexer.go; all indexing of lexer.go is pattern matching on lists there and closingDelim[i] / bytes[idx]
   are guarded exactly as in the Go code) has no partial operation and never runs out of fuel: Tokenize returns a
   token list for EVERY byte string.  Tied to lexer.go by the correspondence run that the C01 check repeats (a Go
   panic on an input the model tokenizes is reported with that input). *)
From Coq Require Import List NArith.
From DC Require Import Base.Item Gen.TokenTable Lexer.LexerModel Lexer.LexerTotal Lexer.LexerTotalCor.
Import ListNotations.

Theorem C01_lexer_returns_normally : forall bs : list N, exists toks, tokenize bs = Some toks.
Proof. exact tokenize_returns. Qed.
Print Assumptions C01_lexer_returns_normally.
