(* C04 (part C) -- the "(children N)" headers of the DDL printers of /repo/internal/explain
   (explain.go Column / Index, statements.go explainCreateQuery with its "Columns definition" and
   "Storage definition" sub-tallies, countAlterCommandChildren vs explainAlterCommand,
   explainAlterQuery, explainProjection) equal the number of children they emit, for EVERY
   combination of optional fields, variant tags and list lengths -- exactly under the stated
   conditions, which are equivalences -- hence the output is a well-formed tree ([check_lines]).
   Model: Ddl/DdlExplainModel.v (count code and emit code transcribed separately, as in Go;
   /repo revision 472349192).  Proofs: Ddl/DdlExplainProof.v.  Tie to the code:
   /verif/harness/cmd/ddlcount vs /verif/driver/ddlcount on /verif/checks/gen_ddl_cases.py.

   Assumed about callees (each such call prints exactly one rooted tree at the given depth):
   Node(sb, x, d) for expressions, data types and statements (for the SELECT printers this is
   C04_select; Node(sb, nil, d) prints the two-line tree [nil_tree]); explainFunctionCall for an
   index type; explainDictionaryAttributeDeclaration / explainDictionaryDefinition;
   explainAsSelectWithoutFormat.  List members (columns, indexes, projections, codecs, TTL
   elements, assignments, commands) are non-nil pointers.

   The conditions and where the parser stands:
     Column, Index, Projection, "Columns definition", "Storage definition", CREATE / ALTER USER,
     CREATE DICTIONARY, AlterQuery: none -- unconditional.
     inv_alter_count (countAlterCommandChildren = emitted, an equivalence):
        ADD_COLUMN: Settings and ResetSettings empty (the tally is shared with MODIFY_COLUMN, the
          emission is not) -- the parser never sets them on ADD COLUMN;
        MODIFY_TTL: TTL.Elements non-empty -> TTL.Expression != nil -- parser.go sets
          Expression = Elements[0].Expr, nil only for the incomplete `ALTER TABLE t MODIFY TTL`;
        ADD / MODIFY_STATISTICS: a column or a type; DROP / CLEAR / MATERIALIZE_STATISTICS: a
          column -- violated by the incomplete `ALTER TABLE t ADD STATISTICS` (the parser accepts it).
        Nothing else is needed for the block to be a tree (inv_alter = inv_alter_count): statistics
        kinds with arguments, `ALTER TABLE t ADD STATISTICS a TYPE tdigest(5)`, print their arguments
        beneath the ExpressionList since /repo 472349192 (found by this model: before that commit
        they were printed beside it, and the theorem needed the extra condition "no arguments").
     inv_create (header of explainCreateQuery = emitted, an equivalence):
        CREATE FUNCTION: FunctionBody != nil (`children := 2`) -- nil only for the incomplete
          `CREATE FUNCTION f AS`;
        general: not (Materialized and WindowView and AsSelect != nil) -- the AS SELECT is printed
          by three separate ifs and counted once; the parser accepts
          `CREATE MATERIALIZED WINDOW VIEW v AS SELECT 1` (not valid ClickHouse) and sets both. *)
From Coq Require Import List NArith Bool.
From DC Require Import Tree.LineTree Tree.LineTreeProof
     Select.SelectExplainModel Select.SelectExplainProof
     Ddl.DdlExplainModel Ddl.DdlExplainProof.
Import ListNotations.

(* ---- Column ---- *)

Theorem C04_column_count_eq_emitted :
  forall c : column_decl, count_column_children c = length (column_children c).
Proof. exact count_column_children_correct. Qed.
Print Assumptions C04_column_count_eq_emitted.

Theorem C04_column_header_eq_direct_children :
  forall (d : nat) (c : column_decl),
    header_count (explain_column d c) = direct_children (explain_column d c).
Proof. exact column_counts_agree. Qed.
Print Assumptions C04_column_header_eq_direct_children.

Theorem C04_column_is_tree :
  forall (d : nat) (c : column_decl), nrm (explain_column d c) = render d (column_tree c).
Proof. exact explain_column_tree. Qed.
Print Assumptions C04_column_is_tree.

Theorem C04_column_check_lines :
  forall c : column_decl, check_lines (explain_column 0 c) = true.
Proof. exact explain_column_check. Qed.
Print Assumptions C04_column_check_lines.

(* ---- Index ---- *)

Theorem C04_index_count_eq_emitted :
  forall i : index_def, count_index_children i = length (index_children i).
Proof. exact count_index_children_correct. Qed.
Print Assumptions C04_index_count_eq_emitted.

Theorem C04_index_header_eq_direct_children :
  forall (d : nat) (i : index_def),
    header_count (explain_index d i) = direct_children (explain_index d i).
Proof. exact index_counts_agree. Qed.
Print Assumptions C04_index_header_eq_direct_children.

Theorem C04_index_is_tree :
  forall (d : nat) (i : index_def), nrm (explain_index d i) = render d (index_tree i).
Proof. exact explain_index_tree. Qed.
Print Assumptions C04_index_is_tree.

Theorem C04_index_check_lines :
  forall i : index_def, check_lines (explain_index 0 i) = true.
Proof. exact explain_index_check. Qed.
Print Assumptions C04_index_check_lines.

(* ---- Projection (printed inside CreateQuery and ALTER ... ADD PROJECTION) ---- *)

Theorem C04_projection_select_count_eq_emitted :
  forall q : proj_select, count_projection_select_children q = length (proj_select_children q).
Proof. exact count_projection_select_children_correct. Qed.
Print Assumptions C04_projection_select_count_eq_emitted.

Theorem C04_projection_is_tree :
  forall (d : nat) (p : projection), nrm (explain_projection d p) = render d (projection_tree p).
Proof. exact explain_projection_tree. Qed.
Print Assumptions C04_projection_is_tree.

(* ---- AlterCommand: countAlterCommandChildren vs explainAlterCommand ---- *)

(* for every command type and every field combination: the tally equals the number of emitted
   children IFF inv_alter_count *)
Theorem C04_alter_count_eq_emitted :
  forall c : alter_command,
    inv_alter_count c <-> count_alter_command_children c = length (alter_children c).
Proof. exact count_alter_command_children_correct. Qed.
Print Assumptions C04_alter_count_eq_emitted.

Theorem C04_alter_header_eq_direct_children :
  forall (d : nat) (c : alter_command),
    header_count (explain_alter_command d c) = direct_children (explain_alter_command d c)
    <-> inv_alter_count c.
Proof. exact alter_counts_agree_iff. Qed.
Print Assumptions C04_alter_header_eq_direct_children.

Theorem C04_alter_is_tree :
  forall (d : nat) (c : alter_command),
    inv_alter c -> nrm (explain_alter_command d c) = render d (alter_tree c).
Proof. exact explain_alter_command_tree. Qed.
Print Assumptions C04_alter_is_tree.

Theorem C04_alter_check_lines :
  forall c : alter_command, inv_alter c -> check_lines (explain_alter_command 0 c) = true.
Proof. exact explain_alter_command_check. Qed.
Print Assumptions C04_alter_check_lines.

(* outside inv_alter_count the printed block is a tree at no depth *)
Theorem C04_alter_not_tree_outside_condition :
  forall (d : nat) (c : alter_command),
    ~ inv_alter_count c ->
    forall d' t, nrm (explain_alter_command d c) <> render d' t.
Proof. exact alter_not_tree. Qed.
Print Assumptions C04_alter_not_tree_outside_condition.

(* statistics kinds, with or without arguments *)
Theorem C04_alter_statistics_type_function_is_tree :
  forall (d : nat) (f : fn_call),
    nrm (explain_statistics_type_function d f) = render d (stat_type_tree f).
Proof. exact explain_statistics_type_function_tree. Qed.
Print Assumptions C04_alter_statistics_type_function_is_tree.

Theorem C04_alter_statistics_without_columns_refuted :
  header_count (explain_alter_command 0 w_add_statistics_empty) = 0 /\
  direct_children (explain_alter_command 0 w_add_statistics_empty) = 1 /\
  check_lines (explain_alter_command 0 w_add_statistics_empty) = false.
Proof. exact alter_statistics_without_columns_refuted. Qed.
Print Assumptions C04_alter_statistics_without_columns_refuted.

Theorem C04_alter_modify_ttl_without_expression_refuted :
  header_count (explain_alter_command 0 w_modify_ttl_nil) = 0 /\
  direct_children (explain_alter_command 0 w_modify_ttl_nil) = 1 /\
  check_lines (explain_alter_command 0 w_modify_ttl_nil) = false.
Proof. exact alter_modify_ttl_without_expression_refuted. Qed.
Print Assumptions C04_alter_modify_ttl_without_expression_refuted.

Theorem C04_alter_add_column_settings_refuted :
  header_count (explain_alter_command 0 w_add_column_settings) = 1 /\
  direct_children (explain_alter_command 0 w_add_column_settings) = 0 /\
  check_lines (explain_alter_command 0 w_add_column_settings) = false.
Proof. exact alter_add_column_settings_refuted. Qed.
Print Assumptions C04_alter_add_column_settings_refuted.

(* ---- AlterQuery ---- *)

Theorem C04_alter_query_count_eq_emitted :
  forall n : alter_query, count_alter_query_children n = length (alter_query_children n).
Proof. exact count_alter_query_children_correct. Qed.
Print Assumptions C04_alter_query_count_eq_emitted.

(* inv_alter_query n = every command satisfies inv_alter *)
Theorem C04_alter_query_is_tree :
  forall (d : nat) (n : alter_query),
    inv_alter_query n -> nrm (explain_alter_query d n) = render d (alter_query_tree n).
Proof. exact explain_alter_query_tree. Qed.
Print Assumptions C04_alter_query_is_tree.

Theorem C04_alter_query_check_lines :
  forall n : alter_query, inv_alter_query n -> check_lines (explain_alter_query 0 n) = true.
Proof. exact explain_alter_query_check. Qed.
Print Assumptions C04_alter_query_check_lines.

(* ---- CreateQuery ---- *)

(* the main tally of the general variant (name, database, Columns definition, storage /
   ViewTargets, Refresh, AS SELECT, AS table function, FORMAT, COMMENT, both SETTINGS places) *)
Theorem C04_create_count_eq_emitted :
  forall n : create_query,
    inv_create_general_b n = true <->
    count_create_query_children n = length (create_general_children n).
Proof. exact count_create_query_children_correct. Qed.
Print Assumptions C04_create_count_eq_emitted.

Theorem C04_create_columns_definition_count_eq_emitted :
  forall n : create_query,
    count_columns_definition_children n = length (columns_definition_children n).
Proof. exact count_columns_definition_children_correct. Qed.
Print Assumptions C04_create_columns_definition_count_eq_emitted.

Theorem C04_create_columns_definition_is_tree :
  forall (d : nat) (n : create_query),
    nrm (explain_columns_definition d n) = render d (columns_definition_tree n).
Proof. exact explain_columns_definition_tree. Qed.
Print Assumptions C04_create_columns_definition_is_tree.

Theorem C04_create_storage_count_eq_emitted :
  forall n : create_query, count_storage_children n = length (storage_children n).
Proof. exact count_storage_children_correct. Qed.
Print Assumptions C04_create_storage_count_eq_emitted.

Theorem C04_create_storage_is_tree :
  forall (d : nat) (n : create_query),
    nrm (explain_storage_definition d n) = render d (storage_tree n).
Proof. exact explain_storage_definition_tree. Qed.
Print Assumptions C04_create_storage_is_tree.

Theorem C04_create_dictionary_count_eq_emitted :
  forall n : create_query,
    count_create_dictionary_children n = length (create_dictionary_children n).
Proof. exact count_create_dictionary_children_correct. Qed.
Print Assumptions C04_create_dictionary_count_eq_emitted.

Theorem C04_create_user_is_tree :
  forall (d : nat) (n : create_query),
    nrm (explain_create_user d n) = render d (create_user_tree n).
Proof. exact explain_create_user_tree. Qed.
Print Assumptions C04_create_user_is_tree.

(* all four variants of explainCreateQuery, every field combination: header = number of lines
   printed directly beneath IFF inv_create; no other restriction *)
Theorem C04_create_header_eq_direct_children :
  forall (d : nat) (n : create_query),
    header_count (explain_create_query d n) = direct_children (explain_create_query d n)
    <-> inv_create n.
Proof. exact create_counts_agree_iff. Qed.
Print Assumptions C04_create_header_eq_direct_children.

Theorem C04_create_is_tree :
  forall (d : nat) (n : create_query),
    inv_create n -> nrm (explain_create_query d n) = render d (create_tree n).
Proof. exact explain_create_query_tree. Qed.
Print Assumptions C04_create_is_tree.

Theorem C04_create_check_lines :
  forall n : create_query, inv_create n -> check_lines (explain_create_query 0 n) = true.
Proof. exact explain_create_query_check. Qed.
Print Assumptions C04_create_check_lines.

Theorem C04_create_not_tree_outside_condition :
  forall (d : nat) (n : create_query),
    ~ inv_create n -> forall d' t, nrm (explain_create_query d n) <> render d' t.
Proof. exact create_not_tree. Qed.
Print Assumptions C04_create_not_tree_outside_condition.

Theorem C04_create_function_without_body_refuted :
  header_count (explain_create_query 0 w_create_function_no_body) = 2 /\
  direct_children (explain_create_query 0 w_create_function_no_body) = 1 /\
  check_lines (explain_create_query 0 w_create_function_no_body) = false.
Proof. exact create_function_without_body_refuted. Qed.
Print Assumptions C04_create_function_without_body_refuted.

Theorem C04_create_materialized_window_view_refuted :
  header_count (explain_create_query 0 w_create_materialized_window_view) = 2 /\
  direct_children (explain_create_query 0 w_create_materialized_window_view) = 3 /\
  check_lines (explain_create_query 0 w_create_materialized_window_view) = false.
Proof. exact create_materialized_window_view_refuted. Qed.
Print Assumptions C04_create_materialized_window_view_refuted.

(* ---------------------------------------------------------------------------------------- *)
(* Examples *)

From Coq Require Import String.
From DC Require Import Gen.NodeKinds.
Local Open Scope string_scope.
Local Open Scope list_scope.
Local Open Scope nat_scope.

Definition idn (s : String.string) : rose := Node (bytes_of (String.append "Identifier " s)) [].
Definition dty (s : String.string) : rose := Node (bytes_of (String.append "DataType " s)) [].
Definition lit (s : String.string) : rose := Node (bytes_of (String.append "Literal " s)) [].
Definition kid (s : String.string) : key_expr :=
  {| k_view := KV_ident (bytes_of s); k_tree := idn s |}.

(* a Int32 DEFAULT 1 CODEC(ZSTD(3), LZ4) TTL x STATISTICS(tdigest, uniq) COMMENT 'c' SETTINGS (s = 1) PRIMARY KEY *)
Definition full_column : column_decl :=
  {| cd_name := bytes_of "a"; cd_type := Some (dty "Int32");
     cd_statistics := [ {| fn_name := bytes_of "tdigest"; fn_args := [] |};
                        {| fn_name := bytes_of "uniq"; fn_args := [] |} ];
     cd_default := Some (lit "UInt64_1"); cd_ephemeral := false; cd_ttl := Some (idn "x");
     cd_codec := Some [ {| fn_name := bytes_of "ZSTD"; fn_args := [lit "UInt64_3"] |};
                        {| fn_name := bytes_of "LZ4"; fn_args := [] |} ];
     cd_settings := 1; cd_comment := bytes_of "c"; cd_primary_key := true |}.

Example full_column_counts :
  header_count (explain_column 0 full_column) = 7 /\
  direct_children (explain_column 0 full_column) = 7 /\
  List.length (explain_column 0 full_column) = 16 /\
  check_text node_kinds (print_lines (explain_column 0 full_column)) = true.
Proof. vm_compute. repeat split. Qed.

(* b String EPHEMERAL *)
Definition ephemeral_column : column_decl :=
  {| cd_name := bytes_of "b"; cd_type := Some (dty "String"); cd_statistics := [];
     cd_default := None; cd_ephemeral := true; cd_ttl := None; cd_codec := None;
     cd_settings := 0; cd_comment := []; cd_primary_key := false |}.

Example ephemeral_column_lines :
  explain_column 1 ephemeral_column
  = [hdr 1 (L_ColumnDeclaration (bytes_of "b")) 2; leaf 2 (bytes_of "DataType String");
     leaf 2 L_Function_defaultValueOfTypeName].
Proof. vm_compute. reflexivity. Qed.

Definition minmax_index : index_def :=
  {| ix_expr := Some (kid "a");
     ix_type := Some (Node (bytes_of "Function minmax") [Node L_ExpressionList []]) |}.

Definition a_projection : projection :=
  {| pj_select := Some {| ps_with := []; ps_columns := [idn "a"; idn "b"]; ps_group_by := [idn "a"];
                          ps_order_by := [idn "a"; idn "b"] |} |}.

(* CREATE TABLE d.t (a ..., b String EPHEMERAL, INDEX i a TYPE minmax, PROJECTION p (..),
   CONSTRAINT c CHECK x, PRIMARY KEY (a, b)) ENGINE = MergeTree(p1) PARTITION BY a PRIMARY KEY a
   ORDER BY (a, b) SAMPLE BY a TTL e1, e2 WHERE w SETTINGS s = 1 COMMENT 'q' -- then a second
   SETTINGS clause *)
Definition full_create : create_query :=
  {| cq_create_function := false; cq_function_name := []; cq_function_body := None;
     cq_create_user := false; cq_alter_user := false; cq_has_authentication_data := false;
     cq_authentication_values := []; cq_ssh_key_count := 0;
     cq_create_dictionary := false; cq_dictionary_attrs := []; cq_dictionary_def := None;
     cq_create_database := false; cq_database := bytes_of "d"; cq_table := bytes_of "t"; cq_view := [];
     cq_columns := [full_column; ephemeral_column]; cq_indexes := [minmax_index];
     cq_projections := [a_projection]; cq_constraints := [Some (idn "x")];
     cq_columns_primary_key := [idn "a"; idn "b"]; cq_has_empty_columns_primary_key := false;
     cq_engine := Some {| en_name := bytes_of "MergeTree"; en_has_parens := true; en_params := [idn "p1"] |};
     cq_inner_engine := None;
     cq_order_by := [kid "a"; kid "b"]; cq_order_by_has_modifiers := false;
     cq_partition_by := Some (kid "a"); cq_primary_key := [kid "a"];
     cq_sample_by := Some (idn "a");
     cq_ttl := Some {| ttl_elements := [ {| te_expr := Some (idn "e1"); te_where := None |};
                                        {| te_expr := Some (idn "e2"); te_where := Some (idn "w") |} ];
                       ttl_expression := Some (idn "e1"); ttl_expressions := [idn "e2"] |};
     cq_settings := 1; cq_query_settings := 1; cq_settings_before_comment := true;
     cq_comment := bytes_of "q"; cq_has_refresh := false; cq_materialized := false;
     cq_window_view := false; cq_to := false; cq_as_select := None; cq_as_table_function := None;
     cq_format := [] |}.

(* the hypothesis is satisfiable by a non-trivial object *)
Example full_create_inv : inv_create full_create.
Proof. reflexivity. Qed.

Example full_create_counts :
  header_count (explain_create_query 0 full_create) = 6 /\
  direct_children (explain_create_query 0 full_create) = 6 /\
  count_columns_definition_children full_create = 6 /\
  count_storage_children full_create = 7 /\
  List.length (explain_create_query 0 full_create) = 71 /\
  check_lines (explain_create_query 0 full_create) = true /\
  check_text node_kinds (print_lines (explain_create_query 0 full_create)) = true.
Proof. vm_compute. repeat split. Qed.

(* CREATE MATERIALIZED VIEW v TO t AS SELECT 1: ViewTargets without children, AS SELECT first *)
Definition mv_to : create_query :=
  {| cq_create_function := false; cq_function_name := []; cq_function_body := None;
     cq_create_user := false; cq_alter_user := false; cq_has_authentication_data := false;
     cq_authentication_values := []; cq_ssh_key_count := 0;
     cq_create_dictionary := false; cq_dictionary_attrs := []; cq_dictionary_def := None;
     cq_create_database := false; cq_database := []; cq_table := []; cq_view := bytes_of "v";
     cq_columns := []; cq_indexes := []; cq_projections := []; cq_constraints := [];
     cq_columns_primary_key := []; cq_has_empty_columns_primary_key := false;
     cq_engine := None; cq_inner_engine := None; cq_order_by := []; cq_order_by_has_modifiers := false;
     cq_partition_by := None; cq_primary_key := []; cq_sample_by := None; cq_ttl := None;
     cq_settings := 0; cq_query_settings := 0; cq_settings_before_comment := false;
     cq_comment := []; cq_has_refresh := false; cq_materialized := true; cq_window_view := false;
     cq_to := true;
     cq_as_select := Some {| as_plain := select_1_tree; as_no_format := select_1_tree |};
     cq_as_table_function := None; cq_format := [] |}.

Example mv_to_counts :
  inv_create mv_to /\
  header_count (explain_create_query 0 mv_to) = 3 /\
  direct_children (explain_create_query 0 mv_to) = 3 /\
  check_text node_kinds (print_lines (explain_create_query 0 mv_to)) = true.
Proof. vm_compute. repeat split. Qed.

(* ALTER TABLE t UPDATE a = 1 IN PARTITION 'p' WHERE b *)
Definition update_command : alter_command :=
  {| ac_type := AT_Update; ac_column := None; ac_column_name := []; ac_after_column := []; ac_new_name := [];
     ac_index := []; ac_index_def := None; ac_after_index := []; ac_constraint := None;
     ac_constraint_name := [];
     ac_partition := Some {| pt_view := PV_literal (bytes_of "p"); pt_tree := lit "\'p\'" |};
     ac_partition_is_id := false; ac_is_part := false;
     ac_from_table := false; ac_ttl := None; ac_settings := 0; ac_where := Some (idn "b");
     ac_assignments := [ {| as_column := bytes_of "a"; as_value := Some (lit "UInt64_1") |} ];
     ac_projection := None; ac_projection_name := []; ac_stat_columns := []; ac_stat_types := [];
     ac_comment := []; ac_order_by := []; ac_sample_by := None; ac_reset_settings := [];
     ac_query := None |}.

Example update_command_inv : inv_alter update_command.
Proof. reflexivity. Qed.

Example update_command_counts :
  header_count (explain_alter_command 2 update_command) = 3 /\
  direct_children (explain_alter_command 2 update_command) = 3 /\
  check_lines (explain_alter_command 0 update_command) = true.
Proof. vm_compute. repeat split. Qed.

(* ALTER TABLE t ADD STATISTICS a, b TYPE tdigest(5), uniq *)
Definition add_statistics_command : alter_command :=
  set_stats (empty_alter AT_AddStatistics) [bytes_of "a"; bytes_of "b"]
            [ {| fn_name := bytes_of "tdigest"; fn_args := [lit "UInt64_5"] |};
              {| fn_name := bytes_of "uniq"; fn_args := [] |} ].

Example add_statistics_inv : inv_alter add_statistics_command.
Proof. reflexivity. Qed.

Example add_statistics_counts :
  header_count (explain_alter_command 0 add_statistics_command) = 1 /\
  direct_children (explain_alter_command 0 add_statistics_command) = 1 /\
  check_lines (explain_alter_command 0 add_statistics_command) = true.
Proof. vm_compute. repeat split. Qed.

Definition an_alter_query : alter_query :=
  {| aq_database := bytes_of "d"; aq_table := bytes_of "t";
     aq_commands := [update_command; add_statistics_command]; aq_settings := 1;
     aq_format := bytes_of "Null" |}.

Example alter_query_counts :
  header_count (explain_alter_query 0 an_alter_query) = 5 /\
  direct_children (explain_alter_query 0 an_alter_query) = 5 /\
  check_text node_kinds (print_lines (explain_alter_query 0 an_alter_query)) = true.
Proof. vm_compute. repeat split. Qed.
