(* C07, fragment layer -- the PARSER half of C07 proved for the SELECT-core model, and composed with
   the printer model to an end-to-end statement for the embeddings the fragment contains.

   C07: "The EXPLAIN text of a SELECT query (starting with SELECT or WITH, without its own
         FORMAT/SETTINGS/INTO OUTFILE tail) appears verbatim, merely indented, inside the EXPLAIN text
         of any statement that embeds it as a FROM subquery, IN/EXISTS/scalar subquery, CTE body, JOIN
         operand, CREATE VIEW ... AS, INSERT ... SELECT or EXPLAIN target, and wrapping the whole query
         in parentheses at statement level changes nothing."

   Properties/C07.v proves the printer half over the generated depth inventory.  Here, over
   Select/SelectParseModel.v (a correspondence-tested transcription of parseStatement for SELECT / "("
   statements) and Select/SelectPrintModel.v:

   * the simulation (Select/SelectCoreClose.v): the query parser run on  q ++ ")" ++ anything  goes
     through the same states as on  q  alone (end = EOF) and returns the same query, for every token
     list q that is parsed completely and without error -- PROVIDED q does not end with a comma
     followed by WHERE / GROUP / HAVING / ORDER / LIMIT / INTO / SETTINGS / FORMAT  ([nt q]);
   * hence the embedded query is the SAME AST value at a table-expression position, in the subquery
     branch of parseGroupedOrTuple, and in statement-level parentheses; and six whole statements
     around an arbitrary accepted q parse to the expected AST with that value in it;
   * hence ([C07_fragment_explain_*]) the printed lines of the embedding statement contain the
     printed lines of q as one contiguous block, every line indented by the embedding depth
     (7 for FROM ( q ), 5 for SELECT ( q ), 6 for WHERE a = ( q ), 0 and nothing around it for ( q )).

   PARTIAL (hence the names): the side condition [nt] cannot be dropped.  The full statement is
   REFUTED on the model ([C07_fragment_*_refuted]) and on the Go code alike:
       SELECT a, limit                  one column  (a); the trailing comma is dropped, LIMIT is empty
       ( SELECT a, limit )              two columns (a, limit)
       SELECT * FROM ( SELECT a, limit )   the subquery has two columns
   (also with  , where  and  , having ; inside a GROUP BY list as well).  Cause: isClauseKeyword
   (parser/expression.go:208-235), asked by parseExpressionList after a comma, says "clause keyword"
   for WHERE/GROUP/HAVING/ORDER/LIMIT unless the NEXT token is "(" "[" "," or ")" -- the ")" case was
   added for  f(a, limit)  and makes the answer depend on whether ")" or EOF follows the query.
   Replay: parser.Parse + parser.Explain on the three texts above.

   Not covered: the embeddings outside the fragment (IN / EXISTS, CTE bodies, JOIN operands, CREATE
   VIEW AS, INSERT SELECT, EXPLAIN targets) -- harness only, as before.

   Tied to /repo by the SELECT-core correspondence (checks/gen_selectcore_cases.py). *)
From Coq Require Import List NArith Bool String.
From DC Require Import Base.Item Gen.TokenTable Lexer.LexerModel Tree.LineTree Tree.LineTreeProof.
From DC Require Import Select.SelectExplainProof Embed.EmbedSelect.
From DC Require Import Select.SelectParseModel Select.SelectPrintModel Select.SelectCoreSafe.
From DC Require Import Select.SelectCoreErrs Select.SelectCoreClose Select.SelectCoreEmbed Select.SelectCoreEmbedExplain.
Import ListNotations.
Local Open Scope N_scope.

(* ---- the simulation ---- *)

(* p.errors only grows: a run that ends without error never had one *)
Theorem C07_fragment_errors_only_grow : forall f s x s',
  parse_select_with_union f s = Ok (x, s') -> errs s' = [] -> errs s = [].
Proof. exact parse_select_with_union_errs_mono. Qed.
Print Assumptions C07_fragment_errors_only_grow.

(* the query parser, any fuel alone, every sufficient fuel in the embedding, any result (also the
   nil query) *)
Theorem C07_fragment_simulation_partial : forall rest, tok_at rest = T_RPAREN ->
  forall f f' q Q,
  parse_select_with_union f (mkSt q []) = Ok (Q, mkSt [] []) ->
  nt q ->
  (3 * List.length (q ++ rest) + 2 <= f')%nat ->
  parse_select_with_union f' (mkSt (q ++ rest) []) = Ok (Q, mkSt rest []).
Proof. exact parse_select_with_union_close. Qed.
Print Assumptions C07_fragment_simulation_partial.

(* the same for parseExpression: an expression followed by ")" *)
Theorem C07_fragment_expression_simulation_partial : forall rest, tok_at rest = T_RPAREN ->
  forall f f' prec ts e,
  parse_expr f prec (mkSt ts []) = Ok (e, mkSt [] []) ->
  nt ts ->
  (3 * List.length (ts ++ rest) + 2 <= f')%nat ->
  parse_expr f' prec (mkSt (ts ++ rest) []) = Ok (e, mkSt rest []).
Proof. exact parse_expr_close. Qed.
Print Assumptions C07_fragment_expression_simulation_partial.

Theorem C07_fragment_query_then_rparen_partial : forall q Q rest f',
  accepted_query q Q -> nt q -> tok_at rest = T_RPAREN ->
  (3 * List.length (q ++ rest) + 2 <= f')%nat ->
  parse_select_with_union f' (mkSt (q ++ rest) []) = Ok (Some Q, mkSt rest []).
Proof. exact query_then_rparen_partial. Qed.
Print Assumptions C07_fragment_query_then_rparen_partial.

(* ---- (a) FROM ( q ): any table-expression position ---- *)

Theorem C07_fragment_table_position_partial : forall q Q lp rp post f',
  accepted_query q Q -> nt q -> it_tok lp = T_LPAREN -> it_tok rp = T_RPAREN ->
  (3 * List.length (q ++ rp :: post) + 2 <= f')%nat ->
  parse_table_expression (parse_select_with_union f') (mkSt (lp :: q ++ rp :: post) []) =
  table_tail (Some (TSSubquery (Some Q))) (mkSt post []).
Proof. exact table_subquery_position_partial. Qed.
Print Assumptions C07_fragment_table_position_partial.

(* ---- (b) ( q ) in an expression ---- *)

Theorem C07_fragment_scalar_position_partial : forall pe q Q lp rp post f',
  accepted_query q Q -> nt q -> it_tok lp = T_LPAREN -> it_tok rp = T_RPAREN ->
  (3 * List.length (q ++ rp :: post) + 2 <= f')%nat ->
  parse_grouped_or_tuple pe (parse_select_with_union f') (mkSt (lp :: q ++ rp :: post) []) =
  Ok (Some (ESubquery (Some Q) []), mkSt post []).
Proof. exact scalar_subquery_position_partial. Qed.
Print Assumptions C07_fragment_scalar_position_partial.

Theorem C07_fragment_scalar_expression_partial : forall q Q lp rp post prec f',
  accepted_query q Q -> nt q -> it_tok lp = T_LPAREN -> it_tok rp = T_RPAREN ->
  (3 * List.length (q ++ rp :: post) + 2 <= f')%nat ->
  parse_expr (S f') prec (mkSt (lp :: q ++ rp :: post) []) =
  pratt_loop f' prec (ESubquery (Some Q) []) (mkSt post []).
Proof. exact scalar_subquery_expression_partial. Qed.
Print Assumptions C07_fragment_scalar_expression_partial.

(* ---- (c) ( q ) at statement level: the same SelectWithUnionQuery value, no wrapper ---- *)

Theorem C07_fragment_paren_statement_partial : forall q Q lp rp post,
  accepted_query q Q -> nt q -> it_tok lp = T_LPAREN -> it_tok rp = T_RPAREN ->
  paren_follow_ok post ->
  parse_model (lp :: q ++ rp :: post) = Ok (Some Q, post, []).
Proof. exact paren_statement_partial. Qed.
Print Assumptions C07_fragment_paren_statement_partial.

Theorem C07_fragment_paren_statement_same_partial : forall q Q lp rp,
  accepted_query q Q -> nt q -> it_tok lp = T_LPAREN -> it_tok rp = T_RPAREN ->
  parse_model (lp :: q ++ [rp]) = parse_model q.
Proof. exact paren_statement_same_partial. Qed.
Print Assumptions C07_fragment_paren_statement_same_partial.

(* ---- whole statements around an arbitrary accepted q ---- *)

Theorem C07_fragment_from_partial : forall q Q pre post,
  accepted_query q Q -> nt q -> sub_printable Q ->
  shape pre [(T_SELECT, None); (T_ASTERISK, None); (T_FROM, None); (T_LPAREN, None)] ->
  shape post [(T_RPAREN, None)] ->
  parse_model (pre ++ q ++ post) =
  Ok (Some (one_select (Select false [EAsterisk []] (from_sub Q []) None [] None [] None None)), [], []).
Proof. exact ctx_from_partial. Qed.
Print Assumptions C07_fragment_from_partial.

Theorem C07_fragment_from_as_partial : forall q Q pre post al,
  accepted_query q Q -> nt q -> sub_printable Q ->
  shape pre [(T_SELECT, None); (T_ASTERISK, None); (T_FROM, None); (T_LPAREN, None)] ->
  shape post [(T_RPAREN, None); (T_AS, None); (T_IDENT, Some al)] ->
  parse_model (pre ++ q ++ post) =
  Ok (Some (one_select (Select false [EAsterisk []] (from_sub Q al) None [] None [] None None)), [], []).
Proof. exact ctx_from_as_partial. Qed.
Print Assumptions C07_fragment_from_as_partial.

Theorem C07_fragment_from_where_partial : forall q Q pre post,
  accepted_query q Q -> nt q -> sub_printable Q ->
  shape pre [(T_SELECT, None); (T_ASTERISK, None); (T_FROM, None); (T_LPAREN, None)] ->
  shape post [(T_RPAREN, None); (T_AS, None); (T_IDENT, S_ "s"); (T_WHERE, None);
              (T_IDENT, S_ "s"); (T_DOT, None); (T_IDENT, S_ "a"); (T_GT, S_ ">"); (T_NUMBER, S_ "0")] ->
  parse_model (pre ++ q ++ post) =
  Ok (Some (one_select
       (Select false [EAsterisk []] (from_sub Q (bytes_of "s"))
          (Some (EBinary (bytes_of ">") (EIdent [bytes_of "s"; bytes_of "a"] [] false)
                         (Some (ELit (LInt64 0) false)) false))
          [] None [] None None)), [], []).
Proof. exact ctx_from_where_partial. Qed.
Print Assumptions C07_fragment_from_where_partial.

Theorem C07_fragment_scalar_partial : forall q Q pre post,
  accepted_query q Q -> nt q -> sub_printable Q ->
  shape pre [(T_SELECT, None); (T_LPAREN, None)] ->
  shape post [(T_RPAREN, None)] ->
  parse_model (pre ++ q ++ post) =
  Ok (Some (one_select (Select false [ESubquery (Some Q) []] None None [] None [] None None)), [], []).
Proof. exact ctx_scalar_partial. Qed.
Print Assumptions C07_fragment_scalar_partial.

Theorem C07_fragment_scalar_as_partial : forall q Q pre post al,
  accepted_query q Q -> nt q -> sub_printable Q ->
  shape pre [(T_SELECT, None); (T_LPAREN, None)] ->
  shape post [(T_RPAREN, None); (T_AS, None); (T_IDENT, Some al)] ->
  parse_model (pre ++ q ++ post) =
  Ok (Some (one_select (Select false [ESubquery (Some Q) al] None None [] None [] None None)), [], []).
Proof. exact ctx_scalar_as_partial. Qed.
Print Assumptions C07_fragment_scalar_as_partial.

Theorem C07_fragment_where_eq_partial : forall q Q pre post,
  accepted_query q Q -> nt q -> sub_printable Q ->
  shape pre [(T_SELECT, None); (T_ASTERISK, None); (T_FROM, None); (T_IDENT, S_ "t"); (T_WHERE, None);
             (T_IDENT, S_ "a"); (T_EQ, S_ "="); (T_LPAREN, None)] ->
  shape post [(T_RPAREN, None)] ->
  parse_model (pre ++ q ++ post) =
  Ok (Some (one_select
       (Select false [EAsterisk []] (Some [TableElem (Some (TSIdent [] (bytes_of "t"))) []])
          (Some (EBinary (bytes_of "=") (EIdent [bytes_of "a"] [] false)
                         (Some (ESubquery (Some Q) [])) false))
          [] None [] None None)), [], []).
Proof. exact ctx_where_eq_partial. Qed.
Print Assumptions C07_fragment_where_eq_partial.

(* ---- composed with the printer model ---- *)

(* the printer model, on any statement that holds Q (FROM subquery / select list / WHERE) *)
Theorem C07_fragment_printer : forall Q O k,
  query_holds Q O k ->
  wf_query O = true -> printable_query false O = true -> printable_query false Q = true ->
  exists LO LQ pre post,
    print_query O = Ok LO /\ print_query Q = Ok LQ /\
    nrm LO = pre ++ map (shift k) (nrm LQ) ++ post.
Proof. exact holds_explain. Qed.
Print Assumptions C07_fragment_printer.

(* parser and printer: whenever the embedding statement parses to a statement that holds the
   query's own AST *)
Theorem C07_fragment_end_to_end : forall ctx q Q O k,
  accepted_query q Q -> parse_model ctx = Ok (Some O, [], []) -> query_holds Q O k ->
  embeds_at ctx q k.
Proof. exact embeds_from_parse. Qed.
Print Assumptions C07_fragment_end_to_end.

Theorem C07_fragment_embeds_contains : forall ctx q k, embeds_at ctx q k ->
  exists O Q LO LQ, parse_model ctx = Ok (Some O, [], []) /\ parse_model q = Ok (Some Q, [], []) /\
    print_query O = Ok LO /\ print_query Q = Ok LQ /\ contains_block (nrm LO) (nrm LQ).
Proof. exact embeds_at_contains. Qed.
Print Assumptions C07_fragment_embeds_contains.

Theorem C07_fragment_explain_from_partial : forall q Q, accepted_query q Q -> nt q -> sub_printable Q ->
  forall pre post,
  shape pre [(T_SELECT, None); (T_ASTERISK, None); (T_FROM, None); (T_LPAREN, None)] ->
  shape post [(T_RPAREN, None)] ->
  embeds_at (pre ++ q ++ post) q 7.
Proof. exact explain_ctx_from_partial. Qed.
Print Assumptions C07_fragment_explain_from_partial.

Theorem C07_fragment_explain_from_as_partial : forall q Q, accepted_query q Q -> nt q -> sub_printable Q ->
  forall pre post al,
  shape pre [(T_SELECT, None); (T_ASTERISK, None); (T_FROM, None); (T_LPAREN, None)] ->
  shape post [(T_RPAREN, None); (T_AS, None); (T_IDENT, Some al)] ->
  embeds_at (pre ++ q ++ post) q 7.
Proof. exact explain_ctx_from_as_partial. Qed.
Print Assumptions C07_fragment_explain_from_as_partial.

Theorem C07_fragment_explain_from_where_partial : forall q Q, accepted_query q Q -> nt q -> sub_printable Q ->
  forall pre post,
  shape pre [(T_SELECT, None); (T_ASTERISK, None); (T_FROM, None); (T_LPAREN, None)] ->
  shape post [(T_RPAREN, None); (T_AS, None); (T_IDENT, S_ "s"); (T_WHERE, None);
              (T_IDENT, S_ "s"); (T_DOT, None); (T_IDENT, S_ "a"); (T_GT, S_ ">"); (T_NUMBER, S_ "0")] ->
  embeds_at (pre ++ q ++ post) q 7.
Proof. exact explain_ctx_from_where_partial. Qed.
Print Assumptions C07_fragment_explain_from_where_partial.

Theorem C07_fragment_explain_scalar_partial : forall q Q, accepted_query q Q -> nt q -> sub_printable Q ->
  forall pre post,
  shape pre [(T_SELECT, None); (T_LPAREN, None)] -> shape post [(T_RPAREN, None)] ->
  embeds_at (pre ++ q ++ post) q 5.
Proof. exact explain_ctx_scalar_partial. Qed.
Print Assumptions C07_fragment_explain_scalar_partial.

Theorem C07_fragment_explain_scalar_as_partial : forall q Q, accepted_query q Q -> nt q -> sub_printable Q ->
  forall pre post al,
  shape pre [(T_SELECT, None); (T_LPAREN, None)] ->
  shape post [(T_RPAREN, None); (T_AS, None); (T_IDENT, Some al)] ->
  embeds_at (pre ++ q ++ post) q 5.
Proof. exact explain_ctx_scalar_as_partial. Qed.
Print Assumptions C07_fragment_explain_scalar_as_partial.

Theorem C07_fragment_explain_where_eq_partial : forall q Q, accepted_query q Q -> nt q -> sub_printable Q ->
  forall pre post,
  shape pre [(T_SELECT, None); (T_ASTERISK, None); (T_FROM, None); (T_IDENT, S_ "t"); (T_WHERE, None);
             (T_IDENT, S_ "a"); (T_EQ, S_ "="); (T_LPAREN, None)] ->
  shape post [(T_RPAREN, None)] ->
  embeds_at (pre ++ q ++ post) q 6.
Proof. exact explain_ctx_where_eq_partial. Qed.
Print Assumptions C07_fragment_explain_where_eq_partial.

(* ( q ) at statement level: the same statement, the same lines *)
Theorem C07_fragment_explain_paren_partial : forall q Q, accepted_query q Q -> nt q ->
  forall lp rp, it_tok lp = T_LPAREN -> it_tok rp = T_RPAREN ->
  exists L,
    parse_model (lp :: q ++ [rp]) = Ok (Some Q, [], []) /\
    parse_model q = Ok (Some Q, [], []) /\
    print_model (Some Q) = Ok L.
Proof. exact explain_paren_statement_partial. Qed.
Print Assumptions C07_fragment_explain_paren_partial.

(* ---- the side condition cannot be dropped ---- *)

Theorem C07_fragment_witness :
  accepted_query w_query w_alone /\ sub_printable w_alone /\ comma_kw_tail w_query = true /\
  w_embedded <> w_alone /\
  parse_model (w_lp :: w_query ++ [w_rp]) = Ok (Some w_embedded, [], []) /\
  parse_model ([tk T_SELECT "SELECT"; tk T_ASTERISK "*"; tk T_FROM "FROM"; w_lp] ++ w_query ++ [w_rp]) =
    Ok (Some (one_select (Select false [EAsterisk []] (from_sub w_embedded []) None [] None [] None None)), [], []) /\
  parse_model ([tk T_SELECT "SELECT"; w_lp] ++ w_query ++ [w_rp]) =
    Ok (Some (one_select (Select false [ESubquery (Some w_embedded) []] None None [] None [] None None)), [], []).
Proof. exact witness_facts. Qed.
Print Assumptions C07_fragment_witness.

Theorem C07_fragment_simulation_refuted :
  ~ (forall q Q rest f', accepted_query q Q -> tok_at rest = T_RPAREN ->
       (3 * List.length (q ++ rest) + 2 <= f')%nat ->
       parse_select_with_union f' (mkSt (q ++ rest) []) = Ok (Some Q, mkSt rest [])).
Proof. exact query_then_rparen_refuted. Qed.
Print Assumptions C07_fragment_simulation_refuted.

Theorem C07_fragment_paren_statement_refuted :
  ~ (forall q Q lp rp, accepted_query q Q -> it_tok lp = T_LPAREN -> it_tok rp = T_RPAREN ->
       parse_model (lp :: q ++ [rp]) = parse_model q).
Proof. exact paren_statement_refuted. Qed.
Print Assumptions C07_fragment_paren_statement_refuted.

Theorem C07_fragment_from_refuted :
  ~ (forall q Q pre post, accepted_query q Q -> sub_printable Q ->
       shape pre [(T_SELECT, None); (T_ASTERISK, None); (T_FROM, None); (T_LPAREN, None)] ->
       shape post [(T_RPAREN, None)] ->
       parse_model (pre ++ q ++ post) =
       Ok (Some (one_select (Select false [EAsterisk []] (from_sub Q []) None [] None [] None None)), [], [])).
Proof. exact ctx_from_refuted. Qed.
Print Assumptions C07_fragment_from_refuted.

Theorem C07_fragment_scalar_refuted :
  ~ (forall q Q pre post, accepted_query q Q -> sub_printable Q ->
       shape pre [(T_SELECT, None); (T_LPAREN, None)] -> shape post [(T_RPAREN, None)] ->
       parse_model (pre ++ q ++ post) =
       Ok (Some (one_select (Select false [ESubquery (Some Q) []] None None [] None [] None None)), [], [])).
Proof. exact ctx_scalar_refuted. Qed.
Print Assumptions C07_fragment_scalar_refuted.

(* ------------------------------------------------------------------------------------------ *)
(* The premises are satisfied by a non-trivial query, from source text through the lexer model *)

Definition lex (s : string) : list item :=
  match LexerModel.tokenize (SelectParseModel.bytes_of s) with
  | Some its => parser_tokens its
  | None => []
  end.

Definition ex_stmt : list item :=
  lex "SELECT * FROM (SELECT a, f(b) AS x FROM db.t AS u WHERE a = 1 ORDER BY a DESC LIMIT 3) AS s WHERE s.a > 0".
Definition ex_pre : list item := firstn 4 ex_stmt.                    (* SELECT * FROM (            *)
Definition ex_q : list item := firstn 25 (skipn 4 ex_stmt).           (* the embedded query         *)
Definition ex_post : list item := skipn 29 ex_stmt.                   (* ) AS s WHERE s.a > 0       *)

Definition q_of (ts : list item) : query :=
  match parse_model ts with Ok (Some q, _, _) => q | _ => Query [] [] false end.

(* kind and value of a token (positions differ between the query alone and the query in the statement) *)
Definition tv (i : item) : N * list N := (it_tok i, it_val i).

Example ex_split :
  ex_stmt = ex_pre ++ ex_q ++ ex_post /\
  map tv ex_q = map tv (lex "SELECT a, f(b) AS x FROM db.t AS u WHERE a = 1 ORDER BY a DESC LIMIT 3") /\
  map it_tok ex_pre = [T_SELECT; T_ASTERISK; T_FROM; T_LPAREN] /\
  map it_tok ex_post = [T_RPAREN; T_AS; T_IDENT; T_WHERE; T_IDENT; T_DOT; T_IDENT; T_GT; T_NUMBER].
Proof. vm_compute. repeat split; reflexivity. Qed.

(* the query is accepted alone, satisfies the side condition, and is printable as a subquery *)
Example ex_accepted :
  accepted_query ex_q (q_of ex_q) /\ comma_kw_tail ex_q = false /\ printable_query true (q_of ex_q) = true.
Proof. vm_compute. repeat split; reflexivity. Qed.

Example ex_query_is_not_trivial :
  match q_of ex_q with
  | Query [Some (Select false [_; EFunc _ [_] _] (Some [TableElem (Some (TSIdent _ _)) _]) (Some _) []
                        None [OrderElem (Some _) true] (Some _) None)] [] false => True
  | _ => False
  end.
Proof. vm_compute. exact I. Qed.

(* so the theorems apply (not by running the model on the embedding statement): *)
Example ex_parse_by_theorem : forall pre q post Q,
  pre = ex_pre -> q = ex_q -> post = ex_post -> accepted_query q Q ->
  parse_model (pre ++ q ++ post) =
  Ok (Some (one_select
       (Select false [EAsterisk []] (from_sub Q (bytes_of "s"))
          (Some (EBinary (bytes_of ">") (EIdent [bytes_of "s"; bytes_of "a"] [] false)
                         (Some (ELit (LInt64 0) false)) false))
          [] None [] None None)), [], []).
Proof.
  intros pre q post Q E1 E2 E3 Ha.
  assert (HQ : Q = q_of ex_q)
    by (apply (accepted_unique ex_q); [rewrite <- E2; exact Ha|exact (proj1 ex_accepted)]).
  apply C07_fragment_from_where_partial; try assumption.
  - rewrite E2. exact (proj1 (proj2 ex_accepted)).
  - unfold sub_printable. rewrite HQ. exact (proj2 (proj2 ex_accepted)).
  - rewrite E1. vm_compute. repeat constructor.
  - rewrite E3. vm_compute. repeat constructor.
Qed.

Example ex_explain_by_theorem : forall pre q post Q,
  pre = ex_pre -> q = ex_q -> post = ex_post -> accepted_query q Q ->
  embeds_at (pre ++ q ++ post) q 7.
Proof.
  intros pre q post Q E1 E2 E3 Ha.
  assert (HQ : Q = q_of ex_q)
    by (apply (accepted_unique ex_q); [rewrite <- E2; exact Ha|exact (proj1 ex_accepted)]).
  apply (C07_fragment_explain_from_where_partial q Q Ha).
  - rewrite E2. exact (proj1 (proj2 ex_accepted)).
  - unfold sub_printable. rewrite HQ. exact (proj2 (proj2 ex_accepted)).
  - rewrite E1. vm_compute. repeat constructor.
  - rewrite E3. vm_compute. repeat constructor.
Qed.

(* the concrete instance, and the same facts by running the models on the embedding statement:
   the FROM subquery is the query parsed alone, and its 20 printed lines are lines 10..29 of the 33
   printed lines of the statement, each indented by 7 more *)
Example ex_concrete : embeds_at ex_stmt ex_q 7.
Proof.
  rewrite (proj1 ex_split).
  exact (ex_explain_by_theorem ex_pre ex_q ex_post (q_of ex_q) eq_refl eq_refl eq_refl (proj1 ex_accepted)).
Qed.

Definition lines_of (ts : list item) : list line :=
  match print_query (q_of ts) with Ok ls => ls | _ => [] end.

Example ex_by_running_the_models :
  q_of ex_stmt =
    one_select (Select false [EAsterisk []] (from_sub (q_of ex_q) (bytes_of "s"))
                  (Some (EBinary (bytes_of ">") (EIdent [bytes_of "s"; bytes_of "a"] [] false)
                                 (Some (ELit (LInt64 0) false)) false))
                  [] None [] None None) /\
  List.length (lines_of ex_q) = 20%nat /\ List.length (lines_of ex_stmt) = 33%nat /\
  firstn 20 (skipn 9 (nrm (lines_of ex_stmt))) = map (shift 7) (nrm (lines_of ex_q)).
Proof. vm_compute. repeat split; reflexivity. Qed.

(* the counterexample, from source text *)
Definition cex_q : list item := lex "SELECT a, limit".
Definition cex_paren : list item := lex "(SELECT a, limit)".
Definition cex_from : list item := lex "SELECT * FROM (SELECT a, limit)".

Example ex_counterexample :
  accepted_query cex_q (q_of cex_q) /\ comma_kw_tail cex_q = true /\
  map tv cex_paren = map tv (firstn 1 cex_paren ++ cex_q ++ skipn 5 cex_paren) /\
  map tv cex_from = map tv (firstn 4 cex_from ++ cex_q ++ skipn 8 cex_from) /\
  (* alone: one column; in parentheses: two *)
  match q_of cex_q with Query [Some (Select _ [EIdent _ _ _] None None [] None [] None None)] [] false => True | _ => False end /\
  match q_of cex_paren with Query [Some (Select _ [EIdent _ _ _; EIdent _ _ _] None None [] None [] None None)] [] false => True | _ => False end /\
  match q_of cex_from with
  | Query [Some (Select _ [EAsterisk _]
                   (Some [TableElem (Some (TSSubquery (Some (Query [Some (Select _ [_; _] _ _ _ _ _ _ _)] _ _)))) _])
                   _ _ _ _ _ _)] _ _ => True
  | _ => False
  end /\
  List.length (lines_of cex_q) = 5%nat /\ List.length (lines_of cex_paren) = 6%nat.
Proof. vm_compute. repeat split; reflexivity. Qed.
