(* C04, the text INSIDE a node line -- "one node per line" needs that the text a printer of
   /repo/internal/explain/format.go puts into a line contains no line break (byte 10).  The tree theorems of the other
   C04 files treat that text as an opaque label; here it is proved, over the hand-written models that the C09 and C18
   correspondence runs tie to the Go code, that a literal or a type cannot split its line.

   Models: Expr/LiteralModel.v (escapeStringLiteral, FormatLiteral, FormatFloat, formatArrayLiteral, formatTupleLiteral,
   formatNumericExpr, formatExprAsString, explainLiteral, explainUnaryExpr, the literal parser),
   Expr/TypeModel.v (parseDataType, parseCast, parseCastOperator, FormatDataType, escapeStringForTypeParam,
   escapeStringLiteral, needsBacktickQuoting, the type line of explainCastExprWithAlias), spec Expr/TypeSpec.v.
   Proofs: Expr/LineSafe.v, Expr/LineSafeLit.v, Expr/LineSafeType.v.

   Reading the statements.  [avoids bad s]: no byte of s is in the set [bad];  [escaped_set bad]: bad is a subset of
   {0, 8, 9, 10, 12, 13}, exactly the control bytes the escaping functions of format.go replace -- the general
   theorems hold for every such set, [is_lf] = {10} is the instance the property needs, [no_esc_ctl] the instance
   with all six;  [over abc s]: every byte of s is in the list abc.
   Oracle: [pf] / [itf] are strconv.ParseFloat / the integer->float64 conversion (the trusted oracle of C09);
   [fdigits f]: the digit string of the float f consists of decimal digits (implied by C09's premise [fval_ok]).

   FULL STATEMENTS that are FALSE of the models (and of the Go code), with the witness theorems below:
     forall itf v, ~ In 10 (format_literal itf v)          [C04_literal_tree_negated_string_refuted]: a negated STRING
        element of an array / tuple literal is rendered by formatExprAsString as "-" + the raw string; the strongest
        true statement is under [lit_ok] (C04_literal_tree_avoids), and the hypothesis disappears for the line
        that is actually printed (C04_literal_line_avoids: such arrays are printed as `Function array`).
     forall d, ~ In 10 (explain_type d)                    [C04_type_element_name_refuted]: FormatDataType copies type
        names, element names (back-quoted, not escaped), identifier parameters; explainCastExprWithAlias escapes the
        text only for a type without parameters.  The strongest true statement is the EQUIVALENCE
        C04_type_line_exact; `SELECT CAST(x AS Tuple(`a<LF>b` UInt8))` splits the Literal line of the Go code.
     "no control byte below 32"                            [C04_string_literal_any_control_refuted],
        [C04_type_any_control_refuted]: bytes 1-7, 11, 14-31 are copied by every escaping function. *)
From Coq Require Import List NArith ZArith Bool Strings.String.
From DC Require Import Gen.TokenTable.
From DC Require Expr.ExprTree Expr.LiteralModel Expr.LiteralProof Expr.TypeBase Expr.TypeSpec Expr.TypeModel Expr.TypeProof.
From DC Require Import Expr.LineSafe Expr.LineSafeLit Expr.LineSafeType.
Import ListNotations.
Local Open Scope N_scope.

(* ======================================================================================== *)
(* Part 1: literals *)

(* ---- strings: EVERY byte string v (10, 13, 0, 39, 92, invalid UTF-8 ... included) ---- *)

Theorem C04_string_literal_no_line_break : forall v : list N, ~ In 10 (LiteralModel.format_string v).
Proof. exact format_string_no_lf. Qed.
Print Assumptions C04_string_literal_no_line_break.

Theorem C04_string_literal_no_carriage_return : forall v : list N, ~ In 13 (LiteralModel.format_string v).
Proof. exact format_string_no_cr. Qed.
Print Assumptions C04_string_literal_no_carriage_return.

Theorem C04_string_literal_avoids :
  forall bad : N -> bool, escaped_set bad -> forall v : list N, avoids bad (LiteralModel.format_string v) = true.
Proof. exact format_string_avoids. Qed.
Print Assumptions C04_string_literal_avoids.

(* none of 0, 8, 9, 10, 12, 13 *)
Theorem C04_string_literal_no_escaped_control : forall v : list N, no_esc_ctl (LiteralModel.format_string v) = true.
Proof. exact format_string_no_esc_ctl. Qed.
Print Assumptions C04_string_literal_no_escaped_control.

(* exactly which control bytes reach the line: those of v that are not among the six *)
Theorem C04_string_literal_control_bytes_exact : forall (v : list N) (b : N), b < 32 ->
  (In b (LiteralModel.format_string v) <-> In b v /\ is_esc_ctl b = false).
Proof. exact format_string_ctl_exact. Qed.
Print Assumptions C04_string_literal_control_bytes_exact.

(* "no raw control byte below 32" is false: VT (11), 1, 31 are copied *)
Theorem C04_string_literal_any_control_refuted :
  exists v, avoids is_ctl (LiteralModel.format_string v) = false /\ In 11 (LiteralModel.format_string v).
Proof. exact format_string_ctl_refuted. Qed.
Print Assumptions C04_string_literal_any_control_refuted.

(* ---- numbers: fixed alphabets ---- *)

(* fmt %d: digits *)
Theorem C04_decimal_is_digits : forall n : N, over digit_abc (ExprTree.dec n) = true.
Proof. exact dec_over_digits. Qed.
Print Assumptions C04_decimal_is_digits.

(* FormatLiteral on integers: 0-9 - U I n t 6 4 _ *)
Theorem C04_integer_literal_alphabet : forall (itf : N -> LiteralModel.fval) (n : N),
  over int_abc (LiteralModel.format_literal itf (LiteralModel.VInt n)) = true /\
  over int_abc (LiteralModel.format_literal itf (LiteralModel.VUInt n)) = true.
Proof. exact format_literal_int_over. Qed.
Print Assumptions C04_integer_literal_alphabet.

(* FormatFloat on (digits, exponent), every digit string and every exponent: 0-9 - + . e i n f a *)
Theorem C04_float_alphabet : forall f : LiteralModel.fval,
  fdigits f = true -> over float_abc (LiteralModel.format_float f) = true.
Proof. exact format_float_over. Qed.
Print Assumptions C04_float_alphabet.

(* under C09's oracle premise (non-empty digits, -324 <= e <= 308) no '+' survives: 0-9 - . e i n f a *)
Theorem C04_float_alphabet_tight : forall f : LiteralModel.fval,
  LiteralProof.fval_ok f -> over float_abc_tight (LiteralModel.format_float f) = true.
Proof. exact format_float_over_tight. Qed.
Print Assumptions C04_float_alphabet_tight.

(* every numeric literal: the letters of UInt64_ Int64_ Float64_ inf nan, digits, - + . e *)
Theorem C04_numeric_literal_alphabet : forall (itf : N -> LiteralModel.fval) (v : LiteralModel.lval),
  LiteralModel.is_numeric v = true ->
  match v with LiteralModel.VFloat f => fdigits f = true | _ => True end ->
  over num_abc (LiteralModel.format_literal itf v) = true.
Proof. exact format_literal_numeric_over. Qed.
Print Assumptions C04_numeric_literal_alphabet.

(* negated numbers inside arrays (formatArrayLiteral) and tuples (formatNumericExpr) *)
Theorem C04_negated_number_alphabet : forall itf : N -> LiteralModel.fval,
  (forall n : N, fdigits (itf n) = true) ->
  forall v : LiteralModel.lval,
  LiteralModel.is_numeric v = true ->
  match v with LiteralModel.VFloat f => fdigits f = true | _ => True end ->
  over num_abc (LiteralModel.array_neg_elem itf v) = true /\ over num_abc (LiteralModel.tuple_neg_elem itf v) = true.
Proof. exact neg_elem_numeric_over. Qed.
Print Assumptions C04_negated_number_alphabet.

(* ---- the whole literal tree: arrays / tuples nested to any depth, negated elements ---- *)

(* [lit_ok bad v]: float digits are digits; the operand of a negated STRING element avoids bad *)
Theorem C04_literal_tree_avoids :
  forall bad : N -> bool, escaped_set bad ->
  forall itf : N -> LiteralModel.fval, (forall n : N, fdigits (itf n) = true) ->
  forall v : LiteralModel.lval, lit_ok bad v = true -> avoids bad (LiteralModel.format_literal itf v) = true.
Proof. exact format_literal_avoids. Qed.
Print Assumptions C04_literal_tree_avoids.

Theorem C04_literal_tree_no_line_break :
  forall itf : N -> LiteralModel.fval, (forall n : N, fdigits (itf n) = true) ->
  forall v : LiteralModel.lval, lit_ok is_lf v = true -> ~ In 10 (LiteralModel.format_literal itf v).
Proof. exact format_literal_no_lf. Qed.
Print Assumptions C04_literal_tree_no_line_break.

(* the hypothesis is needed: [1, -'a<LF>b'] has no float, asks the oracle nothing, and FormatLiteral prints byte 10 *)
Theorem C04_literal_tree_negated_string_refuted : exists v,
  (forall itf, floats_ok_v v = true /\ no_lf (LiteralModel.format_literal itf v) = false /\
               In 10 (LiteralModel.format_literal itf v)) /\
  lit_ok is_lf v = false.
Proof. exact format_literal_neg_string_refuted. Qed.
Print Assumptions C04_literal_tree_negated_string_refuted.

Theorem C04_literal_tree_negated_string_tuple_refuted : exists v,
  forall itf, floats_ok_v v = true /\ no_lf (LiteralModel.format_literal itf v) = false.
Proof. exact format_literal_neg_string_tuple_refuted. Qed.
Print Assumptions C04_literal_tree_negated_string_tuple_refuted.

(* ... and so is the oracle premise, in the model: a float whose "digits" contain byte 10 *)
Theorem C04_literal_tree_float_digits_refuted : exists v,
  forall itf, no_lf (LiteralModel.format_literal itf v) = false /\ floats_ok_v v = false.
Proof. exact format_literal_float_digits_refuted. Qed.
Print Assumptions C04_literal_tree_float_digits_refuted.

(* ---- the line that is printed ---- *)

(* explainLiteral prints `Literal <text>` only when every negated element is numeric: no hypothesis on strings *)
Theorem C04_explain_literal_avoids :
  forall bad : N -> bool, escaped_set bad ->
  forall itf : N -> LiteralModel.fval, (forall n : N, fdigits (itf n) = true) ->
  forall (v : LiteralModel.lval) (text : list N),
  floats_ok_v v = true -> LiteralModel.explain_literal itf v = LiteralModel.OLit text -> avoids bad text = true.
Proof. exact explain_literal_avoids. Qed.
Print Assumptions C04_explain_literal_avoids.

(* the whole first line of a literal or negated literal: "Literal <text>" or the constant `Function ...` line *)
Theorem C04_explain_top_line_avoids :
  forall bad : N -> bool, escaped_set bad ->
  forall itf : N -> LiteralModel.fval, (forall n : N, fdigits (itf n) = true) ->
  forall pf : list N -> option LiteralModel.fval, (forall s f, pf s = Some f -> fdigits f = true) ->
  forall e : LiteralModel.lexpr, floats_ok_e e = true ->
  avoids bad (lout_text (LiteralModel.explain_top pf itf e)) = true.
Proof. exact explain_top_line_avoids. Qed.
Print Assumptions C04_explain_top_line_avoids.

(* EVERY token list (any token values, any nesting): the line the model prints for `SELECT <tokens>` *)
Theorem C04_literal_line_avoids :
  forall bad : N -> bool, escaped_set bad ->
  forall itf : N -> LiteralModel.fval, (forall n : N, fdigits (itf n) = true) ->
  forall pf : list N -> option LiteralModel.fval, (forall s f, pf s = Some f -> fdigits f = true) ->
  forall (ts : list LiteralModel.tk) (o : LiteralModel.lout),
  LiteralModel.literal_of_tokens pf itf ts = LiteralModel.LOk o -> avoids bad (lout_text o) = true.
Proof. exact literal_of_tokens_line_avoids. Qed.
Print Assumptions C04_literal_line_avoids.

(* with the oracle premises of C09_literals_tokens *)
Theorem C04_literal_line_no_line_break :
  forall (pf : list N -> option LiteralModel.fval) (itf : N -> LiteralModel.fval),
  (forall s f, pf s = Some f -> LiteralProof.fval_ok f) -> (forall n, LiteralProof.fval_ok (itf n)) ->
  forall (ts : list LiteralModel.tk) (o : LiteralModel.lout),
  LiteralModel.literal_of_tokens pf itf ts = LiteralModel.LOk o -> ~ In 10 (lout_text o).
Proof. exact literal_line_no_lf. Qed.
Print Assumptions C04_literal_line_no_line_break.

Theorem C04_literal_line_no_escaped_control :
  forall (pf : list N -> option LiteralModel.fval) (itf : N -> LiteralModel.fval),
  (forall s f, pf s = Some f -> LiteralProof.fval_ok f) -> (forall n, LiteralProof.fval_ok (itf n)) ->
  forall (ts : list LiteralModel.tk) (o : LiteralModel.lout),
  LiteralModel.literal_of_tokens pf itf ts = LiteralModel.LOk o -> no_esc_ctl (lout_text o) = true.
Proof. exact literal_line_no_esc_ctl. Qed.
Print Assumptions C04_literal_line_no_escaped_control.

(* ---- non-vacuity ---- *)

(* a string with 10, 13, 0, 39, 92, 9 *)
Theorem C04_lines_example_string : In 10 ex_bytes /\ In 39 ex_bytes /\ In 92 ex_bytes /\
  LiteralModel.format_string ex_bytes =
    [92; 39; 97; 92; 92; 110; 92; 92; 114; 92; 92; 48; 92; 92; 92; 39; 92; 92; 92; 92; 92; 92; 116; 98; 92; 39] /\
  no_esc_ctl (LiteralModel.format_string ex_bytes) = true.
Proof. exact ex_string_hyp. Qed.
Print Assumptions C04_lines_example_string.

(* [['a<LF>...', -1.5e-7], [-0, 18446744073709551615]] and ('a<LF>...', (-1, 2.5), -9223372036854775808) *)
Theorem C04_lines_example_tree :
  lit_ok is_esc_ctl ex_nested_array = true /\ lit_ok is_esc_ctl ex_nested_tuple = true /\
  floats_ok_v ex_nested_array = true /\ floats_ok_v ex_nested_tuple = true /\
  LiteralModel.explain_literal LiteralProof.w_int_to_float ex_nested_tuple =
    LiteralModel.OLit (LiteralModel.format_literal LiteralProof.w_int_to_float ex_nested_tuple) /\
  no_esc_ctl (LiteralModel.format_literal LiteralProof.w_int_to_float ex_nested_array) = true /\
  no_esc_ctl (LiteralModel.format_literal LiteralProof.w_int_to_float ex_nested_tuple) = true.
Proof. exact ex_tree_hyp. Qed.
Print Assumptions C04_lines_example_tree.

(* [lit_ok] does not forbid negated strings: [-'a''\'] *)
Theorem C04_lines_example_negated_string :
  lit_ok is_lf (LiteralModel.VArr [LiteralModel.ENeg (LiteralModel.VStr [97; 39; 92] false)]) = true.
Proof. exact ex_neg_string_hyp. Qed.
Print Assumptions C04_lines_example_negated_string.

(* ======================================================================================== *)
(* Part 2: types *)

(* ---- the three escaping layers: every byte string ---- *)

Theorem C04_type_escape_one_level :
  forall bad : N -> bool, escaped_set bad -> forall s : list N, avoids bad (TypeSpec.esc s) = true.
Proof. exact esc_avoids. Qed.
Print Assumptions C04_type_escape_one_level.

Theorem C04_type_escape_string_literal :
  forall bad : N -> bool, escaped_set bad -> forall s : list N, avoids bad (TypeModel.escape_string_literal s) = true.
Proof. exact LineSafeType.escape_string_literal_avoids. Qed.
Print Assumptions C04_type_escape_string_literal.

Theorem C04_type_escape_type_param :
  forall bad : N -> bool, escaped_set bad -> forall s : list N, avoids bad (TypeModel.escape_type_param s) = true.
Proof. exact escape_type_param_avoids. Qed.
Print Assumptions C04_type_escape_type_param.

(* ---- the specification: EVERY type tree, well formed or not ---- *)

Theorem C04_type_shown_avoids :
  forall bad : N -> bool, escaped_set bad -> forall t : TypeSpec.ty, avoids bad (TypeSpec.shown t) = true.
Proof. exact shown_avoids. Qed.
Print Assumptions C04_type_shown_avoids.

Theorem C04_type_shown_no_line_break : forall t : TypeSpec.ty, ~ In 10 (TypeSpec.shown t).
Proof. exact shown_no_lf. Qed.
Print Assumptions C04_type_shown_no_line_break.

(* ---- the model, exactly: the output avoids bad IF AND ONLY IF the strings FormatDataType copies do ---- *)

(* [dt_raw_ok bad d]: every type name, element name, identifier parameter and operator text of d avoids bad
   (string parameters are unconstrained: three escape levels) *)
Theorem C04_type_format_exact :
  forall bad : N -> bool, escaped_set bad ->
  forall d : TypeModel.dtype, avoids bad (TypeModel.fmt_dt d) = dt_raw_ok bad d.
Proof. exact fmt_dt_avoids_exact. Qed.
Print Assumptions C04_type_format_exact.

(* [explain_ok bad d]: d is nil or has no parameters (escaped as a whole), or dt_raw_ok bad d *)
Theorem C04_type_line_exact :
  forall bad : N -> bool, escaped_set bad ->
  forall d : option TypeModel.dtype, avoids bad (TypeModel.explain_type d) = explain_ok bad d.
Proof. exact explain_type_avoids_exact. Qed.
Print Assumptions C04_type_line_exact.

Theorem C04_type_line_no_line_break :
  forall d : TypeModel.dtype, dt_raw_ok is_lf d = true -> ~ In 10 (TypeModel.explain_type (Some d)).
Proof. exact explain_type_no_lf. Qed.
Print Assumptions C04_type_line_no_line_break.

(* a type without parameters: any name, a back-quoted name with a line break included *)
Theorem C04_type_plain_name_avoids :
  forall bad : N -> bool, escaped_set bad ->
  forall (name : list N) (hp : bool), avoids bad (TypeModel.explain_type (Some (TypeModel.DT name hp []))) = true.
Proof. exact explain_type_plain_avoids. Qed.
Print Assumptions C04_type_plain_name_avoids.

(* ---- the hypothesis is necessary ---- *)

(* Tuple(`a<LF>b` UInt8): "no element name contains byte 10" fails and byte 10 is on the line *)
Theorem C04_type_element_name_refuted : exists d,
  dt_elem_names_ok is_lf d = false /\
  no_lf (TypeModel.explain_type (Some d)) = false /\ In 10 (TypeModel.explain_type (Some d)).
Proof. exact explain_type_elem_name_refuted. Qed.
Print Assumptions C04_type_element_name_refuted.

(* clean element names are not enough: Array(`a<LF>b`), AggregateFunction(`a<LF>b`, UInt8), `a<LF>b`(UInt8) *)
Theorem C04_type_other_names_refuted :
  (exists d, dt_elem_names_ok is_lf d = true /\ no_lf (TypeModel.explain_type (Some d)) = false) /\
  (exists d, dt_elem_names_ok is_lf d = true /\ no_lf (TypeModel.explain_type (Some d)) = false) /\
  (exists d, dt_elem_names_ok is_lf d = true /\ no_lf (TypeModel.explain_type (Some d)) = false).
Proof. exact explain_type_other_names_refuted. Qed.
Print Assumptions C04_type_other_names_refuted.

(* the parser model accepts them in both cast positions (and so does the Go parser) *)
Theorem C04_type_parser_element_name_refuted :
  (exists txt, TypeModel.run_cast_as w_elem_name_toks = TypeModel.Ok txt /\
               TypeModel.run_cast_op w_elem_name_toks = TypeModel.Ok txt /\ no_lf txt = false) /\
  (exists txt, TypeModel.run_cast_as w_type_name_toks = TypeModel.Ok txt /\
               TypeModel.run_cast_op w_type_name_toks = TypeModel.Ok txt /\ no_lf txt = false).
Proof. exact run_cast_elem_name_refuted. Qed.
Print Assumptions C04_type_parser_element_name_refuted.

(* DateTime('<VT>'): control bytes outside the six are copied from string parameters too *)
Theorem C04_type_any_control_refuted : exists d,
  dt_raw_ok is_ctl d = true /\ avoids is_ctl (TypeModel.explain_type (Some d)) = false.
Proof. exact explain_type_ctl_refuted. Qed.
Print Assumptions C04_type_any_control_refuted.

(* ---- well-formed type trees (wf_ty of C18): no further hypothesis ---- *)

Theorem C04_type_well_formed_line_avoids :
  forall bad : N -> bool, escaped_set bad ->
  forall t : TypeSpec.ty, TypeSpec.wf_ty t = true ->
  avoids bad (TypeModel.explain_type (Some (TypeProof.expect_dt t))) = true.
Proof. exact wf_explain_type_avoids. Qed.
Print Assumptions C04_type_well_formed_line_avoids.

Theorem C04_type_well_formed_no_line_break :
  forall t : TypeSpec.ty, TypeSpec.wf_ty t = true -> ~ In 10 (TypeModel.explain_type (Some (TypeProof.expect_dt t))).
Proof. exact wf_cast_no_lf. Qed.
Print Assumptions C04_type_well_formed_no_line_break.

(* both cast positions, from the tokens of the type *)
Theorem C04_type_well_formed_casts :
  forall bad : N -> bool, escaped_set bad ->
  forall t : TypeSpec.ty, TypeSpec.wf_ty t = true ->
  (forall (fuel : nat) (vas : list N) (rest : list TypeBase.tok), (TypeProof.fuel_ty t <= fuel)%nat ->
     exists txt : list N,
       TypeModel.cast_as_text fuel ((T_AS, vas) :: TypeSpec.print_ty t ++ TypeSpec.t_rparen :: rest) =
       TypeModel.Ok (txt, rest) /\ avoids bad txt = true) /\
  (forall (fuel : nat) (vcc : list N) (rest : list TypeBase.tok), (TypeProof.fuel_ty t <= fuel)%nat ->
     TypeSpec.follow_ok rest = true ->
     exists txt : list N,
       TypeModel.cast_op_text fuel ((T_COLONCOLON, vcc) :: TypeSpec.print_ty t ++ rest) =
       TypeModel.Ok (txt, rest) /\ avoids bad txt = true).
Proof. exact cast_texts_avoid. Qed.
Print Assumptions C04_type_well_formed_casts.

(* ---- the parser model on EVERY token list ---- *)

(* [toks_fine bad ts]: the value of every token of ts other than a STRING avoids bad *)
Theorem C04_type_cast_as_tokens_avoid :
  forall bad : N -> bool, escaped_set bad ->
  forall (fuel : nat) (ts : list TypeBase.tok) (txt : list N) (rest : list TypeBase.tok),
  toks_fine bad ts = true -> TypeModel.cast_as_text fuel ts = TypeModel.Ok (txt, rest) -> avoids bad txt = true.
Proof. exact cast_as_text_avoids. Qed.
Print Assumptions C04_type_cast_as_tokens_avoid.

Theorem C04_type_cast_op_tokens_avoid :
  forall bad : N -> bool, escaped_set bad ->
  forall (fuel : nat) (ts : list TypeBase.tok) (txt : list N) (rest : list TypeBase.tok),
  toks_fine bad ts = true -> TypeModel.cast_op_text fuel ts = TypeModel.Ok (txt, rest) -> avoids bad txt = true.
Proof. exact cast_op_text_avoids. Qed.
Print Assumptions C04_type_cast_op_tokens_avoid.

Theorem C04_type_cast_tokens_no_line_break :
  forall (fuel : nat) (ts : list TypeBase.tok) (txt : list N) (rest : list TypeBase.tok),
  toks_fine is_lf ts = true ->
  (TypeModel.cast_as_text fuel ts = TypeModel.Ok (txt, rest) -> ~ In 10 txt) /\
  (TypeModel.cast_op_text fuel ts = TypeModel.Ok (txt, rest) -> ~ In 10 txt).
Proof. exact cast_tokens_no_lf. Qed.
Print Assumptions C04_type_cast_tokens_no_line_break.

(* the functions the C18 correspondence driver runs *)
Theorem C04_type_driver_tokens_avoid :
  forall bad : N -> bool, escaped_set bad ->
  forall (toks_t : list TypeBase.tok) (txt : list N), toks_fine bad toks_t = true ->
  (TypeModel.run_cast_as toks_t = TypeModel.Ok txt -> avoids bad txt = true) /\
  (TypeModel.run_cast_op toks_t = TypeModel.Ok txt -> avoids bad txt = true).
Proof. exact run_cast_avoids. Qed.
Print Assumptions C04_type_driver_tokens_avoid.

(* ---- non-vacuity ---- *)

(* Tuple(`a b` DateTime('<LF>'\<CR>'), c Enum8('x<TAB>' = -1)): quoted element name, DateTime('...') argument *)
Theorem C04_lines_example_type :
  dt_raw_ok is_esc_ctl ex_dtype = true /\ TypeModel.needs_backtick (TypeProof.B "a b"%string) = true /\
  no_esc_ctl (TypeModel.explain_type (Some ex_dtype)) = true /\
  TypeModel.explain_type (Some ex_dtype) =
    TypeProof.B "\'Tuple(`a b` DateTime(\\\'\\\\n\\\\\\\'\\\\\\\\\\\\r\\\'), c Enum8(\\\'x\\\\t\\\' = -1))\'"%string.
Proof. exact ex_dtype_hyp. Qed.
Print Assumptions C04_lines_example_type.

Theorem C04_lines_example_well_formed_type : TypeSpec.wf_ty ex_ty = true /\ no_esc_ctl (TypeSpec.shown ex_ty) = true.
Proof. exact ex_ty_hyp. Qed.
Print Assumptions C04_lines_example_well_formed_type.
