(* C08 — operator precedence and associativity follow ClickHouse's operator table.

   For every surface expression [e] that is a reading of the layered grammar
   OR < AND < NOT < comparison < || < additive < multiplicative < unary minus  (ExprSpec.wf),
   and every continuation [rest] that cannot continue an expression (ExprSpec.follow_ok), the model
   of the Go parser + EXPLAIN printer (ExprModel) maps the tokens [print e ++ rest] to the reference
   tree [ref e] and leaves [rest] — no bound on depth or number of operators.
   The model is tied to /repo by the correspondence check (harness/cmd/exprdump vs driver/expr). *)
From Coq Require Import List NArith String.
From DC Require Import Base.Item Expr.ExprTree Expr.ExprModel Expr.ExprSpec Expr.ExprProof.
Import ListNotations.
Local Open Scope N_scope.

Theorem C08_precedence_and_associativity :
  forall e, wf e -> forall rest, follow_ok rest ->
    explain_model (parse_model (print e ++ rest)) = Ok (ref e, rest).
Proof. exact c08_expr. Qed.
Print Assumptions C08_precedence_and_associativity.

(* the same for every reading of the precedence climb, including those outside the layered grammar
   (a prefix NOT in the operand position of a tighter operator: a = NOT b, a + NOT b * c, - NOT a);
   [wf e -> wfx e] is ExprProof.wf_wfx *)
Theorem C08_precedence_climb_all_readings :
  forall e, wfx e -> forall rest, follow_ok rest ->
    explain_model (parse_model (print e ++ rest)) = Ok (ref e, rest).
Proof. exact c08_expr_climb. Qed.
Print Assumptions C08_precedence_climb_all_readings.

(* the literal reading of explainBinaryExpr (collect the operands, then print each) agrees with
   the fused recursion used by the model *)
Theorem C08_explain_binary_as_in_go :
  forall op l r par,
    explain (EBinary op l r par) =
    if bytes_eqb op s_concat then
      bind (map_res explain (collect_concat (EBinary op l r par)))
           (fun args => Ok (function_node (operator_to_function op) args))
    else if (bytes_eqb op s_OR || bytes_eqb op s_AND)%bool then
      bind (map_res explain (collect_logical (EBinary op l r par)))
           (fun args => Ok (function_node (operator_to_function op) args))
    else
      bind (explain l) (fun cl => bind (explain r) (fun cr =>
        Ok (function_node (operator_to_function op) [cl; cr]))).
Proof. exact explain_binary_unfused. Qed.
Print Assumptions C08_explain_binary_as_in_go.

(* the fuel of the model is never exhausted, on any token list whatsoever: OutOfFuel cannot mask a
   difference between the (fuel-less) Go code and the model *)
Theorem C08_model_total : forall ts, explain_model (parse_model ts) <> OutOfFuel.
Proof. exact explain_model_total. Qed.
Print Assumptions C08_model_total.

(* NOT a OR b AND c = d || e + - f * 2 OR g      (7 binary operators, every level) *)
Definition example : sexpr :=
  Bin (OOr false)
    (Bin (OOr false)
       (Not false (Id (b "a")))
       (Bin (OAnd false) (Id (b "b"))
          (Bin OEq (Id (b "c"))
             (Bin OConcat (Id (b "d"))
                (Bin OPlus (Id (b "e"))
                   (Bin OMul (Neg (Id (b "f"))) (Num 2)))))))
    (Id (b "g")).

Example example_wf : wf example.
Proof. vm_compute. reflexivity. Qed.

Example example_ref :
  rose_lines 0 (ref example) =
  [ (0%nat, b "Function or (children 1)");
    (1%nat, b "ExpressionList (children 3)");
    (2%nat, b "Function not (children 1)");
    (3%nat, b "ExpressionList (children 1)");
    (4%nat, b "Identifier a");
    (2%nat, b "Function and (children 1)");
    (3%nat, b "ExpressionList (children 2)");
    (4%nat, b "Identifier b");
    (4%nat, b "Function equals (children 1)");
    (5%nat, b "ExpressionList (children 2)");
    (6%nat, b "Identifier c");
    (6%nat, b "Function concat (children 1)");
    (7%nat, b "ExpressionList (children 2)");
    (8%nat, b "Identifier d");
    (8%nat, b "Function plus (children 1)");
    (9%nat, b "ExpressionList (children 2)");
    (10%nat, b "Identifier e");
    (10%nat, b "Function multiply (children 1)");
    (11%nat, b "ExpressionList (children 2)");
    (12%nat, b "Function negate (children 1)");
    (13%nat, b "ExpressionList (children 1)");
    (14%nat, b "Identifier f");
    (12%nat, b "Literal UInt64_2");
    (2%nat, b "Identifier g") ].
Proof. vm_compute. reflexivity. Qed.

(* a + NOT b * c  reads  plus(a, not(multiply(b, c))): outside the layered grammar, inside wfx *)
Definition example_x : sexpr :=
  Bin OPlus (Id (b "a")) (Not false (Bin OMul (Id (b "b")) (Id (b "c")))).
Example example_x_wfx : wfx example_x /\ ~ wf example_x.
Proof. split; [vm_compute; reflexivity|vm_compute; discriminate]. Qed.

Example example_model :
  explain_model (parse_model (print example)) = Ok (ref example, []).
Proof. vm_compute. reflexivity. Qed.
