(* C03, fragment layer -- accepted input yields a usable AST, for the SELECT core.

   When the parser model returns no error: the statement is a real node (not the nil Statement that
   parseStatement returns after a failed expect), every member of every Selects list at any depth is
   a real node (wf_stmt: the nil *ast.SelectQuery that explainSelectQuery would dereference does not
   occur), and the printer model returns non-empty lines forming one well-formed EXPLAIN tree. *)
From Coq Require Import List NArith Bool String.
From DC Require Import Base.Item Gen.TokenTable Tree.LineTree.
From DC Require Import Select.SelectParseModel Select.SelectPrintModel Select.SelectCoreProof.
Import ListNotations.
Local Open Scope N_scope.

Theorem C03_fragment_accepted_is_usable : forall fuel ts q rest,
  parse_model_fuel fuel ts = Ok (q, rest, []) ->
  exists stmt lines,
    q = Some stmt /\ wf_stmt stmt /\
    print_model q = Ok lines /\ lines <> [] /\ check_lines lines = true.
Proof. exact accepted_is_usable. Qed.
Print Assumptions C03_fragment_accepted_is_usable.

Theorem C03_fragment_parse_model_accepted_is_usable : forall ts q rest,
  parse_model ts = Ok (q, rest, []) ->
  exists stmt lines,
    q = Some stmt /\ wf_stmt stmt /\
    print_model q = Ok lines /\ lines <> [] /\ check_lines lines = true.
Proof. intros ts. exact (accepted_is_usable (fuel_for ts) ts). Qed.
Print Assumptions C03_fragment_parse_model_accepted_is_usable.

(* a nil statement never comes without an error *)
Theorem C03_fragment_nil_statement_has_error : forall fuel s s',
  parse_statement fuel s = Ok (None, s') -> errs s' <> [].
Proof. exact stmt_none_has_error. Qed.
Print Assumptions C03_fragment_nil_statement_has_error.

(* well-formedness holds for every result, accepted or not *)
Theorem C03_fragment_results_are_well_formed : forall fuel ts q rest es,
  parse_model_fuel fuel ts = Ok (Some q, rest, es) -> wf_stmt q.
Proof.
  intros fuel ts q rest es H. pose proof (parse_model_fuel_good fuel ts) as G. rewrite H in G. exact G.
Qed.
Print Assumptions C03_fragment_results_are_well_formed.

(* ---- examples ---- *)

Definition text (s : string) : list N := SelectParseModel.bytes_of s.

(* the hypothesis is satisfiable by a non-trivial statement (subquery in FROM, union, aliases) *)
Example accepted_nontrivial :
  match LexerModel.tokenize (text "SELECT a.b AS x, f(1, 'y') FROM (SELECT 1 UNION ALL SELECT 2) AS s WHERE a = 1 ORDER BY x DESC LIMIT 3") with
  | Some its => match parse_model (parser_tokens its) with
                | Ok (Some _, [], []) => True
                | _ => False
                end
  | None => False
  end.
Proof. vm_compute. exact I. Qed.

(* GROUP without BY: parseSelect returns nil after expect(BY) fails; the statement is nil, and an
   error is recorded *)
Example nil_statement_with_error :
  match LexerModel.tokenize (text "SELECT 1 GROUP x") with
  | Some its => match parse_model (parser_tokens its) with
                | Ok (None, _, _ :: _) => True
                | _ => False
                end
  | None => False
  end.
Proof. vm_compute. exact I. Qed.
