(* C05 -- layout does not matter.
   "Two texts that differ only in the amount and kind of whitespace between tokens, in comments (--, #,
    /* */ including nested), in the letter case of SQL keywords used as keywords, or in leading/trailing
    semicolons parse to statements with identical EXPLAIN output.  The only exception is the interior of
    array/tuple literals that are the operand of a '::' cast, where ClickHouse itself keeps the source
    text."

   FULL STATEMENT (not proved as one theorem; the pipeline is split):
     forall valid statement texts x y, relayout x y ->
       Explain (Parse x) = Explain (Parse y)           (modulo the '::' exception)
   where relayout changes separators (whitespace runes, complete comments), the letter case of keyword
   tokens used as keywords, and leading/trailing semicolons.

   WHAT IS PROVED HERE, and how the pieces compose:
   (L) lexer (model of /repo/lexer/lexer.go, Lexer/LexerModel.v):  lex_sig x = lex_sig y, where lex_sig
       drops positions and comment tokens and erases the letter case of keyword-token values.
         C05_lexer_F1_general / _leading / _trailing / _insert : ANY byte strings a b, any separators,
           under the decidable side condition boundary_ok computed by the lexer model ("the split point
           is a token boundary in both texts, with the same tokens before it").  All scanner classes.
         C05_lexer_layouts_partial, C05_lexer_F1_covered_partial, C05_lexer_F12_covered_partial :
           NO lexer-computed side condition, for texts made of token spellings of the covered classes
           (`lays`, a grammar defined without the lexer): ASCII identifiers/keywords, unsigned integers,
           decimals d+.d+, '...' strings / "..." / `...` / {...} with plain ASCII bodies (no closing
           character, no backslash), the operators and punctuation of op_table (+ - -> * / % = == != <
           <= <=> <> > >= || :: : ( ) [ ] } , . ; ? ^ and the single characters @ ! |).  NOT covered by
           the `lays` grammar (hence _partial; they are covered by F1_general's side condition and by
           the correspondence test of the model): exponents and hex/bin/octal numbers, numbers starting
           with '.', digit groups with '_', escapes and doubled quotes inside quoted tokens, non-ASCII
           bytes inside identifiers and quoted tokens, heredocs/$tag$ strings, $ident, @@ident, Unicode
           quotes, x'..' / b'..' strings, the U+2212 comment, unterminated comments/strings at end of
           input, a NUL byte.
         C05_lexer_F2_kind : keyword case.
   (G) parser/printer (the Go code itself, through the inventory regenerated on every run):
         C05_inventory_modulo_known : every position read is copy / error message / progress guard /
           allow-listed spaced detection, every raw value comparison is case-blind or allow-listed --
           EXCEPT the known findings listed in Gen/PosReadsAllowed.v (7 position leaks through
           fmt "%v" of an expression node in internal/explain, and the case-sensitive `name == "view"`).
         C05_runs_indistinguishable : an abstract program whose observations are in the allowed classes
           takes the same branches on two token lists with the same signature.
         TRUSTED: the translator's soundness claim (posreadgen), see Lexer/PosReadsCheck.v.
   (S) semicolons: Properties/C06_driver.v, C05_driver_semicolons and C05_driver_leading_semicolons
       (driver model; cited, not re-proved here).
   The tie to the implementation is the metamorphic run /verif/build/relayout (harness/cmd/relayout). *)
From Coq Require Import String.
From Coq Require Import List NArith Bool.
From DC Require Import Base.Item Base.Stream Gen.TokenTable Lexer.LexerModel Lexer.LexerTotal
  Lexer.LexerLayoutSpec Lexer.LexerLayoutRel Lexer.LexerLayoutRun Lexer.LexerLayoutGap
  Lexer.LexerLayoutTok Lexer.LexerLayoutTok2 Lexer.LexerLayout
  Gen.PosReads Gen.PosReadsAllowed Lexer.PosReadsCheck.
Import ListNotations.

(* ---------------- (L) lexer ---------------- *)

(* F1, every scanner class: replacing the separator w by w' (either may be empty) between a and b *)
Theorem C05_lexer_F1_general : forall a w w' b : list N, is_sep w -> is_sep w' ->
  boundary_ok a (w ++ b) (w' ++ b) = true ->
  lex_sig (a ++ w ++ b) = lex_sig (a ++ w' ++ b).
Proof. exact F1_general_sig. Qed.
Print Assumptions C05_lexer_F1_general.

(* the same with the letter case of keyword values kept (stronger) *)
Theorem C05_lexer_F1_general_raw : forall a w w' b : list N, is_sep w -> is_sep w' ->
  boundary_ok a (w ++ b) (w' ++ b) = true ->
  lex_sig_raw (a ++ w ++ b) = lex_sig_raw (a ++ w' ++ b).
Proof. exact F1_general. Qed.
Print Assumptions C05_lexer_F1_general_raw.

Theorem C05_lexer_F1_leading : forall w b : list N, is_sep w -> lex_sig_raw (w ++ b) = lex_sig_raw b.
Proof. exact F1_leading. Qed.
Print Assumptions C05_lexer_F1_leading.

Theorem C05_lexer_F1_trailing : forall a w : list N, is_sep w -> boundary_ok a w [] = true ->
  lex_sig_raw (a ++ w) = lex_sig_raw a.
Proof. exact F1_trailing. Qed.
Print Assumptions C05_lexer_F1_trailing.

(* F1': inserting a separator where there was none; `safe a w b` = boundary_ok a b (w ++ b) *)
Theorem C05_lexer_F1_insert : forall a w b : list N, is_sep w -> safe a w b = true ->
  lex_sig_raw (a ++ b) = lex_sig_raw (a ++ w ++ b).
Proof. exact F1_insert. Qed.
Print Assumptions C05_lexer_F1_insert.

(* the core of the two above: a separator is invisible wherever the lexer stands in front of it
   (TS rest = the signatures NextToken produces from a lexer positioned at rest; vis drops comments) *)
Theorem C05_lexer_separator_invisible : forall w rest : list N, is_sep w ->
  vis (TS (w ++ rest)) = vis (TS rest).
Proof. exact vis_sep. Qed.
Print Assumptions C05_lexer_separator_invisible.

(* follow-independence, per covered token class: the spelling t followed by ANY r satisfying the
   class's condition on the first rune/byte of r is one token with signature sg, and the lexer is then
   positioned exactly at r *)
Theorem C05_lexer_follow_independence_partial : forall t sg r fuel it l',
  tok_ok t sg r ->
  next_token pure_stream fuel (st_at (t ++ r)) = Some (it, l') ->
  sig_item it = sg /\ at_ l' r.
Proof. exact tok_ok_next. Qed.
Print Assumptions C05_lexer_follow_independence_partial.

(* a text laid out from covered spellings and separators lexes to exactly those tokens *)
Theorem C05_lexer_layouts_partial : forall x s, lays x s -> lex_sig_raw x = Some (s ++ [eof_sig]).
Proof. exact lays_sig. Qed.
Print Assumptions C05_lexer_layouts_partial.

(* F1 without any lexer-computed side condition: two layouts of the same token sequence *)
Theorem C05_lexer_F1_covered_partial : forall x y s, lays x s -> lays y s -> lex_sig_raw x = lex_sig_raw y.
Proof. exact F1_covered. Qed.
Print Assumptions C05_lexer_F1_covered_partial.

(* F1 + F2: ... whose signatures agree up to the letter case of keyword values *)
Theorem C05_lexer_F12_covered_partial : forall x y s s', lays x s -> lays y s' ->
  map norm_sig s = map norm_sig s' -> lex_sig x = lex_sig y.
Proof. exact F12_covered. Qed.
Print Assumptions C05_lexer_F12_covered_partial.

(* F2: two identifier-shaped words with the same ASCII upper-casing get the same token kind, each
   with its own spelling as value *)
Theorem C05_lexer_F2_kind : forall s s' r r' f f' it it' l1 l1',
  ident_word s = true -> ident_word s' = true -> map ascii_upper s = map ascii_upper s' ->
  follow_ident s r = true -> follow_ident s' r' = true ->
  next_token pure_stream f (st_at (s ++ r)) = Some (it, l1) ->
  next_token pure_stream f' (st_at (s' ++ r')) = Some (it', l1') ->
  it_tok it = it_tok it' /\ it_val it = s /\ it_val it' = s' /\ at_ l1 r /\ at_ l1' r'.
Proof. exact F2_kind. Qed.
Print Assumptions C05_lexer_F2_kind.

(* the lexer does not observe positions, and its result does not depend on the fuel *)
Theorem C05_lexer_position_blind : forall f f' (l l' : plex), same_st l l' ->
  orel Rtok (next_token pure_stream f l) (next_token pure_stream f' l').
Proof. exact next_token_rel. Qed.
Print Assumptions C05_lexer_position_blind.

(* ---------------- (G) parser / printer ---------------- *)

Theorem C05_inventory_modulo_known : check_inventory known_position_leaks known_case_sensitive = true.
Proof. exact inventory_ok_modulo_known. Qed.
Print Assumptions C05_inventory_modulo_known.

(* nothing is excused that does not fail, nothing else fails *)
Theorem C05_known_findings_exact :
  pos_violations = known_position_leaks /\ value_violations = known_case_sensitive.
Proof. exact known_are_the_violations. Qed.
Print Assumptions C05_known_findings_exact.

(* printed for the check script: the entries that fail today when nothing is excused *)
Local Open Scope string_scope.
Eval vm_compute in pos_violations.
Eval vm_compute in value_violations.
Eval vm_compute in keyword_case_hits.
Local Close Scope string_scope.

Theorem C05_runs_indistinguishable :
  forall (Q : Type) (prog : Q -> act Q) (ts ts' : list item),
  sim ts ts' -> pos_inj ts -> pos_inj ts' -> prog_ok Q prog ->
  forall fuel q cur saved,
  gaps_agree ts' (run Q prog fuel ts q cur saved) ->
  Forall2 ev_rel (run Q prog fuel ts q cur saved) (run Q prog fuel ts' q cur saved).
Proof. exact runs_indistinguishable. Qed.
Print Assumptions C05_runs_indistinguishable.

(* (L) feeds (G): equal lexer signatures give the parser token lists related by sim *)
Theorem C05_lexer_to_parser : forall x y its its',
  tokenize x = Some its -> tokenize y = Some its' -> lex_sig x = lex_sig y ->
  sim (parser_tokens its) (parser_tokens its').
Proof. exact sim_of_lex_sig. Qed.
Print Assumptions C05_lexer_to_parser.

(* ---------------- examples ---------------- *)

(* "SELECT/**/1--x\n+ 2"  and  "select 1+2" *)
Example C05_same_sig :
  lex_sig [83; 69; 76; 69; 67; 84; 47; 42; 42; 47; 49; 45; 45; 120; 10; 43; 32; 50]%N =
  lex_sig [115; 101; 108; 101; 99; 116; 32; 49; 43; 50]%N.
Proof. vm_compute. reflexivity. Qed.

(* the side condition of F1_general holds at the boundary after "SELECT" for the separators "/**/" and
   " ", and `1` `+` is a safe pair for the separator "--x\n" *)
Example C05_boundary_ok :
  boundary_ok [83; 69; 76; 69; 67; 84]%N ([47; 42; 42; 47] ++ [49; 43; 50])%N ([32] ++ [49; 43; 50])%N = true /\
  safe [83; 69; 76; 69; 67; 84; 32; 49]%N [45; 45; 120; 10]%N [43; 50]%N = true.
Proof. vm_compute. split; reflexivity. Qed.

(* ... and it is a real condition: `-` directly followed by "-- c\n" is not a token boundary, `1e`
   followed by "--1\n" is not either (the lexer reads the exponent sign) *)
Example C05_boundary_not_ok :
  safe [83; 69; 76; 69; 67; 84; 32; 49; 45]%N [45; 45; 32; 99; 10]%N [50]%N = false /\
  safe [83; 69; 76; 69; 67; 84; 32; 49; 101]%N [45; 45; 49; 10]%N [44; 50]%N = false.
Proof. vm_compute. split; reflexivity. Qed.

(* the hypotheses of the covered-class theorems are satisfiable by non-trivial objects:
   "SELECT a+1.5"  and  "SELECT\n/* c */a + 1.5 -- end\n"  are two layouts of the same four tokens *)
Example C05_two_layouts : exists s,
  lays [83; 69; 76; 69; 67; 84; 32; 97; 43; 49; 46; 53]%N s /\
  lays [83; 69; 76; 69; 67; 84; 10; 47; 42; 32; 99; 32; 42; 47; 97; 32; 43; 32; 49; 46; 53; 32; 45; 45; 32; 101; 110; 100; 10]%N s /\
  List.length s = 4.
Proof.
  eexists. split; [|split].
  - eapply (lays_tok [83; 69; 76; 69; 67; 84]%N _ [32; 97; 43; 49; 46; 53]%N); [apply tok_ident; reflexivity|].
    apply (lays_sep [32]%N [97; 43; 49; 46; 53]%N); [apply (sep1_ws 32%N); reflexivity|].
    eapply (lays_tok [97]%N _ [43; 49; 46; 53]%N); [apply tok_ident; reflexivity|].
    eapply (lays_tok [43]%N _ [49; 46; 53]%N); [eapply tok_op; [left; reflexivity|reflexivity]|].
    eapply (lays_tok ([49] ++ 46 :: [53])%N _ []); [apply tok_dec; reflexivity|].
    apply lays_nil.
  - eapply (lays_tok [83; 69; 76; 69; 67; 84]%N _ [10; 47; 42; 32; 99; 32; 42; 47; 97; 32; 43; 32; 49; 46; 53; 32; 45; 45; 32; 101; 110; 100; 10]%N);
      [apply tok_ident; reflexivity|].
    apply (lays_sep [10]%N [47; 42; 32; 99; 32; 42; 47; 97; 32; 43; 32; 49; 46; 53; 32; 45; 45; 32; 101; 110; 100; 10]%N);
      [apply (sep1_ws 10%N); reflexivity|].
    apply (lays_sep [47; 42; 32; 99; 32; 42; 47]%N [97; 32; 43; 32; 49; 46; 53; 32; 45; 45; 32; 101; 110; 100; 10]%N);
      [apply (sep1_block [32; 99; 32; 42; 47]%N); reflexivity|].
    eapply (lays_tok [97]%N _ [32; 43; 32; 49; 46; 53; 32; 45; 45; 32; 101; 110; 100; 10]%N); [apply tok_ident; reflexivity|].
    apply (lays_sep [32]%N [43; 32; 49; 46; 53; 32; 45; 45; 32; 101; 110; 100; 10]%N); [apply (sep1_ws 32%N); reflexivity|].
    eapply (lays_tok [43]%N _ [32; 49; 46; 53; 32; 45; 45; 32; 101; 110; 100; 10]%N); [eapply tok_op; [left; reflexivity|reflexivity]|].
    apply (lays_sep [32]%N [49; 46; 53; 32; 45; 45; 32; 101; 110; 100; 10]%N); [apply (sep1_ws 32%N); reflexivity|].
    eapply (lays_tok ([49] ++ 46 :: [53])%N _ [32; 45; 45; 32; 101; 110; 100; 10]%N); [apply tok_dec; reflexivity|].
    apply (lays_sep [32]%N [45; 45; 32; 101; 110; 100; 10]%N); [apply (sep1_ws 32%N); reflexivity|].
    apply (lays_sep (45 :: 45 :: [32; 101; 110; 100] ++ [10])%N []); [apply (sep1_dash [32; 101; 110; 100]%N); reflexivity|].
    apply lays_nil.
  - reflexivity.
Qed.

(* keyword case on the same example: "select" and "SeLeCt" are keyword tokens of the same kind *)
Example C05_keyword_case :
  lex_sig [115; 101; 108; 101; 99; 116; 32; 49]%N = lex_sig [83; 101; 76; 101; 67; 116; 32; 49]%N /\
  lex_sig_raw [115; 101; 108; 101; 99; 116; 32; 49]%N <> lex_sig_raw [83; 101; 76; 101; 67; 116; 32; 49]%N.
Proof. vm_compute. split; [reflexivity|discriminate]. Qed.
