(* C01, fragment layer -- Parse never panics, for the SELECT core.

   The model (Select/SelectParseModel.v, Select/SelectPrintModel.v) has an explicit [Panic site]
   outcome wherever the transcribed Go code dereferences a possibly-nil value: expr.Pos() in
   parseAlias / parseImplicitAlias / parseDotAccess, explainSelectQuery on a nil *ast.SelectQuery
   member of Selects.  The theorems say that no token list reaches one of them.  They hold for every
   recursion fuel (in particular for [parse_model], which supplies fuel_for).  Tied to /repo by the
   correspondence checks/gen_selectcore_cases.py (streams valid / malformed compare ok / err:<n> /
   PANIC and the EXPLAIN text). *)
From Coq Require Import List NArith Bool String.
From DC Require Import Base.Item Gen.TokenTable Tree.LineTree.
From DC Require Import Select.SelectParseModel Select.SelectPrintModel Select.SelectCoreProof.
Import ListNotations.
Local Open Scope N_scope.

(* no token list (and no fuel) makes the parser model reach a Panic outcome *)
Theorem C01_fragment_parse_never_panics : forall fuel ts p, parse_model_fuel fuel ts <> Panic p.
Proof. exact parse_never_panics. Qed.
Print Assumptions C01_fragment_parse_never_panics.

Theorem C01_fragment_parse_model_never_panics : forall ts p, parse_model ts <> Panic p.
Proof. intros ts. exact (parse_never_panics (fuel_for ts) ts). Qed.
Print Assumptions C01_fragment_parse_model_never_panics.

(* the printer model does not reach a Panic outcome on any result of the parser model, accepted or not *)
Theorem C01_fragment_print_never_panics : forall fuel ts q rest es p,
  parse_model_fuel fuel ts = Ok (q, rest, es) -> print_model q <> Panic p.
Proof. exact print_never_panics. Qed.
Print Assumptions C01_fragment_print_never_panics.

(* whole scripts (the function the correspondence runs) *)
Theorem C01_fragment_script_never_panics : forall ts,
  (forall p, parse_script ts <> Panic p) /\
  (forall qs es p, parse_script ts = Ok (qs, es) -> print_script qs <> Panic p).
Proof. exact script_never_panics. Qed.
Print Assumptions C01_fragment_script_never_panics.

(* C01_fragment_no_out_of_fuel_partial: NOT proved here.
   Full statement:  forall ts, parse_model ts <> OutOfFuel   (fuel_for ts = 8 * length ts + 16).
   Argument (not mechanised): every recursive call of the mutual block and every loop iteration
   happens after at least one token was consumed, except parse_select_with_union -> parse_select ->
   parse_expr, a chain of constant length; 3 * remaining + 3 units suffice for each function.
   Evidence: the correspondence driver prints FUEL for this outcome; it never occurred
   (> 250000 generated statements, valid and malformed).  All theorems above hold for EVERY fuel, so
   they do not depend on this bound. *)

(* ---- examples: inputs that make the Go code walk along the modelled nil paths ---- *)

Definition text (s : string) : list N := SelectParseModel.bytes_of s.

(* a nil Right operand and a nil Operand are accepted and printed ("Function tuple / ExpressionList") *)
Example nil_operands_are_handled :
  match explain_source (text "SELECT 1 +, -") with
  | Some (Ok (_, [], [])) => True
  | _ => False
  end.
Proof. vm_compute. exact I. Qed.

(* a nil ORDER BY expression is accepted and printed *)
Example nil_order_by_expression_is_handled :
  match explain_source (text "SELECT 1 ORDER BY") with
  | Some (Ok (_, [], [])) => True
  | _ => False
  end.
Proof. vm_compute. exact I. Qed.

(* an alias helper is reached with a non-nil expression only *)
Example alias_after_garbage :
  match explain_source (text "SELECT (1 AS x") with
  | Some (Ok (_, _, _ :: _)) => True        (* rejected with errors, no Panic *)
  | _ => False
  end.
Proof. vm_compute. exact I. Qed.
