(* C01, fragment layer -- Parse never panics, for the SELECT core.

   The model (Select/SelectParseModel.v, Select/SelectPrintModel.v) has an explicit [Panic site]
   outcome wherever the transcribed Go code dereferences a possibly-nil value: expr.Pos() in
   parseAlias / parseImplicitAlias / parseDotAccess, explainSelectQuery on a nil *ast.SelectQuery
   member of Selects.  The theorems say that no token list reaches one of them.  They hold for every
   recursion fuel (in particular for [parse_model], which supplies fuel_for).  Tied to /repo by the
   correspondence checks/gen_selectcore_cases.py (streams valid / malformed compare ok / err:<n> /
   PANIC and the EXPLAIN text). *)
From Coq Require Import List NArith Bool String.
From DC Require Import Base.Item Gen.TokenTable Tree.LineTree.
From DC Require Import Select.SelectParseModel Select.SelectPrintModel Select.SelectCoreProof.
Import ListNotations.
Local Open Scope N_scope.

(* no token list (and no fuel) makes the parser model reach a Panic outcome *)
Theorem C01_fragment_parse_never_panics : forall fuel ts p, parse_model_fuel fuel ts <> Panic p.
Proof. exact parse_never_panics. Qed.
Print Assumptions C01_fragment_parse_never_panics.

Theorem C01_fragment_parse_model_never_panics : forall ts p, parse_model ts <> Panic p.
Proof. intros ts. exact (parse_never_panics (fuel_for ts) ts). Qed.
Print Assumptions C01_fragment_parse_model_never_panics.

(* the printer model does not reach a Panic outcome on any result of the parser model, accepted or not *)
Theorem C01_fragment_print_never_panics : forall fuel ts q rest es p,
  parse_model_fuel fuel ts = Ok (q, rest, es) -> print_model q <> Panic p.
Proof. exact print_never_panics. Qed.
Print Assumptions C01_fragment_print_never_panics.

(* whole scripts (the function the correspondence runs) *)
Theorem C01_fragment_script_never_panics : forall ts,
  (forall p, parse_script ts <> Panic p) /\
  (forall qs es p, parse_script ts = Ok (qs, es) -> print_script qs <> Panic p).
Proof. exact script_never_panics. Qed.
Print Assumptions C01_fragment_script_never_panics.

(* the fuel is sufficient: with fuel >= 3 * length ts + 2 -- in particular with the
   fuel_for ts = 8 * length ts + 16 that parse_model supplies -- the model never returns OutOfFuel;
   hence parse_model always returns Ok or OutOfFragment *)
Theorem C01_fragment_fuel_enough : forall fuel ts,
  (3 * List.length ts + 2 <= fuel)%nat -> parse_model_fuel fuel ts <> OutOfFuel.
Proof. exact parse_model_fuel_enough. Qed.
Print Assumptions C01_fragment_fuel_enough.

Theorem C01_fragment_no_out_of_fuel : forall ts, parse_model ts <> OutOfFuel.
Proof. exact parse_model_no_out_of_fuel. Qed.
Print Assumptions C01_fragment_no_out_of_fuel.

Theorem C01_fragment_script_no_out_of_fuel : forall ts, parse_script ts <> OutOfFuel.
Proof. exact parse_script_no_out_of_fuel. Qed.
Print Assumptions C01_fragment_script_no_out_of_fuel.

(* together: the parser model is total -- Ok or OutOfFragment, nothing else *)
Theorem C01_fragment_parse_model_total : forall ts,
  (exists r, parse_model ts = Ok r) \/ (exists o, parse_model ts = OutOfFragment o).
Proof.
  intros ts. pose proof (parse_model_no_out_of_fuel ts) as Hf.
  pose proof (parse_never_panics (fuel_for ts) ts) as Hp. unfold parse_model in *.
  destruct (parse_model_fuel (fuel_for ts) ts) as [r|p|o|]; [left; eauto| |right; eauto|].
  - exfalso. exact (Hp p eq_refl).
  - exfalso. exact (Hf eq_refl).
Qed.
Print Assumptions C01_fragment_parse_model_total.

(* ---- examples: inputs that make the Go code walk along the modelled nil paths ---- *)

Definition text (s : string) : list N := SelectParseModel.bytes_of s.

(* a nil Right operand and a nil Operand are accepted and printed ("Function tuple / ExpressionList") *)
Example nil_operands_are_handled :
  match explain_source (text "SELECT 1 +, -") with
  | Some (Ok (_, [], [])) => True
  | _ => False
  end.
Proof. vm_compute. exact I. Qed.

(* a nil ORDER BY expression is accepted and printed *)
Example nil_order_by_expression_is_handled :
  match explain_source (text "SELECT 1 ORDER BY") with
  | Some (Ok (_, [], [])) => True
  | _ => False
  end.
Proof. vm_compute. exact I. Qed.

(* an alias helper is reached with a non-nil expression only *)
Example alias_after_garbage :
  match explain_source (text "SELECT (1 AS x") with
  | Some (Ok (_, _, _ :: _)) => True        (* rejected with errors, no Panic *)
  | _ => False
  end.
Proof. vm_compute. exact I. Qed.
