(* C13, no state between calls.  The property speaks about what ONE call returns for its input (and reader / context);
   that is a function of the call's arguments only if the library keeps nothing between calls: no package-level variable
   is written after init, no pool / cache / memo is shared between lexers or parsers.  This is the per-run obligation of
   C10 over the inventory of shared writes regenerated from /repo on every run (Gen/SharedAccess.v, cmd/sharedgen:
   assignments, ++/--, method calls with pointer receivers and address-taking of package-level variables, sync.Pool /
   sync.Map / map values reachable from them, writes through AST arguments, map ranges, go statements): it computes to
   true in the kernel today; a lexer or parser that recycles buffers through a pool, or memoises anything, makes it false
   and this file stops compiling. *)
From DC Require Import Conc.SharedInv Conc.SharedCheck Conc.SharedObligations Gen.SharedAccess.

Theorem C13_no_state_between_calls : C10_no_findings = true.
Proof. exact (eq_refl : C10_no_findings = true). Qed.
Print Assumptions C13_no_state_between_calls.
