(* C02 -- Parse terminates in work linear in the number of tokens.
   Statement over the generated skeleton of package parser (Gen/ParserSkeleton.v): for every token list
   and every oracle (every resolution of the data-dependent conditions), every prefix of the run of
   ParseStatements has executed at most E_main + B * (number of tokens) instructions, and with that much
   fuel (+1) the machine has stopped in the final Ret of ParseStatements with an empty stack.
   The only obligations, [check_prog skeleton B E_main = true] and [no_assume skeleton = true], are
   computed by the kernel (vm_compute). *)
From Coq Require Import List NArith.
From DC Require Import Skel.SkelLang Skel.SkelSem Skel.SkelCheck Skel.SkelSound Gen.ParserSkeleton.
Local Open Scope N_scope.

Theorem C02_parser_steps_linear :
  forall (toks : list N) (orc : list bool),
    (forall n, let '(c, k) := run skeleton n (init skeleton toks orc) in
               N.of_nat k <= E_main + B * N.of_nat (length toks)) /\
    (let '(c, k) := run skeleton (S (N.to_nat (E_main + B * N.of_nat (length toks)))) (init skeleton toks orc) in
     step skeleton c = None /\ final skeleton c).
Proof.
  exact (check_prog_sound_final skeleton B E_main
           (eq_refl true <: check_prog skeleton B E_main = true)
           (eq_refl true <: no_assume skeleton = true)).
Qed.
Print Assumptions C02_parser_steps_linear.
