(* C03 (structural half, whole parser) -- no typed nil in the tree, no nil statement, json.Marshal succeeds.
   Over the nil-flow graphs of package parser in the C03 READING (Gen/ParserNilC03.v): C03 speaks about
   runs of Parse that return a nil error, i.e. runs in which no parse error is ever recorded; in this
   reading the statement `p.errors = append(p.errors, ..)` is IHalt (the run is outside the scope of the
   property and is not continued), bool results of parser functions are modelled (false = nil), and a
   store of a typed nil into ANY interface-typed heap cell is [Bad] (c03 = true).
   - no run of Parse reaches [Bad s] outside the reviewed list reviewed_c03;
   - parseStatement never returns a typed nil: its reflect-based normalisation is the instruction
     RNormalize, and its certified result spec is "clean";
   - every value appended to the statement list that ParseStatements returns is certainly usable (not nil,
     not a typed nil) at the append;
   - every implicit pointer -> interface conversion has a certainly non-nil operand, or goes straight
     into the result of a function whose certified spec declares "may be a typed nil" (so that the
     verified checker forces every consumer to normalise or test it), or is reviewed;
   - the schema of package ast passes schema_ok, hence (SchemaCheck.schema_sound) encoding/json can
     fail on a well-typed tree only if it contains a cycle. *)
From Coq Require Import List NArith String.
From DC Require Import Nil.NilLang Nil.NilSem Nil.NilCheck Nil.NilSound Nil.NilInventory.
From DC Require Import Nil.SchemaLang Nil.SchemaCheck.
From DC Require Import Gen.ParserNilC03 Gen.ParserNilAllowed Gen.AstSchema.
Import ListNotations.

Theorem C03_nil_no_typed_nil_stored :
  forall (orc : list N) (n : nat),
    match run true parser_nil_c03 n (init parser_nil_c03 (ptr_args parser_nil_c03) orc) with
    | Bad s => In s (map fst reviewed_c03)
    | Stuck => False
    | Done vs => Forall2 (meets parser_nil_c03) vs (main_results parser_nil_c03)
    | Halted => True
    | Next _ => True
    end.
Proof.
  exact (nil_safe true parser_nil_c03 (map fst reviewed_c03)
           (eq_refl true <: check_prog true parser_nil_c03 (map fst reviewed_c03) = true)).
Qed.
Print Assumptions C03_nil_no_typed_nil_stored.

Theorem C03_nil_translation_complete : parser_nil_c03_translation_problems = [].
Proof. exact (eq_refl : parser_nil_c03_translation_problems = []). Qed.
Print Assumptions C03_nil_translation_complete.

Theorem C03_nil_reviewed_sites_exist : reviewed_sites_ok parser_nil_c03_uncertified_sites reviewed_c03 = true.
Proof. exact (eq_refl true <: reviewed_sites_ok parser_nil_c03_uncertified_sites reviewed_c03 = true). Qed.
Print Assumptions C03_nil_reviewed_sites_exist.

(* parseStatement returns the nil interface or a usable statement, never an interface holding a nil pointer *)
Theorem C03_nil_parseStatement_normalised :
  forall (orc : list N) (n : nat) (c : conf),
    run true parser_nil_c03 n (init parser_nil_c03 (ptr_args parser_nil_c03) orc) = Next c ->
    c_f c = parser_nil_c03_fn_parseStatement ->
    forall g t rs, getf parser_nil_c03 parser_nil_c03_fn_parseStatement = Some g -> getn g (c_pc c) = Some t -> nd_instr t = IRet rs ->
    Forall (fun v => tnil v = false) (map (eval_arg (c_env c)) rs).
Proof.
  exact (clean_results true parser_nil_c03 (map fst reviewed_c03) parser_nil_c03_fn_parseStatement
           (eq_refl true <: check_prog true parser_nil_c03 (map fst reviewed_c03) = true)
           (eq_refl true <: spec_clean parser_nil_c03 parser_nil_c03_fn_parseStatement = true)).
Qed.
Print Assumptions C03_nil_parseStatement_normalised.

(* the values appended to the returned statement list are usable *)
Theorem C03_nil_no_nil_statement :
  forallb (store_usable parser_nil_c03) parser_nil_c03_result_stores = true /\ Nat.ltb 0 (List.length parser_nil_c03_result_stores) = true.
Proof.
  exact (conj (eq_refl true <: forallb (store_usable parser_nil_c03) parser_nil_c03_result_stores = true)
              (eq_refl true <: Nat.ltb 0 (List.length parser_nil_c03_result_stores) = true)).
Qed.
Print Assumptions C03_nil_no_nil_statement.

Theorem C03_nil_conversions : forallb (conv_ok parser_nil_c03 reviewed_conv) parser_nil_c03_conv_sites = true.
Proof. exact (eq_refl true <: forallb (conv_ok parser_nil_c03 reviewed_conv) parser_nil_c03_conv_sites = true). Qed.
Print Assumptions C03_nil_conversions.

(* json.Marshal of a statement: a well-typed tree without a cycle is encoded successfully *)
Theorem C03_nil_marshal :
  forall (v : jval),
    wt ast_structs ast_impls any_types v (JIface "ast.Statement") = true ->
    noback v = true ->
    marshal_ok ast_structs v = true.
Proof.
  exact (fun v => schema_sound ast_structs ast_impls any_types
                    (eq_refl true <: schema_ok ast_structs ast_impls any_types = true)
                    v (JIface "ast.Statement")
                    (eq_refl true <: tfine ast_structs ast_impls any_types (JIface "ast.Statement") = true)).
Qed.
Print Assumptions C03_nil_marshal.

(* non-triviality: a Literal holding a NaN behind Value is well typed and is encoded (the custom marshaller),
   a cyclic value is well typed and is not *)
Example C03_nil_nan_literal_ok :
  let lit := VRef (VRec "ast.Literal" [VRec "token.Position" [VInt; VInt; VInt]; VStr; VDyn JFloat (VFloat false);
                                       VStr; VBool; VBool; VBool; VBool; VBool]) in
  wt ast_structs ast_impls any_types (VDyn (JPtr (JStruct "ast.Literal")) lit) (JIface "ast.Expression") = true /\
  marshal_ok ast_structs lit = true.
Proof. vm_compute. split; reflexivity. Qed.

Example C03_nil_cycle_fails :
  let v := VRef (VRec "ast.AliasedExpr" [VRec "token.Position" [VInt; VInt; VInt]; VDyn (JPtr (JStruct "ast.AliasedExpr")) VBack; VStr]) in
  wt ast_structs ast_impls any_types v (JPtr (JStruct "ast.AliasedExpr")) = true /\ marshal_ok ast_structs v = false.
Proof. vm_compute. split; reflexivity. Qed.
