(* C09 — literals keep their value and print canonically.

   "An unsigned decimal literal up to 2^64-1 prints as UInt64_n, a negated one down to -2^63 as Int64_-n (with -0 as
    UInt64_0), anything larger and every decimal/exponent literal as Float64_ followed by the shortest round-tripping
    digits in ClickHouse's fixed/exponent style, and hex and binary integer literals by value.  A quoted string
    literal denotes exactly the byte string obtained by ClickHouse's escape rules and is printed with ClickHouse's
    two-level escaping, so that for every byte string v, quoting v and explaining it yields the canonical rendering
    of v."

   Models: Lexer/LexerModel.v (the lexer, over the pure stream), Expr/LiteralModel.v (strconv.ParseInt/ParseUint,
   big.Int.SetString(s, 0), parseNumber, parseUnaryMinus, array/tuple literal parsing, FormatLiteral & co.,
   explainLiteral, explainUnaryExpr).
   Specs: Lexer/LexerStringsSpec.v (quote, quote_raw, canon_string), Expr/LiteralSpec.v (src, toks, canon, wfb).
   Tie to /repo: harness/cmd/litdump vs driver/literal, checks/gen_literal_cases.py.

   TRUSTED ORACLE (explicit parameters [pf], [itf] of the theorems below; not modelled): strconv.ParseFloat and the
   integer -> float64 conversions, answering with the SHORTEST round-tripping decimal digits d1..dk and the decimal
   exponent e of strconv.FormatFloat(f,'e',-1,64) (value d1.d2..dk * 10^e).  The premises state what is used:
   answers are digit strings with -324 <= e <= 308, and ParseFloat of a decimal integer >= 2^64 is the float nearest
   to it.  WHICH digits are shortest is the oracle's contract; the layout of the digits is proved. *)
From Coq Require Import List NArith ZArith.
From DC Require Import Base.Item Base.Stream Gen.TokenTable Lexer.LexerModel Lexer.LexerTotal Lexer.LexerStringsSpec
  Lexer.LexerStrings
  Expr.ExprTree Expr.LiteralModel Expr.LiteralSpec Expr.LiteralProof Expr.LiteralLex.
Import ListNotations.
Local Open Scope N_scope.

(* ---------------------------------------------------------------------------------------------------------- *)
(* strings *)

(* every byte string v (NUL, invalid UTF-8 included): its quoted spelling lexes to exactly [STRING v; EOF] *)
Theorem C09_string_value_quote : forall v, bytes_ok v ->
  exists e, tokenize (quote v) =
    Some [mk_item T_STRING v {| p_off := 1; p_line := 1; p_col := 1 |} false; e] /\ it_tok e = T_EOF /\ it_val e = [].
Proof. exact tokenize_quote. Qed.
Print Assumptions C09_string_value_quote.

(* the same with well-formed UTF-8 sequences written raw *)
Theorem C09_string_value_quote_raw : forall v, bytes_ok v ->
  exists e, tokenize (quote_raw v) =
    Some [mk_item T_STRING v {| p_off := 1; p_line := 1; p_col := 1 |} false; e] /\ it_tok e = T_EOF /\ it_val e = [].
Proof. exact tokenize_quote_raw. Qed.
Print Assumptions C09_string_value_quote_raw.

(* in any context: the first token of  quote v ++ rest  is STRING v and the lexer is then positioned on rest *)
Theorem C09_string_first_token : forall v rest, bytes_ok v -> follow_ok rest ->
  forall fuel (l : plex), At l (quote v ++ rest) -> (length v < fuel)%nat ->
  exists l', next_token pure_stream fuel l = Some (mk_item T_STRING v (l_pos l) false, l') /\ At l' rest.
Proof. exact next_token_quote. Qed.
Print Assumptions C09_string_first_token.

(* unknown escapes, for EVERY character: a backslash followed by a well-formed multi-byte character p (or by an
   ASCII character that is not an escape letter) keeps the backslash and ALL bytes of p:
   ' v1 \ p v2 '  denotes  v1 ++ \ ++ p ++ v2   (v1, v2 arbitrary byte strings, quoted byte-wise) *)
Theorem C09_unknown_escape_keeps_rune : forall v1 p v2, bytes_ok v1 -> bytes_ok v2 -> kept_escape p ->
  exists e, tokenize (39 :: quote_body v1 ++ 92 :: p ++ quote_body v2 ++ [39]) =
    Some [mk_item T_STRING (v1 ++ 92 :: p ++ v2) {| p_off := 1; p_line := 1; p_col := 1 |} false; e]
    /\ it_tok e = T_EOF /\ it_val e = [].
Proof. exact tokenize_unknown_escape. Qed.
Print Assumptions C09_unknown_escape_keeps_rune.

(* an INVALID byte x after the backslash (no well-formed sequence starts at x): the lexer reads U+FFFD there, the
   value gets  \ EF BF BD  (builder kept reversed) and the lexer continues after x *)
Theorem C09_invalid_byte_after_backslash : forall x s (l : plex) b, 128 <= x ->
  snd (Base.Utf8.decode_rune (x :: s)) = 1%nat -> At l (92 :: x :: s) ->
  quoted_body pure_stream 39 false (l, b) = ((read_char pure_stream (read_char pure_stream l), [189; 191; 239; 92] ++ b), true)
  /\ At (read_char pure_stream (read_char pure_stream l)) s.
Proof. exact invalid_byte_after_backslash. Qed.
Print Assumptions C09_invalid_byte_after_backslash.

(* Go's escapeStringLiteral/FormatLiteral = ClickHouse's single-level escaping applied twice *)
Theorem C09_string_rendering : forall v, format_string v = canon_string v.
Proof. exact format_string_canon. Qed.
Print Assumptions C09_string_rendering.

(* "for every byte string v, quoting v and explaining it yields the canonical rendering of v" — whatever the oracle *)
Theorem C09_quote_explain : forall pf itf v, bytes_ok v ->
  literal_of_source pf itf (quote v) = LOk (OLit (canon_string v)) /\
  literal_of_source pf itf (quote_raw v) = LOk (OLit (canon_string v)).
Proof. exact quote_explain_canon. Qed.
Print Assumptions C09_quote_explain.

(* ---------------------------------------------------------------------------------------------------------- *)
(* integers — for every n, no bound, whatever the oracle *)

Theorem C09_dec_round_trip : forall n, digits_val (dec n) = n.
Proof. exact dec_round_trip. Qed.
Print Assumptions C09_dec_round_trip.

Theorem C09_uint64 : forall pf itf n, n < 18446744073709551616 ->
  literal_of_tokens pf itf [(T_NUMBER, dec n)] = LOk (OLit (t_UInt64 ++ dec n)).
Proof. exact uint64_literal. Qed.
Print Assumptions C09_uint64.

Theorem C09_int64 : forall pf itf n, 0 < n -> n <= 9223372036854775808 ->
  literal_of_tokens pf itf [(T_MINUS, [45]); (T_NUMBER, dec n)] = LOk (OLit (t_Int64 ++ [45] ++ dec n)).
Proof. exact int64_literal. Qed.
Print Assumptions C09_int64.

Theorem C09_minus_zero : forall pf itf,
  literal_of_tokens pf itf [(T_MINUS, [45]); (T_NUMBER, dec 0)] = LOk (OLit (t_UInt64 ++ dec 0)).
Proof. exact minus_zero_literal. Qed.
Print Assumptions C09_minus_zero.

(* OutOfInt: from 2^64 on the literal is what strconv.ParseFloat makes of it ... *)
Theorem C09_out_of_int : forall pf itf n, 18446744073709551616 <= n ->
  literal_of_tokens pf itf [(T_NUMBER, dec n)] =
  LOk (match pf (dec n) with
       | Some f => OLit (t_Float64 ++ format_float f)
       | None => OLit (format_string (dec n))
       end).
Proof. exact out_of_int. Qed.
Print Assumptions C09_out_of_int.

(* ... and a negated literal beyond 2^63 is the negated float nearest to it *)
Theorem C09_out_of_int_negated : forall pf itf n, 9223372036854775808 < n -> n < 18446744073709551616 ->
  literal_of_tokens pf itf [(T_MINUS, [45]); (T_NUMBER, dec n)] =
  LOk (OLit (t_Float64 ++ format_float (fneg (itf n)))).
Proof. exact out_of_int_negated. Qed.
Print Assumptions C09_out_of_int_negated.

(* hex and binary (and octal) integer literals by value, for EVERY n: UInt64_n below 2^64, from there on the float64
   nearest to n (big.Int.SetString -> big.Float -> float64; the first version of the code printed binary and octal
   literals >= 2^64 as STRING literals) *)
Theorem C09_hex_by_value : forall pf itf n,
  literal_of_tokens pf itf [(T_NUMBER, [48; 120] ++ hex n)] =
  LOk (OLit (if n <? 18446744073709551616 then t_UInt64 ++ dec n else t_Float64 ++ format_float (itf n))).
Proof. exact hex_literal. Qed.
Print Assumptions C09_hex_by_value.

Theorem C09_bin_by_value : forall pf itf n,
  literal_of_tokens pf itf [(T_NUMBER, [48; 98] ++ bin n)] =
  LOk (OLit (if n <? 18446744073709551616 then t_UInt64 ++ dec n else t_Float64 ++ format_float (itf n))).
Proof. exact bin_literal. Qed.
Print Assumptions C09_bin_by_value.

Theorem C09_oct_by_value : forall pf itf n,
  literal_of_tokens pf itf [(T_NUMBER, [48; 111] ++ oct n)] =
  LOk (OLit (if n <? 18446744073709551616 then t_UInt64 ++ dec n else t_Float64 ++ format_float (itf n))).
Proof. exact oct_literal. Qed.
Print Assumptions C09_oct_by_value.

(* every other spelling of such a literal: 0x / 0b / 0o or 0X / 0B / 0O, digits in either letter case, leading zeros,
   '_' separators (each directly followed by a digit; [rad_ok]) -- the value of the digits, separators skipped *)
Theorem C09_radix_by_value : forall pf itf r up ds, rad_ok r ds = true ->
  literal_of_tokens pf itf [(T_NUMBER, [48; radix_letter r up] ++ ds)] =
  LOk (OLit (let n := rad_value r ds 0 in
             if n <? 18446744073709551616 then t_UInt64 ++ dec n else t_Float64 ++ format_float (itf n))).
Proof. exact radix_literal. Qed.
Print Assumptions C09_radix_by_value.

(* the plain numerals are instances: their digit strings are well formed and have the value n *)
Theorem C09_numerals_well_formed : forall n,
  (rad_ok RHex (hex n) = true /\ rad_value RHex (hex n) 0 = n) /\
  (rad_ok RBin (bin n) = true /\ rad_value RBin (bin n) 0 = n) /\
  (rad_ok ROct (oct n) = true /\ rad_value ROct (oct n) 0 = n).
Proof. exact (fun n => conj (hex_rad n) (conj (bin_rad n) (oct_rad n))). Qed.
Print Assumptions C09_numerals_well_formed.

(* ---------------------------------------------------------------------------------------------------------- *)
(* floats: format.go's FormatFloat on (digits, exponent) is the canonical layout — every digit string, every
   decimal exponent of a float64; inf / -inf / nan *)

Theorem C09_float_layout : forall f, fval_ok f -> format_float f = canon_float f.
Proof. exact format_float_canon. Qed.
Print Assumptions C09_float_layout.

(* ---------------------------------------------------------------------------------------------------------- *)
(* everything together, any nesting depth *)

(* token level: every well-formed literal tree (integers of any size in decimal, hex, binary and every prefixed
   spelling, negations, float texts, strings, arrays, tuples) renders as its canonical text *)
Theorem C09_literals_tokens :
  forall (pf : list N -> option fval) (itf : N -> fval),
    (forall s f, pf s = Some f -> fval_ok f) ->
    (forall n, fval_ok (itf n)) ->
    (forall n, 18446744073709551616 <= n -> pf (dec n) = Some (itf n)) ->
  forall t, wfb pf t = true -> literal_of_tokens pf itf (toks t) = LOk (OLit (canon pf itf t)).
Proof. exact literal_tokens_canon. Qed.
Print Assumptions C09_literals_tokens.

(* a negated integer of ANY size renders inside an array / a tuple exactly as at the top level: UInt64_0, Int64_-n
   down to -2^63, beyond that Float64_ of the negated nearest float (instances of the theorem above; the first
   version of the code printed Int64_-n in arrays and a wrapped-around Int64 in tuples) *)
Theorem C09_nested_negation :
  forall (pf : list N -> option fval) (itf : N -> fval),
    (forall s f, pf s = Some f -> fval_ok f) ->
    (forall n, fval_ok (itf n)) ->
    (forall n, 18446744073709551616 <= n -> pf (dec n) = Some (itf n)) ->
  forall n,
    literal_of_tokens pf itf (toks (CArr [CNeg n])) = LOk (OLit (s_Array ++ canon_neg itf n ++ [93])) /\
    literal_of_tokens pf itf (toks (CTup [CNat 1; CNeg n])) =
      LOk (OLit (s_Tuple ++ s_UInt64 ++ dec 1 ++ s_comma_sp ++ canon_neg itf n ++ [41])) /\
    literal_of_tokens pf itf (toks (CNeg n)) = LOk (OLit (canon_neg itf n)).
Proof. exact nested_negation_canon. Qed.
Print Assumptions C09_nested_negation.

(* source level: the same from the source BYTES through the lexer model, for trees without float texts *)
Theorem C09_literals_source :
  forall (pf : list N -> option fval) (itf : N -> fval),
    (forall s f, pf s = Some f -> fval_ok f) ->
    (forall n, fval_ok (itf n)) ->
    (forall n, 18446744073709551616 <= n -> pf (dec n) = Some (itf n)) ->
  forall t, lexable t = true -> wfb pf t = true ->
    literal_of_source pf itf (src t) = LOk (OLit (canon pf itf t)).
Proof. exact literal_source_canon. Qed.
Print Assumptions C09_literals_source.

(* the lexer model turns the source text of a tree into exactly its tokens *)
Theorem C09_lexing : forall t, shaped t = true -> lexable t = true ->
  exists its, tokenize (src t) = Some its /\ strip_items its = toks t.
Proof. exact tokenize_src. Qed.
Print Assumptions C09_lexing.

(* the fuel of the token parser is never exhausted: OutOfFuel cannot mask a difference with the Go code *)
Theorem C09_model_total : forall pf itf ts, literal_of_tokens pf itf ts <> LOutOfFuel.
Proof. exact literal_of_tokens_total. Qed.
Print Assumptions C09_model_total.

(* ---------------------------------------------------------------------------------------------------------- *)
(* where the faithful model contradicts the property text (see the report of the check: outside the quantifier) *)

(* a decimal literal that strconv.ParseFloat rejects (1e999) is printed as a STRING literal *)
Theorem C09_float_range_refuted :
  literal_of_tokens w_parse_float w_int_to_float [(T_NUMBER, [49; 101; 57; 57; 57])]
  = LOk (OLit (format_string [49; 101; 57; 57; 57])).
Proof. exact float_range_refuted. Qed.
Print Assumptions C09_float_range_refuted.

(* ---------------------------------------------------------------------------------------------------------- *)
(* non-vacuity *)

(* a string with quote, backslash, newline, NUL, 0xFF and "é": quote, lex, render *)
Example ex_string_quote : quote sample_value =
  [39; 113; 92; 39; 92; 92; 92; 120; 48; 97; 92; 120; 48; 48; 92; 120; 102; 102; 92; 120; 99; 51; 92; 120; 97; 57; 39].
Proof. vm_compute. reflexivity. Qed.
Example ex_string_lex : lex_string (quote sample_value) = Some sample_value /\
                        lex_string (quote_raw sample_value) = Some sample_value.
Proof. vm_compute. split; reflexivity. Qed.
Example ex_string_render :                     (* \'q\\\'\\\\\\n\\0<FF>é\' *)
  literal_of_source w_parse_float w_int_to_float (quote sample_value) =
  LOk (OLit [92; 39; 113; 92; 92; 92; 39; 92; 92; 92; 92; 92; 92; 110; 92; 92; 48; 255; 195; 169; 92; 39]).
Proof. vm_compute. reflexivity. Qed.

(* -(2^64-1): Float64_-18446744073709552000 at the top level, in an array and in a tuple *)
Example ex_nested_negation :
  literal_of_tokens w_parse_float w_int_to_float (toks (CNeg w_n)) = LOk (OLit w_neg_text)
  /\ literal_of_tokens w_parse_float w_int_to_float (toks (CArr [CNeg w_n])) = LOk (OLit (s_Array ++ w_neg_text ++ [93]))
  /\ literal_of_tokens w_parse_float w_int_to_float (toks (CTup [CNat 1; CNeg w_n]))
    = LOk (OLit (s_Tuple ++ s_UInt64 ++ [49; 44; 32] ++ w_neg_text ++ [41])).
Proof. exact nested_neg_example. Qed.

(* 'a\éb' denotes 61 5c c3 a9 62; after an invalid byte: 61 5c ef bf bd 62; the same rule in back-quoted identifiers *)
Example ex_unknown_escape_rune : lex_string [39; 97; 92; 195; 169; 98; 39] = Some [97; 92; 195; 169; 98] /\
                                 lex_string [39; 97; 92; 255; 98; 39] = Some [97; 92; 239; 191; 189; 98] /\
                                 lex_ident [96; 97; 92; 195; 169; 98; 96] = Some [97; 92; 195; 169; 98].
Proof. vm_compute. repeat split; reflexivity. Qed.

(* 2^64-1 and -2^63 from source bytes *)
Example ex_max_uint64 :
  literal_of_source w_parse_float w_int_to_float (dec 18446744073709551615) =
  LOk (OLit (t_UInt64 ++ dec 18446744073709551615)).
Proof. vm_compute. reflexivity. Qed.
Example ex_min_int64 :
  literal_of_source w_parse_float w_int_to_float (45 :: dec 9223372036854775808) =
  LOk (OLit (t_Int64 ++ 45 :: dec 9223372036854775808)).
Proof. vm_compute. reflexivity. Qed.

(* trees exercised from source bytes (the oracle [w_*] of LiteralProof rejects every float text: these trees ask it
   nothing) *)
Definition ex_tree : cval :=
  CArr [CArr [CNat 1; CNeg 2; CHex 255]; CArr [CBin 5; CNeg 0; CNeg 9223372036854775808]].
Definition ex_tree2 : cval := CTup [CNat 18446744073709551615; CStr sample_value; CTup [CNeg 1; CStr [39]]].
Example ex_tree_wf : wfb w_parse_float ex_tree = true /\ lexable ex_tree = true /\
                     wfb w_parse_float ex_tree2 = true /\ lexable ex_tree2 = true.
Proof. vm_compute. repeat split; reflexivity. Qed.
Example ex_tree_src :                          (* [[1, -2, 0xff], [0b101, -0, -9223372036854775808]] *)
  src ex_tree = [91; 91; 49; 44; 32; 45; 50; 44; 32; 48; 120; 102; 102; 93; 44; 32; 91; 48; 98; 49; 48; 49; 44; 32;
                 45; 48; 44; 32; 45; 57; 50; 50; 51; 51; 55; 50; 48; 51; 54; 56; 53; 52; 55; 55; 53; 56; 48; 56; 93; 93].
Proof. vm_compute. reflexivity. Qed.
Example ex_tree_render :
  literal_of_source w_parse_float w_int_to_float (src ex_tree) = LOk (OLit (canon w_parse_float w_int_to_float ex_tree)) /\
  literal_of_source w_parse_float w_int_to_float (src ex_tree2) = LOk (OLit (canon w_parse_float w_int_to_float ex_tree2)).
Proof. vm_compute. split; reflexivity. Qed.

(* 0b1 and 64 zeros, 0o2 and 21 zeros, 0X1_0000_0000_0000_0000 from source bytes, with an oracle that knows the float
   nearest to 2^64: Float64_18446744073709552000 (a STRING literal in the first version of the code) *)
Definition ex_big_text : list N :=
  t_Float64 ++ [49; 56; 52; 52; 54; 55; 52; 52; 48; 55; 51; 55; 48; 57; 53; 53; 50; 48; 48; 48].
Definition ex_big_hex_us : cval :=
  CRad RHex true [49; 95; 48; 48; 48; 48; 95; 48; 48; 48; 48; 95; 48; 48; 48; 48; 95; 48; 48; 48; 48].
Example ex_big_radix :
  literal_of_source ex_pf ex_itf (src (CBin 18446744073709551616)) = LOk (OLit ex_big_text) /\
  literal_of_source ex_pf ex_itf (src (CRad ROct false (oct 18446744073709551616))) = LOk (OLit ex_big_text) /\
  literal_of_source ex_pf ex_itf (src ex_big_hex_us) = LOk (OLit ex_big_text) /\
  literal_of_source ex_pf ex_itf (src (CArr [ex_big_hex_us; CRad RBin true [49; 95; 48; 49]])) =
    LOk (OLit (s_Array ++ ex_big_text ++ s_comma_sp ++ s_UInt64 ++ [53] ++ [93])).
Proof. vm_compute. repeat split; reflexivity. Qed.
Example ex_big_radix_wf :
  wfb ex_pf (CArr [ex_big_hex_us; CRad RBin true [49; 95; 48; 49]]) = true /\
  lexable (CArr [ex_big_hex_us; CRad RBin true [49; 95; 48; 49]]) = true /\
  src ex_big_hex_us = [48; 88; 49; 95; 48; 48; 48; 48; 95; 48; 48; 48; 48; 95; 48; 48; 48; 48; 95; 48; 48; 48; 48].
Proof. vm_compute. repeat split; reflexivity. Qed.

(* the three premises about the oracle are satisfiable together: an oracle that knows the float nearest to 2^64
   (and answers 1 elsewhere), with ParseFloat defined through the integer conversion *)
Example ex_oracle_premises_hold :
  (forall s f, ex_pf s = Some f -> fval_ok f) /\ ((forall n, fval_ok (ex_itf n)) /\
  (forall n, 18446744073709551616 <= n -> ex_pf (dec n) = Some (ex_itf n))).
Proof. exact ex_oracle_premises. Qed.

(* ... and the main theorem applied with it: [2^64, -2^64, 'a'] from source bytes *)
Example ex_float_branch :
  literal_of_source ex_pf ex_itf (src (CArr [CNat 18446744073709551616; CNeg 18446744073709551616; CStr [97]])) =
  LOk (OLit (canon ex_pf ex_itf (CArr [CNat 18446744073709551616; CNeg 18446744073709551616; CStr [97]]))).
Proof.
  destruct ex_oracle_premises as (H1 & H2 & H3).
  apply (C09_literals_source ex_pf ex_itf H1 H2 H3); vm_compute; reflexivity.
Qed.
Example ex_float_branch_text :          (* Array_[Float64_18446744073709552000, Float64_-18446744073709552000, \'a\'] *)
  canon ex_pf ex_itf (CArr [CNat 18446744073709551616; CNeg 18446744073709551616; CStr [97]]) =
  [65; 114; 114; 97; 121; 95; 91; 70; 108; 111; 97; 116; 54; 52; 95; 49; 56; 52; 52; 54; 55; 52; 52; 48; 55; 51; 55; 48;
   57; 53; 53; 50; 48; 48; 48; 44; 32; 70; 108; 111; 97; 116; 54; 52; 95; 45; 49; 56; 52; 52; 54; 55; 52; 52; 48; 55;
   51; 55; 48; 57; 53; 53; 50; 48; 48; 48; 44; 32; 92; 39; 97; 92; 39; 93].
Proof. vm_compute. reflexivity. Qed.
