(* C05 -- layout and keyword case do not matter: the PARSER + PRINTER half, proved directly for the
   SELECT-core fragment (Select/SelectParseModel.v, Select/SelectPrintModel.v: correspondence-tested
   transcriptions of /repo/parser and /repo/internal/explain), and its composition with the lexer half
   of Properties/C05.v.  No inventory, no trusted translator: these are theorems about the models.

   FULL STATEMENT of C05 (see Properties/C05.v): texts that differ only in whitespace, comments, the
   letter case of keywords used as keywords, leading/trailing semicolons have identical EXPLAIN output,
   except inside array/tuple literals under a `::` cast.

   PROVED HERE, for every token list / every source text (no size bound), over the fragment models:
     C05_fragment_parse_related     two token lists related item by item (same kind, same quoted flag,
                                    same value except for the letter case of KEYWORD-kind values,
                                    arbitrary positions) give the same result constructor (Ok / Panic
                                    site / OutOfFragment reason / OutOfFuel), related remaining tokens,
                                    EQUAL p.errors (the model's err keeps token kinds; positions and
                                    token text of the Go message are what it erases) and statements that
                                    are equal up to the letter case of the NAMES they store.
     C05_fragment_keyword_case      ... and when the two parses store the same names (names_agree: the
                                    keyword tokens that the parse uses AS NAMES -- column after a dot,
                                    alias, table / database name, function name such as any / left /
                                    replace, bare keyword as identifier -- are spelled alike), the
                                    EXPLAIN outputs are EQUAL.   This is C05's clause "letter case of
                                    SQL keywords used as keywords" for the fragment.
     C05_fragment_no_keyword_names  the common case, with a criterion on the token list alone:
                                    kw_blind ts (the parses of the all-upper and the all-lower variant
                                    of ts return the same statement = no keyword token is used as a
                                    name) implies EXPLAIN equality with every case-related list.
     C05_fragment_layout            source texts with the same raw token signature (whitespace and
                                    comment changes): EXPLAIN text equal.  No side condition.
     C05_fragment_layout_case       source texts with the same signature up to keyword case
                                    (LexerLayoutSpec.lex_sig): EXPLAIN text equal when no keyword is
                                    used as a name; _names: when the stored names agree.
     C05_fragment_separator /       the lexer theorems of C05.v plugged in: replacing any separator at a
     C05_fragment_covered_partial   token boundary; two layouts of case-equal covered token sequences
                                    (_partial: the `lays` grammar of token spellings, see C05.v).
     C05_fragment_cast_outside      the `::` exception is outside the fragment: parse_infix answers
                                    OutOfFragment at a `::` token (no cast node exists in the AST), so
                                    the fragment theorems carry no exception clause.
     C05_fragment_script_*          the same for a whole input (parse_script / print_script: every
                                    statement, semicolons at the same token places): _parse_related,
                                    _keyword_case, _no_keyword_names, _layout, _layout_case(_names).
   NOT covered: statements outside the fragment (OutOfFragment results are related, i.e. both texts
   leave the fragment for the same reason, nothing is claimed about their EXPLAIN); leading / trailing
   semicolons (driver: Properties/C06_driver.v, C05_driver_semicolons); the step from the models to the
   Go code is the correspondence run (checks/gen_selectcore_cases.py) and the metamorphic run
   /verif/build/relayout.

   No case-sensitive comparison of a keyword token's value was found in the fragment: the theorems
   hold without a _partial side condition on keyword spelling.  (The case-sensitive `name == "view"`
   of Properties/C05.v lies in a function the printer model excludes: function_is_special.) *)
From Coq Require Import List NArith Bool String.
From DC Require Import Base.Item Gen.TokenTable Tree.LineTree Lexer.LexerModel Lexer.LexerLayoutSpec.
From DC Require Import Select.SelectParseModel Select.SelectPrintModel Select.SelectAstRel
  Select.SelectCoreCase Select.SelectCoreCaseLex Select.SelectCoreCaseScript.
Import ListNotations.

(* ---------------- parser + printer ---------------- *)

Theorem C05_fragment_parse_related : forall ts ts' : list item, case_related ts ts' ->
  result_rel ci_byte (parse_model ts) (parse_model ts').
Proof. exact parse_model_case. Qed.
Print Assumptions C05_fragment_parse_related.

(* the same for any relation on bytes between equality and "same upper-casing" (positions only: eq) *)
Theorem C05_fragment_parse_related_general : forall brel : N -> N -> Prop,
  (forall a, brel a a) -> (forall a b, brel a b -> ci_byte a b) ->
  forall ts ts', Forall2 (irel brel) ts ts' -> result_rel brel (parse_model ts) (parse_model ts').
Proof. exact parse_model_rel. Qed.
Print Assumptions C05_fragment_parse_related_general.

Theorem C05_fragment_same_statement : forall ts ts' : list item, case_related ts ts' -> names_agree ts ts' ->
  result_same ci_byte (parse_model ts) (parse_model ts').
Proof. exact parse_model_case_same. Qed.
Print Assumptions C05_fragment_same_statement.

Theorem C05_fragment_keyword_case : forall ts ts' : list item, case_related ts ts' -> names_agree ts ts' ->
  explain_tokens ts = explain_tokens ts'.
Proof. exact explain_case_insensitive. Qed.
Print Assumptions C05_fragment_keyword_case.

Theorem C05_fragment_no_keyword_names : forall ts ts' : list item, case_related ts ts' -> kw_blind ts ->
  explain_tokens ts = explain_tokens ts'.
Proof. exact explain_kw_blind. Qed.
Print Assumptions C05_fragment_no_keyword_names.

Theorem C05_fragment_no_keyword_names_statement : forall ts ts' : list item, case_related ts ts' -> kw_blind ts ->
  result_same ci_byte (parse_model ts) (parse_model ts').
Proof. exact parse_model_kw_blind. Qed.
Print Assumptions C05_fragment_no_keyword_names_statement.

(* the printer-model boundary does not read the letter case of a stored name *)
Theorem C05_fragment_printable_case_blind : forall q q' : query, qrel ci_byte q q' ->
  printable_query false q = printable_query false q'.
Proof. exact (fun q q' H => proj1 (proj2 (printable_rel ci_byte (fun a b H => H))) q false q' H). Qed.
Print Assumptions C05_fragment_printable_case_blind.

(* ---------------- lexer + parser + printer ---------------- *)

Theorem C05_fragment_tokens_related : forall its its' : list item, sig_of its = sig_of its' ->
  case_related (parser_tokens its) (parser_tokens its').
Proof. exact sig_of_case_related. Qed.
Print Assumptions C05_fragment_tokens_related.

Theorem C05_fragment_layout : forall x y : list N, lex_sig_raw x = lex_sig_raw y ->
  explain_first x = explain_first y.
Proof. exact explain_layout. Qed.
Print Assumptions C05_fragment_layout.

Theorem C05_fragment_layout_case : forall x y : list N, lex_sig x = lex_sig y -> src_kw_blind x ->
  explain_first x = explain_first y.
Proof. exact explain_layout_case. Qed.
Print Assumptions C05_fragment_layout_case.

Theorem C05_fragment_layout_case_names : forall x y : list N, lex_sig x = lex_sig y -> src_names_agree x y ->
  explain_first x = explain_first y.
Proof. exact explain_layout_case_names. Qed.
Print Assumptions C05_fragment_layout_case_names.

Theorem C05_fragment_separator : forall a w w' b : list N, is_sep w -> is_sep w' ->
  boundary_ok a (w ++ b) (w' ++ b) = true ->
  explain_first (a ++ w ++ b) = explain_first (a ++ w' ++ b).
Proof. exact explain_separator. Qed.
Print Assumptions C05_fragment_separator.

Theorem C05_fragment_covered_partial : forall x y s s', lays x s -> lays y s' ->
  map norm_sig s = map norm_sig s' -> src_kw_blind x -> explain_first x = explain_first y.
Proof. exact explain_covered. Qed.
Print Assumptions C05_fragment_covered_partial.

Theorem C05_fragment_cast_outside : forall pe fuel left s,
  cur_tok s = T_COLONCOLON -> parse_infix pe fuel left s = OutOfFragment OofInfixToken.
Proof. exact cast_outside_fragment. Qed.
Print Assumptions C05_fragment_cast_outside.

(* ---------------- whole inputs (scripts) ---------------- *)

Theorem C05_fragment_script_parse_related : forall ts ts' : list item, case_related ts ts' ->
  script_rel ci_byte (parse_script ts) (parse_script ts').
Proof. exact parse_script_case. Qed.
Print Assumptions C05_fragment_script_parse_related.

Theorem C05_fragment_script_keyword_case : forall ts ts' : list item, case_related ts ts' ->
  script_names_agree ts ts' -> explain_script_tokens ts = explain_script_tokens ts'.
Proof. exact explain_script_case_insensitive. Qed.
Print Assumptions C05_fragment_script_keyword_case.

Theorem C05_fragment_script_no_keyword_names : forall ts ts' : list item, case_related ts ts' ->
  script_kw_blind ts -> explain_script_tokens ts = explain_script_tokens ts'.
Proof. exact explain_script_kw_blind. Qed.
Print Assumptions C05_fragment_script_no_keyword_names.

Theorem C05_fragment_script_layout : forall x y : list N, lex_sig_raw x = lex_sig_raw y ->
  explain_script x = explain_script y.
Proof. exact explain_script_layout. Qed.
Print Assumptions C05_fragment_script_layout.

Theorem C05_fragment_script_layout_case : forall x y : list N, lex_sig x = lex_sig y ->
  src_script_kw_blind x -> explain_script x = explain_script y.
Proof. exact explain_script_layout_case. Qed.
Print Assumptions C05_fragment_script_layout_case.

Theorem C05_fragment_script_layout_case_names : forall x y : list N, lex_sig x = lex_sig y ->
  src_script_names_agree x y -> explain_script x = explain_script y.
Proof. exact explain_script_layout_case_names. Qed.
Print Assumptions C05_fragment_script_layout_case_names.

(* ---------------- examples ---------------- *)

Local Open Scope string_scope.

Definition ex_lower : list N :=
  bytes_of "select a, F(b) as X from DB.t as u where a = 1 order by a desc limit 3".
Definition ex_upper : list N :=
  bytes_of "SELECT  a ,F( b )AS X/*c*/FROM DB.t AS u -- c
 WHERE a=1 ORDER
BY a DESC LIMIT 3".

(* the hypotheses of C05_fragment_layout_case hold for the pair: same signature, no keyword used as a
   name; the raw signatures differ (keyword case) *)
Example C05_fragment_twin_hyps :
  lex_sig ex_lower = lex_sig ex_upper /\ src_kw_blind ex_lower /\ lex_sig_raw ex_lower <> lex_sig_raw ex_upper.
Proof. split; [vm_compute; reflexivity|split; [vm_compute; reflexivity|vm_compute; discriminate]]. Qed.

(* hence, by the theorem (not by computing both sides) *)
Example C05_fragment_twin : explain_first ex_lower = explain_first ex_upper.
Proof. destruct C05_fragment_twin_hyps as [H1 [H2 _]]. exact (C05_fragment_layout_case _ _ H1 H2). Qed.

(* ... and it is not vacuous: the statement is accepted (no error) and printed (20 lines) *)
Example C05_fragment_twin_accepted : exists text,
  explain_first ex_lower = Some (Ok (text, [])) /\ List.length (filter (N.eqb 10) text) = 20%nat.
Proof. eexists. split; vm_compute; reflexivity. Qed.

(* keywords used AS NAMES are echoed by EXPLAIN: `a.from`, `any(b)`, alias `key` -- the signatures agree,
   kw_blind fails, the stored names differ, the EXPLAIN texts differ (Go: "Identifier a.from" /
   "Function any (alias key)" versus "Identifier a.FROM" / "Function ANY (alias KEY)") *)
Definition ex_names_lower : list N := bytes_of "select a.from, any(b) as key from t".
Definition ex_names_upper : list N := bytes_of "SELECT a.FROM, ANY(b) AS KEY FROM t".

Example C05_fragment_keyword_as_name_echoed :
  lex_sig ex_names_lower = lex_sig ex_names_upper /\
  ~ src_kw_blind ex_names_lower /\ ~ src_names_agree ex_names_lower ex_names_upper /\
  explain_first ex_names_lower <> explain_first ex_names_upper.
Proof.
  split; [vm_compute; reflexivity|]. split; [vm_compute; discriminate|].
  split; vm_compute; discriminate.
Qed.

(* ... while names_agree covers a text that does use a keyword as a name, spelled alike in both *)
Definition ex_mixed_lower : list N := bytes_of "select a.from, any(b) as key from t where x and y".
Definition ex_mixed_upper : list N := bytes_of "SELECT a.from, any(b) AS key FROM t WHERE x AND y".

Example C05_fragment_mixed : explain_first ex_mixed_lower = explain_first ex_mixed_upper.
Proof. apply C05_fragment_layout_case_names; vm_compute; reflexivity. Qed.

(* the `::` cast leaves the fragment, in every letter case and layout *)
Example C05_fragment_cast_is_out :
  explain_first (bytes_of "select [1, 2]::Array(UInt8)") = Some (OutOfFragment OofPrefixSpecial) /\
  explain_first (bytes_of "select x::Int8") = Some (OutOfFragment OofInfixToken).
Proof. split; vm_compute; reflexivity. Qed.

(* a two-statement input *)
Definition ex_script_lower : list N := bytes_of "select 1 union all select x from t; select not a or b".
Definition ex_script_upper : list N := bytes_of "SELECT 1 UNION/**/ALL
SELECT x FROM t ;SELECT NOT a OR b".

Example C05_fragment_script_twin : explain_script ex_script_lower = explain_script ex_script_upper.
Proof. apply C05_fragment_script_layout_case; vm_compute; reflexivity. Qed.

Example C05_fragment_script_twin_accepted : exists text,
  explain_script ex_script_lower = Some (Ok (text, [])) /\ List.length (filter (N.eqb 10) text) = 22%nat.
Proof. eexists. split; vm_compute; reflexivity. Qed.
