(* C04 (part B) -- the "(children N)" headers of the SELECT printers of
   /repo/internal/explain/select.go equal the number of children they emit, for EVERY combination
   of optional clauses, exactly under the stated invariants; hence the output is a well-formed
   tree ([check_lines]).  Model: Select/SelectExplainModel.v (count code and emit code transcribed
   separately, as in Go; /repo revision a9fde9fa2).  Proofs: Select/SelectExplainProof.v.  Tie to
   the code: /verif/harness/cmd/selectcount vs /verif/driver/selectcount on
   /verif/checks/gen_select_cases.py.

   [nrm ls = map norm_line ls] reads "(children 0)" as "no suffix": Go prints
   "ExpressionList (children 0)" for an empty list (empty select list of `SELECT`, empty
   Selects of `(2)`), which is a correct count.

   The invariants and where the parser establishes them:
     inv_limit (LimitByOffset != nil -> LimitByLimit != nil;
                LimitByLimit == nil /\ len(LimitBy) > 0 -> Offset == nil)
        established by parser.go parseSelect, LIMIT / OFFSET blocks: LimitBy is appended only
        in the two blocks that first move Limit into LimitByLimit (and Offset into LimitByOffset).
        NECESSARY: C04_select_header_eq_direct_children is an equivalence.
     inv_shape: in GROUPING SETS mode no Parenthesized tuple literal whose Value is not
        []Expression (explainSelectQuery prints nothing for it); the parser always builds tuple
        literals with a []Expression value.
   Nothing else: no restriction on the union / intersect level (the SETTINGS double count was
   fixed in /repo 699117351), none on empty lists, none on the unionTail value that the
   enclosing INSERT / EXPLAIN / CREATE passes (/repo a9fde9fa2: count and emission use the same
   three unionTail methods; noFormatOf / noSettingsOf pointers are modelled as the position of
   the member in n.Selects, assuming no pointer occurs twice there). *)
From Coq Require Import List NArith Bool.
From DC Require Import Tree.LineTree Tree.LineTreeProof
     Select.SelectExplainModel Select.SelectExplainProof.
Import ListNotations.

(* ---- SelectQuery: count vs emit ---- *)

(* the header count equals the number of emitted children iff the LIMIT invariant holds;
   no other restriction: all combinations of the other optional fields *)
Theorem C04_select_count_eq_emitted :
  forall n : select_query,
    inv_limit n <-> count_select_query_children n = length (select_children n).
Proof. exact count_select_query_children_correct. Qed.
Print Assumptions C04_select_count_eq_emitted.

(* the same at the level of printed lines: "(children N)" of the first line vs the number of
   lines printed one level below it *)
Theorem C04_select_header_eq_direct_children :
  forall (d : nat) (n : select_query),
    inv_shape n ->
    (header_count (explain_select_query d n) = direct_children (explain_select_query d n)
     <-> inv_limit n).
Proof. exact select_counts_agree_iff. Qed.
Print Assumptions C04_select_header_eq_direct_children.

Theorem C04_select_is_tree :
  forall (d : nat) (n : select_query),
    inv_select n -> nrm (explain_select_query d n) = render d (select_tree n).
Proof. exact explain_select_query_tree. Qed.
Print Assumptions C04_select_is_tree.

Theorem C04_select_check_lines :
  forall n : select_query, inv_select n -> check_lines (explain_select_query 0 n) = true.
Proof. exact explain_select_query_check. Qed.
Print Assumptions C04_select_check_lines.

(* ---- SelectQuery printed with an inherited WITH clause ---- *)

Theorem C04_select_inherited_count_eq_emitted :
  forall (n : select_query) (iw : list rose),
    inv_limit n -> sq_with n = [] ->
    (count_select_query_children n + 1)%nat = length (select_children_inherited n iw).
Proof. exact count_inherited_correct. Qed.
Print Assumptions C04_select_inherited_count_eq_emitted.

Theorem C04_select_inherited_is_tree :
  forall (d : nat) (s : sel_item) (iw : list rose),
    inv_item s ->
    nrm (explain_select_query_with_inherited_with d s iw) = render d (item_tree_inherited iw s).
Proof. exact explain_inherited_tree. Qed.
Print Assumptions C04_select_inherited_is_tree.

(* ---- SelectWithUnionQuery: for EVERY unionTail value, unconditional ---- *)

Theorem C04_union_count_eq_emitted :
  forall (n : union_query) (t : union_tail),
    count_select_union_children_tail n t = length (union_children n t).
Proof. exact count_select_union_children_eq_emitted. Qed.
Print Assumptions C04_union_count_eq_emitted.

Theorem C04_union_inherited_count_eq_emitted :
  forall (n : union_query) (iw : list rose) (t : union_tail),
    count_select_union_children_tail n t = length (union_children_inherited n iw t).
Proof. exact count_select_union_children_inherited_eq_emitted. Qed.
Print Assumptions C04_union_inherited_count_eq_emitted.

(* inv_union n = every member of the select list that is a SelectQuery satisfies inv_select *)
Theorem C04_union_header_eq_direct_children :
  forall (d : nat) (n : union_query) (t : union_tail),
    inv_union n ->
    header_count (explain_select_with_union_query_tail d n t)
    = direct_children (explain_select_with_union_query_tail d n t).
Proof. exact union_counts_agree. Qed.
Print Assumptions C04_union_header_eq_direct_children.

Theorem C04_union_inherited_header_eq_direct_children :
  forall (d : nat) (n : union_query) (iw : list rose) (t : union_tail),
    inv_union n ->
    header_count (explain_select_with_union_query_with_inherited_with d n iw t)
    = direct_children (explain_select_with_union_query_with_inherited_with d n iw t).
Proof. exact union_inherited_counts_agree. Qed.
Print Assumptions C04_union_inherited_header_eq_direct_children.

Theorem C04_union_is_tree :
  forall (d : nat) (n : union_query) (t : union_tail),
    inv_union n ->
    nrm (explain_select_with_union_query_tail d n t) = render d (union_tree n t).
Proof. exact explain_union_tree. Qed.
Print Assumptions C04_union_is_tree.

Theorem C04_union_check_lines :
  forall (n : union_query) (t : union_tail),
    inv_union n -> check_lines (explain_select_with_union_query_tail 0 n t) = true.
Proof. exact explain_union_check. Qed.
Print Assumptions C04_union_check_lines.

Theorem C04_union_inherited_is_tree :
  forall (d : nat) (n : union_query) (iw : list rose) (t : union_tail),
    inv_union n ->
    nrm (explain_select_with_union_query_with_inherited_with d n iw t)
    = render d (union_tree_inherited n iw t).
Proof. exact explain_union_inherited_tree. Qed.
Print Assumptions C04_union_inherited_is_tree.

Theorem C04_union_inherited_check_lines :
  forall (n : union_query) (iw : list rose) (t : union_tail),
    inv_union n ->
    check_lines (explain_select_with_union_query_with_inherited_with 0 n iw t) = true.
Proof. exact explain_union_inherited_check. Qed.
Print Assumptions C04_union_inherited_check_lines.

(* the instances used by INSERT ... SELECT, EXPLAIN <select>, CREATE ... AS SELECT ... FORMAT *)
Theorem C04_union_in_insert_check_lines :
  forall (insert_with : list rose) (n : union_query),
    inv_union n -> check_lines (explain_insert_select 0 insert_with n) = true.
Proof. exact explain_insert_select_check. Qed.
Print Assumptions C04_union_in_insert_check_lines.

Theorem C04_union_in_explain_check_lines :
  forall n : union_query, inv_union n -> check_lines (explain_explain_select 0 n) = true.
Proof. exact explain_explain_select_check. Qed.
Print Assumptions C04_union_in_explain_check_lines.

Theorem C04_union_in_create_check_lines :
  forall n : union_query, inv_union n -> check_lines (explain_as_select_without_format 0 n) = true.
Proof. exact explain_as_select_check. Qed.
Print Assumptions C04_union_in_create_check_lines.

(* ---- SelectIntersectExceptQuery ---- *)

Theorem C04_intersect_is_tree :
  forall (d : nat) (n : intersect_query),
    inv_intersect n ->
    nrm (explain_select_intersect_except_query d n) = render d (intersect_tree n).
Proof. exact explain_intersect_tree. Qed.
Print Assumptions C04_intersect_is_tree.

Theorem C04_intersect_check_lines :
  forall n : intersect_query,
    inv_intersect n -> check_lines (explain_select_intersect_except_query 0 n) = true.
Proof. exact explain_intersect_check. Qed.
Print Assumptions C04_intersect_check_lines.

(* ---------------------------------------------------------------------------------------- *)
(* Examples *)

From Coq Require Import String.
Local Open Scope string_scope.
Local Open Scope list_scope.

Definition idn (s : String.string) : rose := Node (bytes_of (String.append "Identifier " s)) [].

(* every optional clause present: WITH w SELECT DISTINCT ON (d) TOP .. c1, c2 FROM t ARRAY JOIN aj
   PREWHERE .. WHERE .. GROUP BY GROUPING SETS (g1, (g2a, g2b), ((g3a)), ()) HAVING .. WINDOW ..
   QUALIFY .. ORDER BY o1 INTERPOLATE (i1) LIMIT lbo, lbl BY lb1 LIMIT off, lim SETTINGS .. *)
Definition full_select : select_query :=
  {| sq_with := [idn "w1"]; sq_distinct_on := [idn "d1"]; sq_top := Some (idn "top");
     sq_columns := [idn "c1"; idn "c2"];
     sq_from := Some [Node (bytes_of "TablesInSelectQueryElement")
                        [Node (bytes_of "TableExpression") [Node (bytes_of "TableIdentifier t1") []]]];
     sq_array_join := Some (Node (bytes_of "ArrayJoin") [T_EL [idn "aj"]]);
     sq_prewhere := Some (idn "pw"); sq_where := Some (idn "wh");
     sq_group_by := [GE_other (idn "g1");
                     GE_tuple false (Some [idn "g2a"; idn "g2b"]) (idn "unused");
                     GE_tuple true (Some [idn "g3a"]) (idn "unused");
                     GE_tuple false (Some []) (idn "unused")];
     sq_group_by_all := false; sq_grouping_sets := true;
     sq_having := Some (idn "hv"); sq_qualify := Some (idn "ql"); sq_window := 2;
     sq_order_by := [Node (bytes_of "OrderByElement") [idn "o1"]];
     sq_interpolate := [Node (bytes_of "InterpolateElement (column i1)") [idn "i1"]];
     sq_limit := Some (idn "lim"); sq_limit_by := [idn "lb1"];
     sq_limit_by_limit := Some (idn "lbl"); sq_limit_by_offset := Some (idn "lbo");
     sq_offset := Some (idn "off"); sq_settings := 1; sq_settings_after_format := false;
     sq_into_outfile := Some (bytes_of "out.txt"); sq_format := Some (idn "Null") |}.

(* the hypotheses are satisfiable by a non-trivial object *)
Example full_select_inv : inv_select full_select.
Proof.
  unfold inv_select, inv_limit, inv_shape, full_select; cbn.
  repeat split; try discriminate; try congruence.
  intros _. repeat constructor; intros s H; discriminate.
Qed.

Example full_select_counts :
  header_count (explain_select_query 0 full_select) = 20%nat /\
  direct_children (explain_select_query 0 full_select) = 20%nat /\
  List.length (explain_select_query 0 full_select) = 49%nat /\
  check_lines (explain_select_query 0 full_select) = true.
Proof. vm_compute. repeat split. Qed.

(* the printed text also passes the text checker (kinds are those of the goldens) *)
From DC Require Import Gen.NodeKinds.
Example full_select_text_ok :
  check_text node_kinds (print_lines (explain_select_query 0 full_select)) = true.
Proof. vm_compute. reflexivity. Qed.

(* the invariant is necessary: LimitByOffset without LimitByLimit is counted but not printed
   (not reachable from the parser, which sets both together) *)
Definition bad_limit_select : select_query :=
  {| sq_with := []; sq_distinct_on := []; sq_top := None; sq_columns := [idn "c1"];
     sq_from := None; sq_array_join := None; sq_prewhere := None; sq_where := None;
     sq_group_by := []; sq_group_by_all := false; sq_grouping_sets := false;
     sq_having := None; sq_qualify := None; sq_window := 0; sq_order_by := [];
     sq_interpolate := []; sq_limit := None; sq_limit_by := [];
     sq_limit_by_limit := None; sq_limit_by_offset := Some (idn "lbo");
     sq_offset := None; sq_settings := 0; sq_settings_after_format := false;
     sq_into_outfile := None; sq_format := None |}.

Example bad_limit_counts :
  header_count (explain_select_query 0 bad_limit_select) = 2%nat /\
  direct_children (explain_select_query 0 bad_limit_select) = 1%nat /\
  check_lines (explain_select_query 0 bad_limit_select) = false.
Proof. vm_compute. repeat split. Qed.

Definition select_1 : select_query :=
  {| sq_with := []; sq_distinct_on := []; sq_top := None;
     sq_columns := [Node (bytes_of "Literal UInt64_1") []];
     sq_from := None; sq_array_join := None; sq_prewhere := None; sq_where := None;
     sq_group_by := []; sq_group_by_all := false; sq_grouping_sets := false;
     sq_having := None; sq_qualify := None; sq_window := 0; sq_order_by := [];
     sq_interpolate := []; sq_limit := None; sq_limit_by := [];
     sq_limit_by_limit := None; sq_limit_by_offset := None;
     sq_offset := None; sq_settings := 0; sq_settings_after_format := false;
     sq_into_outfile := None; sq_format := Some (idn "Null") |}.

(* the AST the parser builds for   (SELECT 1) SETTINGS a=1 FORMAT Null SETTINGS b=2
   (SettingsBeforeFormat and SettingsAfterFormat both set on the union, Format on the select):
   before /repo 699117351 the header said 3 while 4 children were printed; now 4 = 4. *)
Definition double_settings_union : union_query :=
  {| u_selects := [ItemSelect select_1]; u_grouped := [ItemSelect select_1];
     u_settings := 1; u_settings_after_format := true; u_settings_before_format := true |}.

Example double_settings_counts :
  header_count (explain_select_with_union_query 0 double_settings_union) = 4%nat /\
  direct_children (explain_select_with_union_query 0 double_settings_union) = 4%nat /\
  check_lines (explain_select_with_union_query 0 double_settings_union) = true.
Proof. vm_compute. repeat split. Qed.

(* empty lists print "(children 0)", a correct count: the AST of a bare `SELECT` (no columns)
   and of `(2)` (a union without selects) *)
Definition no_columns_select : select_query :=
  {| sq_with := []; sq_distinct_on := []; sq_top := None; sq_columns := [];
     sq_from := None; sq_array_join := None; sq_prewhere := None; sq_where := None;
     sq_group_by := []; sq_group_by_all := false; sq_grouping_sets := false;
     sq_having := None; sq_qualify := None; sq_window := 0; sq_order_by := [];
     sq_interpolate := []; sq_limit := None; sq_limit_by := [];
     sq_limit_by_limit := None; sq_limit_by_offset := None;
     sq_offset := None; sq_settings := 0; sq_settings_after_format := false;
     sq_into_outfile := None; sq_format := None |}.

Example no_columns_ok :
  explain_select_query 0 no_columns_select
  = [hdr 0 L_SelectQuery 1; hdr 1 L_ExpressionList 0] /\
  check_lines (explain_select_query 0 no_columns_select) = true /\
  check_text node_kinds (print_lines (explain_select_query 0 no_columns_select)) = true.
Proof. vm_compute. repeat split. Qed.

Definition empty_union : union_query :=
  {| u_selects := []; u_grouped := []; u_settings := 0;
     u_settings_after_format := false; u_settings_before_format := false |}.

Example empty_union_ok :
  check_text node_kinds (print_lines (explain_select_with_union_query 0 empty_union)) = true.
Proof. vm_compute. reflexivity. Qed.

(* EXPLAIN (SELECT 1) SETTINGS a=1 FORMAT Null SETTINGS b=2: the enclosing Explain node prints
   the FORMAT of the first select and the trailing SETTINGS itself (tail: noSettings,
   noFormatOf = member 0), so the nested union prints only its select list: header 1 = 1 *)
Example explain_tail_example :
  explain_query_tail double_settings_union = mkTail false (Some 0%nat) true None /\
  header_count (explain_explain_select 0 double_settings_union) = 1%nat /\
  direct_children (explain_explain_select 0 double_settings_union) = 1%nat /\
  check_lines (explain_explain_select 0 double_settings_union) = true /\
  header_count (explain_as_select_without_format 0 double_settings_union) = 3%nat /\
  direct_children (explain_as_select_without_format 0 double_settings_union) = 3%nat.
Proof. vm_compute. repeat split. Qed.

(* a well-formed union: SELECT 1 FORMAT Null, one select, no settings *)
Definition plain_union : union_query :=
  {| u_selects := [ItemSelect select_1]; u_grouped := [ItemSelect select_1];
     u_settings := 0; u_settings_after_format := false; u_settings_before_format := false |}.

Example plain_union_inv : inv_union plain_union.
Proof.
  unfold inv_union, plain_union; cbn.
  repeat constructor; cbn; try discriminate; try congruence.
Qed.

Example plain_union_text_ok :
  check_text node_kinds (print_lines (explain_select_with_union_query 0 plain_union)) = true.
Proof. vm_compute. reflexivity. Qed.
