(* C04 (part B) -- the "(children N)" headers of the SELECT printers of
   /repo/internal/explain/select.go equal the number of children they emit, for EVERY combination
   of optional clauses, exactly under the stated invariants; hence the output is a well-formed
   tree ([check_lines]).  Model: Select/SelectExplainModel.v (count code and emit code transcribed
   separately, as in Go).  Proofs: Select/SelectExplainProof.v.  Tie to the code:
   /verif/harness/cmd/selectcount vs /verif/driver/selectcount on /verif/checks/gen_select_cases.py.

   The invariants and where the parser establishes them (or does not -- findings):
     inv_limit (LimitByOffset != nil -> LimitByLimit != nil;
                LimitByLimit == nil /\ len(LimitBy) > 0 -> Offset == nil)
        established by parser.go parseSelect, LIMIT / OFFSET blocks: LimitBy is appended only
        in the two blocks that first move Limit into LimitByLimit (and Offset into LimitByOffset).
     inv_shape: Columns non-empty                      NOT established: `SELECT`, `SELECT ;`
                From != nil -> some table or ARRAY JOIN   (From is only created with a table)
                GROUPING SETS tuple literals carry []Expression (parser builds them so)
     inv_union_settings: not both a SETTINGS before FORMAT and one after it / a legacy one
                                                          NOT established:
                `(SELECT 1) SETTINGS a=1 FORMAT Null SETTINGS b=2`,
                `SELECT 1 FORMAT Null SETTINGS b=2 SETTINGS c=3`  print (children 3) + 4 children
     u_grouped non-empty                               NOT established: `(2)`, `()`  print
                `ExpressionList (children 0)`. *)
From Coq Require Import List NArith Bool.
From DC Require Import Tree.LineTree Tree.LineTreeProof
     Select.SelectExplainModel Select.SelectExplainProof.
Import ListNotations.

(* ---- SelectQuery: count vs emit ---- *)

(* the header count equals the number of emitted children iff the LIMIT invariant holds;
   no other restriction: all combinations of the other optional fields *)
Theorem C04_select_count_eq_emitted :
  forall n : select_query,
    inv_limit n <-> count_select_query_children n = length (select_children n).
Proof. exact count_select_query_children_correct. Qed.
Print Assumptions C04_select_count_eq_emitted.

(* the same at the level of printed lines: "(children N)" of the first line vs the number of
   lines printed one level below it *)
Theorem C04_select_header_eq_direct_children :
  forall (d : nat) (n : select_query),
    inv_shape n ->
    (header_count (explain_select_query d n) = direct_children (explain_select_query d n)
     <-> inv_limit n).
Proof. exact select_counts_agree_iff. Qed.
Print Assumptions C04_select_header_eq_direct_children.

Theorem C04_select_is_tree :
  forall (d : nat) (n : select_query),
    inv_select n -> explain_select_query d n = render d (select_tree n).
Proof. exact explain_select_query_tree. Qed.
Print Assumptions C04_select_is_tree.

Theorem C04_select_check_lines :
  forall n : select_query, inv_select n -> check_lines (explain_select_query 0 n) = true.
Proof. exact explain_select_query_check. Qed.
Print Assumptions C04_select_check_lines.

(* ---- SelectQuery printed with an inherited WITH clause ---- *)

Theorem C04_select_inherited_count_eq_emitted :
  forall (n : select_query) (iw : list rose),
    inv_limit n -> sq_with n = [] ->
    (count_select_query_children n + 1)%nat = length (select_children_inherited n iw).
Proof. exact count_inherited_correct. Qed.
Print Assumptions C04_select_inherited_count_eq_emitted.

Theorem C04_select_inherited_is_tree :
  forall (d : nat) (s : sel_item) (iw : list rose),
    inv_item s -> iw <> [] ->
    explain_select_query_with_inherited_with d s iw = render d (item_tree_inherited iw s).
Proof. exact explain_inherited_tree. Qed.
Print Assumptions C04_select_inherited_is_tree.

(* ---- SelectWithUnionQuery ---- *)

Theorem C04_union_count_eq_emitted :
  forall (n : union_query) (with_format : bool),
    inv_union_settings n <->
    count_select_union_children_format n with_format
    = (1 + length (union_tail_children n with_format))%nat.
Proof. exact count_select_union_children_correct. Qed.
Print Assumptions C04_union_count_eq_emitted.

Theorem C04_union_header_eq_direct_children :
  forall (d : nat) (n : union_query) (with_format : bool),
    u_grouped n <> [] -> Forall inv_item (u_grouped n) ->
    (header_count (explain_select_with_union_query_format d n with_format)
     = direct_children (explain_select_with_union_query_format d n with_format)
     <-> inv_union_settings n).
Proof. exact union_counts_agree_iff. Qed.
Print Assumptions C04_union_header_eq_direct_children.

Theorem C04_union_is_tree :
  forall (d : nat) (n : union_query) (with_format : bool),
    inv_union n ->
    explain_select_with_union_query_format d n with_format = render d (union_tree n with_format).
Proof. exact explain_union_tree. Qed.
Print Assumptions C04_union_is_tree.

Theorem C04_union_check_lines :
  forall (n : union_query) (with_format : bool),
    inv_union n -> check_lines (explain_select_with_union_query_format 0 n with_format) = true.
Proof. exact explain_union_check. Qed.
Print Assumptions C04_union_check_lines.

Theorem C04_union_inherited_is_tree :
  forall (d : nat) (n : union_query) (iw : list rose),
    inv_union n -> iw <> [] ->
    explain_select_with_union_query_with_inherited_with d n iw
    = render d (union_tree_inherited n iw).
Proof. exact explain_union_inherited_tree. Qed.
Print Assumptions C04_union_inherited_is_tree.

Theorem C04_union_inherited_check_lines :
  forall (n : union_query) (iw : list rose),
    inv_union n -> iw <> [] ->
    check_lines (explain_select_with_union_query_with_inherited_with 0 n iw) = true.
Proof. exact explain_union_inherited_check. Qed.
Print Assumptions C04_union_inherited_check_lines.

(* ---- SelectIntersectExceptQuery ---- *)

Theorem C04_intersect_is_tree :
  forall (d : nat) (n : intersect_query),
    inv_intersect n -> explain_select_intersect_except_query d n = render d (intersect_tree n).
Proof. exact explain_intersect_tree. Qed.
Print Assumptions C04_intersect_is_tree.

Theorem C04_intersect_check_lines :
  forall n : intersect_query,
    inv_intersect n -> check_lines (explain_select_intersect_except_query 0 n) = true.
Proof. exact explain_intersect_check. Qed.
Print Assumptions C04_intersect_check_lines.

(* ---------------------------------------------------------------------------------------- *)
(* Examples *)

From Coq Require Import String.
Local Open Scope string_scope.
Local Open Scope list_scope.

Definition idn (s : String.string) : rose := Node (bytes_of (String.append "Identifier " s)) [].

(* every optional clause present: WITH w SELECT DISTINCT ON (d) TOP .. c1, c2 FROM t ARRAY JOIN aj
   PREWHERE .. WHERE .. GROUP BY GROUPING SETS (g1, (g2a, g2b), ((g3a)), ()) HAVING .. WINDOW ..
   QUALIFY .. ORDER BY o1 INTERPOLATE (i1) LIMIT lbo, lbl BY lb1 LIMIT off, lim SETTINGS .. *)
Definition full_select : select_query :=
  {| sq_with := [idn "w1"]; sq_distinct_on := [idn "d1"]; sq_top := Some (idn "top");
     sq_columns := [idn "c1"; idn "c2"];
     sq_from := Some [Node (bytes_of "TablesInSelectQueryElement")
                        [Node (bytes_of "TableExpression") [Node (bytes_of "TableIdentifier t1") []]]];
     sq_array_join := Some (Node (bytes_of "ArrayJoin") [T_EL [idn "aj"]]);
     sq_prewhere := Some (idn "pw"); sq_where := Some (idn "wh");
     sq_group_by := [GE_other (idn "g1");
                     GE_tuple false (Some [idn "g2a"; idn "g2b"]) (idn "unused");
                     GE_tuple true (Some [idn "g3a"]) (idn "unused");
                     GE_tuple false (Some []) (idn "unused")];
     sq_group_by_all := false; sq_grouping_sets := true;
     sq_having := Some (idn "hv"); sq_qualify := Some (idn "ql"); sq_window := 2;
     sq_order_by := [Node (bytes_of "OrderByElement") [idn "o1"]];
     sq_interpolate := [Node (bytes_of "InterpolateElement (column i1)") [idn "i1"]];
     sq_limit := Some (idn "lim"); sq_limit_by := [idn "lb1"];
     sq_limit_by_limit := Some (idn "lbl"); sq_limit_by_offset := Some (idn "lbo");
     sq_offset := Some (idn "off"); sq_settings := 1; sq_settings_after_format := false;
     sq_into_outfile := Some (bytes_of "out.txt"); sq_format := Some (idn "Null") |}.

(* the hypotheses are satisfiable by a non-trivial object *)
Example full_select_inv : inv_select full_select.
Proof.
  unfold inv_select, inv_limit, inv_shape, full_select; cbn.
  repeat split; try discriminate; try congruence.
  intros _. repeat constructor; intros s H; discriminate.
Qed.

Example full_select_counts :
  header_count (explain_select_query 0 full_select) = 20%nat /\
  direct_children (explain_select_query 0 full_select) = 20%nat /\
  List.length (explain_select_query 0 full_select) = 49%nat /\
  check_lines (explain_select_query 0 full_select) = true.
Proof. vm_compute. repeat split. Qed.

(* the printed text also passes the text checker (kinds are those of the goldens) *)
From DC Require Import Gen.NodeKinds.
Example full_select_text_ok :
  check_text node_kinds (print_lines (explain_select_query 0 full_select)) = true.
Proof. vm_compute. reflexivity. Qed.

(* the invariant is necessary: LimitByOffset without LimitByLimit is counted but not printed
   (not reachable from the parser, which sets both together) *)
Definition bad_limit_select : select_query :=
  {| sq_with := []; sq_distinct_on := []; sq_top := None; sq_columns := [idn "c1"];
     sq_from := None; sq_array_join := None; sq_prewhere := None; sq_where := None;
     sq_group_by := []; sq_group_by_all := false; sq_grouping_sets := false;
     sq_having := None; sq_qualify := None; sq_window := 0; sq_order_by := [];
     sq_interpolate := []; sq_limit := None; sq_limit_by := [];
     sq_limit_by_limit := None; sq_limit_by_offset := Some (idn "lbo");
     sq_offset := None; sq_settings := 0; sq_settings_after_format := false;
     sq_into_outfile := None; sq_format := None |}.

Example bad_limit_counts :
  header_count (explain_select_query 0 bad_limit_select) = 2%nat /\
  direct_children (explain_select_query 0 bad_limit_select) = 1%nat /\
  check_lines (explain_select_query 0 bad_limit_select) = false.
Proof. vm_compute. repeat split. Qed.

Definition select_1 : select_query :=
  {| sq_with := []; sq_distinct_on := []; sq_top := None;
     sq_columns := [Node (bytes_of "Literal UInt64_1") []];
     sq_from := None; sq_array_join := None; sq_prewhere := None; sq_where := None;
     sq_group_by := []; sq_group_by_all := false; sq_grouping_sets := false;
     sq_having := None; sq_qualify := None; sq_window := 0; sq_order_by := [];
     sq_interpolate := []; sq_limit := None; sq_limit_by := [];
     sq_limit_by_limit := None; sq_limit_by_offset := None;
     sq_offset := None; sq_settings := 0; sq_settings_after_format := false;
     sq_into_outfile := None; sq_format := Some (idn "Null") |}.

(* FINDING, reproduced in the model: the AST the parser builds for
       (SELECT 1) SETTINGS a=1 FORMAT Null SETTINGS b=2
   (SettingsBeforeFormat and SettingsAfterFormat both set on the union, Format on the select):
   header "(children 3)", four children printed, not a tree. *)
Definition double_settings_union : union_query :=
  {| u_selects := [ItemSelect select_1]; u_grouped := [ItemSelect select_1];
     u_settings := 1; u_settings_after_format := true; u_settings_before_format := true |}.

Example double_settings_counts :
  header_count (explain_select_with_union_query_format 0 double_settings_union true) = 3%nat /\
  direct_children (explain_select_with_union_query_format 0 double_settings_union true) = 4%nat /\
  check_lines (explain_select_with_union_query_format 0 double_settings_union true) = false.
Proof. vm_compute. repeat split. Qed.

(* a well-formed union: SELECT 1 FORMAT Null, one select, no settings *)
Definition plain_union : union_query :=
  {| u_selects := [ItemSelect select_1]; u_grouped := [ItemSelect select_1];
     u_settings := 0; u_settings_after_format := false; u_settings_before_format := false |}.

Example plain_union_inv : inv_union plain_union.
Proof.
  unfold inv_union, inv_union_settings, plain_union; cbn. repeat split; try discriminate.
  repeat constructor; cbn; try discriminate; try congruence.
Qed.

Example plain_union_text_ok :
  check_text node_kinds (print_lines (explain_select_with_union_query_format 0 plain_union true)) = true.
Proof. vm_compute. reflexivity. Qed.
