(* C14, stream level (to be merged into Properties/C14.v with the lexer-level corollaries).
   "Parsing the same byte stream gives the same result whether the io.Reader returns everything at
   once, one byte per Read, short reads that split multi-byte characters, or the last bytes
   together with io.EOF."  Here: the real bufio.Reader (model BufioModel.v, validated against Go's
   bufio by /verif/harness/cmd/bufioops) answers every Peek/ReadRune client exactly like the pure
   stream over the concatenated bytes, for every well-behaved chunking. *)
From Coq Require Import List NArith.
From DC Require Import Base.Utf8 Base.Stream Stream.Simulation Stream.BufioModel Stream.BufioProof.
Import ListNotations.
Local Open Scope N_scope.

(* the refinement: bufio over any well-behaved script simulates the pure stream through abs *)
Theorem C14_bufio_refines_pure :
  stream_sim (fun st l => wb_state st /\ abs st = l) bufio_stream pure_stream.
Proof. exact bufio_refines_pure. Qed.
Print Assumptions C14_bufio_refines_pure.

Theorem C14_init : forall s, well_behaved s ->
  wb_state (bufio_init s) /\ abs (bufio_init s) = data_of s.
Proof. exact bufio_init_rel. Qed.
Print Assumptions C14_init.

(* one operation at a time, in explicit form *)
Theorem C14_peek : forall n st, wb_state st ->
  fst (bufio_peek n st) = firstn (Nat.min n bufio_size) (abs st) /\
  wb_state (snd (bufio_peek n st)) /\ abs (snd (bufio_peek n st)) = abs st.
Proof. exact bufio_peek_refines. Qed.
Print Assumptions C14_peek.

Theorem C14_read_rune : forall st, wb_state st ->
  fst (bufio_read_rune st) = fst (pure_read_rune (abs st)) /\
  wb_state (snd (bufio_read_rune st)) /\
  abs (snd (bufio_read_rune st)) = snd (pure_read_rune (abs st)).
Proof. exact bufio_read_rune_refines. Qed.
Print Assumptions C14_read_rune.

(* client independence: fixed op sequences *)
Theorem C14_ops_pure : forall s ops, well_behaved s ->
  fst (run_ops bufio_stream ops (bufio_init s)) = fst (run_ops pure_stream ops (data_of s)).
Proof. exact bufio_run_ops_pure. Qed.
Print Assumptions C14_ops_pure.

Theorem C14_ops_chunking : forall s1 s2 ops,
  well_behaved s1 -> well_behaved s2 -> data_of s1 = data_of s2 ->
  fst (run_ops bufio_stream ops (bufio_init s1)) = fst (run_ops bufio_stream ops (bufio_init s2)).
Proof. exact bufio_run_ops_chunking. Qed.
Print Assumptions C14_ops_chunking.

(* client independence: adaptive clients (any program using only Peek and ReadRune) *)
Theorem C14_client_pure : forall (A : Type) (c : client A) s, well_behaved s ->
  fst (run_client bufio_stream c (bufio_init s)) = fst (run_client pure_stream c (data_of s)).
Proof. exact bufio_run_client_pure. Qed.
Print Assumptions C14_client_pure.

Theorem C14_client_chunking : forall (A : Type) (c : client A) s1 s2,
  well_behaved s1 -> well_behaved s2 -> data_of s1 = data_of s2 ->
  fst (run_client bufio_stream c (bufio_init s1)) = fst (run_client bufio_stream c (bufio_init s2)).
Proof. exact bufio_run_client_chunking. Qed.
Print Assumptions C14_client_chunking.

(* all inputs x all chunkings into non-empty reads, with the three ways of ending *)
Theorem C14_chunkings_indistinguishable : forall (A : Type) (c : client A) p1 e1 p2 e2,
  Forall (fun bs => bs <> []) p1 -> well_behaved e1 ->
  Forall (fun bs => bs <> []) p2 -> well_behaved e2 ->
  concat p1 ++ data_of e1 = concat p2 ++ data_of e2 ->
  fst (run_client bufio_stream c (bufio_init (chunked p1 e1))) =
  fst (run_client bufio_stream c (bufio_init (chunked p2 e2))) /\
  fst (run_client bufio_stream c (bufio_init (chunked p1 e1))) =
  fst (run_client pure_stream c (concat p1 ++ data_of e1)).
Proof. exact chunkings_indistinguishable. Qed.
Print Assumptions C14_chunkings_indistinguishable.

(* ---------- non-vacuity ---------- *)

(* "S中;" = 53 e4 b8 ad 3b delivered as  [53 e4] [b8] [ad 3b + io.EOF]: the 3-byte rune is split
   over three Reads, the last bytes come together with io.EOF. *)
Definition ex_script : list chunk := [Data [83; 228]; Data [184]; DataErr [173; 59] 0].
Definition ex_ops : list op := [ORead; OPeek 4; ORead; OPeek (2 * bufio_size); ORead; ORead; OPeek 1].

Example C14_example_well_behaved :
  well_behaved ex_script /\ data_of ex_script = [83; 228; 184; 173; 59] /\
  abs (bufio_init ex_script) = [83; 228; 184; 173; 59].
Proof. vm_compute. repeat split; reflexivity. Qed.

Example C14_example_run :
  fst (run_ops bufio_stream ex_ops (bufio_init ex_script)) =
    [RRead (Some (83, 1%nat)); RPeek [228; 184; 173; 59]; RRead (Some (20013, 3%nat));
     RPeek [59]; RRead (Some (59, 1%nat)); RRead None; RPeek []] /\
  fst (run_ops pure_stream ex_ops [83; 228; 184; 173; 59]) =
  fst (run_ops bufio_stream ex_ops (bufio_init ex_script)).
Proof. vm_compute. split; reflexivity. Qed.

(* the same bytes one byte per Read, with 99 empty reads in front: still well-behaved ... *)
Example C14_example_one_byte :
  let s := repeat (Data []) 99 ++ chunked [[83]; [228]; [184]; [173]; [59]] [Err 0] in
  well_behaved s /\ data_of s = data_of ex_script /\
  fst (run_ops bufio_stream ex_ops (bufio_init s)) =
  fst (run_ops bufio_stream ex_ops (bufio_init ex_script)).
Proof. vm_compute. repeat split; reflexivity. Qed.

(* ... and the hypothesis is needed: with 100 empty reads fill gives up (io.ErrNoProgress) and the
   first ReadRune reports an error although all five bytes are still to come *)
Example C14_example_hypothesis_needed :
  let s := repeat (Data []) 100 ++ chunked [[83]; [228]; [184]; [173]; [59]] [Err 0] in
  well_behavedb s = false /\
  fst (run_ops bufio_stream [ORead] (bufio_init s)) = [RRead None].
Proof. vm_compute. split; reflexivity. Qed.
