(* C13 -- Reported positions are consistent and point at the offending token.
   "Token positions are strictly increasing, lie inside the input, and their line and column are exactly
    the 1-based line and rune column of the byte they designate; every 'line L, column C' in a parse error
    therefore names a real place in the input.  For identifiers, keywords, numbers, operators and
    punctuation that place is the first character of the token that the message names."

   Stated over Lexer/LexerModel.v (the whole of lexer.go over the pure byte stream) for EVERY byte list.
   Reading (DESIGN.md section 7): Position.Offset is the number of bytes up to and including the FIRST RUNE of
   the token (readChar adds the rune's size), i.e. the 1-based offset of that rune's last byte; a
   Position therefore designates a rune, and Lexer/LexerPosSpec.v defines, independently of the lexer,
   the line / rune column of the rune ending at a given offset (`pos_of_rune_end`), with invalid bytes
   as runes of width 1.  "Strictly increasing", "inside the input" and "the byte they designate" are
   read over the tokens that designate a byte, i.e. all but EOF; EOF is monotone and at most len
   (for the empty input it is {0,1,0} and designates nothing).

   (a), (b): all tokens, every kind.
   (c): every token whose kind is not STRING -- identifiers (plain, quoted, backticked, $-, @-forms),
        keywords, NUMBER, operators, punctuation, ILLEGAL, PARAM, comments -- records the position of
        the character NextToken dispatched on after skipWhitespace, i.e. the token's first character.
        STRING is excluded because x'..', b'..' and $tag$..$tag$ literals record the position of a LATER
        character of the same token (the opening quote / the character after the opening tag; when the tag
        has multi-byte letters even later, because tryReadDollarTag advances len(tag) BYTES worth of runes):
        for those (a) and (b) still hold (Example C13_prefixed_string_records_a_later_rune), and a plain
        'string' cannot be told apart from them by the item alone.
   (e): a position names at most one non-EOF token of a result (offsets strictly increase by index).
   (f): a (line, column) pair names at most one rune of the input and at most one non-EOF token.
   (d): the parser side is a generated inventory (Gen/PosMessages.v), see Lexer/PosMessagesCheck.v and the
        header of /verif/translator/cmd/posmsggen/main.go for the argument; the implementation-side
        oracle is /verif/harness/cmd/posmsg. *)
From Coq Require Import List NArith Bool Sorted.
From DC Require Import Base.Utf8 Base.Unicode Base.Item Gen.TokenTable Gen.PosMessages
  Lexer.LexerModel Lexer.LexerPosSpec Lexer.LexerPos Lexer.LexerPosUnique Lexer.LexerPosLineCol Lexer.PosMessagesCheck.
Import ListNotations.
Local Open Scope N_scope.

(* (a) offsets strictly increase over the non-EOF tokens and lie in [1, len]; EOF is last, its offset is
       not below any other and at most len.  (Termination and the shape pre ++ [EOF] are C12.) *)
Theorem C13_a_offsets_increasing_and_inside : forall bs : list N,
  exists pre e,
    tokenize bs = Some (pre ++ [e]) /\ it_tok e = T_EOF /\
    Forall (fun i => it_tok i <> T_EOF) pre /\
    StronglySorted N.lt (map (fun i => p_off (it_pos i)) pre) /\
    Forall (fun i => 1 <= p_off (it_pos i) <= N.of_nat (length bs)) pre /\
    Forall (fun i => p_off (it_pos i) <= p_off (it_pos e)) pre /\
    p_off (it_pos e) <= N.of_nat (length bs).
Proof. exact tokenize_offsets. Qed.
Print Assumptions C13_a_offsets_increasing_and_inside.

(* (b) the whole Position record (offset, line, column) of every non-EOF token is the specification's
       position of the rune that ends at its offset: such a rune exists, its line is 1 + the number of
       '\n' runes before it, its column 1 + the number of runes since the last '\n' before it. *)
Theorem C13_b_line_and_column_exact : forall (bs : list N) (items : list item),
  tokenize bs = Some items ->
  forall i, In i items -> it_tok i <> T_EOF ->
    pos_of_rune_end bs (p_off (it_pos i)) = Some (it_pos i).
Proof. exact tokenize_line_col. Qed.
Print Assumptions C13_b_line_and_column_exact.

(* (c) unless the token is a STRING, the designated rune r (size sz, starting at byte index
       start = offset - sz) is the token's first character: it is the non-blank, non-NUL character
       NextToken dispatched on; for the kinds whose Value is their source text (everything but STRING,
       NUMBER, PARAM and comments; quoted identifiers are recognised by their first character; an invalid
       byte decoded as U+FFFD is not its own encoding) the Value is literally a prefix of the source at
       `start`; a NUMBER starts there with a digit or '.' (its Value drops '_' separators, so no
       value clause for NUMBER). *)
Theorem C13_c_position_is_first_character : forall (bs : list N) (items : list item),
  tokenize bs = Some items ->
  forall i, In i items -> it_tok i <> T_EOF -> it_tok i <> T_STRING ->
    exists (start : nat) (r : N) (sz : nat) (before : list N),
      rune_ending_at bs (p_off (it_pos i)) = Some (start, r, sz, before) /\
      rune_starts_at bs start = Some (r, sz) /\
      p_off (it_pos i) = N.of_nat (start + sz) /\
      is_ws r = false /\ r <> 0 /\
      (value_kind i = true -> quote_rune r = false -> r <> rune_error ->
         bytes_prefix (it_val i) (skipn start bs) = true) /\
      (it_tok i = T_NUMBER -> is_digit r = true \/ r = 46).
Proof. exact tokenize_token_start. Qed.
Print Assumptions C13_c_position_is_first_character.

(* (e) a reported position names at most one token: within one Tokenize result, an earlier non-EOF token
       has a strictly smaller offset than a later one (indices, not just list order), so two non-EOF
       tokens carrying the same Position are the same element -- a "line L, column C" of an error message
       cannot be attributed to two different tokens.  (EOF is excluded as in (a): it repeats the position
       of the last rune, Example C13_two_lines_with_a_multibyte_rune.) *)
Theorem C13_e_position_names_one_token : forall (bs : list N) (pre : list item) (e : item),
  tokenize bs = Some (pre ++ [e]) ->
  (forall m n i j, (m < n)%nat -> nth_error pre m = Some i -> nth_error pre n = Some j ->
     p_off (it_pos i) < p_off (it_pos j)) /\
  (forall m n i j, nth_error pre m = Some i -> nth_error pre n = Some j -> it_pos i = it_pos j -> m = n).
Proof. exact tokenize_position_names_one_token. Qed.
Print Assumptions C13_e_position_names_one_token.

(* (f) what an error message actually prints is the pair (line, column), not the offset: in the independent
       specification a (line, column) pair designates at most one rune of the input, and therefore at most
       one non-EOF token of a Tokenize result -- "line L, column C" is never ambiguous. *)
Theorem C13_f_line_and_column_name_one_rune : forall (bs : list N) (off1 off2 : N) (p1 p2 : pos),
  pos_of_rune_end bs off1 = Some p1 -> pos_of_rune_end bs off2 = Some p2 ->
  p_line p1 = p_line p2 -> p_col p1 = p_col p2 -> off1 = off2.
Proof. exact line_col_names_one_rune. Qed.
Print Assumptions C13_f_line_and_column_name_one_rune.

Theorem C13_f_line_and_column_name_one_token : forall (bs : list N) (pre : list item) (e : item),
  tokenize bs = Some (pre ++ [e]) ->
  Forall (fun i => it_tok i <> T_EOF) pre ->
  forall m n i j, nth_error pre m = Some i -> nth_error pre n = Some j ->
    p_line (it_pos i) = p_line (it_pos j) -> p_col (it_pos i) = p_col (it_pos j) -> m = n.
Proof. exact tokenize_line_col_names_one_token. Qed.
Print Assumptions C13_f_line_and_column_name_one_token.

(* (d) every message of package parser that carries "line %d, column %d" prints X.Pos.Line, X.Pos.Column
       of one token register X; the registers only ever hold results of lexer.NextToken(). *)
Theorem C13_messages_use_token_positions : forallb from_token_pos pos_messages = true.
Proof. exact messages_use_token_positions. Qed.
Print Assumptions C13_messages_use_token_positions.

Theorem C13_token_registers_only_hold_lexer_items : registers_only_from_lexer = true.
Proof. exact token_registers_only_hold_lexer_items. Qed.
Print Assumptions C13_token_registers_only_hold_lexer_items.

Theorem C13_position_inventory_plausible : inventory_plausible = true.
Proof. exact position_inventory_plausible. Qed.
Print Assumptions C13_position_inventory_plausible.

(* ---- examples (vm_compute on the model) ---- *)
Definition kinds_and_positions (bs : list N) : option (list (N * pos)) :=
  option_map (map (fun i => (it_tok i, it_pos i))) (tokenize bs).
Definition P (o l c : N) : pos := {| p_off := o; p_line := l; p_col := c |}.

(* "e-acute \n space space x": the two-byte rune is column 1 with offset 2; x is line 2, column 3 *)
Example C13_two_lines_with_a_multibyte_rune :
  kinds_and_positions [195; 169; 10; 32; 32; 120] = Some [(T_IDENT, P 2 1 1); (T_IDENT, P 6 2 3); (T_EOF, P 6 2 3)] /\
  pos_of_rune_end [195; 169; 10; 32; 32; 120] 2 = Some (P 2 1 1) /\
  pos_of_rune_end [195; 169; 10; 32; 32; 120] 6 = Some (P 6 2 3) /\
  rune_starts_at [195; 169; 10; 32; 32; 120] 5 = Some (120, 1%nat) /\
  bytes_prefix [120] (skipn 5 [195; 169; 10; 32; 32; 120]) = true.
Proof. vm_compute. repeat split. Qed.

(* "a 0xFF b": the invalid byte is a rune of width 1 (ILLEGAL, value U+FFFD), columns keep counting runes *)
Example C13_invalid_byte :
  kinds_and_positions [97; 32; 255; 32; 98] =
    Some [(T_IDENT, P 1 1 1); (T_ILLEGAL, P 3 1 3); (T_IDENT, P 5 1 5); (T_EOF, P 5 1 5)] /\
  pos_of_rune_end [97; 32; 255; 32; 98] 3 = Some (P 3 1 3) /\
  rune_starts_at [97; 32; 255; 32; 98] 2 = Some (rune_error, 1%nat).
Proof. vm_compute. repeat split. Qed.

(* "e-acute x'41'": the hex string records the position of its opening quote (offset 5, column 4), not of
   the x (offset 4, column 3): a real rune of the same token, so (a) and (b) hold, (c) does not apply *)
Example C13_prefixed_string_records_a_later_rune :
  kinds_and_positions [195; 169; 32; 120; 39; 52; 49; 39] = Some [(T_IDENT, P 2 1 1); (T_STRING, P 5 1 4); (T_EOF, P 8 1 7)] /\
  pos_of_rune_end [195; 169; 32; 120; 39; 52; 49; 39] 5 = Some (P 5 1 4).
Proof. vm_compute. repeat split. Qed.

(* $T$$T$ with T = U+10000 (a 4-byte letter): tryReadDollarTag advances 4 runes for the 4 BYTES of the
   tag, the STRING records the position of the last rune of the input, and EOF repeats it *)
Example C13_dollar_tag_with_multibyte_letter :
  kinds_and_positions [36; 240; 144; 128; 128; 36; 36; 240; 144; 128; 128; 36] = Some [(T_STRING, P 12 1 6); (T_EOF, P 12 1 6)].
Proof. vm_compute. reflexivity. Qed.

Example C13_empty_input : kinds_and_positions [] = Some [(T_EOF, P 0 1 0)].
Proof. vm_compute. reflexivity. Qed.
