(* C17, second half (F2) -- every keyword, in any letter case, is accepted as a column name after a
   dot, as a column alias after AS and as a table alias after AS, and appears with the user's
   spelling in the EXPLAIN output.  Over the SELECT-core model (Select/SelectParseModel.v,
   Select/SelectPrintModel.v), tied to /repo by the correspondence checks/gen_selectcore_cases.py
   (stream c17: every keyword of the current token table x 3 positions x 4 spellings, exhaustive). *)
From Coq Require Import List NArith Bool String.
From DC Require Import Base.Item Base.Stream Gen.TokenTable Lexer.LexerModel Tree.LineTree.
From DC Require Import Select.SelectParseModel Select.SelectPrintModel Select.SelectCoreProof.
Import ListNotations.
Local Open Scope string_scope.
Local Open Scope list_scope.
Local Open Scope N_scope.

(* For every keyword k of the generated token table (kw_entries = the entries of token_table with
   keyword_beg < index < keyword_end) and every spelling sp whose ASCII upper-casing is the table's
   spelling: the token lists
       probe_dot k sp    = [SELECT; IDENT "t"; DOT; (k, sp); FROM; IDENT "t"]
       probe_alias k sp  = [SELECT; NUMBER "1"; AS; (k, sp)]
       probe_talias k sp = [SELECT; NUMBER "1"; FROM; IDENT "t"; AS; (k, sp)]
   parse with no error and no token left, and print exactly explain_dot / explain_alias /
   explain_talias sp: the lines `Identifier t.<sp>`, `Literal UInt64_1 (alias <sp>)`,
   `TableIdentifier t (alias <sp>)` inside the full EXPLAIN text. *)
Theorem C17_keywords_as_names : forall k name spell,
  In (k, name, spell) kw_entries ->
  forall sp, SelectParseModel.to_upper sp = spell ->
    run (probe_dot k sp) = Ok (explain_dot sp, [], []) /\
    run (probe_alias k sp) = Ok (explain_alias sp, [], []) /\
    run (probe_talias k sp) = Ok (explain_talias sp, [], []).
Proof. exact c17_keywords_as_names. Qed.
Print Assumptions C17_keywords_as_names.

(* the generic lemma: ANY token kind passing the decidable side condition name_tok_ok, ANY value *)
Theorem C17_name_positions_generic : forall k sp,
  name_tok_ok k = true ->
    (later_part_ok sp = true -> run (probe_dot k sp) = Ok (explain_dot_raw sp, [], [])) /\
    run (probe_alias k sp) = Ok (explain_alias_raw sp, [], []) /\
    run (probe_talias k sp) = Ok (explain_talias_raw sp, [], []).
Proof. exact name_positions_generic. Qed.
Print Assumptions C17_name_positions_generic.

(* ... and the side condition holds for every keyword of the generated table *)
Theorem C17_keywords_pass_side_condition : forallb name_tok_ok kw_tokens = true.
Proof. exact keywords_name_tok_ok. Qed.
Print Assumptions C17_keywords_pass_side_condition.

(* lexer link: a source word whose ASCII upper-casing is the spelling of keyword k is read by
   readIdentifier as the token k with Value = the user's spelling *)
Theorem C17_lexer_keyword_spelling : forall k name spell,
  In (k, name, spell) kw_entries ->
  forall c0 rest (l : @lex (list N)) tail fuel,
    SelectParseModel.to_upper (c0 :: rest) = spell ->
    l_eof l = false -> l_ch l = c0 -> l_src l = rest ++ tail -> tail_stops tail ->
    (List.length rest + 3 <= fuel)%nat ->
    exists l', read_identifier pure_stream fuel l = Some (mk_item k (c0 :: rest) (l_pos l) false, l').
Proof. exact lexer_keyword_spelling. Qed.
Print Assumptions C17_lexer_keyword_spelling.

(* the table half of the lexer link *)
Theorem C17_keywords_lookup :
  forallb (fun e => let '(i, _, sp) := e in lookup sp =? i) kw_entries = true.
Proof. exact keywords_lookup. Qed.
Print Assumptions C17_keywords_lookup.

(* ---- examples, from SOURCE BYTES through lexer model + parser model + printer model ---- *)

Definition text (s : string) : list N := SelectParseModel.bytes_of s.
Definition nl : string := String (Ascii.ascii_of_nat 10) EmptyString.

(* the keyword SELECT itself, spelled sElEcT, in the three naming positions *)
Example select_after_dot :
  explain_source (text "SELECT t.sElEcT FROM t") =
  Some (Ok (text ("SelectWithUnionQuery (children 1)" ++ nl ++
                  " ExpressionList (children 1)" ++ nl ++
                  "  SelectQuery (children 2)" ++ nl ++
                  "   ExpressionList (children 1)" ++ nl ++
                  "    Identifier t.sElEcT" ++ nl ++
                  "   TablesInSelectQuery (children 1)" ++ nl ++
                  "    TablesInSelectQueryElement (children 1)" ++ nl ++
                  "     TableExpression (children 1)" ++ nl ++
                  "      TableIdentifier t" ++ nl)%string, [], [])).
Proof. vm_compute. reflexivity. Qed.

Example select_as_column_alias :
  explain_source (text "SELECT 1 AS sElEcT") =
  Some (Ok (text ("SelectWithUnionQuery (children 1)" ++ nl ++
                  " ExpressionList (children 1)" ++ nl ++
                  "  SelectQuery (children 1)" ++ nl ++
                  "   ExpressionList (children 1)" ++ nl ++
                  "    Literal UInt64_1 (alias sElEcT)" ++ nl)%string, [], [])).
Proof. vm_compute. reflexivity. Qed.

Example select_as_table_alias :
  explain_source (text "SELECT 1 FROM t AS sElEcT") =
  Some (Ok (text ("SelectWithUnionQuery (children 1)" ++ nl ++
                  " ExpressionList (children 1)" ++ nl ++
                  "  SelectQuery (children 2)" ++ nl ++
                  "   ExpressionList (children 1)" ++ nl ++
                  "    Literal UInt64_1" ++ nl ++
                  "   TablesInSelectQuery (children 1)" ++ nl ++
                  "    TablesInSelectQueryElement (children 1)" ++ nl ++
                  "     TableExpression (children 1)" ++ nl ++
                  "      TableIdentifier t (alias sElEcT)" ++ nl)%string, [], [])).
Proof. vm_compute. reflexivity. Qed.

(* the hypotheses of C17_keywords_as_names are satisfiable: SELECT is an entry, sElEcT a spelling *)
Example select_is_a_keyword_entry :
  In (T_SELECT, text "SELECT", text "SELECT") kw_entries /\
  SelectParseModel.to_upper (text "sElEcT") = text "SELECT".
Proof. split; [vm_compute; tauto|reflexivity]. Qed.
