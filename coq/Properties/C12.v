(* C12 — The lexer is total: it always finishes with exactly one EOF.
   "For every byte string, Tokenize returns without panicking a finite token list whose last element,
    and only the last, is EOF, containing at most one token per input byte plus one; NextToken called
    again after EOF keeps returning EOF.  Unterminated strings, comments, parameters and heredocs end
    at end of input instead of hanging or crashing."

   Stated over Lexer/LexerModel.v (the whole of lexer.go, over the pure byte stream), for EVERY byte list,
   no length bound.  `tokenize bs = Some _` excludes both running out of fuel (non-termination in the
   model) and every partial operation (the model has none: all indexing of lexer.go is by pattern
   matching on lists, so a Go index panic would show up as a correspondence mismatch, and
   closingDelim[i] / bytes[idx] are guarded exactly as in the Go code).  *)
From Coq Require Import List NArith.
From DC Require Import Base.Item Base.Unicode Base.UnicodeFacts Gen.TokenTable Lexer.LexerModel Lexer.LexerTotal.
Import ListNotations.

Theorem C12_lexer_total : forall bs : list N,
  exists pre e,
    tokenize bs = Some (pre ++ [e]) /\                       (* terminates, no panic *)
    it_tok e = T_EOF /\                                      (* the last element is EOF *)
    Forall (fun i => it_tok i <> T_EOF) pre /\               (* and only the last *)
    length (pre ++ [e]) <= length bs + 1 /\                  (* at most one token per byte, plus one *)
    forall k, next_tokens (length (pre ++ [e]) + k) bs = Some ((pre ++ [e]) ++ repeat e k).
                                                             (* NextToken after EOF keeps returning EOF *)
Proof. exact tokenize_total. Qed.
Print Assumptions C12_lexer_total.

(* The character classes of the model are Go's unicode.IsSpace/IsLetter/IsDigit/ToUpper: the ASCII fast
   paths agree with the tables generated from the Go toolchain (re-proved whenever they are regenerated). *)
Theorem C12_unicode_tables_used_faithfully : forall r,
  is_space r = is_space_tbl r /\ is_letter r = is_letter_tbl r /\ is_digit r = is_digit_tbl r /\ to_upper r = to_upper_tbl r.
Proof. exact fast_paths_ok. Qed.
Print Assumptions C12_unicode_tables_used_faithfully.

(* Non-vacuity: unterminated constructs end at end of input. *)
Example C12_unterminated_string :
  option_map (map it_tok) (tokenize [39; 97; 98]%N) = Some [T_STRING; T_EOF].      (* 'ab *)
Proof. vm_compute. reflexivity. Qed.
Example C12_unterminated_comment_and_heredoc :
  option_map (map it_tok) (tokenize [47; 42; 42; 32; 36; 36; 120]%N) = Some [T_LINE_COMMENT; T_EOF] /\   (* /** $$x *)
  option_map (map it_tok) (tokenize [36; 36; 120; 59]%N) = Some [T_STRING; T_EOF] /\                     (* $$x; *)
  option_map (map it_tok) (tokenize [123; 120]%N) = Some [T_PARAM; T_EOF] /\                             (* {x *)
  option_map (map it_tok) (tokenize [49; 0; 50]%N) = Some [T_NUMBER; T_EOF].                             (* 1 NUL 2 *)
Proof. vm_compute. repeat split. Qed.
