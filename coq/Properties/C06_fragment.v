(* C06, fragment layer -- the premise of the driver half (Properties/C06_driver.v) established for
   the SELECT-core parser model, and the script theorem that follows.

   C06: "Parsing a script 's1; s2; ...; sn' of valid statements yields exactly the statements
         obtained by parsing each si on its own, in the same order and with identical EXPLAIN
         output; nothing carries over from one statement to the next."

   C06_driver.v proves this for the driver under the premise that the statement parser is
   delimiter-respecting ([ps_delimited]: followed by end of input or a SEMICOLON token it consumes
   exactly the statement and returns what it returns on the statement alone).  Here the premise is
   PROVED for the statement parser of the SELECT-core model (Select/SelectParseModel.v, a
   correspondence-tested transcription of parseStatement for SELECT / "(" statements), by a
   simulation over all mutually recursive parse functions (Select/SelectCoreDelim.v): the run on
   toks ++ SEMICOLON :: more  and the run on  toks  (end = EOF) go through related states
       toks' = toks ++ rest   /\   (errors = [] -> errors' = [])
   and return the same values.

   FULL STATEMENT (false for the model and for /repo, see C06_fragment_refuted):
       every token list accepted alone without error is delimiter-respecting.
   PROVED (names ending in _partial): every such token list EXCEPT the statements that take the
   token-skipping branch of parseParenthesizedSelect -- "(" not followed by SELECT / WITH / "(" --
   without closing the parenthesis inside the statement ([paren_skip_closed ts = false]).
   The skipping loop `for depth > 0 && !p.currentIs(token.EOF)` (parser.go:7911) stops at EOF
   but not at a SEMICOLON: parser.Parse("(1") and parser.Parse("SELECT 2") return one statement
   each and no error, parser.Parse("(1; SELECT 2") returns ONE statement and no error.

   Tied to /repo by the SELECT-core correspondence (checks/gen_selectcore_cases.py). *)
From Coq Require Import List NArith Bool String.
From DC Require Import Base.Item Gen.TokenTable Lexer.LexerModel.
From DC Require Import Select.SelectParseModel Select.SelectPrintModel.
From DC Require Import Select.SelectCoreDelim Select.SelectCoreScript.
From DC Require Driver.DriverModel Driver.DriverProof.
Import ListNotations.
Local Open Scope N_scope.

Module DM := Driver.DriverModel.
Module DP := Driver.DriverProof.

(* the model's statement parser, followed by a SEMICOLON token and anything, consumes exactly the
   statement: every fuel for the run alone, every sufficient fuel for the run in the script *)
Theorem C06_fragment_statement_partial : forall f f' ts q rest,
  paren_skip_closed ts = true -> tok_at rest = T_SEMICOLON ->
  parse_model_fuel f ts = Ok (q, [], []) ->
  (3 * List.length (ts ++ rest) + 2 <= f')%nat ->
  parse_model_fuel f' (ts ++ rest) = Ok (q, rest, []).
Proof. exact parse_model_fuel_semi_partial. Qed.
Print Assumptions C06_fragment_statement_partial.

(* the bare transcription of parseStatement (no printer-fragment check) *)
Theorem C06_fragment_statement_raw_partial : forall f f' ts q rest,
  ts <> [] -> paren_skip_closed ts = true -> tok_at rest = T_SEMICOLON ->
  parse_statement_raw f (mkSt ts []) = Ok (q, mkSt [] []) ->
  (3 * List.length (ts ++ rest) + 2 <= f')%nat ->
  parse_statement_raw f' (mkSt (ts ++ rest) []) = Ok (q, mkSt rest []).
Proof. exact parse_statement_raw_delimited_partial. Qed.
Print Assumptions C06_fragment_statement_raw_partial.

(* with the fuel that parse_model supplies, at every statement boundary *)
Theorem C06_fragment_parse_model_partial : forall ts q rest,
  paren_skip_closed ts = true -> (rest = [] \/ tok_at rest = T_SEMICOLON) ->
  parse_model ts = Ok (q, [], []) -> parse_model (ts ++ rest) = Ok (q, rest, []).
Proof. exact parse_model_delimited_partial. Qed.
Print Assumptions C06_fragment_parse_model_partial.

(* the premise of C06_driver_script / C06_driver_concat holds for the model's statement parser *)
Theorem C06_fragment_ps_delimited_partial : forall ts q,
  accepted ts q -> DP.ps_delimited model_ps ts (Some q) [].
Proof. exact model_ps_delimited_partial. Qed.
Print Assumptions C06_fragment_ps_delimited_partial.

(* hence: a script of accepted SELECT-core statements, separated (and preceded, and followed) by
   arbitrary semicolons, parses to the statements parsed alone, in order, without error *)
Theorem C06_fragment_script_partial :
  forall (mk : query -> list query -> query) (ctx_err : DM.ctx_error) (read_failed : bool)
         (pre : list item) (segs : list (DP.segment query err)),
    DP.all_semi pre -> DP.seps_ok segs -> Forall frag_segment segs ->
    DP.full model_ps mk ctx_err read_failed (pre ++ DP.join segs) =
    DM.finish read_failed (DP.script_stmts segs) [].
Proof. exact select_core_script_partial. Qed.
Print Assumptions C06_fragment_script_partial.

Theorem C06_fragment_concat_partial :
  forall (mk : query -> list query -> query) (ctx_err : DM.ctx_error) (read_failed : bool)
         (pre : list item) (segs : list (DP.segment query err)),
    DP.all_semi pre -> DP.seps_ok segs -> Forall frag_segment segs ->
    DM.stmts_of (DP.full model_ps mk ctx_err read_failed (pre ++ DP.join segs)) =
    flat_map (fun g => DM.stmts_of (DP.full model_ps mk ctx_err read_failed (DP.sg_toks g))) segs.
Proof. exact select_core_script_concat_partial. Qed.
Print Assumptions C06_fragment_concat_partial.

(* ... with identical EXPLAIN output (the printer model is a function of the statement) *)
Theorem C06_fragment_explain_partial :
  forall (mk : query -> list query -> query) (ctx_err : DM.ctx_error) (read_failed : bool)
         (pre : list item) (segs : list (DP.segment query err)),
    DP.all_semi pre -> DP.seps_ok segs -> Forall frag_segment segs ->
    map print_query (DM.stmts_of (DP.full model_ps mk ctx_err read_failed (pre ++ DP.join segs))) =
    flat_map (fun g => map print_query
                         (DM.stmts_of (DP.full model_ps mk ctx_err read_failed (DP.sg_toks g)))) segs.
Proof. exact select_core_script_explain_partial. Qed.
Print Assumptions C06_fragment_explain_partial.

(* the excluded class is not empty: "(1" followed by "; SELECT 2" *)
Theorem C06_fragment_refuted :
  parse_model witness_stmt = Ok (Some (Query [] [] false), [], []) /\
  tok_at witness_rest = T_SEMICOLON /\
  parse_model (witness_stmt ++ witness_rest) = Ok (Some (Query [] [] false), [], []) /\
  parse_model (witness_stmt ++ witness_rest) <> Ok (Some (Query [] [] false), witness_rest, []) /\
  paren_skip_closed witness_stmt = false.
Proof. exact delimited_refuted. Qed.
Print Assumptions C06_fragment_refuted.

(* ------------------------------------------------------------------------------------------ *)
(* The premises are satisfied by a non-trivial statement, from source text through the lexer model *)

Definition lex (s : string) : list item :=
  match LexerModel.tokenize (SelectParseModel.bytes_of s) with
  | Some its => parser_tokens its
  | None => []
  end.

Definition script : list item :=
  lex "SELECT a, f(b) AS x FROM db.t AS u WHERE a = 1 ORDER BY a DESC LIMIT 3; SELECT 2".
Definition n1 : nat := 25.                              (* tokens of the first statement *)
Definition stmt1 : list item := firstn n1 script.
Definition semi1 : list item := firstn 1 (skipn n1 script).
Definition stmt2 : list item := skipn (S n1) script.

Example ex_script_shape :
  map it_tok semi1 = [T_SEMICOLON] /\ map it_tok stmt2 = [T_SELECT; T_NUMBER] /\
  hd 0 (map it_tok stmt1) = T_SELECT /\ script = stmt1 ++ semi1 ++ stmt2.
Proof. vm_compute. repeat split; reflexivity. Qed.

(* both statements are accepted alone, without error *)
Definition q_of (ts : list item) : query :=
  match parse_model ts with Ok (Some q, _, _) => q | _ => Query [] [] false end.

Example ex_accepted : accepted stmt1 (q_of stmt1) /\ accepted stmt2 (q_of stmt2).
Proof. vm_compute. repeat split; reflexivity. Qed.

Example ex_first_statement_is_not_trivial :
  match q_of stmt1 with
  | Query [Some (Select false [_; EFunc _ [_] _] (Some [TableElem (Some (TSIdent _ _)) _]) (Some _) []
                        None [OrderElem (Some _) true] (Some _) None)] [] false => True
  | _ => False
  end.
Proof. vm_compute. exact I. Qed.

(* so the theorems apply (not by running the model on the script): the first statement followed by
   "; SELECT 2" is parsed to what it is parsed to alone, leaving "; SELECT 2" *)
Example ex_first_statement_delimited : forall s1 rest q1,
  s1 = stmt1 -> rest = semi1 ++ stmt2 -> accepted s1 q1 ->
  parse_model (s1 ++ rest) = Ok (Some q1, rest, []).
Proof.
  intros s1 rest q1 E1 E2 [H Hs].
  apply C06_fragment_parse_model_partial; [exact Hs| |exact H].
  right. rewrite E2. vm_compute. reflexivity.
Qed.

(* ... and the script parses to the two statements parsed alone *)
Example ex_script_by_theorem : forall s1 sep s2 q1 q2,
  s1 = stmt1 -> sep = semi1 -> s2 = stmt2 -> accepted s1 q1 -> accepted s2 q2 ->
  DP.full model_ps (fun q _ => q) DM.Canceled false (s1 ++ sep ++ s2) = DM.Finished [q1; q2] DM.NoErr [].
Proof.
  intros s1 sep s2 q1 q2 E1 E2 E3 H1 H2.
  apply (select_core_two_statements_partial (fun q _ => q) DM.Canceled false s1 sep s2 q1 q2 H1 H2).
  - rewrite E2. vm_compute. reflexivity.
  - rewrite E2. vm_compute. discriminate.
Qed.

(* the witness from source text: "(1" alone, "SELECT 2" alone, and the script "(1; SELECT 2" *)
Example ex_refuted_from_source :
  (exists q, parse_model (lex "(1") = Ok (Some q, [], [])) /\
  (exists q, parse_model (lex "SELECT 2") = Ok (Some q, [], [])) /\
  (exists q, parse_model (lex "(1; SELECT 2") = Ok (Some q, [], [])) /\
  paren_skip_closed (lex "(1") = false /\ paren_skip_closed (lex "(1)") = true.
Proof. vm_compute. repeat split; eexists; reflexivity. Qed.

(* the concrete instance: the script of the two statements gives the two statements parsed alone *)
Example ex_script_concrete :
  DP.full model_ps (fun q _ => q) DM.Canceled false (stmt1 ++ semi1 ++ stmt2) =
  DM.Finished [q_of stmt1; q_of stmt2] DM.NoErr [].
Proof.
  exact (ex_script_by_theorem stmt1 semi1 stmt2 (q_of stmt1) (q_of stmt2) eq_refl eq_refl eq_refl
           (proj1 ex_accepted) (proj2 ex_accepted)).
Qed.
