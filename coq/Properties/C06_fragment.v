(* C06, fragment layer -- the premise of the driver half (Properties/C06_driver.v) established for
   the SELECT-core parser model, and the script theorem that follows.

   C06: "Parsing a script 's1; s2; ...; sn' of valid statements yields exactly the statements
         obtained by parsing each si on its own, in the same order and with identical EXPLAIN
         output; nothing carries over from one statement to the next."

   C06_driver.v proves this for the driver under the premise that the statement parser is
   delimiter-respecting ([ps_delimited]: followed by end of input or a SEMICOLON token it consumes
   exactly the statement and returns what it returns on the statement alone).  Here the premise is
   PROVED, at full strength, for the statement parser of the SELECT-core model
   (Select/SelectParseModel.v, a correspondence-tested transcription of parseStatement for
   SELECT / "(" statements): EVERY token list that the model accepts alone, completely and without
   error, is delimiter-respecting.  The proof is a simulation over all mutually recursive parse
   functions (Select/SelectCoreDelim.v): the run on  toks ++ SEMICOLON :: more  and the run on
   toks  (end = EOF) go through related states
       toks' = toks ++ rest   /\   (errors = [] -> errors' = [])
   and return the same values.

   History: the first version of this proof needed a side condition and came with a refutation of
   the full statement -- the token-skipping loop of parseParenthesizedSelect stopped at EOF but not
   at a SEMICOLON, so parser.Parse("(1; SELECT 2") returned ONE statement while "(1" and
   "SELECT 2" alone returned one each.  Fixed in /repo 1a6cd4528
   (`for depth > 0 && !p.currentIs(token.EOF) && !p.currentIs(token.SEMICOLON)`); the model
   transcribes the fixed loop, the side condition is gone, and the former counterexample is an
   Example below.

   What remains a premise of C06 as a whole: delimiter-respect of the statement parsers OUTSIDE
   the fragment (every statement kind other than SELECT / "(").

   Tied to /repo by the SELECT-core correspondence (checks/gen_selectcore_cases.py). *)
From Coq Require Import List NArith Bool String.
From DC Require Import Base.Item Gen.TokenTable Lexer.LexerModel.
From DC Require Import Select.SelectParseModel Select.SelectPrintModel.
From DC Require Import Select.SelectCoreDelim Select.SelectCoreScript.
From DC Require Driver.DriverModel Driver.DriverProof.
Import ListNotations.
Local Open Scope N_scope.

Module DM := Driver.DriverModel.
Module DP := Driver.DriverProof.

(* the model's statement parser, followed by a SEMICOLON token and anything, consumes exactly the
   statement: every fuel for the run alone, every sufficient fuel for the run in the script *)
Theorem C06_fragment_statement : forall f f' ts q rest,
  tok_at rest = T_SEMICOLON ->
  parse_model_fuel f ts = Ok (q, [], []) ->
  (3 * List.length (ts ++ rest) + 2 <= f')%nat ->
  parse_model_fuel f' (ts ++ rest) = Ok (q, rest, []).
Proof. exact parse_model_fuel_semi. Qed.
Print Assumptions C06_fragment_statement.

(* the bare transcription of parseStatement (no printer-fragment check) *)
Theorem C06_fragment_statement_raw : forall f f' ts q rest,
  ts <> [] -> tok_at rest = T_SEMICOLON ->
  parse_statement_raw f (mkSt ts []) = Ok (q, mkSt [] []) ->
  (3 * List.length (ts ++ rest) + 2 <= f')%nat ->
  parse_statement_raw f' (mkSt (ts ++ rest) []) = Ok (q, mkSt rest []).
Proof. exact parse_statement_raw_delimited. Qed.
Print Assumptions C06_fragment_statement_raw.

(* with the fuel that parse_model supplies, at every statement boundary *)
Theorem C06_fragment_parse_model : forall ts q rest,
  (rest = [] \/ tok_at rest = T_SEMICOLON) ->
  parse_model ts = Ok (q, [], []) -> parse_model (ts ++ rest) = Ok (q, rest, []).
Proof. exact parse_model_delimited. Qed.
Print Assumptions C06_fragment_parse_model.

(* the premise of C06_driver_script / C06_driver_concat holds for the model's statement parser on
   every token list it accepts alone ([accepted ts q] := parse_model ts = Ok (Some q, [], [])) *)
Theorem C06_fragment_ps_delimited : forall ts q,
  accepted ts q -> DP.ps_delimited model_ps ts (Some q) [].
Proof. exact model_ps_delimited. Qed.
Print Assumptions C06_fragment_ps_delimited.

(* hence: a script of accepted SELECT-core statements, separated (and preceded, and followed) by
   arbitrary semicolons, parses to the statements parsed alone, in order, without error *)
Theorem C06_fragment_script :
  forall (mk : query -> list query -> query) (ctx_err : DM.ctx_error) (read_failed : bool)
         (pre : list item) (segs : list (DP.segment query err)),
    DP.all_semi pre -> DP.seps_ok segs -> Forall frag_segment segs ->
    DP.full model_ps mk ctx_err read_failed (pre ++ DP.join segs) =
    DM.finish read_failed (DP.script_stmts segs) [].
Proof. exact select_core_script. Qed.
Print Assumptions C06_fragment_script.

Theorem C06_fragment_concat :
  forall (mk : query -> list query -> query) (ctx_err : DM.ctx_error) (read_failed : bool)
         (pre : list item) (segs : list (DP.segment query err)),
    DP.all_semi pre -> DP.seps_ok segs -> Forall frag_segment segs ->
    DM.stmts_of (DP.full model_ps mk ctx_err read_failed (pre ++ DP.join segs)) =
    flat_map (fun g => DM.stmts_of (DP.full model_ps mk ctx_err read_failed (DP.sg_toks g))) segs.
Proof. exact select_core_script_concat. Qed.
Print Assumptions C06_fragment_concat.

(* ... with identical EXPLAIN output (the printer model is a function of the statement) *)
Theorem C06_fragment_explain :
  forall (mk : query -> list query -> query) (ctx_err : DM.ctx_error) (read_failed : bool)
         (pre : list item) (segs : list (DP.segment query err)),
    DP.all_semi pre -> DP.seps_ok segs -> Forall frag_segment segs ->
    map print_query (DM.stmts_of (DP.full model_ps mk ctx_err read_failed (pre ++ DP.join segs))) =
    flat_map (fun g => map print_query
                         (DM.stmts_of (DP.full model_ps mk ctx_err read_failed (DP.sg_toks g)))) segs.
Proof. exact select_core_script_explain. Qed.
Print Assumptions C06_fragment_explain.

(* ------------------------------------------------------------------------------------------ *)
(* The premises are satisfied by a non-trivial statement, from source text through the lexer model *)

Definition lex (s : string) : list item :=
  match LexerModel.tokenize (SelectParseModel.bytes_of s) with
  | Some its => parser_tokens its
  | None => []
  end.

Definition script : list item :=
  lex "SELECT a, f(b) AS x FROM db.t AS u WHERE a = 1 ORDER BY a DESC LIMIT 3; SELECT 2".
Definition n1 : nat := 25.                              (* tokens of the first statement *)
Definition stmt1 : list item := firstn n1 script.
Definition semi1 : list item := firstn 1 (skipn n1 script).
Definition stmt2 : list item := skipn (S n1) script.

Example ex_script_shape :
  map it_tok semi1 = [T_SEMICOLON] /\ map it_tok stmt2 = [T_SELECT; T_NUMBER] /\
  hd 0 (map it_tok stmt1) = T_SELECT /\ script = stmt1 ++ semi1 ++ stmt2.
Proof. vm_compute. repeat split; reflexivity. Qed.

(* both statements are accepted alone, without error *)
Definition q_of (ts : list item) : query :=
  match parse_model ts with Ok (Some q, _, _) => q | _ => Query [] [] false end.

Example ex_accepted : accepted stmt1 (q_of stmt1) /\ accepted stmt2 (q_of stmt2).
Proof. vm_compute. split; reflexivity. Qed.

Example ex_first_statement_is_not_trivial :
  match q_of stmt1 with
  | Query [Some (Select false [_; EFunc _ [_] _] (Some [TableElem (Some (TSIdent _ _)) _]) (Some _) []
                        None [OrderElem (Some _) true] (Some _) None)] [] false => True
  | _ => False
  end.
Proof. vm_compute. exact I. Qed.

(* so the theorems apply (not by running the model on the script): the first statement followed by
   "; SELECT 2" is parsed to what it is parsed to alone, leaving "; SELECT 2" *)
Example ex_first_statement_delimited : forall s1 rest q1,
  s1 = stmt1 -> rest = semi1 ++ stmt2 -> accepted s1 q1 ->
  parse_model (s1 ++ rest) = Ok (Some q1, rest, []).
Proof.
  intros s1 rest q1 E1 E2 H.
  apply C06_fragment_parse_model; [|exact H].
  right. rewrite E2. vm_compute. reflexivity.
Qed.

(* ... and the script parses to the two statements parsed alone *)
Example ex_script_by_theorem : forall s1 sep s2 q1 q2,
  s1 = stmt1 -> sep = semi1 -> s2 = stmt2 -> accepted s1 q1 -> accepted s2 q2 ->
  DP.full model_ps (fun q _ => q) DM.Canceled false (s1 ++ sep ++ s2) = DM.Finished [q1; q2] DM.NoErr [].
Proof.
  intros s1 sep s2 q1 q2 E1 E2 E3 H1 H2.
  apply (select_core_two_statements (fun q _ => q) DM.Canceled false s1 sep s2 q1 q2 H1 H2).
  - rewrite E2. vm_compute. reflexivity.
  - rewrite E2. vm_compute. discriminate.
Qed.

(* the concrete instance: the script of the two statements gives the two statements parsed alone *)
Example ex_script_concrete :
  DP.full model_ps (fun q _ => q) DM.Canceled false (stmt1 ++ semi1 ++ stmt2) =
  DM.Finished [q_of stmt1; q_of stmt2] DM.NoErr [].
Proof.
  exact (ex_script_by_theorem stmt1 semi1 stmt2 (q_of stmt1) (q_of stmt2) eq_refl eq_refl eq_refl
           (proj1 ex_accepted) (proj2 ex_accepted)).
Qed.

(* the former counterexample, from source text: "(1" is accepted alone (an empty
   SelectWithUnionQuery), and in the script "(1; SELECT 2" it is delimited: the statement parser
   stops at the SEMICOLON and leaves "; SELECT 2" *)
Definition paren_script : list item := lex "(1; SELECT 2".
Definition paren_stmt : list item := firstn 2 paren_script.
Definition paren_rest : list item := skipn 2 paren_script.

Example ex_unclosed_paren_is_delimited :
  map it_tok paren_stmt = [T_LPAREN; T_NUMBER] /\
  map it_tok paren_rest = [T_SEMICOLON; T_SELECT; T_NUMBER] /\
  accepted paren_stmt (Query [] [] false) /\
  parse_model paren_script = Ok (Some (Query [] [] false), paren_rest, []).
Proof. vm_compute. repeat split; reflexivity. Qed.

Example ex_unclosed_paren_by_theorem : forall s rest,
  s = paren_stmt -> rest = paren_rest -> accepted s (Query [] [] false) ->
  DP.ps_delimited model_ps s (Some (Query [] [] false)) [] /\
  parse_model (s ++ rest) = Ok (Some (Query [] [] false), rest, []).
Proof.
  intros s rest E1 E2 H. split; [apply C06_fragment_ps_delimited; exact H|].
  apply C06_fragment_parse_model; [|exact H]. right. rewrite E2. vm_compute. reflexivity.
Qed.
