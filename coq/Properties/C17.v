(* C17 — keywords stay usable as names, and the keyword table is consistent.
   Table half (this file): "Every keyword token has a unique, non-empty upper-case spelling, is found by Lookup from
   that spelling (and from no other), and is classified by IsKeyword."  Stated over the token table REGENERATED from
   /repo/token/token.go on every run (Gen/TokenTable.v) and the model of token.init()/Lookup/IsKeyword
   (Lexer/LexerModel.lookup, is_keyword).  Adding a keyword without a spelling, with a duplicate, lower-case or
   empty spelling, or outside the keyword range makes [table_ok] compute to false and this file stops compiling.
   The naming-positions half is in Properties/C17_naming.v. *)
From Coq Require Import List NArith Bool.
From DC Require Import Gen.TokenTable Lexer.LexerModel Token.TokenProof Token.TokenConverse.
Import ListNotations.

Theorem C17_table_obligation : table_ok = true.
Proof. exact table_ok_true. Qed.
Print Assumptions C17_table_obligation.

Theorem C17_keyword_table_consistent : forall e, In e token_table -> kw_entry e = true ->
  good_spelling (e_spell e) = true /\                    (* non-empty, upper-case *)
  lookup (e_spell e) = e_idx e /\                        (* found by Lookup from its spelling *)
  is_keyword (e_idx e) = true /\                         (* classified by IsKeyword *)
  (forall e', In e' token_table -> kw_entry e' = true -> e_spell e' = e_spell e -> e' = e).   (* unique *)
Proof. exact keyword_table_consistent. Qed.
Print Assumptions C17_keyword_table_consistent.

Theorem C17_lookup_from_no_other_string : forall s e, In e token_table -> kw_entry e = true ->
  (lookup s = e_idx e <-> s = e_spell e).
Proof. exact lookup_keyword_iff. Qed.
Print Assumptions C17_lookup_from_no_other_string.

Theorem C17_lookup_returns_ident_or_keyword : forall s,
  lookup s = T_IDENT \/ exists e, In e token_table /\ kw_entry e = true /\ lookup s = e_idx e /\ s = e_spell e.
Proof. exact lookup_only_from_spelling. Qed.
Print Assumptions C17_lookup_returns_ident_or_keyword.

(* converse of "classified by IsKeyword": IsKeyword accepts ONLY kinds that have a keyword entry (the range
   keyword_beg .. keyword_end of the enum has no hole), and that entry has a good spelling which Lookup maps
   back to the kind -- so no kind is treated as a keyword by the parser without being spellable. *)
Theorem C17_is_keyword_only_keywords : forall t, is_keyword t = true ->
  exists e, In e token_table /\ kw_entry e = true /\ e_idx e = t /\
            good_spelling (e_spell e) = true /\ lookup (e_spell e) = t.
Proof. exact is_keyword_only_keywords. Qed.
Print Assumptions C17_is_keyword_only_keywords.

(* non-vacuity: the table has keywords, e.g. SELECT *)
Example C17_select_is_a_keyword :
  lookup [83; 69; 76; 69; 67; 84]%N = T_SELECT /\ is_keyword T_SELECT = true /\ Nat.leb 100 (length keywords) = true /\
  lookup [115; 101; 108; 101; 99; 116]%N = T_IDENT.   (* Lookup itself is case-sensitive: "select" is not a key *)
Proof. vm_compute. repeat split. Qed.
