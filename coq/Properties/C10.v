(* C10 -- Parse and Explain are safe to call concurrently.

   Full statement (over the model of Conc/ConcModel.v, for the inventory generated from /repo):
     for every family of threads ts that conforms to the inventory (claim (S) of
     Conc/SharedCheck.v), every initial memory and EVERY schedule: the trace has no data race, and
     every thread's events, read results and final observation are those of its solo run --
     whether the calls work on different parsed statements or share one.
   [C10_full_if_no_findings] is that statement under the obligation "no findings at all".
   [C10_concurrent_calls_behave_as_alone] discharges that obligation for the current tree.
   [C10_partial] is the same conclusion for calls that work on DIFFERENT parsed statements (it needs
   only "no package-level writes").  [C10_known_sites] lists tree-write sites that are listed as
   open known findings (none today); [C10_shared_statement_refuted] shows in the model that one
   such write on a shared statement breaks both race freedom and the equality with the solo run,
   and [C10_shared_writes_only_at_known_sites] that there is no other shared write. *)
From Coq Require Import String List.
From DC Require Import Conc.SharedInv Conc.ConcModel Conc.Interleave Conc.SharedCheck Conc.SharedObligations.
From DC Require Import Gen.SharedAccess Gen.SharedAllowed.

(* the general theorem, independent of the inventory *)
Theorem C10_model :
  forall ts0 m0 c tr, private ts0 -> exec (ts0, m0) c tr ->
  race_free tr /\
  (forall i t0, nth_error ts0 i = Some t0 ->
     exists t ms, nth_error (fst c) i = Some t /\
                  solo_steps (length (proj i tr)) t0 m0 = (t, ms, proj i tr)) /\
  (forall i t0 o, nth_error ts0 i = Some t0 -> nth_error (fst c) i = Some (TDone o) ->
     solo_obs t0 m0 = o /\ snd (solo t0 m0) = proj i tr).
Proof. exact interleave_private. Qed.
Print Assumptions C10_model.

(* per-run obligation: every write site is listed in known_findings.json, no map range, no goroutine *)
Theorem C10_inventory_checked : check_shared inventory allowed = true.
Proof. exact C10_check_shared_ok. Qed.
Print Assumptions C10_inventory_checked.

(* the listed-and-present sites: one KNOWN-FINDING line each *)
Theorem C10_known_sites : map s_key (known_sites inventory allowed) = C10_known_site_keys.
Proof. exact SharedObligations.C10_known_sites. Qed.
Print Assumptions C10_known_sites.

Theorem C10_partial :
  forall at_site ts, conforms inventory at_site ts -> trees_disjoint ts ->
                     concurrent_calls_behave_as_alone ts.
Proof. exact C10_distinct_statements. Qed.
Print Assumptions C10_partial.

Theorem C10_shared_writes_only_at_known_sites :
  forall at_site ts, conforms inventory at_site ts ->
  forall i l, shared_write ts i l -> exists k, at_site i l k /\ In k allowed.
Proof. exact SharedObligations.C10_shared_writes_only_at_known_sites. Qed.
Print Assumptions C10_shared_writes_only_at_known_sites.

Theorem C10_full_if_no_findings :
  C10_no_findings = true ->
  forall at_site ts, conforms inventory at_site ts -> concurrent_calls_behave_as_alone ts.
Proof. exact SharedObligations.C10_full_if_no_findings. Qed.
Print Assumptions C10_full_if_no_findings.

(* The full statement for the current tree: the generated inventory has no shared write at all
   (the per-run obligation [C10_no_findings = true] is discharged by vm_compute on the inventory
   regenerated from /repo), hence every set of concurrent calls — on different parsed statements or
   on the same one — behaves as each call alone and is race free.  A new write to a package-level
   variable or through an AST argument makes [C10_no_findings] compute to false and this theorem
   stops compiling. *)
Theorem C10_concurrent_calls_behave_as_alone :
  forall at_site ts, conforms inventory at_site ts -> concurrent_calls_behave_as_alone ts.
Proof. exact (SharedObligations.C10_full_if_no_findings (eq_refl : C10_no_findings = true)). Qed.
Print Assumptions C10_concurrent_calls_behave_as_alone.

(* What a shared write would do (the defect class fixed in /repo commits 48df07a2e and a9fde9fa2): *)
Theorem C10_shared_statement_refuted :
  exists s c tr i o,
    run s (racy_threads, mem_format7) = (c, tr) /\
    nth_error (fst c) i = Some (TDone o) /\
    (exists t0, nth_error racy_threads i = Some t0 /\ solo_obs t0 mem_format7 <> o) /\
    ~ race_free tr.
Proof. exact shared_tree_write_breaks_solo_equivalence. Qed.
Print Assumptions C10_shared_statement_refuted.
