(* C14 -- "Parsing the same byte stream gives the same statements, EXPLAIN text and error whether the
   io.Reader returns everything at once, one byte per Read, short reads that split multi-byte
   characters, or the last bytes together with io.EOF."

   Stream level (Properties/C14_stream.v): the bufio.Reader model over ANY well-behaved script answers
   every Peek/ReadRune exactly like the pure stream over the concatenated bytes.
   This file, lexer level: the lexer model (Lexer/LexerModel.v, all of lexer.go) is parametric in the
   stream; Lexer/LexerSim.v proves function by function that two stream implementations related by a
   simulation give EQUAL tokens and related lexer states (C14_lexer_parametric).  Instantiated with
   the bufio refinement: the tokens produced from a chunked reader are those of the pure lexer over
   the bytes -- total by C12 -- hence identical for any two chunkings of the same bytes.
   Parser level: statements, EXPLAIN text and the error are functions of the token stream and of
   Lexer.Err() alone, because the parser never touches the reader: package parser uses its `lexer`
   field only through NextToken() and Err(), and hands the io.Reader to lexer.New only; package lexer
   uses its bufio.Reader only through Peek and ReadRune.  This is CHECKED on /repo by
   /verif/translator/cmd/readeruse (type-checked inventory, regenerated on every run into
   Gen/ReaderUse.v) and pinned by C14_reader_use below: a new direct use of the reader changes a list
   and breaks that proof.  Lexer.Err() is nil for every well-behaved script (C14_no_error_tracked:
   such a reader never returns a non-EOF error), so the error, too, is a function of the tokens. *)
From Coq Require Import String List NArith.
From DC Require Import Base.Utf8 Base.Stream Base.Item Gen.TokenTable Gen.ReaderUse.
From DC Require Import Lexer.LexerModel Lexer.LexerTotal Lexer.LexerSim.
From DC Require Import Stream.Simulation Stream.BufioModel Stream.BufioProof.
Import ListNotations.

(* ---------- the parametricity theorem of the lexer model ---------- *)

(* any two stream implementations related by a simulation: equal Tokenize results *)
Theorem C14_lexer_parametric :
  forall (S1 S2 : Type) (R : S1 -> S2 -> Prop) (o1 : stream_ops S1) (o2 : stream_ops S2),
    stream_sim R o1 o2 ->
    forall s1 s2, R s1 s2 ->
    forall fuel, tokenize_fuel o1 fuel s1 = tokenize_fuel o2 fuel s2.
Proof. exact (@tokenize_sim). Qed.
Print Assumptions C14_lexer_parametric.

(* ... equal results of any number of NextToken calls on a fresh lexer ... *)
Theorem C14_lexer_parametric_next_token :
  forall (S1 S2 : Type) (R : S1 -> S2 -> Prop) (o1 : stream_ops S1) (o2 : stream_ops S2),
    stream_sim R o1 o2 ->
    forall s1 s2, R s1 s2 ->
    forall k fuel, next_n o1 k fuel (init_lex o1 s1) = next_n o2 k fuel (init_lex o2 s2).
Proof. exact (@next_n_sim). Qed.
Print Assumptions C14_lexer_parametric_next_token.

(* ... and related lexer states afterwards: related sources, equal ch / pos / eof *)
Theorem C14_lexer_parametric_state :
  forall (S1 S2 : Type) (R : S1 -> S2 -> Prop) (o1 : stream_ops S1) (o2 : stream_ops S2),
    stream_sim R o1 o2 ->
    forall s1 s2, R s1 s2 ->
    forall k fuel,
      opt_rel (pair_rel (@eq (list item)) (lex_rel R))
        (run_lexer o1 k fuel (init_lex o1 s1)) (run_lexer o2 k fuel (init_lex o2 s2)).
Proof. exact (@run_lexer_sim). Qed.
Print Assumptions C14_lexer_parametric_state.

Theorem C14_run_lexer_items : forall (S : Type) (ops : stream_ops S) k fuel l,
  option_map fst (run_lexer ops k fuel l) = next_n ops k fuel l.
Proof. exact run_lexer_items. Qed.
Print Assumptions C14_run_lexer_items.

(* ---------- Tokenize over the real bufio.Reader = Tokenize over the bytes ---------- *)

(* for every well-behaved script: the tokens are those of the pure lexer over the delivered bytes *)
Theorem C14_tokens_are_those_of_the_bytes : forall s, well_behaved s ->
  tokenize_fuel bufio_stream (length (data_of s) + 2) (bufio_init s) = tokenize (data_of s).
Proof. exact bufio_tokens_pure. Qed.
Print Assumptions C14_tokens_are_those_of_the_bytes.

(* the fuel plays no role *)
Theorem C14_tokens_any_fuel : forall s, well_behaved s -> forall fuel,
  tokenize_fuel bufio_stream fuel (bufio_init s) = tokenize_fuel pure_stream fuel (data_of s).
Proof. exact bufio_tokenize_fuel. Qed.
Print Assumptions C14_tokens_any_fuel.

(* with C12: total, exactly one EOF and it is last, EOF sticky -- through the chunked reader *)
Theorem C14_tokens_total : forall s, well_behaved s ->
  exists pre e,
    bufio_tokens s = Some (pre ++ [e]) /\ it_tok e = T_EOF /\
    Forall (fun i => it_tok i <> T_EOF) pre /\ length (pre ++ [e]) <= length (data_of s) + 1 /\
    forall k, bufio_next_tokens (length (pre ++ [e]) + k) s = Some ((pre ++ [e]) ++ repeat e k).
Proof. exact bufio_tokens_total. Qed.
Print Assumptions C14_tokens_total.

(* THE property at the lexer: two well-behaved readers delivering the same bytes give the same tokens *)
Theorem C14_tokens_independent_of_chunking : forall s1 s2,
  well_behaved s1 -> well_behaved s2 -> data_of s1 = data_of s2 ->
  tokenize_fuel bufio_stream (length (data_of s1) + 2) (bufio_init s1) =
  tokenize_fuel bufio_stream (length (data_of s2) + 2) (bufio_init s2).
Proof. exact bufio_tokens_chunking. Qed.
Print Assumptions C14_tokens_independent_of_chunking.

Theorem C14_tokens_independent_of_chunking_any_fuel : forall s1 s2,
  well_behaved s1 -> well_behaved s2 -> data_of s1 = data_of s2 -> forall fuel,
  tokenize_fuel bufio_stream fuel (bufio_init s1) = tokenize_fuel bufio_stream fuel (bufio_init s2).
Proof. exact bufio_tokenize_fuel_chunking. Qed.
Print Assumptions C14_tokens_independent_of_chunking_any_fuel.

(* the same for the first k NextToken results, any k (the parser pulls tokens one at a time and
   keeps calling NextToken after EOF) *)
Theorem C14_next_tokens_are_those_of_the_bytes : forall s, well_behaved s -> forall k,
  bufio_next_tokens k s = next_tokens k (data_of s).
Proof. exact bufio_next_tokens_pure. Qed.
Print Assumptions C14_next_tokens_are_those_of_the_bytes.

Theorem C14_next_tokens_independent_of_chunking : forall s1 s2,
  well_behaved s1 -> well_behaved s2 -> data_of s1 = data_of s2 -> forall k,
  bufio_next_tokens k s1 = bufio_next_tokens k s2.
Proof. exact bufio_next_tokens_chunking. Qed.
Print Assumptions C14_next_tokens_independent_of_chunking.

(* all inputs x all chunkings into non-empty reads x the three endings *)
Theorem C14_all_chunkings : forall p1 e1 p2 e2,
  Forall (fun bs => bs <> []) p1 -> well_behaved e1 ->
  Forall (fun bs => bs <> []) p2 -> well_behaved e2 ->
  concat p1 ++ data_of e1 = concat p2 ++ data_of e2 ->
  bufio_tokens (chunked p1 e1) = bufio_tokens (chunked p2 e2) /\
  bufio_tokens (chunked p1 e1) = tokenize (concat p1 ++ data_of e1).
Proof. exact bufio_tokens_chunkings. Qed.
Print Assumptions C14_all_chunkings.

(* ---------- statements, EXPLAIN text, errors: any function of the token stream ---------- *)

Theorem C14_any_function_of_the_tokens : forall (A : Type) (f : option (list item) -> A) s1 s2,
  well_behaved s1 -> well_behaved s2 -> data_of s1 = data_of s2 ->
  f (bufio_tokens s1) = f (bufio_tokens s2).
Proof. exact bufio_tokens_any_function. Qed.
Print Assumptions C14_any_function_of_the_tokens.

(* a consumer that decides adaptively how many NextToken calls to make (f sees k |-> first k items) *)
Theorem C14_any_consumer_of_next_token :
  forall (A : Type) (f : (nat -> option (list item)) -> A) s1 s2,
  well_behaved s1 -> well_behaved s2 -> data_of s1 = data_of s2 ->
  (forall g h, (forall k, g k = h k) -> f g = f h) ->
  f (fun k => bufio_next_tokens k s1) = f (fun k => bufio_next_tokens k s2).
Proof. exact bufio_next_tokens_any_function. Qed.
Print Assumptions C14_any_consumer_of_next_token.

(* the other input of the parser, Lexer.Err(): nil for every well-behaved script, whatever the
   lexer did (a well-behaved reader never returns a non-EOF error: script_errs s = []) *)
Theorem C14_no_error_tracked : forall s k fuel items lx,
  well_behaved s -> lexrun s k fuel = Some (items, lx) -> tracked_err (l_src lx) = None.
Proof. exact lexrun_well_behaved_untracked. Qed.
Print Assumptions C14_no_error_tracked.

(* the side condition, checked on /repo: who touches the reader *)
Theorem C14_reader_use :
  reader_uses = ["Peek"; "ReadRune"]%string /\
  lexer_uses_in_parser = ["Err"; "NextToken"]%string /\
  source_uses = ["err"]%string /\
  underlying_reader_uses = ["Read"]%string /\
  io_reader_uses_in_parser = ["New"; "lexer.New"]%string /\
  reader_inits = ["New"]%string /\ source_inits = ["New"]%string /\
  underlying_reader_inits = ["New"]%string /\ lexer_inits_in_parser = ["New"]%string.
Proof. exact (conj eq_refl (conj eq_refl (conj eq_refl (conj eq_refl (conj eq_refl
             (conj eq_refl (conj eq_refl (conj eq_refl eq_refl)))))))). Qed.
Print Assumptions C14_reader_use.

(* ---------- non-vacuity ---------- *)
Local Open Scope N_scope.

(* SELECT 'é'   = 53 45 4c 45 43 54 20 27 c3 a9 27 *)
Definition ex_bytes : list N := [83; 69; 76; 69; 67; 84; 32; 39; 195; 169; 39].
Definition ex_one_chunk : list chunk := [Data ex_bytes].
Definition ex_byte_by_byte : list chunk := map (fun b => Data [b]) ex_bytes.
Definition ex_split_rune : list chunk := [Data [83; 69; 76; 69; 67; 84; 32; 39; 195]; Data [169; 39]].
Definition ex_last_with_eof : list chunk := [Data [83; 69; 76; 69; 67; 84; 32; 39; 195; 169]; DataErr [39] 0].

Example C14_example_hypotheses :
  well_behaved ex_one_chunk /\ well_behaved ex_byte_by_byte /\
  well_behaved ex_split_rune /\ well_behaved ex_last_with_eof /\
  data_of ex_one_chunk = ex_bytes /\ data_of ex_byte_by_byte = ex_bytes /\
  data_of ex_split_rune = ex_bytes /\ data_of ex_last_with_eof = ex_bytes.
Proof. vm_compute. repeat split; reflexivity. Qed.

Definition ex_expected : list item :=
  [ {| it_tok := T_SELECT; it_val := [83; 69; 76; 69; 67; 84];
       it_pos := {| p_off := 1; p_line := 1; p_col := 1 |}; it_quoted := false |};
    {| it_tok := T_STRING; it_val := [195; 169];
       it_pos := {| p_off := 8; p_line := 1; p_col := 8 |}; it_quoted := false |};
    {| it_tok := T_EOF; it_val := [];
       it_pos := {| p_off := 11; p_line := 1; p_col := 10 |}; it_quoted := false |} ].

Example C14_example_same_tokens :
  bufio_tokens ex_one_chunk = Some ex_expected /\
  bufio_tokens ex_byte_by_byte = Some ex_expected /\
  bufio_tokens ex_split_rune = Some ex_expected /\
  bufio_tokens ex_last_with_eof = Some ex_expected /\
  tokenize ex_bytes = Some ex_expected.
Proof. vm_compute. repeat split; reflexivity. Qed.

(* the hypothesis matters: a reader that fails in the middle gives different tokens (and C15 applies) *)
Example C14_example_not_well_behaved :
  let s := [Data [83; 69; 76; 69; 67; 84; 32; 39; 195]; Err 7; Data [169; 39]] in
  well_behavedb s = false /\ data_of s = ex_bytes /\ bufio_tokens s <> Some ex_expected.
Proof. vm_compute. repeat split; try reflexivity. discriminate. Qed.
