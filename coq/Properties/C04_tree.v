(* C04 (part A) -- the EXPLAIN text of a statement is a well-formed ClickHouse-style tree:
   specification and verified checker.  Theorems by [exact]; proofs in Tree/LineTreeProof.v and
   Tree/LineTextProof.v; definitions in Tree/LineTree.v.

   What is proved here is the ORACLE: [check_text kinds text = true] holds exactly for the texts
   that are the print-out of one rooted tree in ClickHouse's layout with clean labels.  That the
   implementation's output always passes it is (a) proved for the SELECT printers' child counts in
   Properties/C04_select.v and (b) searched for by running the extracted checker
   (/verif/driver/tree) over parser.Explain of every corpus / generated statement. *)
From Coq Require Import List NArith.
From DC Require Import Tree.LineTree Tree.LineTreeProof Tree.LineTextProof Gen.NodeKinds.
Import ListNotations.
Local Open Scope N_scope.

(* ---- line level: sound and complete, single rooted tree ----
   [norm_line] identifies the two spellings of a node without children: no suffix (what
   ClickHouse prints and what [render] produces) and "(children 0)" (the count is still the
   number of nodes beneath, so the property holds for it). *)

Theorem C04_check_lines_sound_complete :
  forall ls : list line, check_lines ls = true <-> exists t : rose, map norm_line ls = render 0 t.
Proof. exact check_lines_spec. Qed.
Print Assumptions C04_check_lines_sound_complete.

(* without any "(children 0)" this is literal equality with a rendering *)
Theorem C04_check_lines_canonical :
  forall ls : list line,
    Forall (fun l => nkids l <> Some 0%nat) ls ->
    (check_lines ls = true <-> exists t : rose, ls = render 0 t).
Proof. exact check_lines_strict. Qed.
Print Assumptions C04_check_lines_canonical.

Theorem C04_parse_lines_unique :
  forall (ls : list line) (t : rose), parse_lines ls = Some t <-> map norm_line ls = render 0 t.
Proof. exact parse_lines_spec. Qed.
Print Assumptions C04_parse_lines_unique.

(* a line that says "no children" (no suffix or "(children 0)") directly followed by a deeper
   line is rejected, wherever it occurs *)
Theorem C04_false_leaf_rejected :
  forall (pre : list line) (a b : line) (post : list line),
    (nkids a = None \/ nkids a = Some 0%nat) -> (indent a < indent b)%nat ->
    check_lines (pre ++ a :: b :: post) = false.
Proof. exact check_lines_rejects_false_leaf. Qed.
Print Assumptions C04_false_leaf_rejected.

(* depth lemma: a subtree printed at depth d is the subtree printed at depth 0, shifted *)
Theorem C04_render_shift :
  forall (t : rose) (d : nat), render d t = map (shift d) (render 0 t).
Proof. exact render_shift. Qed.
Print Assumptions C04_render_shift.

(* ---- text level ---- *)

(* soundness of the text checker *)
Theorem C04_check_text_sound :
  forall (kinds : list (list N)) (text : list N),
    check_text kinds text = true ->
    exists t : rose,
      map norm_line (map parse_line (split_lines text)) = render 0 t /\
      unterminated text = [] /\
      Forall (fun bs => has_artefact bs = false) (split_lines text) /\
      Forall (fun bs => In (first_word (label (parse_line bs))) kinds) (split_lines text).
Proof. exact check_text_sound. Qed.
Print Assumptions C04_check_text_sound.

(* completeness / non-vacuity: every clean tree's (canonical) print-out is accepted *)
Theorem C04_check_text_accepts_printed_trees :
  forall (kinds : list (list N)) (t : rose),
    clean kinds t -> check_text kinds (print_tree t) = true.
Proof. exact check_text_print. Qed.
Print Assumptions C04_check_text_accepts_printed_trees.

(* both at once: the accepted texts are exactly the print-outs of clean lines that form one
   rooted tree up to the spelling of a leaf's count *)
Theorem C04_check_text_exact :
  forall (kinds : list (list N)) (text : list N),
    check_text kinds text = true <->
    exists ls : list line,
      text = print_lines ls /\ Forall (line_clean kinds) ls /\
      exists t : rose, map norm_line ls = render 0 t.
Proof. exact check_text_exact. Qed.
Print Assumptions C04_check_text_exact.

(* and the accepted texts without any "(children 0)" are exactly the printed clean trees *)
Theorem C04_check_text_exact_canonical :
  forall (kinds : list (list N)) (text : list N),
    (check_text kinds text = true /\
     Forall (fun bs => nkids (parse_line bs) <> Some 0%nat) (split_lines text))
    <-> exists t : rose, clean kinds t /\ text = print_tree t.
Proof. exact check_text_exact_canonical. Qed.
Print Assumptions C04_check_text_exact_canonical.

Theorem C04_print_tree_injective :
  forall (kinds : list (list N)) (t t' : rose),
    clean kinds t -> clean kinds t' -> print_tree t = print_tree t' -> t = t'.
Proof. exact print_tree_inj. Qed.
Print Assumptions C04_print_tree_injective.

(* the children suffix is read back exactly *)
Theorem C04_suffix_roundtrip :
  forall (lab : list N) (k : N),
    strip_suffix (lab ++ children_pre ++ dec k ++ [RPAR]) = Some (lab, k).
Proof. exact strip_suffix_print. Qed.
Print Assumptions C04_suffix_roundtrip.

(* ---- Examples (ClickHouse golden /repo/parser/testdata/00001_count_hits/explain.txt,
        query: -- Tags: stateful
SELECT count() FROM test.hits) ---- *)

Definition golden_count_hits : list N :=
  [83; 101; 108; 101; 99; 116; 87; 105; 116; 104; 85; 110; 105; 111; 110; 81; 117; 101; 114; 121; 32; 40; 99; 104; 105; 108; 100; 114; 101; 110; 32; 49; 41; 10; 32; 69; 120; 112; 114; 101; 115; 115; 105; 111; 110; 76; 105; 115; 116; 32; 40; 99; 104; 105; 108; 100; 114; 101; 110; 32; 49; 41; 10; 32; 32; 83; 101; 108; 101; 99; 116; 81; 117; 101; 114; 121; 32; 40; 99; 104; 105; 108; 100; 114; 101; 110; 32; 50; 41; 10; 32; 32; 32; 69; 120; 112; 114; 101; 115; 115; 105; 111; 110; 76; 105; 115; 116; 32; 40; 99; 104; 105; 108; 100; 114; 101; 110; 32; 49; 41; 10; 32; 32; 32; 32; 70; 117; 110; 99; 116; 105; 111; 110; 32; 99; 111; 117; 110; 116; 32; 40; 99; 104; 105; 108; 100; 114; 101; 110; 32; 49; 41; 10; 32; 32; 32; 32; 32; 69; 120; 112; 114; 101; 115; 115; 105; 111; 110; 76; 105; 115; 116; 10; 32; 32; 32; 84; 97; 98; 108; 101; 115; 73; 110; 83; 101; 108; 101; 99; 116; 81; 117; 101; 114; 121; 32; 40; 99; 104; 105; 108; 100; 114; 101; 110; 32; 49; 41; 10; 32; 32; 32; 32; 84; 97; 98; 108; 101; 115; 73; 110; 83; 101; 108; 101; 99; 116; 81; 117; 101; 114; 121; 69; 108; 101; 109; 101; 110; 116; 32; 40; 99; 104; 105; 108; 100; 114; 101; 110; 32; 49; 41; 10; 32; 32; 32; 32; 32; 84; 97; 98; 108; 101; 69; 120; 112; 114; 101; 115; 115; 105; 111; 110; 32; 40; 99; 104; 105; 108; 100; 114; 101; 110; 32; 49; 41; 10; 32; 32; 32; 32; 32; 32; 84; 97; 98; 108; 101; 73; 100; 101; 110; 116; 105; 102; 105; 101; 114; 32; 116; 101; 115; 116; 46; 104; 105; 116; 115; 10].

Example golden_passes : check_text node_kinds golden_count_hits = true.
Proof. vm_compute. reflexivity. Qed.

(* the tree the checker reads back has 10 nodes and prints to the same text *)
Example golden_tree :
  exists t, parse_lines (map parse_line (split_lines golden_count_hits)) = Some t /\
            print_tree t = golden_count_hits /\ length (render 0 t) = 10%nat.
Proof. eexists. split; [vm_compute; reflexivity|]. split; vm_compute; reflexivity. Qed.

(* same text, "SelectQuery (children 2)" replaced by "(children 3)" *)
Definition golden_wrong_count : list N :=
  [83; 101; 108; 101; 99; 116; 87; 105; 116; 104; 85; 110; 105; 111; 110; 81; 117; 101; 114; 121; 32; 40; 99; 104; 105; 108; 100; 114; 101; 110; 32; 49; 41; 10; 32; 69; 120; 112; 114; 101; 115; 115; 105; 111; 110; 76; 105; 115; 116; 32; 40; 99; 104; 105; 108; 100; 114; 101; 110; 32; 49; 41; 10; 32; 32; 83; 101; 108; 101; 99; 116; 81; 117; 101; 114; 121; 32; 40; 99; 104; 105; 108; 100; 114; 101; 110; 32; 51; 41; 10; 32; 32; 32; 69; 120; 112; 114; 101; 115; 115; 105; 111; 110; 76; 105; 115; 116; 32; 40; 99; 104; 105; 108; 100; 114; 101; 110; 32; 49; 41; 10; 32; 32; 32; 32; 70; 117; 110; 99; 116; 105; 111; 110; 32; 99; 111; 117; 110; 116; 32; 40; 99; 104; 105; 108; 100; 114; 101; 110; 32; 49; 41; 10; 32; 32; 32; 32; 32; 69; 120; 112; 114; 101; 115; 115; 105; 111; 110; 76; 105; 115; 116; 10; 32; 32; 32; 84; 97; 98; 108; 101; 115; 73; 110; 83; 101; 108; 101; 99; 116; 81; 117; 101; 114; 121; 32; 40; 99; 104; 105; 108; 100; 114; 101; 110; 32; 49; 41; 10; 32; 32; 32; 32; 84; 97; 98; 108; 101; 115; 73; 110; 83; 101; 108; 101; 99; 116; 81; 117; 101; 114; 121; 69; 108; 101; 109; 101; 110; 116; 32; 40; 99; 104; 105; 108; 100; 114; 101; 110; 32; 49; 41; 10; 32; 32; 32; 32; 32; 84; 97; 98; 108; 101; 69; 120; 112; 114; 101; 115; 115; 105; 111; 110; 32; 40; 99; 104; 105; 108; 100; 114; 101; 110; 32; 49; 41; 10; 32; 32; 32; 32; 32; 32; 84; 97; 98; 108; 101; 73; 100; 101; 110; 116; 105; 102; 105; 101; 114; 32; 116; 101; 115; 116; 46; 104; 105; 116; 115; 10].

Example wrong_count_fails : classify node_kinds golden_wrong_count = VTree.
Proof. vm_compute. reflexivity. Qed.

Example wrong_count_rejected : check_text node_kinds golden_wrong_count = false.
Proof. vm_compute. reflexivity. Qed.

(* the leaf "ExpressionList" printed as "ExpressionList (children 0)" *)
Definition golden_zero_suffix : list N :=
  [83; 101; 108; 101; 99; 116; 87; 105; 116; 104; 85; 110; 105; 111; 110; 81; 117; 101; 114; 121; 32; 40; 99; 104; 105; 108; 100; 114; 101; 110; 32; 49; 41; 10; 32; 69; 120; 112; 114; 101; 115; 115; 105; 111; 110; 76; 105; 115; 116; 32; 40; 99; 104; 105; 108; 100; 114; 101; 110; 32; 49; 41; 10; 32; 32; 83; 101; 108; 101; 99; 116; 81; 117; 101; 114; 121; 32; 40; 99; 104; 105; 108; 100; 114; 101; 110; 32; 50; 41; 10; 32; 32; 32; 69; 120; 112; 114; 101; 115; 115; 105; 111; 110; 76; 105; 115; 116; 32; 40; 99; 104; 105; 108; 100; 114; 101; 110; 32; 49; 41; 10; 32; 32; 32; 32; 70; 117; 110; 99; 116; 105; 111; 110; 32; 99; 111; 117; 110; 116; 32; 40; 99; 104; 105; 108; 100; 114; 101; 110; 32; 49; 41; 10; 32; 32; 32; 32; 32; 69; 120; 112; 114; 101; 115; 115; 105; 111; 110; 76; 105; 115; 116; 32; 40; 99; 104; 105; 108; 100; 114; 101; 110; 32; 48; 41; 10; 32; 32; 32; 84; 97; 98; 108; 101; 115; 73; 110; 83; 101; 108; 101; 99; 116; 81; 117; 101; 114; 121; 32; 40; 99; 104; 105; 108; 100; 114; 101; 110; 32; 49; 41; 10; 32; 32; 32; 32; 84; 97; 98; 108; 101; 115; 73; 110; 83; 101; 108; 101; 99; 116; 81; 117; 101; 114; 121; 69; 108; 101; 109; 101; 110; 116; 32; 40; 99; 104; 105; 108; 100; 114; 101; 110; 32; 49; 41; 10; 32; 32; 32; 32; 32; 84; 97; 98; 108; 101; 69; 120; 112; 114; 101; 115; 115; 105; 111; 110; 32; 40; 99; 104; 105; 108; 100; 114; 101; 110; 32; 49; 41; 10; 32; 32; 32; 32; 32; 32; 84; 97; 98; 108; 101; 73; 100; 101; 110; 116; 105; 102; 105; 101; 114; 32; 116; 101; 115; 116; 46; 104; 105; 116; 115; 10].

Example zero_suffix_leaf_accepted : check_text node_kinds golden_zero_suffix = true.
Proof. vm_compute. reflexivity. Qed.

(* it is read as the same tree as the golden *)
Example zero_suffix_same_tree :
  parse_lines (map parse_line (split_lines golden_zero_suffix))
  = parse_lines (map parse_line (split_lines golden_count_hits)).
Proof. vm_compute. reflexivity. Qed.

(* but "Function count (children 1)" printed as "Function count (children 0)" -- a node that DOES
   have a child beneath -- is rejected *)
Definition golden_false_leaf : list N :=
  [83; 101; 108; 101; 99; 116; 87; 105; 116; 104; 85; 110; 105; 111; 110; 81; 117; 101; 114; 121; 32; 40; 99; 104; 105; 108; 100; 114; 101; 110; 32; 49; 41; 10; 32; 69; 120; 112; 114; 101; 115; 115; 105; 111; 110; 76; 105; 115; 116; 32; 40; 99; 104; 105; 108; 100; 114; 101; 110; 32; 49; 41; 10; 32; 32; 83; 101; 108; 101; 99; 116; 81; 117; 101; 114; 121; 32; 40; 99; 104; 105; 108; 100; 114; 101; 110; 32; 50; 41; 10; 32; 32; 32; 69; 120; 112; 114; 101; 115; 115; 105; 111; 110; 76; 105; 115; 116; 32; 40; 99; 104; 105; 108; 100; 114; 101; 110; 32; 49; 41; 10; 32; 32; 32; 32; 70; 117; 110; 99; 116; 105; 111; 110; 32; 99; 111; 117; 110; 116; 32; 40; 99; 104; 105; 108; 100; 114; 101; 110; 32; 48; 41; 10; 32; 32; 32; 32; 32; 69; 120; 112; 114; 101; 115; 115; 105; 111; 110; 76; 105; 115; 116; 10; 32; 32; 32; 84; 97; 98; 108; 101; 115; 73; 110; 83; 101; 108; 101; 99; 116; 81; 117; 101; 114; 121; 32; 40; 99; 104; 105; 108; 100; 114; 101; 110; 32; 49; 41; 10; 32; 32; 32; 32; 84; 97; 98; 108; 101; 115; 73; 110; 83; 101; 108; 101; 99; 116; 81; 117; 101; 114; 121; 69; 108; 101; 109; 101; 110; 116; 32; 40; 99; 104; 105; 108; 100; 114; 101; 110; 32; 49; 41; 10; 32; 32; 32; 32; 32; 84; 97; 98; 108; 101; 69; 120; 112; 114; 101; 115; 115; 105; 111; 110; 32; 40; 99; 104; 105; 108; 100; 114; 101; 110; 32; 49; 41; 10; 32; 32; 32; 32; 32; 32; 84; 97; 98; 108; 101; 73; 100; 101; 110; 116; 105; 102; 105; 101; 114; 32; 116; 101; 115; 116; 46; 104; 105; 116; 115; 10].

Example false_leaf_fails : classify node_kinds golden_false_leaf = VTree.
Proof. vm_compute. reflexivity. Qed.

(* "TableIdentifier test.hits" replaced by "TableIdentifier %!s(<nil>)" *)
Definition golden_artefact : list N :=
  [83; 101; 108; 101; 99; 116; 87; 105; 116; 104; 85; 110; 105; 111; 110; 81; 117; 101; 114; 121; 32; 40; 99; 104; 105; 108; 100; 114; 101; 110; 32; 49; 41; 10; 32; 69; 120; 112; 114; 101; 115; 115; 105; 111; 110; 76; 105; 115; 116; 32; 40; 99; 104; 105; 108; 100; 114; 101; 110; 32; 49; 41; 10; 32; 32; 83; 101; 108; 101; 99; 116; 81; 117; 101; 114; 121; 32; 40; 99; 104; 105; 108; 100; 114; 101; 110; 32; 50; 41; 10; 32; 32; 32; 69; 120; 112; 114; 101; 115; 115; 105; 111; 110; 76; 105; 115; 116; 32; 40; 99; 104; 105; 108; 100; 114; 101; 110; 32; 49; 41; 10; 32; 32; 32; 32; 70; 117; 110; 99; 116; 105; 111; 110; 32; 99; 111; 117; 110; 116; 32; 40; 99; 104; 105; 108; 100; 114; 101; 110; 32; 49; 41; 10; 32; 32; 32; 32; 32; 69; 120; 112; 114; 101; 115; 115; 105; 111; 110; 76; 105; 115; 116; 10; 32; 32; 32; 84; 97; 98; 108; 101; 115; 73; 110; 83; 101; 108; 101; 99; 116; 81; 117; 101; 114; 121; 32; 40; 99; 104; 105; 108; 100; 114; 101; 110; 32; 49; 41; 10; 32; 32; 32; 32; 84; 97; 98; 108; 101; 115; 73; 110; 83; 101; 108; 101; 99; 116; 81; 117; 101; 114; 121; 69; 108; 101; 109; 101; 110; 116; 32; 40; 99; 104; 105; 108; 100; 114; 101; 110; 32; 49; 41; 10; 32; 32; 32; 32; 32; 84; 97; 98; 108; 101; 69; 120; 112; 114; 101; 115; 115; 105; 111; 110; 32; 40; 99; 104; 105; 108; 100; 114; 101; 110; 32; 49; 41; 10; 32; 32; 32; 32; 32; 32; 84; 97; 98; 108; 101; 73; 100; 101; 110; 116; 105; 102; 105; 101; 114; 32; 37; 33; 115; 40; 60; 110; 105; 108; 62; 41; 10].

Example artefact_fails : classify node_kinds golden_artefact = VArtefact.
Proof. vm_compute. reflexivity. Qed.

(* "TableIdentifier" misspelt "Tableidentifier" *)
Definition golden_bad_kind : list N :=
  [83; 101; 108; 101; 99; 116; 87; 105; 116; 104; 85; 110; 105; 111; 110; 81; 117; 101; 114; 121; 32; 40; 99; 104; 105; 108; 100; 114; 101; 110; 32; 49; 41; 10; 32; 69; 120; 112; 114; 101; 115; 115; 105; 111; 110; 76; 105; 115; 116; 32; 40; 99; 104; 105; 108; 100; 114; 101; 110; 32; 49; 41; 10; 32; 32; 83; 101; 108; 101; 99; 116; 81; 117; 101; 114; 121; 32; 40; 99; 104; 105; 108; 100; 114; 101; 110; 32; 50; 41; 10; 32; 32; 32; 69; 120; 112; 114; 101; 115; 115; 105; 111; 110; 76; 105; 115; 116; 32; 40; 99; 104; 105; 108; 100; 114; 101; 110; 32; 49; 41; 10; 32; 32; 32; 32; 70; 117; 110; 99; 116; 105; 111; 110; 32; 99; 111; 117; 110; 116; 32; 40; 99; 104; 105; 108; 100; 114; 101; 110; 32; 49; 41; 10; 32; 32; 32; 32; 32; 69; 120; 112; 114; 101; 115; 115; 105; 111; 110; 76; 105; 115; 116; 10; 32; 32; 32; 84; 97; 98; 108; 101; 115; 73; 110; 83; 101; 108; 101; 99; 116; 81; 117; 101; 114; 121; 32; 40; 99; 104; 105; 108; 100; 114; 101; 110; 32; 49; 41; 10; 32; 32; 32; 32; 84; 97; 98; 108; 101; 115; 73; 110; 83; 101; 108; 101; 99; 116; 81; 117; 101; 114; 121; 69; 108; 101; 109; 101; 110; 116; 32; 40; 99; 104; 105; 108; 100; 114; 101; 110; 32; 49; 41; 10; 32; 32; 32; 32; 32; 84; 97; 98; 108; 101; 69; 120; 112; 114; 101; 115; 115; 105; 111; 110; 32; 40; 99; 104; 105; 108; 100; 114; 101; 110; 32; 49; 41; 10; 32; 32; 32; 32; 32; 32; 84; 97; 98; 108; 101; 105; 100; 101; 110; 116; 105; 102; 105; 101; 114; 32; 116; 101; 115; 116; 46; 104; 105; 116; 115; 10].

Example bad_kind_fails : classify node_kinds golden_bad_kind = VKind.
Proof. vm_compute. reflexivity. Qed.

(* last newline missing / empty text *)
Example unterminated_fails :
  classify node_kinds (removelast golden_count_hits) = VLines.
Proof. vm_compute. reflexivity. Qed.

Example empty_fails : classify node_kinds [] = VEmpty.
Proof. vm_compute. reflexivity. Qed.

(* the hypotheses of C04_check_text_accepts_printed_trees are satisfiable by a non-trivial tree:
   the 10-node golden above is the print-out of a clean tree *)
Example clean_tree_exists : exists t, clean node_kinds t /\ print_tree t = golden_count_hits.
Proof.
  assert (H : check_text node_kinds golden_count_hits = true /\
              Forall (fun bs => nkids (parse_line bs) <> Some 0%nat) (split_lines golden_count_hits)).
  { split; [exact golden_passes|]. vm_compute. repeat constructor; discriminate. }
  destruct (proj1 (C04_check_text_exact_canonical node_kinds golden_count_hits) H) as [t [Hc He]].
  exists t. split; [exact Hc|symmetry; exact He].
Qed.
