(* C15, stream level (to be merged into Properties/C15.v with the lexer/driver corollaries).
   "If the io.Reader passed to Parse returns an error other than io.EOF at any point of the stream,
   Parse returns a non-nil error that wraps or equals that error."  Here, for ARBITRARY scripts
   (any mix of data, errors, data-with-error, empty reads) and every sequence of Peek/ReadRune
   calls: Lexer.Err() -- the field of lexer.go's errorTrackingReader, `tracked_err` -- is exactly
   the first non-EOF error returned by any Read call performed so far; it never changes once set;
   and when ReadRune reports the end of input either an error is tracked or nothing but nil/io.EOF
   was ever returned by the reader. *)
From Coq Require Import List NArith.
From DC Require Import Base.Utf8 Base.Stream Stream.Simulation Stream.BufioModel Stream.BufioProof.
Import ListNotations.
Local Open Scope N_scope.

(* first error wins, whatever happens later (fixed op sequences / adaptive clients) *)
Theorem C15_tracked_monotone : forall ops st e,
  tracked_err st = Some e -> tracked_err (snd (run_ops bufio_stream ops st)) = Some e.
Proof. exact tracked_monotone. Qed.
Print Assumptions C15_tracked_monotone.

Theorem C15_tracked_monotone_client : forall (A : Type) (c : client A) st e,
  tracked_err st = Some e -> tracked_err (snd (run_client bufio_stream c st)) = Some e.
Proof. exact tracked_monotone_client. Qed.
Print Assumptions C15_tracked_monotone_client.

(* any state, any script: a fill whose Read calls include one returning a non-EOF error leaves an
   error tracked *)
Theorem C15_fill_tracks_error : forall st,
  exists new, rlog (fill st) = new ++ rlog st /\
    forall x c, In x new -> re_err x = Some c -> is_eof c = false -> tracked_err (fill st) <> None.
Proof. exact fill_tracks_error. Qed.
Print Assumptions C15_fill_tracks_error.

(* chunk-level form: a fill that meets an error chunk stores the error and tracks it *)
Theorem C15_fill_err_chunk : forall st e r,
  script st = Err e :: r -> is_eof e = false ->
  berr (fill st) = Some (GE e) /\ tracked_err (fill st) <> None /\ script (fill st) = r.
Proof. exact fill_err_chunk. Qed.
Print Assumptions C15_fill_err_chunk.

Theorem C15_fill_dataerr_chunk : forall st bs e r,
  script st = DataErr bs e :: r -> (length bs <= bufio_size - length (win st))%nat ->
  is_eof e = false ->
  berr (fill st) = Some (GE e) /\ tracked_err (fill st) <> None /\ script (fill st) = r /\
  win (fill st) = win st ++ bs.
Proof. exact fill_dataerr_chunk. Qed.
Print Assumptions C15_fill_dataerr_chunk.

(* the main statement *)
Theorem C15_tracked_is_first_read_error : forall s0 ops,
  let st := snd (run_ops bufio_stream ops (bufio_init s0)) in
  diverged st = false /\
  tracked_err st = first_read_error st /\
  script_errs s0 = read_errors st ++ script_errs (script st).
Proof. exact tracked_is_first_read_error. Qed.
Print Assumptions C15_tracked_is_first_read_error.

Theorem C15_tracked_is_first_read_error_client : forall s0 (A : Type) (c : client A),
  let st := snd (run_client bufio_stream c (bufio_init s0)) in
  diverged st = false /\
  tracked_err st = first_read_error st /\
  script_errs s0 = read_errors st ++ script_errs (script st).
Proof. exact tracked_is_first_read_error_client. Qed.
Print Assumptions C15_tracked_is_first_read_error_client.

Theorem C15_first_error_is_tracked : forall s0 ops e0,
  let st := snd (run_ops bufio_stream ops (bufio_init s0)) in
  first_read_error st = Some e0 ->
  tracked_err st = Some e0 /\ hd_error (script_errs s0) = Some e0.
Proof. exact first_error_is_tracked. Qed.
Print Assumptions C15_first_error_is_tracked.

Theorem C15_tracked_none_no_error : forall s0 ops,
  let st := snd (run_ops bufio_stream ops (bufio_init s0)) in
  tracked_err st = None -> read_errors st = [] /\ script_errs (script st) = script_errs s0.
Proof. exact tracked_none_no_error. Qed.
Print Assumptions C15_tracked_none_no_error.

(* ReadRune reporting the end of input *)
Theorem C15_read_rune_none_general : forall s0 st,
  reachable s0 st -> fst (bufio_read_rune st) = None ->
  let st' := snd (bufio_read_rune st) in
  tracked_err st' <> None \/
  (tracked_err st' = None /\ read_errors st' = [] /\
   (rr_err st = Some (GE eof_code) \/ rr_err st = Some GNoProgress)).
Proof. exact read_rune_none_general. Qed.
Print Assumptions C15_read_rune_none_general.

Theorem C15_reachable : forall s0 ops, reachable s0 (snd (run_ops bufio_stream ops (bufio_init s0))).
Proof. exact reachable_from_init. Qed.
Print Assumptions C15_reachable.

Theorem C15_read_rune_none_plain : forall s0 ops, plain s0 ->
  let st := snd (run_ops bufio_stream ops (bufio_init s0)) in
  fst (bufio_read_rune st) = None ->
  let st' := snd (bufio_read_rune st) in
  tracked_err st' <> None \/
  (tracked_err st' = None /\ script st' = [] /\ script_errs s0 = [] /\ read_errors st' = []).
Proof. exact read_rune_none_plain. Qed.
Print Assumptions C15_read_rune_none_plain.

(* ---------- non-vacuity ---------- *)

(* DESIGN's witness: "SELECT 1" then an error.  Nine ReadRunes: eight runes, then end of input;
   the error is tracked. *)
Definition ex_select1 : list N := [83; 69; 76; 69; 67; 84; 32; 49].
Definition ex15_script : list chunk := [Data ex_select1; Err 7].

Example C15_example_tracked :
  let st := snd (run_ops bufio_stream (repeat ORead 9) (bufio_init ex15_script)) in
  plain ex15_script /\ script_errs ex15_script = [7] /\
  tracked_err st = Some 7 /\ read_errors st = [7] /\
  nth 8 (fst (run_ops bufio_stream (repeat ORead 9) (bufio_init ex15_script))) (RPeek []) = RRead None.
Proof. vm_compute. repeat split; reflexivity. Qed.

(* Why the wrapper is needed: Peek's readErr() clears bufio's stored error, the reader recovers,
   and the final ReadRune error is a plain io.EOF -- yet the first error stays tracked. *)
Example C15_example_transient :
  let s := [Data [65]; Err 7; Data [66]] in
  let ops := [ORead; OPeek 1; ORead; ORead] in
  fst (run_ops bufio_stream ops (bufio_init s)) =
    [RRead (Some (65, 1%nat)); RPeek []; RRead (Some (66, 1%nat)); RRead None] /\
  tracked_err (snd (run_ops bufio_stream ops (bufio_init s))) = Some 7 /\
  read_errors (snd (run_ops bufio_stream ops (bufio_init s))) = [7] /\
  rr_err (snd (run_ops bufio_stream [ORead; OPeek 1; ORead] (bufio_init s))) = Some (GE eof_code) /\
  berr (snd (run_ops bufio_stream ops (bufio_init s))) = None.
Proof. vm_compute. repeat split; reflexivity. Qed.

(* no error: end of input with nothing tracked and the script consumed *)
Example C15_example_clean :
  let s := [Data ex_select1] in
  let st := snd (run_ops bufio_stream (repeat ORead 9) (bufio_init s)) in
  plain s /\ tracked_err st = None /\ script st = [] /\ read_errors st = [].
Proof. vm_compute. repeat split; reflexivity. Qed.
