(* C11 -- Explain is a read-only, repeatable function of the statement.

   Full statement (over the model of Conc/ConcModel.v, for the inventory generated from /repo):
     for every history h of earlier calls and every call c that conform to the inventory (claim (S)
     of Conc/SharedCheck.v), every memory, every resolution of run-time choices: the history and
     the call leave the memory (the statement and the package-level variables) unchanged on normal
     AND on panicking exit, the call returns what it returns in a fresh process, and calling again
     returns the same output.  [C11] is that statement; its per-run obligations are
     [C11_tree_writes_restored], [C11_no_map_ranges], [C11_no_package_level_writes]. *)
From Coq Require Import String List.
From DC Require Import Conc.SharedInv Conc.ConcModel Conc.Interleave Conc.SharedCheck Conc.SharedObligations.
From DC Require Import Gen.SharedAccess Gen.SharedAllowed.
Import ListNotations.

(* the restore discipline, independent of the inventory *)
Theorem C11_restore_discipline :
  forall c, disciplined c -> forall m o l, r_mem (exec_cmd c m o) l = m l.
Proof. exact restore_discipline. Qed.
Print Assumptions C11_restore_discipline.

(* the defect class that the deferred restore excludes *)
Theorem C11_plain_restore_leaks :
  exists k l v body m o,
    r_outcome (exec_cmd (CTempPlain k l v body) m o) = Panic /\
    r_mem (exec_cmd (CTempPlain k l v body) m o) l <> m l /\
    r_mem (exec_cmd (CTempDefer k l v body) m o) l = m l.
Proof. exact plain_restore_leaks. Qed.
Print Assumptions C11_plain_restore_leaks.

(* per-run obligations *)
Theorem C11_tree_writes_restored : all_tree_writes_restored inventory = true.
Proof. exact C11_all_restored. Qed.
Print Assumptions C11_tree_writes_restored.

Theorem C11_no_map_ranges : inv_map_ranges inventory = [].
Proof. exact SharedObligations.C11_no_map_ranges. Qed.
Print Assumptions C11_no_map_ranges.

Theorem C11_no_package_level_writes : inv_var_writes inventory = [].
Proof. exact C10_var_writes_nil. Qed.
Print Assumptions C11_no_package_level_writes.

Theorem C11 : explain_is_readonly_and_repeatable inventory.
Proof. exact C11_holds. Qed.
Print Assumptions C11.
