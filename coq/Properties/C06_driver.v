(* C06 (driver half) and the semicolon clause of C05.

   C06: "Parsing a script 's1; s2; ...; sn' of valid statements yields exactly the statements
         obtained by parsing each si on its own, in the same order ...; nothing carries over from
         one statement to the next. ... empty statements between semicolons are ignored."
   C05: leading / trailing / repeated semicolons do not change the result.

   Model: Driver/DriverModel.v; proofs: Driver/DriverProof.v (part B).
   A script is   pre ++ s1 ++ sep1 ++ s2 ++ sep2 ++ ... ++ sn ++ sepn   with pre and all sep_i lists
   of SEMICOLON tokens, sep_i non-empty for i < n (`seps_ok`), sepn arbitrary: EVERY placement of
   extra semicolons.  The only hypothesis on the statement parser is that the driver's unit
   (`statement` = parseStatement + PARALLEL WITH chaining) is delimiter-respecting on each segment:
       delimited ps mk s r es  :=  s <> [] /\ s does not start with a semicolon /\
          forall rest, (rest = [] or rest starts with a semicolon) ->
                       statement ps mk (s ++ rest) = Some (r, rest, es)
   i.e. followed by a statement boundary it consumes exactly s and returns what it returns on s
   alone (rest = []).  This is what the fragment-parser simulation lemma (DESIGN.md, C06) has to
   establish for the real parser; here it is a premise.  No progress premise is needed.
   The result may contain parse errors (es) and nil statements (r = None): they are reported /
   dropped exactly as when the segments are parsed alone.

   "Nothing carries over" is literal in the model: the loop state is (check index, remaining
   tokens, statements, errors) and `ps` is a function of the remaining tokens only. *)
From Coq Require Import List NArith Bool.
From DC Require Import Base.Item Gen.TokenTable Driver.DriverModel Driver.DriverProof Driver.DriverToy.
Import ListNotations.

Theorem C06_driver_script :
  forall (stmt err : Type) (ps : list item -> option stmt * list item * list err)
         (mk_parallel : stmt -> list stmt -> stmt) (ctx_err : ctx_error) (read_failed : bool)
         (pre : list item) (segs : list (segment stmt err)),
    all_semi pre -> seps_ok segs -> segs_delimited ps mk_parallel segs ->
    full ps mk_parallel ctx_err read_failed (pre ++ join segs) =
    finish read_failed (script_stmts segs) (script_errs segs).
Proof. exact script_parse. Qed.
Print Assumptions C06_driver_script.

(* one delimited statement on its own *)
Theorem C06_driver_single :
  forall (stmt err : Type) (ps : list item -> option stmt * list item * list err)
         (mk_parallel : stmt -> list stmt -> stmt) (ctx_err : ctx_error) (read_failed : bool)
         (s : list item) (r : option stmt) (es : list err),
    delimited ps mk_parallel s r es ->
    full ps mk_parallel ctx_err read_failed s = finish read_failed (opt_list r) es.
Proof. exact single_parse. Qed.
Print Assumptions C06_driver_single.

(* "exactly the statements obtained by parsing each si on its own, in the same order" *)
Theorem C06_driver_concat :
  forall (stmt err : Type) (ps : list item -> option stmt * list item * list err)
         (mk_parallel : stmt -> list stmt -> stmt) (ctx_err : ctx_error) (read_failed : bool)
         (pre : list item) (segs : list (segment stmt err)),
    all_semi pre -> seps_ok segs -> segs_delimited ps mk_parallel segs ->
    stmts_of (full ps mk_parallel ctx_err read_failed (pre ++ join segs)) =
    flat_map (fun g => stmts_of (full ps mk_parallel ctx_err read_failed (sg_toks g))) segs.
Proof. exact script_is_concat_of_singles. Qed.
Print Assumptions C06_driver_concat.

(* it suffices that the bare statement parser is delimiter-respecting *)
Theorem C06_driver_ps_delimited :
  forall (stmt err : Type) (ps : list item -> option stmt * list item * list err)
         (mk_parallel : stmt -> list stmt -> stmt) (s : list item) (r : option stmt) (es : list err),
    ps_delimited ps s r es -> delimited ps mk_parallel s r es.
Proof. exact ps_delimited_delimited. Qed.
Print Assumptions C06_driver_ps_delimited.

(* C05, semicolon clause: two placements of semicolons around the same segments *)
Theorem C05_driver_semicolons :
  forall (stmt err : Type) (ps : list item -> option stmt * list item * list err)
         (mk_parallel : stmt -> list stmt -> stmt) (ctx_err : ctx_error) (read_failed : bool)
         (pre1 : list item) (segs1 : list (segment stmt err))
         (pre2 : list item) (segs2 : list (segment stmt err)),
    all_semi pre1 -> seps_ok segs1 -> segs_delimited ps mk_parallel segs1 ->
    all_semi pre2 -> seps_ok segs2 -> segs_delimited ps mk_parallel segs2 ->
    same_segments segs1 segs2 ->
    full ps mk_parallel ctx_err read_failed (pre1 ++ join segs1) =
    full ps mk_parallel ctx_err read_failed (pre2 ++ join segs2).
Proof. exact semicolons_irrelevant. Qed.
Print Assumptions C05_driver_semicolons.

(* C05, with no delimiter assumption at all (only progress, for the fuel): semicolons in front of
   any token list are ignored.  The driver is in this situation at the start and after every
   statement, so this covers leading and repeated semicolons for an arbitrary statement parser. *)
Theorem C05_driver_leading_semicolons :
  forall (stmt err : Type) (ps : list item -> option stmt * list item * list err)
         (mk_parallel : stmt -> list stmt -> stmt) (ctx_err : ctx_error) (read_failed : bool),
    (forall ts, ts <> [] -> length (rem (ps ts)) < length ts) ->
    rem (ps []) = [] ->
    forall pre ts : list item,
      all_semi pre ->
      full ps mk_parallel ctx_err read_failed (pre ++ ts) = full ps mk_parallel ctx_err read_failed ts.
Proof. exact leading_semicolons. Qed.
Print Assumptions C05_driver_leading_semicolons.

(* ------------------------------------------------------------------------------------------ *)
(* Satisfiable and non-trivial: the toy parser is delimiter-respecting on every toy segment, so *)
(* the script theorem holds for it for all scripts and all semicolon placements.               *)

Example toy_script_all :
  forall pre (l : list (list item * list item)),
    let segs := map (fun x => toy_seg (fst x) (snd x)) l in
    all_semi pre -> seps_ok segs -> Forall (fun x => toy_segment (fst x)) l ->
    toy_run never Canceled (pre ++ join segs) =
    Finished (map (fun x => map it_tok (fst x)) l) NoErr [].
Proof. exact toy_script. Qed.

Local Open Scope N_scope.

Definition s1 := map tk [T_SELECT; T_NUMBER].
Definition s2 := map tk [T_SELECT; T_NUMBER; T_PLUS; T_NUMBER].
Definition s3 := map tk [T_SHOW; T_IDENT].
Definition semi := tk T_SEMICOLON.

(* ;; s1 ; s2 ;;; s3 ;   versus   s1 ; s2 ; s3 *)
Example ex_semicolons :
  toy_run never Canceled ([semi; semi] ++ s1 ++ [semi] ++ s2 ++ [semi; semi; semi] ++ s3 ++ [semi]) =
  Finished [map it_tok s1; map it_tok s2; map it_tok s3] NoErr [] /\
  toy_run never Canceled (s1 ++ [semi] ++ s2 ++ [semi] ++ s3) =
  Finished [map it_tok s1; map it_tok s2; map it_tok s3] NoErr [] /\
  toy_run never Canceled s2 = Finished [map it_tok s2] NoErr [].
Proof. repeat split; vm_compute; reflexivity. Qed.

(* the hypotheses of the general theorem hold for this concrete script (not only by computation) *)
Example ex_hypotheses :
  let segs := [toy_seg s1 [semi]; toy_seg s2 [semi; semi; semi]; toy_seg s3 []] in
  all_semi [semi; semi] /\ seps_ok segs /\ segs_delimited toy_ps toy_par segs.
Proof.
  cbn zeta. split; [reflexivity |]. split.
  - cbn. repeat split; auto; discriminate.
  - unfold segs_delimited.
    repeat (apply Forall_cons;
            [apply ps_delimited_delimited, toy_ps_delimited; cbn; repeat split; reflexivity |]).
    apply Forall_nil.
Qed.

(* only semicolons / nothing at all: no statements, no error *)
Example ex_only_semicolons :
  toy_run never Canceled [semi; semi; semi] = Finished [] NoErr [] /\
  toy_run never Canceled [] = Finished [] NoErr [].
Proof. split; vm_compute; reflexivity. Qed.
