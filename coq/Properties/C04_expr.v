(* C04, expression layer -- EXPLAIN output of the expression printers of /repo/internal/explain (expressions.go,
   functions.go, the expression cases of Node): the "(children N)" number of every header line equals the number of
   nodes printed directly beneath it and the output is one rooted tree, for EVERY field combination and EVERY list
   length, whenever the sub-printers the code calls print one rooted tree each; the aliased twins print the plain
   printer's tree with " (alias a)" on the root line, with the exact exceptions.

   Model: ExprEx/ExprExplainModel.v (count code and emit code transcribed separately, the aliased / WithElement
   copies separately from the plain printers); proofs: ExprEx/ExprExplainProof.v; tie to the Go code:
   /verif/harness/cmd/exprcount vs /verif/driver/exprcount on ASTs built directly (checks/gen_exprcount_cases.py).

   Reading the statements.  [node] is ANY function standing for Node(sb, x, depth) on expressions;
   [T node e t] : it prints exactly the one tree [t] for the child [e], at every depth;  [Ts] / [To] / [Tw] the same for
   a list / an optional child / WHEN-THEN pairs;  [P node e] := exists t, T node e t;  [Pdeep] / [Pfn] additionally for
   the elements of a tuple literal / the operands of an IN argument, which explainInExpr / explainPositionWithIn hand to
   Node themselves.  Part 3 takes [node] := [enode] (the type switch of Node restricted to expressions) and needs no
   such hypothesis: [C04_expr_*] hold for every expression under [inv_expr] (every ColumnTransformer has Type apply /
   except / replace -- the only combination where the Go code counts a child it does not print; the parser never
   builds another Type), with the refutation outside it.

   FULL STATEMENT of the property over this layer: for every expression AST e (any nesting, any list lengths, nil
   children included) with inv_expr e:  check_lines (enode 0 e) = true  [C04_expr_check_lines], and at every depth
   the text is render d t for one t  [C04_expr_is_tree].  Text inside a Literal line, identifier / alias escaping and
   the names produced by format.go are opaque labels here (format.go is outside this model). *)
From Coq Require Import String.
From Coq Require Import List NArith Bool.
From DC Require Import Tree.LineTree Tree.LineTreeProof
     Select.SelectExplainModel Select.SelectExplainProof
     Ddl.DdlExplainModel Ddl.DdlExplainProof
     Stmt.StmtExplainProof
     ExprEx.ExprExplainModel ExprEx.ExprExplainProof.
Import ListNotations.
Local Open Scope list_scope.
Local Open Scope nat_scope.

(* ======================================================================================== *)
(** * Part 1: every printer over abstract children (tree form; header number = printed children) *)

(* ---- identifier ---- *)
Theorem C04_identifier_is_tree :
  forall (name alias : list N),
  forall d, nrm (explain_identifier d name alias) = render d (identifier_tree name alias).
Proof. exact identifier_is_tree. Qed.
Print Assumptions C04_identifier_is_tree.

Theorem C04_identifier_header_eq_direct_children :
  forall (name alias : list N),
  forall d, header_count (explain_identifier d name alias) = direct_children (explain_identifier d name alias).
Proof. exact identifier_counts_agree. Qed.
Print Assumptions C04_identifier_header_eq_direct_children.

(* ---- parameter ---- *)
Theorem C04_parameter_is_tree :
  forall (name : list N) (ty : option (list N)),
  forall d, nrm (explain_parameter d name ty) = render d (T_leaf (parameter_label name ty)).
Proof. exact parameter_is_tree. Qed.
Print Assumptions C04_parameter_is_tree.

Theorem C04_parameter_header_eq_direct_children :
  forall (name : list N) (ty : option (list N)),
  forall d, header_count (explain_parameter d name ty) = direct_children (explain_parameter d name ty).
Proof. exact parameter_counts_agree. Qed.
Print Assumptions C04_parameter_header_eq_direct_children.

(* ---- parameter_aliased ---- *)
Theorem C04_parameter_aliased_is_tree :
  forall (alias name : list N) (ty : option (list N)),
  forall d, nrm (explain_parameter_aliased alias d name ty) = render d (T_leaf (parameter_label name ty ++ sfx alias)).
Proof. exact parameter_aliased_is_tree. Qed.
Print Assumptions C04_parameter_aliased_is_tree.

Theorem C04_parameter_aliased_header_eq_direct_children :
  forall (alias name : list N) (ty : option (list N)),
  forall d, header_count (explain_parameter_aliased alias d name ty) = direct_children (explain_parameter_aliased alias d name ty).
Proof. exact parameter_aliased_counts_agree. Qed.
Print Assumptions C04_parameter_aliased_header_eq_direct_children.

(* ---- subquery ---- *)
Theorem C04_subquery_is_tree :
  forall (q : option rose) (alias : list N),
  forall d, nrm (explain_subquery d q alias) = render d (subquery_tree q alias).
Proof. exact subquery_is_tree. Qed.
Print Assumptions C04_subquery_is_tree.

Theorem C04_subquery_header_eq_direct_children :
  forall (q : option rose) (alias : list N),
  forall d, header_count (explain_subquery d q alias) = direct_children (explain_subquery d q alias).
Proof. exact subquery_counts_agree. Qed.
Print Assumptions C04_subquery_header_eq_direct_children.

(* ---- exists ---- *)
Theorem C04_exists_is_tree :
  forall (alias : list N) (q : option rose),
  forall d, nrm (explain_exists_expr_with_alias alias d q) = render d (exists_tree alias q).
Proof. exact exists_is_tree. Qed.
Print Assumptions C04_exists_is_tree.

Theorem C04_exists_header_eq_direct_children :
  forall (alias : list N) (q : option rose),
  forall d, header_count (explain_exists_expr_with_alias alias d q) = direct_children (explain_exists_expr_with_alias alias d q).
Proof. exact exists_counts_agree. Qed.
Print Assumptions C04_exists_header_eq_direct_children.

(* ---- ternary ---- *)
Theorem C04_ternary_is_tree :
  forall (node : nat -> expr -> list line) (c t e : expr) (tc tt te : rose),
  T node c tc -> T node t tt -> T node e te -> forall d, nrm (explain_ternary_expr node d c t e) = render d (fn_tree (L_Function F_if) [tc; tt; te]).
Proof. exact ternary_is_tree. Qed.
Print Assumptions C04_ternary_is_tree.

Theorem C04_ternary_header_eq_direct_children :
  forall (node : nat -> expr -> list line) (c t e : expr) (tc tt te : rose),
  T node c tc -> T node t tt -> T node e te -> forall d, header_count (explain_ternary_expr node d c t e) = direct_children (explain_ternary_expr node d c t e).
Proof. exact ternary_counts_agree. Qed.
Print Assumptions C04_ternary_header_eq_direct_children.

(* ---- aliased_ternary ---- *)
Theorem C04_aliased_ternary_is_tree :
  forall (node : nat -> expr -> list line) (c t e : expr) (tc tt te : rose) (alias : list N),
  T node c tc -> T node t tt -> T node e te -> forall d, nrm (explain_aliased_ternary node alias d c t e) = render d (fn_tree (L_Function F_if ++ sfx alias) [tc; tt; te]).
Proof. exact aliased_ternary_is_tree. Qed.
Print Assumptions C04_aliased_ternary_is_tree.

Theorem C04_aliased_ternary_header_eq_direct_children :
  forall (node : nat -> expr -> list line) (c t e : expr) (tc tt te : rose) (alias : list N),
  T node c tc -> T node t tt -> T node e te -> forall d, header_count (explain_aliased_ternary node alias d c t e) = direct_children (explain_aliased_ternary node alias d c t e).
Proof. exact aliased_ternary_counts_agree. Qed.
Print Assumptions C04_aliased_ternary_header_eq_direct_children.

(* ---- with_ternary ---- *)
Theorem C04_with_ternary_is_tree :
  forall (node : nat -> expr -> list line) (c t e : expr) (tc tt te : rose) (name : list N),
  T node c tc -> T node t tt -> T node e te -> forall d, nrm (explain_with_ternary node name d c t e) = render d (fn_tree (alias_lab (L_Function F_if) name) [tc; tt; te]).
Proof. exact with_ternary_is_tree. Qed.
Print Assumptions C04_with_ternary_is_tree.

Theorem C04_with_ternary_header_eq_direct_children :
  forall (node : nat -> expr -> list line) (c t e : expr) (tc tt te : rose) (name : list N),
  T node c tc -> T node t tt -> T node e te -> forall d, header_count (explain_with_ternary node name d c t e) = direct_children (explain_with_ternary node name d c t e).
Proof. exact with_ternary_counts_agree. Qed.
Print Assumptions C04_with_ternary_header_eq_direct_children.

(* ---- array_access ---- *)
Theorem C04_array_access_is_tree :
  forall (node : nat -> expr -> list line) (a b : expr) (ta tb : rose),
  T node a ta -> T node b tb -> forall d, nrm (explain_array_access node d a b) = render d (fn_tree (L_Function F_arrayElement) [ta; tb]).
Proof. exact array_access_is_tree. Qed.
Print Assumptions C04_array_access_is_tree.

Theorem C04_array_access_header_eq_direct_children :
  forall (node : nat -> expr -> list line) (a b : expr) (ta tb : rose),
  T node a ta -> T node b tb -> forall d, header_count (explain_array_access node d a b) = direct_children (explain_array_access node d a b).
Proof. exact array_access_counts_agree. Qed.
Print Assumptions C04_array_access_header_eq_direct_children.

(* ---- array_access_with_alias ---- *)
Theorem C04_array_access_with_alias_is_tree :
  forall (node : nat -> expr -> list line) (a b : expr) (ta tb : rose) (alias : list N),
  T node a ta -> T node b tb -> forall d, nrm (explain_array_access_with_alias node alias d a b) = render d (fn_tree (alias_lab (L_Function F_arrayElement) alias) [ta; tb]).
Proof. exact array_access_with_alias_is_tree. Qed.
Print Assumptions C04_array_access_with_alias_is_tree.

Theorem C04_array_access_with_alias_header_eq_direct_children :
  forall (node : nat -> expr -> list line) (a b : expr) (ta tb : rose) (alias : list N),
  T node a ta -> T node b tb -> forall d, header_count (explain_array_access_with_alias node alias d a b) = direct_children (explain_array_access_with_alias node alias d a b).
Proof. exact array_access_with_alias_counts_agree. Qed.
Print Assumptions C04_array_access_with_alias_header_eq_direct_children.

(* ---- tuple_access ---- *)
Theorem C04_tuple_access_is_tree :
  forall (node : nat -> expr -> list line) (a b : expr) (ta tb : rose),
  T node a ta -> T node b tb -> forall d, nrm (explain_tuple_access node d a b) = render d (fn_tree (L_Function F_tupleElement) [ta; tb]).
Proof. exact tuple_access_is_tree. Qed.
Print Assumptions C04_tuple_access_is_tree.

Theorem C04_tuple_access_header_eq_direct_children :
  forall (node : nat -> expr -> list line) (a b : expr) (ta tb : rose),
  T node a ta -> T node b tb -> forall d, header_count (explain_tuple_access node d a b) = direct_children (explain_tuple_access node d a b).
Proof. exact tuple_access_counts_agree. Qed.
Print Assumptions C04_tuple_access_header_eq_direct_children.

(* ---- tuple_access_with_alias ---- *)
Theorem C04_tuple_access_with_alias_is_tree :
  forall (node : nat -> expr -> list line) (a b : expr) (ta tb : rose) (alias : list N),
  T node a ta -> T node b tb -> forall d, nrm (explain_tuple_access_with_alias node alias d a b) = render d (fn_tree (alias_lab (L_Function F_tupleElement) alias) [ta; tb]).
Proof. exact tuple_access_with_alias_is_tree. Qed.
Print Assumptions C04_tuple_access_with_alias_is_tree.

Theorem C04_tuple_access_with_alias_header_eq_direct_children :
  forall (node : nat -> expr -> list line) (a b : expr) (ta tb : rose) (alias : list N),
  T node a ta -> T node b tb -> forall d, header_count (explain_tuple_access_with_alias node alias d a b) = direct_children (explain_tuple_access_with_alias node alias d a b).
Proof. exact tuple_access_with_alias_counts_agree. Qed.
Print Assumptions C04_tuple_access_with_alias_header_eq_direct_children.

(* ---- like ---- *)
Theorem C04_like_is_tree :
  forall (node : nat -> expr -> list line) (a b : expr) (ta tb : rose) (not ci : bool) (own : list N),
  T node a ta -> T node b tb -> forall d, nrm (explain_like_expr node d a b not ci own) = render d (fn_tree (alias_lab (L_Function (like_fn not ci)) own) [ta; tb]).
Proof. exact like_is_tree. Qed.
Print Assumptions C04_like_is_tree.

Theorem C04_like_header_eq_direct_children :
  forall (node : nat -> expr -> list line) (a b : expr) (ta tb : rose) (not ci : bool) (own : list N),
  T node a ta -> T node b tb -> forall d, header_count (explain_like_expr node d a b not ci own) = direct_children (explain_like_expr node d a b not ci own).
Proof. exact like_counts_agree. Qed.
Print Assumptions C04_like_header_eq_direct_children.

(* ---- like_with_alias ---- *)
Theorem C04_like_with_alias_is_tree :
  forall (node : nat -> expr -> list line) (a b : expr) (ta tb : rose) (alias : list N) (not ci : bool),
  T node a ta -> T node b tb -> forall d, nrm (explain_like_expr_with_alias node alias d a b not ci) = render d (fn_tree (alias_lab (L_Function (like_fn not ci)) alias) [ta; tb]).
Proof. exact like_with_alias_is_tree. Qed.
Print Assumptions C04_like_with_alias_is_tree.

Theorem C04_like_with_alias_header_eq_direct_children :
  forall (node : nat -> expr -> list line) (a b : expr) (ta tb : rose) (alias : list N) (not ci : bool),
  T node a ta -> T node b tb -> forall d, header_count (explain_like_expr_with_alias node alias d a b not ci) = direct_children (explain_like_expr_with_alias node alias d a b not ci).
Proof. exact like_with_alias_counts_agree. Qed.
Print Assumptions C04_like_with_alias_header_eq_direct_children.

(* ---- position_with_in ---- *)
Theorem C04_position_with_in_is_tree :
  forall (node : nat -> expr -> list line) (needle haystack : expr) (tn th : rose) (alias : list N),
  T node needle tn -> T node haystack th -> forall d, nrm (explain_position_with_in node alias d needle haystack) = render d (fn_tree (alias_lab (L_Function F_position) alias) [th; tn]).
Proof. exact position_with_in_is_tree. Qed.
Print Assumptions C04_position_with_in_is_tree.

Theorem C04_position_with_in_header_eq_direct_children :
  forall (node : nat -> expr -> list line) (needle haystack : expr) (tn th : rose) (alias : list N),
  T node needle tn -> T node haystack th -> forall d, header_count (explain_position_with_in node alias d needle haystack) = direct_children (explain_position_with_in node alias d needle haystack).
Proof. exact position_with_in_counts_agree. Qed.
Print Assumptions C04_position_with_in_header_eq_direct_children.

(* ---- date_add_sub_with_interval ---- *)
Theorem C04_date_add_sub_with_interval_is_tree :
  forall (node : nat -> expr -> list line) (a b : expr) (ta tb : rose) (alias op_fn : list N),
  T node a ta -> T node b tb -> forall d, nrm (explain_date_add_sub_with_interval node alias d op_fn a b) = render d (fn_tree (alias_lab (L_Function op_fn) alias) [ta; tb]).
Proof. exact date_add_sub_with_interval_is_tree. Qed.
Print Assumptions C04_date_add_sub_with_interval_is_tree.

Theorem C04_date_add_sub_with_interval_header_eq_direct_children :
  forall (node : nat -> expr -> list line) (a b : expr) (ta tb : rose) (alias op_fn : list N),
  T node a ta -> T node b tb -> forall d, header_count (explain_date_add_sub_with_interval node alias d op_fn a b) = direct_children (explain_date_add_sub_with_interval node alias d op_fn a b).
Proof. exact date_add_sub_with_interval_counts_agree. Qed.
Print Assumptions C04_date_add_sub_with_interval_header_eq_direct_children.

(* ---- date_add_sub_result ---- *)
Theorem C04_date_add_sub_result_is_tree :
  forall (node : nat -> expr -> list line) (norm_unit : list N -> list N) (date value : expr) (tdate tvalue : rose) (alias op_fn unit : list N),
  T node date tdate -> T node value tvalue -> forall d, nrm (explain_date_add_sub_result node norm_unit alias d op_fn date value unit) = render d (fn_tree (alias_lab (L_Function op_fn) alias) [tdate; fn_tree (L_Function (F_toInterval (norm_unit unit))) [tvalue]]).
Proof. exact date_add_sub_result_is_tree. Qed.
Print Assumptions C04_date_add_sub_result_is_tree.

Theorem C04_date_add_sub_result_header_eq_direct_children :
  forall (node : nat -> expr -> list line) (norm_unit : list N -> list N) (date value : expr) (tdate tvalue : rose) (alias op_fn unit : list N),
  T node date tdate -> T node value tvalue -> forall d, header_count (explain_date_add_sub_result node norm_unit alias d op_fn date value unit) = direct_children (explain_date_add_sub_result node norm_unit alias d op_fn date value unit).
Proof. exact date_add_sub_result_counts_agree. Qed.
Print Assumptions C04_date_add_sub_result_header_eq_direct_children.

(* ---- date_diff ---- *)
Theorem C04_date_diff_is_tree :
  forall (node : nat -> expr -> list line) (alias unit_lbl : list N) (rest : list expr) (ts : list rose),
  Ts node rest ts -> forall d, nrm (date_diff_lines node alias d unit_lbl (S (length rest)) rest) = render d (fn_tree (alias_lab (L_Function F_dateDiff) alias) (T_leaf (X_Literal unit_lbl) :: ts)).
Proof. exact date_diff_is_tree. Qed.
Print Assumptions C04_date_diff_is_tree.

Theorem C04_date_diff_header_eq_direct_children :
  forall (node : nat -> expr -> list line) (alias unit_lbl : list N) (rest : list expr) (ts : list rose),
  Ts node rest ts -> forall d, header_count (date_diff_lines node alias d unit_lbl (S (length rest)) rest) = direct_children (date_diff_lines node alias d unit_lbl (S (length rest)) rest).
Proof. exact date_diff_counts_agree. Qed.
Print Assumptions C04_date_diff_header_eq_direct_children.

(* ---- between ---- *)
Theorem C04_between_is_tree :
  forall (node : nat -> expr -> list line) (e lo hi : expr) (te tlo thi : rose) (not : bool),
  T node e te -> T node lo tlo -> T node hi thi -> forall d, nrm (explain_between_expr node d e lo hi not) = render d (between_tree te tlo thi [] not).
Proof. exact between_is_tree. Qed.
Print Assumptions C04_between_is_tree.

Theorem C04_between_header_eq_direct_children :
  forall (node : nat -> expr -> list line) (e lo hi : expr) (te tlo thi : rose) (not : bool),
  T node e te -> T node lo tlo -> T node hi thi -> forall d, header_count (explain_between_expr node d e lo hi not) = direct_children (explain_between_expr node d e lo hi not).
Proof. exact between_counts_agree. Qed.
Print Assumptions C04_between_header_eq_direct_children.

(* ---- between_with_alias ---- *)
Theorem C04_between_with_alias_is_tree :
  forall (node : nat -> expr -> list line) (e lo hi : expr) (te tlo thi : rose) (alias : list N) (not : bool),
  T node e te -> T node lo tlo -> T node hi thi -> forall d, nrm (explain_between_expr_with_alias node alias d e lo hi not) = render d (between_tree te tlo thi alias not).
Proof. exact between_with_alias_is_tree. Qed.
Print Assumptions C04_between_with_alias_is_tree.

Theorem C04_between_with_alias_header_eq_direct_children :
  forall (node : nat -> expr -> list line) (e lo hi : expr) (te tlo thi : rose) (alias : list N) (not : bool),
  T node e te -> T node lo tlo -> T node hi thi -> forall d, header_count (explain_between_expr_with_alias node alias d e lo hi not) = direct_children (explain_between_expr_with_alias node alias d e lo hi not).
Proof. exact between_with_alias_counts_agree. Qed.
Print Assumptions C04_between_with_alias_header_eq_direct_children.

(* ---- is_null ---- *)
Theorem C04_is_null_is_tree :
  forall (node : nat -> expr -> list line) (e : expr) (te : rose) (alias : list N) (not : bool),
  T node e te -> forall d, nrm (explain_is_null_expr_with_alias node alias d e not) = render d (fn_tree (alias_lab (L_Function (if not then F_isNotNull else F_isNull)) alias) [te]).
Proof. exact is_null_is_tree. Qed.
Print Assumptions C04_is_null_is_tree.

Theorem C04_is_null_header_eq_direct_children :
  forall (node : nat -> expr -> list line) (e : expr) (te : rose) (alias : list N) (not : bool),
  T node e te -> forall d, header_count (explain_is_null_expr_with_alias node alias d e not) = direct_children (explain_is_null_expr_with_alias node alias d e not).
Proof. exact is_null_counts_agree. Qed.
Print Assumptions C04_is_null_header_eq_direct_children.

(* ---- extract ---- *)
Theorem C04_extract_is_tree :
  forall (node : nat -> expr -> list line) (e : expr) (te : rose) (alias fn : list N),
  T node e te -> forall d, nrm (explain_extract_expr_with_alias node alias d fn e) = render d (fn_tree (alias_lab (L_Function fn) alias) [te]).
Proof. exact extract_is_tree. Qed.
Print Assumptions C04_extract_is_tree.

Theorem C04_extract_header_eq_direct_children :
  forall (node : nat -> expr -> list line) (e : expr) (te : rose) (alias fn : list N),
  T node e te -> forall d, header_count (explain_extract_expr_with_alias node alias d fn e) = direct_children (explain_extract_expr_with_alias node alias d fn e).
Proof. exact extract_counts_agree. Qed.
Print Assumptions C04_extract_header_eq_direct_children.

(* ---- lambda ---- *)
Theorem C04_lambda_is_tree :
  forall (node : nat -> expr -> list line) (e : expr) (te : rose) (alias : list N) (params : list (list N)),
  T node e te -> forall d, nrm (explain_lambda_with_alias node alias d params e) = render d (lambda_tree te alias params).
Proof. exact lambda_is_tree. Qed.
Print Assumptions C04_lambda_is_tree.

Theorem C04_lambda_header_eq_direct_children :
  forall (node : nat -> expr -> list line) (e : expr) (te : rose) (alias : list N) (params : list (list N)),
  T node e te -> forall d, header_count (explain_lambda_with_alias node alias d params e) = direct_children (explain_lambda_with_alias node alias d params e).
Proof. exact lambda_counts_agree. Qed.
Print Assumptions C04_lambda_header_eq_direct_children.

(* ---- case ---- *)
Theorem C04_case_is_tree :
  forall (node : nat -> expr -> list line) (alias : list N) (operand : option expr) (whens : list (expr * expr)) (els : option expr) (tos : list rose) (tps : list (rose * rose)) (tes : list rose),
  To node operand tos -> Tw node whens tps -> To node els tes -> forall d, nrm (explain_case_expr_with_alias node alias d operand whens els) = render d (case_tree alias operand tos tps els tes).
Proof. exact case_is_tree. Qed.
Print Assumptions C04_case_is_tree.

Theorem C04_case_header_eq_direct_children :
  forall (node : nat -> expr -> list line) (alias : list N) (operand : option expr) (whens : list (expr * expr)) (els : option expr) (tos : list rose) (tps : list (rose * rose)) (tes : list rose),
  To node operand tos -> Tw node whens tps -> To node els tes -> forall d, header_count (explain_case_expr_with_alias node alias d operand whens els) = direct_children (explain_case_expr_with_alias node alias d operand whens els).
Proof. exact case_counts_agree. Qed.
Print Assumptions C04_case_header_eq_direct_children.

(* ---- interval ---- *)
Theorem C04_interval_is_tree :
  forall (node : nat -> expr -> list line) (norm_unit : list N -> list N) (alias : list N) (value : expr) (unit : list N) (tv : rose),
  T node value tv -> forall d, nrm (explain_interval_expr node norm_unit alias d value unit) = render d (interval_tree norm_unit alias value unit tv).
Proof. exact interval_is_tree. Qed.
Print Assumptions C04_interval_is_tree.

Theorem C04_interval_header_eq_direct_children :
  forall (node : nat -> expr -> list line) (norm_unit : list N -> list N) (alias : list N) (value : expr) (unit : list N) (tv : rose),
  T node value tv -> forall d, header_count (explain_interval_expr node norm_unit alias d value unit) = direct_children (explain_interval_expr node norm_unit alias d value unit).
Proof. exact interval_counts_agree. Qed.
Print Assumptions C04_interval_header_eq_direct_children.

(* ---- cast ---- *)
Theorem C04_cast_is_tree :
  forall (node : nat -> expr -> list line) (alias : list N) (e : expr) (te : rose) (type_expr : option expr) (tty : list rose) (type_lbl : list N) (opsyntax : bool) (lit_lbl : list N),
  T node e te -> To node type_expr tty -> forall d, nrm (explain_cast_expr_with_alias node alias d e type_expr type_lbl opsyntax lit_lbl) = render d (cast_tree alias e te type_expr tty type_lbl opsyntax lit_lbl).
Proof. exact cast_is_tree. Qed.
Print Assumptions C04_cast_is_tree.

Theorem C04_cast_header_eq_direct_children :
  forall (node : nat -> expr -> list line) (alias : list N) (e : expr) (te : rose) (type_expr : option expr) (tty : list rose) (type_lbl : list N) (opsyntax : bool) (lit_lbl : list N),
  T node e te -> To node type_expr tty -> forall d, header_count (explain_cast_expr_with_alias node alias d e type_expr type_lbl opsyntax lit_lbl) = direct_children (explain_cast_expr_with_alias node alias d e type_expr type_lbl opsyntax lit_lbl).
Proof. exact cast_counts_agree. Qed.
Print Assumptions C04_cast_header_eq_direct_children.

(* ---- kql ---- *)
Theorem C04_kql_is_tree :
  forall (k : kql_parsed),
  forall d, nrm (explain_kql d k) = render d (kql_tree k).
Proof. exact kql_is_tree. Qed.
Print Assumptions C04_kql_is_tree.

Theorem C04_kql_header_eq_direct_children :
  forall (k : kql_parsed),
  forall d, header_count (explain_kql d k) = direct_children (explain_kql d k).
Proof. exact kql_counts_agree. Qed.
Print Assumptions C04_kql_header_eq_direct_children.

(* ---- quantified ---- *)
Theorem C04_quantified_is_tree :
  forall (node : nat -> expr -> list line) (alias comp agg : list N) (lhs sub : expr) (tl tsub : rose),
  T node lhs tl -> T node sub tsub -> forall d, nrm (output_quantified_with_aggregate node alias d lhs sub comp agg) = render d (quantified_tree alias comp agg tl tsub).
Proof. exact quantified_is_tree. Qed.
Print Assumptions C04_quantified_is_tree.

Theorem C04_quantified_header_eq_direct_children :
  forall (node : nat -> expr -> list line) (alias comp agg : list N) (lhs sub : expr) (tl tsub : rose),
  T node lhs tl -> T node sub tsub -> forall d, header_count (output_quantified_with_aggregate node alias d lhs sub comp agg) = direct_children (output_quantified_with_aggregate node alias d lhs sub comp agg).
Proof. exact quantified_counts_agree. Qed.
Print Assumptions C04_quantified_header_eq_direct_children.

(* ---- window_spec ---- *)
Theorem C04_window_spec_is_tree :
  forall (node : nat -> expr -> list line) (name : list N) (partition : list expr) (order : list rose) (offset : option expr) (tpart toff : list rose),
  Ts node partition tpart -> To node offset toff -> forall d, nrm (explain_window_spec node d name partition order offset) = render d (Node X_WindowDefinition (window_spec_children name tpart order toff)).
Proof. exact window_spec_is_tree. Qed.
Print Assumptions C04_window_spec_is_tree.

Theorem C04_window_spec_header_eq_direct_children :
  forall (node : nat -> expr -> list line) (name : list N) (partition : list expr) (order : list rose) (offset : option expr) (tpart toff : list rose),
  Ts node partition tpart -> To node offset toff -> forall d, header_count (explain_window_spec node d name partition order offset) = direct_children (explain_window_spec node d name partition order offset).
Proof. exact window_spec_counts_agree. Qed.
Print Assumptions C04_window_spec_header_eq_direct_children.

(* ---- literal_scalar ---- *)
Theorem C04_literal_scalar_is_tree :
  forall (ty : lit_type) (v : scalar) (lbl : list N),
  forall d, nrm (explain_literal_scalar d ty v lbl) = render d (literal_scalar_tree ty v lbl).
Proof. exact literal_scalar_is_tree. Qed.
Print Assumptions C04_literal_scalar_is_tree.

Theorem C04_literal_scalar_header_eq_direct_children :
  forall (ty : lit_type) (v : scalar) (lbl : list N),
  forall d, header_count (explain_literal_scalar d ty v lbl) = direct_children (explain_literal_scalar d ty v lbl).
Proof. exact literal_scalar_counts_agree. Qed.
Print Assumptions C04_literal_scalar_header_eq_direct_children.

(* ---- literal_list ---- *)
Theorem C04_literal_list_is_tree :
  forall (node : nat -> expr -> list line) (ty : lit_type) (es : list expr) (ts : list rose) (lbl : list N),
  Ts node es ts -> forall d, nrm (explain_literal_list node d ty es lbl) = render d (literal_list_tree (literal_list_format ty es) [] ts lbl).
Proof. exact literal_list_is_tree. Qed.
Print Assumptions C04_literal_list_is_tree.

Theorem C04_literal_list_header_eq_direct_children :
  forall (node : nat -> expr -> list line) (ty : lit_type) (es : list expr) (ts : list rose) (lbl : list N),
  Ts node es ts -> forall d, header_count (explain_literal_list node d ty es lbl) = direct_children (explain_literal_list node d ty es lbl).
Proof. exact literal_list_counts_agree. Qed.
Print Assumptions C04_literal_list_header_eq_direct_children.

(* ---- aliased_literal_list ---- *)
Theorem C04_aliased_literal_list_is_tree :
  forall (node : nat -> expr -> list line) (alias : list N) (ty : lit_type) (es : list expr) (ts : list rose) (lbl : list N),
  Ts node es ts -> forall d, nrm (explain_aliased_literal_list node alias d ty es lbl) = render d (literal_list_tree (aliased_literal_list_format ty es) (sfx alias) ts lbl).
Proof. exact aliased_literal_list_is_tree. Qed.
Print Assumptions C04_aliased_literal_list_is_tree.

Theorem C04_aliased_literal_list_header_eq_direct_children :
  forall (node : nat -> expr -> list line) (alias : list N) (ty : lit_type) (es : list expr) (ts : list rose) (lbl : list N),
  Ts node es ts -> forall d, header_count (explain_aliased_literal_list node alias d ty es lbl) = direct_children (explain_aliased_literal_list node alias d ty es lbl).
Proof. exact aliased_literal_list_counts_agree. Qed.
Print Assumptions C04_aliased_literal_list_header_eq_direct_children.

(* ---- with_literal_list ---- *)
Theorem C04_with_literal_list_is_tree :
  forall (node : nat -> expr -> list line) (name : list N) (ty : lit_type) (es : list expr) (ts : list rose) (lbl : list N),
  Ts node es ts -> forall d, nrm (explain_with_literal_list node name d ty es lbl) = render d (literal_list_tree (with_literal_list_format ty es) (opt_sfx name) ts lbl).
Proof. exact with_literal_list_is_tree. Qed.
Print Assumptions C04_with_literal_list_is_tree.

Theorem C04_with_literal_list_header_eq_direct_children :
  forall (node : nat -> expr -> list line) (name : list N) (ty : lit_type) (es : list expr) (ts : list rose) (lbl : list N),
  Ts node es ts -> forall d, header_count (explain_with_literal_list node name d ty es lbl) = direct_children (explain_with_literal_list node name d ty es lbl).
Proof. exact with_literal_list_counts_agree. Qed.
Print Assumptions C04_with_literal_list_header_eq_direct_children.

(* ---- binary ---- *)
Theorem C04_binary_is_tree :
  forall (node : nat -> expr -> list line) (op : binop) (l r : expr) (ts : list rose),
  Ts node (binary_operands op l r) ts -> forall d, nrm (explain_binary_expr node d op l r) = render d (fn_tree (L_Function (binop_fn op)) ts).
Proof. exact binary_is_tree. Qed.
Print Assumptions C04_binary_is_tree.

Theorem C04_binary_header_eq_direct_children :
  forall (node : nat -> expr -> list line) (op : binop) (l r : expr) (ts : list rose),
  Ts node (binary_operands op l r) ts -> forall d, header_count (explain_binary_expr node d op l r) = direct_children (explain_binary_expr node d op l r).
Proof. exact binary_counts_agree. Qed.
Print Assumptions C04_binary_header_eq_direct_children.

(* ---- aliased_binary ---- *)
Theorem C04_aliased_binary_is_tree :
  forall (node : nat -> expr -> list line) (alias : list N) (op : binop) (l r : expr) (ts : list rose),
  Ts node (binary_operands op l r) ts -> forall d, nrm (explain_aliased_binary node alias d op l r) = render d (fn_tree (L_Function (binop_fn op) ++ sfx alias) ts).
Proof. exact aliased_binary_is_tree. Qed.
Print Assumptions C04_aliased_binary_is_tree.

Theorem C04_aliased_binary_header_eq_direct_children :
  forall (node : nat -> expr -> list line) (alias : list N) (op : binop) (l r : expr) (ts : list rose),
  Ts node (binary_operands op l r) ts -> forall d, header_count (explain_aliased_binary node alias d op l r) = direct_children (explain_aliased_binary node alias d op l r).
Proof. exact aliased_binary_counts_agree. Qed.
Print Assumptions C04_aliased_binary_header_eq_direct_children.

(* ---- with_binary ---- *)
Theorem C04_with_binary_is_tree :
  forall (node : nat -> expr -> list line) (name : list N) (op : binop) (l r : expr) (ts : list rose),
  Ts node (binary_operands op l r) ts -> forall d, nrm (explain_with_binary node name d op l r) = render d (fn_tree (alias_lab (L_Function (binop_fn op)) name) ts).
Proof. exact with_binary_is_tree. Qed.
Print Assumptions C04_with_binary_is_tree.

Theorem C04_with_binary_header_eq_direct_children :
  forall (node : nat -> expr -> list line) (name : list N) (op : binop) (l r : expr) (ts : list rose),
  Ts node (binary_operands op l r) ts -> forall d, header_count (explain_with_binary node name d op l r) = direct_children (explain_with_binary node name d op l r).
Proof. exact with_binary_counts_agree. Qed.
Print Assumptions C04_with_binary_header_eq_direct_children.

(* ---- unary ---- *)
Theorem C04_unary_is_tree :
  forall (node : nat -> expr -> list line) (minus : bool) (fn : list N) (o : expr) (to : rose) (neg_lbl : list N),
  T node o to -> forall d, nrm (explain_unary_expr node d minus fn o neg_lbl) = render d (unary_tree (minus && unary_folds_plain o) [] fn to neg_lbl).
Proof. exact unary_is_tree. Qed.
Print Assumptions C04_unary_is_tree.

Theorem C04_unary_header_eq_direct_children :
  forall (node : nat -> expr -> list line) (minus : bool) (fn : list N) (o : expr) (to : rose) (neg_lbl : list N),
  T node o to -> forall d, header_count (explain_unary_expr node d minus fn o neg_lbl) = direct_children (explain_unary_expr node d minus fn o neg_lbl).
Proof. exact unary_counts_agree. Qed.
Print Assumptions C04_unary_header_eq_direct_children.

(* ---- aliased_unary ---- *)
Theorem C04_aliased_unary_is_tree :
  forall (node : nat -> expr -> list line) (alias : list N) (minus : bool) (fn : list N) (o : expr) (to : rose) (neg_lbl : list N),
  T node o to -> forall d, nrm (explain_aliased_unary node alias d minus fn o neg_lbl) = render d (unary_tree (minus && unary_folds_alias o) (sfx alias) fn to neg_lbl).
Proof. exact aliased_unary_is_tree. Qed.
Print Assumptions C04_aliased_unary_is_tree.

Theorem C04_aliased_unary_header_eq_direct_children :
  forall (node : nat -> expr -> list line) (alias : list N) (minus : bool) (fn : list N) (o : expr) (to : rose) (neg_lbl : list N),
  T node o to -> forall d, header_count (explain_aliased_unary node alias d minus fn o neg_lbl) = direct_children (explain_aliased_unary node alias d minus fn o neg_lbl).
Proof. exact aliased_unary_counts_agree. Qed.
Print Assumptions C04_aliased_unary_header_eq_direct_children.

(* ---- IN: the argument tally is the constant 2 in both printers (the "all string literals" branch of the aliased
        tally is dead: such a list is always folded into one tuple literal), and two children are printed ---- *)
Theorem C04_in_count_is_two :
  forall query items trailing, count_in_args_plain query items trailing = 2.
Proof. exact count_in_args_plain_2. Qed.
Print Assumptions C04_in_count_is_two.

Theorem C04_in_with_alias_count_is_two :
  forall query items trailing, count_in_args_alias query items trailing = 2.
Proof. exact count_in_args_alias_2. Qed.
Print Assumptions C04_in_with_alias_count_is_two.

Theorem C04_in_count_eq_emitted :
  forall node e te not global items query trailing lbl,
  T node e te -> Forall (Pdeep node) items ->
  exists ts, length ts = count_in_args_plain query items trailing /\
             forall d, emits (explain_in_expr node d e not global items query trailing lbl) d
                             [fn_tree (L_Function (in_fn not global)) ts].
Proof. exact in_emits. Qed.
Print Assumptions C04_in_count_eq_emitted.

Theorem C04_in_with_alias_count_eq_emitted :
  forall node alias e te not global items query trailing lbl,
  T node e te -> Forall (Pdeep node) items ->
  exists ts, length ts = count_in_args_alias query items trailing /\
             forall d, emits (explain_in_expr_with_alias node alias d e not global items query trailing lbl) d
                             [fn_tree (alias_lab (L_Function (in_fn not global)) alias) ts].
Proof. exact in_with_alias_emits. Qed.
Print Assumptions C04_in_with_alias_count_eq_emitted.

Theorem C04_in_is_tree :
  forall node e not global items query trailing lbl,
  P node e -> Forall (Pdeep node) items ->
  exists t, forall d, nrm (explain_in_expr node d e not global items query trailing lbl) = render d t.
Proof. exact in_is_tree. Qed.
Print Assumptions C04_in_is_tree.

Theorem C04_in_header_eq_direct_children :
  forall node e not global items query trailing lbl,
  P node e -> Forall (Pdeep node) items ->
  forall d, header_count (explain_in_expr node d e not global items query trailing lbl)
            = direct_children (explain_in_expr node d e not global items query trailing lbl).
Proof. exact in_counts_agree. Qed.
Print Assumptions C04_in_header_eq_direct_children.

Theorem C04_in_with_alias_is_tree :
  forall node alias e not global items query trailing lbl,
  P node e -> Forall (Pdeep node) items ->
  exists t, forall d, nrm (explain_in_expr_with_alias node alias d e not global items query trailing lbl) = render d t.
Proof. exact in_with_alias_is_tree. Qed.
Print Assumptions C04_in_with_alias_is_tree.

Theorem C04_in_with_alias_header_eq_direct_children :
  forall node alias e not global items query trailing lbl,
  P node e -> Forall (Pdeep node) items ->
  forall d, header_count (explain_in_expr_with_alias node alias d e not global items query trailing lbl)
            = direct_children (explain_in_expr_with_alias node alias d e not global items query trailing lbl).
Proof. exact in_with_alias_counts_agree. Qed.
Print Assumptions C04_in_with_alias_header_eq_direct_children.

(* ---- function calls: the two tallies of the generic printer; the whole printer with handleSpecialFunction ---- *)
Theorem C04_function_generic_count_eq_emitted :
  forall node alias cls fn params args settings distinct filter over,
  Forall (P node) args -> Po node filter -> match params with Some ps => Forall (P node) ps | None => True end ->
  exists targs tparams,
    length targs = count_function_args args filter settings /\
    length (T_EL targs :: tparams) = count_function_children params over /\
    forall d, nrm (explain_function_generic node alias d cls fn params args settings distinct filter over)
              = render d (Node (alias_lab (L_Function (function_label fn distinct filter)) alias) (T_EL targs :: tparams)).
Proof. exact function_generic_count_eq_emitted. Qed.
Print Assumptions C04_function_generic_count_eq_emitted.

Theorem C04_function_call_is_tree :
  forall node norm_unit alias cls fn params args settings distinct filter over sqlstd,
  Forall (Pfn node) args -> Po node filter -> match params with Some ps => Forall (P node) ps | None => True end ->
  exists t, forall d,
    nrm (explain_function_call_with_alias node norm_unit alias d cls fn params args settings distinct filter over sqlstd)
    = render d t.
Proof. exact function_call_is_tree. Qed.
Print Assumptions C04_function_call_is_tree.

Theorem C04_function_call_header_eq_direct_children :
  forall node norm_unit alias cls fn params args settings distinct filter over sqlstd,
  Forall (Pfn node) args -> Po node filter -> match params with Some ps => Forall (P node) ps | None => True end ->
  forall d,
    header_count (explain_function_call_with_alias node norm_unit alias d cls fn params args settings distinct filter over sqlstd)
    = direct_children (explain_function_call_with_alias node norm_unit alias d cls fn params args settings distinct filter over sqlstd).
Proof. exact function_call_counts_agree. Qed.
Print Assumptions C04_function_call_header_eq_direct_children.

(* ---- column transformers, Asterisk, ColumnsMatcher: EQUIVALENCE with the condition on the transformer types ---- *)
Theorem C04_columns_transformers_header_eq_direct_children :
  forall node transformers except replace apply d,
  Forall (Ptr node) transformers -> Forall (Po node) replace ->
  (header_count (explain_columns_transformers node d transformers except replace apply)
   = direct_children (explain_columns_transformers node d transformers except replace apply)
   <-> transformers_known transformers = true).
Proof. exact columns_transformers_counts_iff. Qed.
Print Assumptions C04_columns_transformers_header_eq_direct_children.

Theorem C04_columns_transformers_not_tree_outside_condition :
  forall node transformers except replace apply,
  transformers_known transformers = false -> Forall (Ptr node) transformers -> Forall (Po node) replace ->
  forall d d' t, nrm (explain_columns_transformers node d transformers except replace apply) <> render d' t.
Proof. exact columns_transformers_not_tree. Qed.
Print Assumptions C04_columns_transformers_not_tree_outside_condition.

Theorem C04_asterisk_is_tree :
  forall node table except replace apply transformers,
  transformers_known transformers = true -> Forall (Ptr node) transformers -> Forall (Po node) replace ->
  exists t, forall d, nrm (explain_asterisk node d table except replace apply transformers) = render d t.
Proof. exact asterisk_is_tree. Qed.
Print Assumptions C04_asterisk_is_tree.

Theorem C04_asterisk_header_eq_direct_children :
  forall node table except replace apply transformers,
  transformers_known transformers = true -> Forall (Ptr node) transformers -> Forall (Po node) replace ->
  forall d, header_count (explain_asterisk node d table except replace apply transformers)
            = direct_children (explain_asterisk node d table except replace apply transformers).
Proof. exact asterisk_counts_agree. Qed.
Print Assumptions C04_asterisk_header_eq_direct_children.

Theorem C04_asterisk_not_tree_outside_condition :
  forall node except replace apply transformers,
  transformers_known transformers = false -> Forall (Ptr node) transformers -> Forall (Po node) replace ->
  forall d t, nrm (explain_asterisk node d [] except replace apply transformers) <> render d t.
Proof. exact asterisk_not_tree_outside_condition. Qed.
Print Assumptions C04_asterisk_not_tree_outside_condition.

Theorem C04_asterisk_unknown_transformer_refuted :
  inv_exprb (EAsterisk [] [] [] 0 [(3, false, [], [])]) = false
  /\ check_lines (enode idu 0 (EAsterisk [] [] [] 0 [(3, false, [], [])])) = false
  /\ header_count (explain_columns_transformers (enode idu) 1 [(3, false, [], [])] [] [] 0) = 1
  /\ direct_children (explain_columns_transformers (enode idu) 1 [(3, false, [], [])] [] [] 0) = 0.
Proof. exact asterisk_unknown_transformer_refuted. Qed.
Print Assumptions C04_asterisk_unknown_transformer_refuted.

Theorem C04_columns_matcher_is_tree :
  forall node qualifier columns except replace apply transformers,
  transformers_known transformers = true -> Forall (Ptr node) transformers -> Forall (Po node) replace ->
  Forall (P node) columns ->
  exists t, forall d, nrm (explain_columns_matcher node d qualifier columns except replace apply transformers) = render d t.
Proof. exact columns_matcher_is_tree. Qed.
Print Assumptions C04_columns_matcher_is_tree.

Theorem C04_columns_matcher_header_eq_direct_children :
  forall node qualifier columns except replace apply transformers,
  transformers_known transformers = true -> Forall (Ptr node) transformers -> Forall (Po node) replace ->
  Forall (P node) columns ->
  forall d, header_count (explain_columns_matcher node d qualifier columns except replace apply transformers)
            = direct_children (explain_columns_matcher node d qualifier columns except replace apply transformers).
Proof. exact columns_matcher_counts_agree. Qed.
Print Assumptions C04_columns_matcher_header_eq_direct_children.

(* ======================================================================================== *)
(** * Part 2: aliased twin = plain printer with " (alias a)" on the root line ([alias_root]); where not, how *)

Theorem C04_aliased_binary_is_plain_with_alias :
  forall node (a : list N) d op l r,
  explain_aliased_binary node a d op l r = alias_root a (explain_binary_expr node d op l r).
Proof. exact aliased_binary_is_plain. Qed.
Print Assumptions C04_aliased_binary_is_plain_with_alias.

Theorem C04_with_binary_is_plain_with_alias :
  forall node (a : list N), nonempty a = true ->
  forall d op l r,
  explain_with_binary node a d op l r = alias_root a (explain_binary_expr node d op l r)
  /\ explain_with_binary node [] d op l r = explain_binary_expr node d op l r.
Proof. exact with_binary_is_plain. Qed.
Print Assumptions C04_with_binary_is_plain_with_alias.

Theorem C04_aliased_ternary_is_plain_with_alias :
  forall node (a : list N) d c t e,
  explain_aliased_ternary node a d c t e = alias_root a (explain_ternary_expr node d c t e).
Proof. exact aliased_ternary_is_plain. Qed.
Print Assumptions C04_aliased_ternary_is_plain_with_alias.

Theorem C04_with_ternary_is_plain_with_alias :
  forall node (a : list N), nonempty a = true ->
  forall d c t e,
  explain_with_ternary node a d c t e = alias_root a (explain_ternary_expr node d c t e)
  /\ explain_with_ternary node [] d c t e = explain_ternary_expr node d c t e.
Proof. exact with_ternary_is_plain. Qed.
Print Assumptions C04_with_ternary_is_plain_with_alias.

Theorem C04_array_access_with_alias_is_plain_with_alias :
  forall node (a : list N), nonempty a = true ->
  forall d x i,
  explain_array_access_with_alias node a d x i = alias_root a (explain_array_access node d x i)
  /\ explain_array_access_with_alias node [] d x i = explain_array_access node d x i.
Proof. exact array_access_with_alias_is_plain. Qed.
Print Assumptions C04_array_access_with_alias_is_plain_with_alias.

Theorem C04_tuple_access_with_alias_is_plain_with_alias :
  forall node (a : list N), nonempty a = true ->
  forall d x i,
  explain_tuple_access_with_alias node a d x i = alias_root a (explain_tuple_access node d x i)
  /\ explain_tuple_access_with_alias node [] d x i = explain_tuple_access node d x i.
Proof. exact tuple_access_with_alias_is_plain. Qed.
Print Assumptions C04_tuple_access_with_alias_is_plain_with_alias.

Theorem C04_like_with_alias_is_plain_with_alias :
  forall node (a : list N), nonempty a = true ->
  forall d e p not ci,
  explain_like_expr_with_alias node a d e p not ci = alias_root a (explain_like_expr node d e p not ci [])
  /\ forall own, explain_like_expr_with_alias node own d e p not ci = explain_like_expr node d e p not ci own.
Proof. exact like_with_alias_is_plain. Qed.
Print Assumptions C04_like_with_alias_is_plain_with_alias.

Theorem C04_between_with_alias_is_plain_with_alias :
  forall node (a : list N), nonempty a = true ->
  forall d e lo hi not,
  explain_between_expr_with_alias node a d e lo hi not = alias_root a (explain_between_expr node d e lo hi not)
  /\ explain_between_expr_with_alias node [] d e lo hi not = explain_between_expr node d e lo hi not.
Proof. exact between_with_alias_is_plain. Qed.
Print Assumptions C04_between_with_alias_is_plain_with_alias.

Theorem C04_aliased_identifier_is_plain_with_alias :
  forall (a : list N) d name own,
  [leaf d (L_Identifier name ++ sfx a)] = alias_root a (explain_identifier d name [])
  /\ (nonempty own = true -> explain_identifier d name own = alias_root own (explain_identifier d name [])).
Proof. exact aliased_identifier_is_plain. Qed.
Print Assumptions C04_aliased_identifier_is_plain_with_alias.

Theorem C04_aliased_parameter_is_plain_with_alias :
  forall (a : list N) d name ty,
  explain_parameter_aliased a d name ty = alias_root a (explain_parameter d name ty).
Proof. exact aliased_parameter_is_plain. Qed.
Print Assumptions C04_aliased_parameter_is_plain_with_alias.

Theorem C04_aliased_unary_is_plain_with_alias :
  forall node (a : list N) d minus fn o lbl,
  (minus && bigint_string_operand o) = false ->
  explain_aliased_unary node a d minus fn o lbl = alias_root a (explain_unary_expr node d minus fn o lbl).
Proof. exact aliased_unary_is_plain. Qed.
Print Assumptions C04_aliased_unary_is_plain_with_alias.

Theorem C04_aliased_unary_drift_refuted :
  forall node (a : list N) d fn lbl nl s,
  s_float s = true ->
  explain_unary_expr node d true fn (ELit LString false true (VStr s) lbl) nl = [leaf d (X_Literal nl)]
  /\ explain_aliased_unary node a d true fn (ELit LString false true (VStr s) lbl) nl
     = hdr d (L_Function fn ++ sfx a) 1 :: hdr (S d) L_ExpressionList 1 :: node (S (S d)) (ELit LString false true (VStr s) lbl).
Proof. exact aliased_unary_drift_refuted. Qed.
Print Assumptions C04_aliased_unary_drift_refuted.

Theorem C04_aliased_literal_is_plain_with_alias :
  forall node (a : list N) d ty es lbl,
  aliased_literal_list_format ty es = literal_list_format ty es ->
  explain_aliased_literal_list node a d ty es lbl = alias_root a (explain_literal_list node d ty es lbl).
Proof. exact aliased_literal_list_is_plain. Qed.
Print Assumptions C04_aliased_literal_is_plain_with_alias.

Theorem C04_with_literal_is_plain_with_alias :
  forall node (a : list N), nonempty a = true ->
  forall d ty es lbl,
  with_literal_list_format ty es = literal_list_format ty es ->
  explain_with_literal_list node a d ty es lbl = alias_root a (explain_literal_list node d ty es lbl)
  /\ explain_with_literal_list node [] d ty es lbl = explain_literal_list node d ty es lbl.
Proof. exact with_literal_list_is_plain. Qed.
Print Assumptions C04_with_literal_is_plain_with_alias.

Theorem C04_aliased_literal_drift_single_tuple_refuted :
  enode idu 0 (ELitList LTuple false [W_int] (bytes_of "T"))
  = [hdr 0 (L_Function F_tuple) 1; hdr 1 L_ExpressionList 1; leaf 2 (X_Literal (bytes_of "1"))]
  /\ enode idu 0 (EAliased (ELitList LTuple false [W_int] (bytes_of "T")) W_al)
     = [leaf 0 (X_Literal (bytes_of "T") ++ sfx W_al)].
Proof. exact aliased_literal_drift_single_tuple. Qed.
Print Assumptions C04_aliased_literal_drift_single_tuple_refuted.

Theorem C04_aliased_literal_drift_negative_element_refuted :
  literal_list_format LTuple [W_int; EUnary true (bytes_of "negate") W_int] = None
  /\ aliased_literal_list_format LTuple [W_int; EUnary true (bytes_of "negate") W_int] = Some F_tuple.
Proof. exact aliased_literal_drift_negative_element. Qed.
Print Assumptions C04_aliased_literal_drift_negative_element_refuted.

Theorem C04_in_with_alias_is_plain_with_alias :
  forall node (a : list N), nonempty a = true ->
  forall d e not global items query trailing lbl,
  explain_in_rhs_alias node (S (S d)) items query trailing lbl = explain_in_rhs node (S (S d)) items query trailing lbl ->
  explain_in_expr_with_alias node a d e not global items query trailing lbl
  = alias_root a (explain_in_expr node d e not global items query trailing lbl).
Proof. exact in_with_alias_is_plain. Qed.
Print Assumptions C04_in_with_alias_is_plain_with_alias.

Theorem C04_aliased_in_drift_single_tuple_refuted :
  let tup := ELitList LTuple false [W_int; W_int] (bytes_of "T") in
  explain_in_rhs (enode idu) 2 [tup] None false (bytes_of "_")
  = [hdr 2 (L_Function F_tuple) 1; hdr 3 L_ExpressionList 1; leaf 4 (X_Literal (bytes_of "T"))]
  /\ explain_in_rhs_alias (enode idu) 2 [tup] None false (bytes_of "_") = [leaf 2 (X_Literal (bytes_of "_"))].
Proof. exact aliased_in_drift_single_tuple. Qed.
Print Assumptions C04_aliased_in_drift_single_tuple_refuted.

Theorem C04_is_null_alias_is_annotation :
  forall node (a : list N), nonempty a = true ->
  forall d e not,
  explain_is_null_expr_with_alias node a d e not = alias_root a (explain_is_null_expr_with_alias node [] d e not).
Proof. exact is_null_alias. Qed.
Print Assumptions C04_is_null_alias_is_annotation.

Theorem C04_case_alias_is_annotation :
  forall node (a : list N), nonempty a = true ->
  forall d operand whens els,
  explain_case_expr_with_alias node a d operand whens els
  = alias_root a (explain_case_expr_with_alias node [] d operand whens els).
Proof. exact case_alias. Qed.
Print Assumptions C04_case_alias_is_annotation.

Theorem C04_extract_alias_is_annotation :
  forall node (a : list N), nonempty a = true ->
  forall d fn from,
  explain_extract_expr_with_alias node a d fn from = alias_root a (explain_extract_expr_with_alias node [] d fn from).
Proof. exact extract_alias. Qed.
Print Assumptions C04_extract_alias_is_annotation.

Theorem C04_lambda_alias_is_annotation :
  forall node (a : list N), nonempty a = true ->
  forall d params body,
  explain_lambda_with_alias node a d params body = alias_root a (explain_lambda_with_alias node [] d params body).
Proof. exact lambda_alias. Qed.
Print Assumptions C04_lambda_alias_is_annotation.

Theorem C04_cast_alias_is_annotation :
  forall node (a : list N), nonempty a = true ->
  forall d e te tl ops ll,
  explain_cast_expr_with_alias node a d e te tl ops ll
  = alias_root a (explain_cast_expr_with_alias node [] d e te tl ops ll).
Proof. exact cast_alias. Qed.
Print Assumptions C04_cast_alias_is_annotation.

Theorem C04_exists_alias_is_annotation :
  forall (a : list N), nonempty a = true -> forall d q,
  explain_exists_expr_with_alias a d q = alias_root a (explain_exists_expr_with_alias [] d q).
Proof. exact exists_alias. Qed.
Print Assumptions C04_exists_alias_is_annotation.

Theorem C04_subquery_alias_is_annotation :
  forall (a : list N), nonempty a = true -> forall d q,
  explain_subquery d q a = alias_root a (explain_subquery d q []).
Proof. exact subquery_alias. Qed.
Print Assumptions C04_subquery_alias_is_annotation.

Theorem C04_interval_alias_is_annotation :
  forall node norm_unit (a : list N), nonempty a = true -> forall d value unit,
  explain_interval_expr node norm_unit a d value unit = alias_root a (explain_interval_expr node norm_unit [] d value unit).
Proof. exact interval_alias. Qed.
Print Assumptions C04_interval_alias_is_annotation.

Theorem C04_function_call_alias_is_annotation_or_dropped :
  forall node norm_unit (a : list N), nonempty a = true ->
  forall d cls fn params args settings distinct filter over sqlstd,
  explain_function_call_with_alias node norm_unit a d cls fn params args settings distinct filter over sqlstd
  = if match handle_special_function node norm_unit [] d cls args sqlstd with
       | Some _ => special_drops_alias cls args sqlstd | None => false end
    then explain_function_call_with_alias node norm_unit [] d cls fn params args settings distinct filter over sqlstd
    else alias_root a (explain_function_call_with_alias node norm_unit [] d cls fn params args settings distinct filter over sqlstd).
Proof. exact function_call_alias. Qed.
Print Assumptions C04_function_call_alias_is_annotation_or_dropped.

Theorem C04_aliased_default_drops_alias :
  forall norm_unit d e a,
  aliased_default e = true -> enode norm_unit d (EAliased e a) = enode norm_unit d e.
Proof. exact aliased_default_drops_alias. Qed.
Print Assumptions C04_aliased_default_drops_alias.

Theorem C04_aliased_between_is_plain_with_alias :
  forall norm_unit d e lo hi not a,
  nonempty a = true ->
  enode norm_unit d (EAliased (EBetween e lo hi not) a) = alias_root a (enode norm_unit d (EBetween e lo hi not)).
Proof. exact aliased_between_is_plain. Qed.
Print Assumptions C04_aliased_between_is_plain_with_alias.

Theorem C04_aliased_like_is_plain_with_alias :
  forall norm_unit d e p not ci own a,
  nonempty a = true ->
  enode norm_unit d (EAliased (ELike e p not ci own) a) = alias_root a (enode norm_unit d (ELike e p not ci [])).
Proof. exact aliased_like_is_plain. Qed.
Print Assumptions C04_aliased_like_is_plain_with_alias.

Theorem C04_with_default_drops_name :
  forall norm_unit d e n sc,
  with_default e = true -> enode norm_unit d (EWith n e sc) = enode norm_unit d e.
Proof. exact with_default_drops_name. Qed.
Print Assumptions C04_with_default_drops_name.

(* ======================================================================================== *)
(** * Part 3: Node on expressions -- no hypothesis on sub-printers left *)

Theorem C04_expr_is_tree :
  forall norm_unit e, inv_expr e -> exists t, forall d, nrm (enode norm_unit d e) = render d t.
Proof. exact enode_tree. Qed.
Print Assumptions C04_expr_is_tree.

Theorem C04_expr_check_lines :
  forall norm_unit e, inv_expr e -> check_lines (enode norm_unit 0 e) = true.
Proof. exact enode_check_lines. Qed.
Print Assumptions C04_expr_check_lines.

Theorem C04_expr_header_eq_direct_children :
  forall norm_unit e d,
  inv_expr e -> header_count (enode norm_unit d e) = direct_children (enode norm_unit d e).
Proof. exact enode_counts_agree. Qed.
Print Assumptions C04_expr_header_eq_direct_children.

Theorem C04_aliased_expr_is_tree :
  forall norm_unit e alias lbl,
  inv_expr e -> exists t, forall d, nrm (explain_aliased_expr (enode norm_unit) norm_unit d e alias lbl) = render d t.
Proof. exact aliased_expr_is_tree. Qed.
Print Assumptions C04_aliased_expr_is_tree.

Theorem C04_with_element_is_tree :
  forall norm_unit e name sc lbl,
  inv_expr e -> exists t, forall d, nrm (explain_with_element (enode norm_unit) norm_unit d name e sc lbl) = render d t.
Proof. exact with_element_is_tree. Qed.
Print Assumptions C04_with_element_is_tree.

(* the hypothesis of Part 3 is satisfiable by a non-trivial object *)
Example C04_expr_hypotheses_satisfiable :
  inv_expr (EAliased (EFunc NPlain (bytes_of "f") (Some [W_int])
                            [EBin OpAnd false (EIdent (bytes_of "a") []) (EIn (EIdent (bytes_of "b") []) false false [W_int; W_int] None false);
                             EAsterisk [] [] [] 0 [(1, false, [bytes_of "c"], [])]]
                            false true None None [] false) W_al).
Proof. exact inv_expr_example. Qed.
