(* C18 -- type expressions print canonically in both cast positions.

   Spec:   Expr/TypeSpec.v  (ty / arg, canon_ty, shown = \' esc (esc (canon_ty t)) \', print_ty, wf_ty, follow_ok,
                             code_ok = the conjunction of the four restrictions F1..F4 under which TODAY's code is right)
   Model:  Expr/TypeModel.v (parseDataType + parameter fragment of parseExpression, parseCast `AS` form,
                             parseCastOperator, FormatDataType + helpers, the type line of explainCastExprWithAlias)
   Proofs: Expr/TypeProof.v
   Tie:    /verif/harness/cmd/typedump (real parser + Explain) vs /verif/driver/types (extracted model and spec)
           on /verif/checks/gen_type_cases.py.

   FULL STATEMENT of the property over the model (for every wf_ty t, without code_ok):
     forall t, wf_ty t = true ->
       (forall fuel vas rest, fuel_ty t <= fuel ->
          cast_as_text fuel ((T_AS, vas) :: print_ty t ++ t_rparen :: rest) = Ok (shown t, rest)) /\
       (forall fuel vcc rest, fuel_ty t <= fuel -> follow_ok rest = true ->
          cast_op_text fuel ((T_COLONCOLON, vcc) :: print_ty t ++ rest) = Ok (shown t, rest))
   It is REFUTED for today's code (C18_refuted, witnesses C18_refuted_F1..F4); what is proved is the statement
   with the extra hypothesis code_ok t = true (C18_partial, C18_driver_partial): every nesting depth, every
   argument count, every constructor of the property, every separator spelling (erased tokens). *)
From Coq Require Import List NArith Bool Strings.String.
From DC Require Import Base.Item Gen.TokenTable Expr.TypeBase Expr.TypeSpec Expr.TypeModel Expr.TypeProof.
Import ListNotations.

Theorem C18_partial :
  forall t, wf_ty t = true -> code_ok t = true ->
  (forall fuel vas rest, (fuel_ty t <= fuel)%nat ->
     cast_as_text fuel ((T_AS, vas) :: print_ty t ++ t_rparen :: rest) = Ok (shown t, rest)) /\
  (forall fuel vcc rest, (fuel_ty t <= fuel)%nat -> follow_ok rest = true ->
     cast_op_text fuel ((T_COLONCOLON, vcc) :: print_ty t ++ rest) = Ok (shown t, rest)).
Proof. exact C18_casts_partial. Qed.
Print Assumptions C18_partial.

(* over lexer items: whitespace, comments and positions are what [erase] forgets *)
Theorem C18_items_partial :
  forall t, wf_ty t = true -> code_ok t = true ->
  forall fuel (its_as its_op : list item) vas vcc rest_as rest_op,
  (fuel_ty t <= fuel)%nat -> follow_ok rest_op = true ->
  erase its_as = (T_AS, vas) :: print_ty t ++ t_rparen :: rest_as ->
  erase its_op = (T_COLONCOLON, vcc) :: print_ty t ++ rest_op ->
  cast_as_text fuel (erase its_as) = Ok (shown t, rest_as) /\
  cast_op_text fuel (erase its_op) = Ok (shown t, rest_op).
Proof. exact TypeProof.C18_items_partial. Qed.
Print Assumptions C18_items_partial.

(* the functions the correspondence driver runs, with their own fuel and input checks *)
Theorem C18_driver_partial :
  forall t, wf_ty t = true -> code_ok t = true ->
  forall toks, drop_eof (strip_trivia toks) = print_ty t ->
  run_cast_as toks = Ok (shown t) /\ run_cast_op toks = Ok (shown t).
Proof. exact C18_run_partial. Qed.
Print Assumptions C18_driver_partial.

(* the parser returns the tree and the printer prints the canonical text (the two halves) *)
Theorem C18_parse_print :
  forall t fuel rest,
  wf_ty t = true -> code_ok t = true -> follow_ok rest = true -> (fuel_ty t <= fuel)%nat ->
  parse_dt fuel (print_ty t ++ rest) = Ok (Some (expect_dt t), rest) /\
  fmt_dt (expect_dt t) = esc (esc (canon_ty t)).
Proof. exact parse_and_print. Qed.
Print Assumptions C18_parse_print.

(* Go's escapeStringLiteral is the one-level escape applied twice: the literal layer of the spec *)
Theorem C18_literal_layer : forall s, escape_string_literal s = esc (esc s).
Proof. exact escape_string_literal_is_esc2. Qed.
Print Assumptions C18_literal_layer.

(* the unrestricted statement fails for today's code *)
Theorem C18_refuted :
  ~ (forall t, wf_ty t = true ->
       run_cast_as (print_ty t ++ [eof_tok]) = Ok (shown t) /\ run_cast_op (print_ty t ++ [eof_tok]) = Ok (shown t)).
Proof. exact C18_full_refuted. Qed.
Print Assumptions C18_refuted.

Theorem C18_refuted_witnesses : refutes wit_F1 /\ refutes wit_F2 /\ refutes wit_F3 /\ refutes wit_F4.
Proof. exact refuted_witnesses. Qed.
Print Assumptions C18_refuted_witnesses.

(* the hypotheses are satisfiable by a non-trivial object: depth 5, named tuple, Enum with a backslash and a
   negative value, DateTime64 with a time zone, Decimal(p, s) *)
Example C18_example :
  wf_ty example_ty = true /\ code_ok example_ty = true /\
  canon_ty example_ty =
    B "Map(String, Array(Tuple(a Nullable(DateTime64(3, 'UTC')), b Enum8('x\\y' = -1, 'z' = 2), Decimal(10, 2))))"%string /\
  shown example_ty =
    B "\'Map(String, Array(Tuple(a Nullable(DateTime64(3, \\\'UTC\\\')), b Enum8(\\\'x\\\\\\\\y\\\' = -1, \\\'z\\\' = 2), Decimal(10, 2))))\'"%string.
Proof. exact example_ok. Qed.
Print Assumptions C18_example.
