(* C18 -- type expressions print canonically in both cast positions.

   Spec:   Expr/TypeSpec.v  (ty / arg, canon_ty, shown = \' esc (esc (canon_ty t)) \', print_ty, wf_ty, follow_ok)
   Model:  Expr/TypeModel.v (parseDataType + parameter fragment of parseExpression, parseCast `AS` form,
                             parseCastOperator, FormatDataType + helpers, the type line of explainCastExprWithAlias)
   Proofs: Expr/TypeProof.v
   Tie:    /verif/harness/cmd/typedump (real parser + Explain) vs /verif/driver/types (extracted model and spec)
           on /verif/checks/gen_type_cases.py.

   The property holds at full strength over wf_ty: every nesting depth, every argument count, every constructor
   of the property (and every other name isDataTypeName knows except INT / JSON / OBJECT), every byte string as a
   string argument or Enum value, every separator spelling (erased tokens).  The four former counterexamples
   (findings F1..F4, fixed in /repo by 32c2210d9 1efc0f566 42e55a7bf 85b302a0b) are Examples below.
   wf_ty keeps one restriction that the code really needs (TypeSpec.elem_name_ok): a tuple element NAME that
   isDataTypeName knows must be followed by a type whose first name isDataTypeName also knows;
   `Tuple(date LineString)` is still a parse error (C18_residual). *)
From Coq Require Import List NArith Bool Strings.String.
From DC Require Import Base.Item Gen.TokenTable Expr.TypeBase Expr.TypeSpec Expr.TypeModel Expr.TypeProof.
Import ListNotations.

Theorem C18 :
  forall t, wf_ty t = true ->
  (forall fuel vas rest, (fuel_ty t <= fuel)%nat ->
     cast_as_text fuel ((T_AS, vas) :: print_ty t ++ t_rparen :: rest) = Ok (shown t, rest)) /\
  (forall fuel vcc rest, (fuel_ty t <= fuel)%nat -> follow_ok rest = true ->
     cast_op_text fuel ((T_COLONCOLON, vcc) :: print_ty t ++ rest) = Ok (shown t, rest)).
Proof. exact C18_casts. Qed.
Print Assumptions C18.

(* over lexer items: whitespace, comments and positions are what [erase] forgets *)
Theorem C18_items :
  forall t, wf_ty t = true ->
  forall fuel (its_as its_op : list item) vas vcc rest_as rest_op,
  (fuel_ty t <= fuel)%nat -> follow_ok rest_op = true ->
  erase its_as = (T_AS, vas) :: print_ty t ++ t_rparen :: rest_as ->
  erase its_op = (T_COLONCOLON, vcc) :: print_ty t ++ rest_op ->
  cast_as_text fuel (erase its_as) = Ok (shown t, rest_as) /\
  cast_op_text fuel (erase its_op) = Ok (shown t, rest_op).
Proof. exact TypeProof.C18_items. Qed.
Print Assumptions C18_items.

(* the functions the correspondence driver runs, with their own fuel and input checks *)
Theorem C18_driver :
  forall t, wf_ty t = true ->
  forall toks, drop_eof (strip_trivia toks) = print_ty t ->
  run_cast_as toks = Ok (shown t) /\ run_cast_op toks = Ok (shown t).
Proof. exact C18_run. Qed.
Print Assumptions C18_driver.

(* the parser returns the tree and the printer prints the canonical text (the two halves) *)
Theorem C18_parse_print :
  forall t fuel rest,
  wf_ty t = true -> follow_ok rest = true -> (fuel_ty t <= fuel)%nat ->
  parse_dt fuel (print_ty t ++ rest) = Ok (Some (expect_dt t), rest) /\
  fmt_dt (expect_dt t) = esc (esc (canon_ty t)).
Proof. exact parse_and_print. Qed.
Print Assumptions C18_parse_print.

(* Go's escapeStringLiteral is the one-level escape applied twice, escapeStringForTypeParam three times *)
Theorem C18_literal_layer : forall s, escape_string_literal s = esc (esc s).
Proof. exact escape_string_literal_is_esc2. Qed.
Print Assumptions C18_literal_layer.

Theorem C18_type_param_layer : forall s, escape_type_param s = esc (esc (esc s)).
Proof. exact escape_type_param_esc3. Qed.
Print Assumptions C18_type_param_layer.

(* the former counterexamples: DateTime('it's'), Enum8('it's' = 1), Tuple(LineString, String), Tuple(date Array(Int32)) *)
Example C18_former_findings_fixed :
  shows wit_F1 (B "\'DateTime(\\\'it\\\\\\\'s\\\')\'"%string) /\
  shows wit_F2 (B "\'Enum8(\\\'it\\\\\\\'s\\\' = 1)\'"%string) /\
  shows wit_F3 (B "\'Tuple(LineString, String)\'"%string) /\
  shows wit_F4 (B "\'Tuple(date Array(Int32))\'"%string).
Proof. exact former_findings_fixed. Qed.
Print Assumptions C18_former_findings_fixed.

(* the residual restriction of wf_ty is needed: Tuple(date LineString) is not wf and is a parse error in both positions *)
Example C18_residual :
  wf_ty residual_ty = false /\
  run_cast_as (print_ty residual_ty ++ [eof_tok]) = ParseErr /\
  run_cast_op (print_ty residual_ty ++ [eof_tok]) = ParseErr.
Proof. exact residual_named_elem. Qed.
Print Assumptions C18_residual.

(* the hypotheses are satisfiable by a non-trivial object: depth 6, named tuple with an element name that is a
   type name before the keyword Array, an unknown plain type name inside a Tuple, Enum values with a backslash,
   a quote and a negative number, DateTime64 with a time zone, Decimal(p, s) *)
Example C18_example :
  wf_ty example_ty = true /\
  canon_ty example_ty =
    B "Map(String, Array(Tuple(a Nullable(DateTime64(3, 'UTC')), date Array(Enum8('x\\y' = -1, 'it\'s' = 2)), LineString, Decimal(10, 2))))"%string /\
  shown example_ty =
    B "\'Map(String, Array(Tuple(a Nullable(DateTime64(3, \\\'UTC\\\')), date Array(Enum8(\\\'x\\\\\\\\y\\\' = -1, \\\'it\\\\\\\'s\\\' = 2)), LineString, Decimal(10, 2))))\'"%string.
Proof. exact example_ok. Qed.
Print Assumptions C18_example.
