(* C04 (part D) -- the "(children N)" headers of the statement printers of /repo/internal/explain
   outside the SELECT and DDL models equal the number of children they emit, for EVERY combination of
   optional fields, variant tags and list lengths -- unconditionally, or exactly under the stated
   conditions, which are equivalences -- hence the output is a well-formed tree ([check_lines]).

   Printers: statements.go explainInsertQuery, explainDropQuery, explainUndropQuery, explainRenameQuery,
   explainExchangeQuery, explainTruncateQuery, explainOptimizeQuery, explainDeleteQuery,
   explainCheckQuery, explainUseQuery, explainDescribeQuery, explainExistsTableQuery, explainShowQuery,
   explainSystemQuery, explainExplainQuery, explainDetachQuery, explainAttachQuery (main tally,
   "Columns definition", "Storage definition"), explainBackupQuery, explainRestoreQuery,
   explainKillQuery, explainCreateIndexQuery, explainAssignment, explainUpdateQuery,
   explainParallelWithQuery; explain.go the statements Node prints inline (single-line ones, the
   "optional FORMAT child" ones, CreateResourceQuery, CreateWorkloadQuery); dictionary.go (attribute
   declaration, definition, source, key-value pair, layout, lifetime, range); tables.go
   (TablesInSelectQuery, TablesInSelectQueryElement, TableExpression with SAMPLE and the EXPLAIN
   table source, ArrayJoin, TableJoin).
   Model: Stmt/StmtExplainModel.v (count code and emit code transcribed separately, as in Go;
   /repo revision a86ab771a).  Proofs: Stmt/StmtExplainProof.v.  Tie to the code:
   /verif/harness/cmd/stmtcount vs /verif/driver/stmtcount on /verif/checks/gen_stmt_cases.py.

   Shape of the statements.  For a printer X, [X_printed x] is the label, the number in the header
   and the list of trees printed directly beneath it; [p_tree] makes the tree of it.
     C04_X_count_eq_emitted            p_count = length p_children           (or: inv <-> ...)
     C04_X_header_eq_direct_children   on the printed lines                  (or: ... <-> inv)
     C04_X_is_tree                     nrm (explain_X d x) = render d (p_tree (X_printed x))
     C04_X_check_lines                 the verified checker accepts the lines
     C04_X_not_tree_outside_condition  (conditional printers) outside inv the lines are a tree at no depth

   Assumed about callees (each such call prints exactly one rooted tree at the given depth):
   Node(sb, x, d) for expressions, data types, table identifiers and nested statements
   (Node(sb, nil, d) prints [nil_tree]); explainFunctionCall / explainFunctionCallWithAlias; the
   inherited-WITH recursion for a non-union statement under INSERT.  NOT assumed: the SELECT printers
   under INSERT and EXPLAIN (the Select model, hypotheses inv_insert / inv_explain = inv_union of
   C04_select), Column and Index under ATTACH (the Ddl model, unconditional).  List members are
   non-nil pointers; typed-nil statements are outside the model.

   The conditions and where the parser stands (none is violated by a valid ClickHouse statement):
     inv_system        not (FLUSH LOGS with SETTINGS and a database or table name): the tally skips
                       the names of FLUSH LOGS, the emission does not.  Parser: accepts
                       `SYSTEM FLUSH LOGS system.query_log SETTINGS a = 1` (ClickHouse takes SETTINGS
                       only after SYSTEM FLUSH DISTRIBUTED).
     inv_update_count  Where != nil (`children := 3`).  Parser: accepts `UPDATE t SET a = 1`
                       (ClickHouse requires WHERE).
     inv_attach_count  the two dictionary branches return after the names: no column list, AS SELECT
                       or storage clause may be counted.  Parser: accepts
                       `ATTACH DICTIONARY d (a UInt64) PRIMARY KEY a` (ClickHouse takes nothing after
                       the name of an attached dictionary).
     inv_attach_storage_b   at most one OrderBy and one PrimaryKey member (printed by a loop, counted
                       once).  Parser: always one member (several keys are wrapped in a tuple literal).
     inv_rename        RenameDatabase -> Pairs non-empty.  Parser: always (RENAME DATABASE without a
                       pair is a parse error).
     inv_assignment / inv_update_assignments   Value != nil.  Parser: always.
     inv_element       Table, Join or ArrayJoin set (the "Fallback" count 1).  Parser: always.
     inv_create_index  parenthesised columns, or at most one: several unparenthesised columns are
                       printed beside their ExpressionList (Node(sb, col, depth+3)).  Parser: reads ONE
                       expression when there is no parenthesis. *)
From Coq Require Import String.
From Coq Require Import List NArith Bool.
From DC Require Import Tree.LineTree Tree.LineTreeProof
     Select.SelectExplainModel Select.SelectExplainProof
     Ddl.DdlExplainModel Ddl.DdlExplainProof
     Stmt.StmtExplainModel Stmt.StmtExplainProof.
Import ListNotations.

(* ---- insert ---- *)
Theorem C04_insert_count_eq_emitted :
  forall (n : insert_query), p_count (insert_printed n) = length (p_children (insert_printed n)).
Proof. exact (fun n => count_insert_children_correct n). Qed.
Print Assumptions C04_insert_count_eq_emitted.

Theorem C04_insert_header_eq_direct_children :
  forall (d : nat) (n : insert_query), inv_insert n -> header_count (explain_insert_query d n) = direct_children (explain_insert_query d n).
Proof. exact insert_counts_agree. Qed.
Print Assumptions C04_insert_header_eq_direct_children.

Theorem C04_insert_is_tree :
  forall (d : nat) (n : insert_query), inv_insert n -> nrm (explain_insert_query d n) = render d (p_tree (insert_printed n)).
Proof. exact insert_tree. Qed.
Print Assumptions C04_insert_is_tree.

Theorem C04_insert_check_lines :
  forall (n : insert_query), inv_insert n -> check_lines (explain_insert_query 0 n) = true.
Proof. exact insert_check. Qed.
Print Assumptions C04_insert_check_lines.

(* ---- drop ---- *)
Theorem C04_drop_count_eq_emitted :
  forall (n : drop_query), p_count (drop_printed n) = length (p_children (drop_printed n)).
Proof. exact (fun n => drop_count_correct n). Qed.
Print Assumptions C04_drop_count_eq_emitted.

Theorem C04_drop_header_eq_direct_children :
  forall (d : nat) (n : drop_query), header_count (explain_drop_query d n) = direct_children (explain_drop_query d n).
Proof. exact drop_counts_agree. Qed.
Print Assumptions C04_drop_header_eq_direct_children.

Theorem C04_drop_is_tree :
  forall (d : nat) (n : drop_query), nrm (explain_drop_query d n) = render d (p_tree (drop_printed n)).
Proof. exact drop_tree. Qed.
Print Assumptions C04_drop_is_tree.

Theorem C04_drop_check_lines :
  forall (n : drop_query), check_lines (explain_drop_query 0 n) = true.
Proof. exact drop_check. Qed.
Print Assumptions C04_drop_check_lines.

(* ---- undrop ---- *)
Theorem C04_undrop_count_eq_emitted :
  forall (n : undrop_query), p_count (undrop_printed n) = length (p_children (undrop_printed n)).
Proof. exact (fun n => undrop_count_correct n). Qed.
Print Assumptions C04_undrop_count_eq_emitted.

Theorem C04_undrop_header_eq_direct_children :
  forall (d : nat) (n : undrop_query), header_count (explain_undrop_query d n) = direct_children (explain_undrop_query d n).
Proof. exact undrop_counts_agree. Qed.
Print Assumptions C04_undrop_header_eq_direct_children.

Theorem C04_undrop_is_tree :
  forall (d : nat) (n : undrop_query), nrm (explain_undrop_query d n) = render d (p_tree (undrop_printed n)).
Proof. exact undrop_tree. Qed.
Print Assumptions C04_undrop_is_tree.

Theorem C04_undrop_check_lines :
  forall (n : undrop_query), check_lines (explain_undrop_query 0 n) = true.
Proof. exact undrop_check. Qed.
Print Assumptions C04_undrop_check_lines.

(* ---- rename ---- *)
Theorem C04_rename_count_eq_emitted :
  forall (n : rename_query), inv_rename n <-> p_count (rename_printed n) = length (p_children (rename_printed n)).
Proof. exact (fun n => rename_count_correct n). Qed.
Print Assumptions C04_rename_count_eq_emitted.

Theorem C04_rename_header_eq_direct_children :
  forall (d : nat) (n : rename_query), header_count (explain_rename_query d n) = direct_children (explain_rename_query d n) <-> inv_rename n.
Proof. exact rename_counts_agree_iff. Qed.
Print Assumptions C04_rename_header_eq_direct_children.

Theorem C04_rename_is_tree :
  forall (d : nat) (n : rename_query), inv_rename n -> nrm (explain_rename_query d n) = render d (p_tree (rename_printed n)).
Proof. exact rename_tree. Qed.
Print Assumptions C04_rename_is_tree.

Theorem C04_rename_check_lines :
  forall (n : rename_query), inv_rename n -> check_lines (explain_rename_query 0 n) = true.
Proof. exact rename_check. Qed.
Print Assumptions C04_rename_check_lines.

Theorem C04_rename_not_tree_outside_condition :
  forall (d : nat) (n : rename_query), ~ inv_rename n -> forall d' t, nrm (explain_rename_query d n) <> render d' t.
Proof. exact rename_not_tree. Qed.
Print Assumptions C04_rename_not_tree_outside_condition.

(* ---- exchange ---- *)
Theorem C04_exchange_count_eq_emitted :
  forall (n : exchange_query), p_count (exchange_printed n) = length (p_children (exchange_printed n)).
Proof. exact (fun n => exchange_count_correct n). Qed.
Print Assumptions C04_exchange_count_eq_emitted.

Theorem C04_exchange_header_eq_direct_children :
  forall (d : nat) (n : exchange_query), header_count (explain_exchange_query d n) = direct_children (explain_exchange_query d n).
Proof. exact exchange_counts_agree. Qed.
Print Assumptions C04_exchange_header_eq_direct_children.

Theorem C04_exchange_is_tree :
  forall (d : nat) (n : exchange_query), nrm (explain_exchange_query d n) = render d (p_tree (exchange_printed n)).
Proof. exact exchange_tree. Qed.
Print Assumptions C04_exchange_is_tree.

Theorem C04_exchange_check_lines :
  forall (n : exchange_query), check_lines (explain_exchange_query 0 n) = true.
Proof. exact exchange_check. Qed.
Print Assumptions C04_exchange_check_lines.

(* ---- truncate ---- *)
Theorem C04_truncate_count_eq_emitted :
  forall (n : truncate_query), p_count (truncate_printed n) = length (p_children (truncate_printed n)).
Proof. exact (fun n => truncate_count_correct n). Qed.
Print Assumptions C04_truncate_count_eq_emitted.

Theorem C04_truncate_header_eq_direct_children :
  forall (d : nat) (n : truncate_query), header_count (explain_truncate_query d n) = direct_children (explain_truncate_query d n).
Proof. exact truncate_counts_agree. Qed.
Print Assumptions C04_truncate_header_eq_direct_children.

Theorem C04_truncate_is_tree :
  forall (d : nat) (n : truncate_query), nrm (explain_truncate_query d n) = render d (p_tree (truncate_printed n)).
Proof. exact truncate_tree. Qed.
Print Assumptions C04_truncate_is_tree.

Theorem C04_truncate_check_lines :
  forall (n : truncate_query), check_lines (explain_truncate_query 0 n) = true.
Proof. exact truncate_check. Qed.
Print Assumptions C04_truncate_check_lines.

(* ---- optimize ---- *)
Theorem C04_optimize_count_eq_emitted :
  forall (n : optimize_query), p_count (optimize_printed n) = length (p_children (optimize_printed n)).
Proof. exact (fun n => optimize_count_correct n). Qed.
Print Assumptions C04_optimize_count_eq_emitted.

Theorem C04_optimize_header_eq_direct_children :
  forall (d : nat) (n : optimize_query), header_count (explain_optimize_query d n) = direct_children (explain_optimize_query d n).
Proof. exact optimize_counts_agree. Qed.
Print Assumptions C04_optimize_header_eq_direct_children.

Theorem C04_optimize_is_tree :
  forall (d : nat) (n : optimize_query), nrm (explain_optimize_query d n) = render d (p_tree (optimize_printed n)).
Proof. exact optimize_tree. Qed.
Print Assumptions C04_optimize_is_tree.

Theorem C04_optimize_check_lines :
  forall (n : optimize_query), check_lines (explain_optimize_query 0 n) = true.
Proof. exact optimize_check. Qed.
Print Assumptions C04_optimize_check_lines.

(* ---- delete ---- *)
Theorem C04_delete_count_eq_emitted :
  forall (n : delete_query), p_count (delete_printed n) = length (p_children (delete_printed n)).
Proof. exact (fun n => delete_count_correct n). Qed.
Print Assumptions C04_delete_count_eq_emitted.

Theorem C04_delete_header_eq_direct_children :
  forall (d : nat) (n : delete_query), header_count (explain_delete_query d n) = direct_children (explain_delete_query d n).
Proof. exact delete_counts_agree. Qed.
Print Assumptions C04_delete_header_eq_direct_children.

Theorem C04_delete_is_tree :
  forall (d : nat) (n : delete_query), nrm (explain_delete_query d n) = render d (p_tree (delete_printed n)).
Proof. exact delete_tree. Qed.
Print Assumptions C04_delete_is_tree.

Theorem C04_delete_check_lines :
  forall (n : delete_query), check_lines (explain_delete_query 0 n) = true.
Proof. exact delete_check. Qed.
Print Assumptions C04_delete_check_lines.

(* ---- check ---- *)
Theorem C04_check_count_eq_emitted :
  forall (n : check_query), p_count (check_printed n) = length (p_children (check_printed n)).
Proof. exact (fun n => check_count_correct n). Qed.
Print Assumptions C04_check_count_eq_emitted.

Theorem C04_check_header_eq_direct_children :
  forall (d : nat) (n : check_query), header_count (explain_check_query d n) = direct_children (explain_check_query d n).
Proof. exact check_counts_agree. Qed.
Print Assumptions C04_check_header_eq_direct_children.

Theorem C04_check_is_tree :
  forall (d : nat) (n : check_query), nrm (explain_check_query d n) = render d (p_tree (check_printed n)).
Proof. exact check_tree. Qed.
Print Assumptions C04_check_is_tree.

Theorem C04_check_check_lines :
  forall (n : check_query), check_lines (explain_check_query 0 n) = true.
Proof. exact check_check. Qed.
Print Assumptions C04_check_check_lines.

(* ---- use ---- *)
Theorem C04_use_count_eq_emitted :
  forall (db : list N), p_count (use_printed db) = length (p_children (use_printed db)).
Proof. exact (fun db => use_count_correct db). Qed.
Print Assumptions C04_use_count_eq_emitted.

Theorem C04_use_header_eq_direct_children :
  forall (d : nat) (db : list N), header_count (explain_use_query d db) = direct_children (explain_use_query d db).
Proof. exact use_counts_agree. Qed.
Print Assumptions C04_use_header_eq_direct_children.

Theorem C04_use_is_tree :
  forall (d : nat) (db : list N), nrm (explain_use_query d db) = render d (p_tree (use_printed db)).
Proof. exact use_tree. Qed.
Print Assumptions C04_use_is_tree.

Theorem C04_use_check_lines :
  forall (db : list N), check_lines (explain_use_query 0 db) = true.
Proof. exact use_check. Qed.
Print Assumptions C04_use_check_lines.

(* ---- describe ---- *)
Theorem C04_describe_count_eq_emitted :
  forall (n : describe_query), p_count (describe_printed n) = length (p_children (describe_printed n)).
Proof. exact (fun n => describe_count_correct n). Qed.
Print Assumptions C04_describe_count_eq_emitted.

Theorem C04_describe_header_eq_direct_children :
  forall (d : nat) (n : describe_query), header_count (explain_describe_query d n) = direct_children (explain_describe_query d n).
Proof. exact describe_counts_agree. Qed.
Print Assumptions C04_describe_header_eq_direct_children.

Theorem C04_describe_is_tree :
  forall (d : nat) (n : describe_query), nrm (explain_describe_query d n) = render d (p_tree (describe_printed n)).
Proof. exact describe_tree. Qed.
Print Assumptions C04_describe_is_tree.

Theorem C04_describe_check_lines :
  forall (n : describe_query), check_lines (explain_describe_query 0 n) = true.
Proof. exact describe_check. Qed.
Print Assumptions C04_describe_check_lines.

(* ---- exists ---- *)
Theorem C04_exists_count_eq_emitted :
  forall (n : exists_query), p_count (exists_printed n) = length (p_children (exists_printed n)).
Proof. exact (fun n => exists_count_correct n). Qed.
Print Assumptions C04_exists_count_eq_emitted.

Theorem C04_exists_header_eq_direct_children :
  forall (d : nat) (n : exists_query), header_count (explain_exists_query d n) = direct_children (explain_exists_query d n).
Proof. exact exists_counts_agree. Qed.
Print Assumptions C04_exists_header_eq_direct_children.

Theorem C04_exists_is_tree :
  forall (d : nat) (n : exists_query), nrm (explain_exists_query d n) = render d (p_tree (exists_printed n)).
Proof. exact exists_tree. Qed.
Print Assumptions C04_exists_is_tree.

Theorem C04_exists_check_lines :
  forall (n : exists_query), check_lines (explain_exists_query 0 n) = true.
Proof. exact exists_check. Qed.
Print Assumptions C04_exists_check_lines.

(* ---- show ---- *)
Theorem C04_show_count_eq_emitted :
  forall (n : show_query), p_count (show_printed n) = length (p_children (show_printed n)).
Proof. exact (fun n => show_count_correct n). Qed.
Print Assumptions C04_show_count_eq_emitted.

Theorem C04_show_header_eq_direct_children :
  forall (d : nat) (n : show_query), header_count (explain_show_query d n) = direct_children (explain_show_query d n).
Proof. exact show_counts_agree. Qed.
Print Assumptions C04_show_header_eq_direct_children.

Theorem C04_show_is_tree :
  forall (d : nat) (n : show_query), nrm (explain_show_query d n) = render d (p_tree (show_printed n)).
Proof. exact show_tree. Qed.
Print Assumptions C04_show_is_tree.

Theorem C04_show_check_lines :
  forall (n : show_query), check_lines (explain_show_query 0 n) = true.
Proof. exact show_check. Qed.
Print Assumptions C04_show_check_lines.

(* ---- system ---- *)
Theorem C04_system_count_eq_emitted :
  forall (n : system_query), inv_system n <-> p_count (system_printed n) = length (p_children (system_printed n)).
Proof. exact (fun n => system_count_correct n). Qed.
Print Assumptions C04_system_count_eq_emitted.

Theorem C04_system_header_eq_direct_children :
  forall (d : nat) (n : system_query), header_count (explain_system_query d n) = direct_children (explain_system_query d n) <-> inv_system n.
Proof. exact system_counts_agree_iff. Qed.
Print Assumptions C04_system_header_eq_direct_children.

Theorem C04_system_is_tree :
  forall (d : nat) (n : system_query), inv_system n -> nrm (explain_system_query d n) = render d (p_tree (system_printed n)).
Proof. exact system_tree. Qed.
Print Assumptions C04_system_is_tree.

Theorem C04_system_check_lines :
  forall (n : system_query), inv_system n -> check_lines (explain_system_query 0 n) = true.
Proof. exact system_check. Qed.
Print Assumptions C04_system_check_lines.

Theorem C04_system_not_tree_outside_condition :
  forall (d : nat) (n : system_query), ~ inv_system n -> forall d' t, nrm (explain_system_query d n) <> render d' t.
Proof. exact system_not_tree. Qed.
Print Assumptions C04_system_not_tree_outside_condition.

(* ---- explain ---- *)
Theorem C04_explain_count_eq_emitted :
  forall (d : nat) (n : explain_query), p_count (explain_printed d n) = length (p_children (explain_printed d n)).
Proof. exact (fun d n => explain_count_correct d n). Qed.
Print Assumptions C04_explain_count_eq_emitted.

Theorem C04_explain_header_eq_direct_children :
  forall (d : nat) (n : explain_query), inv_explain n -> header_count (explain_explain_query d n) = direct_children (explain_explain_query d n).
Proof. exact explain_counts_agree. Qed.
Print Assumptions C04_explain_header_eq_direct_children.

Theorem C04_explain_is_tree :
  forall (d : nat) (n : explain_query), inv_explain n -> nrm (explain_explain_query d n) = render d (p_tree (explain_printed d n)).
Proof. exact explain_tree. Qed.
Print Assumptions C04_explain_is_tree.

Theorem C04_explain_check_lines :
  forall (n : explain_query), inv_explain n -> check_lines (explain_explain_query 0 n) = true.
Proof. exact explain_check. Qed.
Print Assumptions C04_explain_check_lines.

(* ---- detach ---- *)
Theorem C04_detach_count_eq_emitted :
  forall (n : detach_query), p_count (detach_printed n) = length (p_children (detach_printed n)).
Proof. exact (fun n => detach_count_correct n). Qed.
Print Assumptions C04_detach_count_eq_emitted.

Theorem C04_detach_header_eq_direct_children :
  forall (d : nat) (n : detach_query), header_count (explain_detach_query d n) = direct_children (explain_detach_query d n).
Proof. exact detach_counts_agree. Qed.
Print Assumptions C04_detach_header_eq_direct_children.

Theorem C04_detach_is_tree :
  forall (d : nat) (n : detach_query), nrm (explain_detach_query d n) = render d (p_tree (detach_printed n)).
Proof. exact detach_tree. Qed.
Print Assumptions C04_detach_is_tree.

Theorem C04_detach_check_lines :
  forall (n : detach_query), check_lines (explain_detach_query 0 n) = true.
Proof. exact detach_check. Qed.
Print Assumptions C04_detach_check_lines.

(* ---- attach ---- *)
Theorem C04_attach_count_eq_emitted :
  forall (n : attach_query), inv_attach_count n <-> p_count (attach_printed n) = length (p_children (attach_printed n)).
Proof. exact (fun n => attach_count_correct n). Qed.
Print Assumptions C04_attach_count_eq_emitted.

Theorem C04_attach_header_eq_direct_children :
  forall (d : nat) (n : attach_query), inv_attach_storage_b n = true -> header_count (explain_attach_query d n) = direct_children (explain_attach_query d n) <-> inv_attach_count n.
Proof. exact attach_counts_agree_iff. Qed.
Print Assumptions C04_attach_header_eq_direct_children.

Theorem C04_attach_is_tree :
  forall (d : nat) (n : attach_query), inv_attach_storage_b n = true -> inv_attach_count n -> nrm (explain_attach_query d n) = render d (p_tree (attach_printed n)).
Proof. exact attach_tree. Qed.
Print Assumptions C04_attach_is_tree.

Theorem C04_attach_check_lines :
  forall (n : attach_query), inv_attach_storage_b n = true -> inv_attach_count n -> check_lines (explain_attach_query 0 n) = true.
Proof. exact attach_check. Qed.
Print Assumptions C04_attach_check_lines.

Theorem C04_attach_not_tree_outside_condition :
  forall (d : nat) (n : attach_query), inv_attach_storage_b n = true -> ~ inv_attach_count n -> forall d' t, nrm (explain_attach_query d n) <> render d' t.
Proof. exact attach_not_tree. Qed.
Print Assumptions C04_attach_not_tree_outside_condition.

(* ---- backup ---- *)
Theorem C04_backup_count_eq_emitted :
  forall (n : backup_query), p_count (backup_printed L_BackupQuery n) = length (p_children (backup_printed L_BackupQuery n)).
Proof. exact (fun n => backup_count_correct L_BackupQuery n). Qed.
Print Assumptions C04_backup_count_eq_emitted.

Theorem C04_backup_header_eq_direct_children :
  forall (d : nat) (n : backup_query), header_count (explain_backup_query d n) = direct_children (explain_backup_query d n).
Proof. exact backup_counts_agree. Qed.
Print Assumptions C04_backup_header_eq_direct_children.

Theorem C04_backup_is_tree :
  forall (d : nat) (n : backup_query), nrm (explain_backup_query d n) = render d (p_tree (backup_printed L_BackupQuery n)).
Proof. exact backup_tree. Qed.
Print Assumptions C04_backup_is_tree.

Theorem C04_backup_check_lines :
  forall (n : backup_query), check_lines (explain_backup_query 0 n) = true.
Proof. exact backup_check. Qed.
Print Assumptions C04_backup_check_lines.

(* ---- restore ---- *)
Theorem C04_restore_count_eq_emitted :
  forall (n : backup_query), p_count (backup_printed L_RestoreQuery n) = length (p_children (backup_printed L_RestoreQuery n)).
Proof. exact (fun n => backup_count_correct L_RestoreQuery n). Qed.
Print Assumptions C04_restore_count_eq_emitted.

Theorem C04_restore_header_eq_direct_children :
  forall (d : nat) (n : backup_query), header_count (explain_restore_query d n) = direct_children (explain_restore_query d n).
Proof. exact restore_counts_agree. Qed.
Print Assumptions C04_restore_header_eq_direct_children.

Theorem C04_restore_is_tree :
  forall (d : nat) (n : backup_query), nrm (explain_restore_query d n) = render d (p_tree (backup_printed L_RestoreQuery n)).
Proof. exact restore_tree. Qed.
Print Assumptions C04_restore_is_tree.

Theorem C04_restore_check_lines :
  forall (n : backup_query), check_lines (explain_restore_query 0 n) = true.
Proof. exact restore_check. Qed.
Print Assumptions C04_restore_check_lines.

(* ---- kill ---- *)
Theorem C04_kill_count_eq_emitted :
  forall (n : kill_query), p_count (kill_printed n) = length (p_children (kill_printed n)).
Proof. exact (fun n => kill_count_correct n). Qed.
Print Assumptions C04_kill_count_eq_emitted.

Theorem C04_kill_header_eq_direct_children :
  forall (d : nat) (n : kill_query), header_count (explain_kill_query d n) = direct_children (explain_kill_query d n).
Proof. exact kill_counts_agree. Qed.
Print Assumptions C04_kill_header_eq_direct_children.

Theorem C04_kill_is_tree :
  forall (d : nat) (n : kill_query), nrm (explain_kill_query d n) = render d (p_tree (kill_printed n)).
Proof. exact kill_tree. Qed.
Print Assumptions C04_kill_is_tree.

Theorem C04_kill_check_lines :
  forall (n : kill_query), check_lines (explain_kill_query 0 n) = true.
Proof. exact kill_check. Qed.
Print Assumptions C04_kill_check_lines.

(* ---- create_index ---- *)
Theorem C04_create_index_count_eq_emitted :
  forall (n : create_index_query), p_count (create_index_printed n) = length (p_children (create_index_printed n)).
Proof. exact (fun n => create_index_count_correct n). Qed.
Print Assumptions C04_create_index_count_eq_emitted.

Theorem C04_create_index_header_eq_direct_children :
  forall (d : nat) (n : create_index_query), inv_create_index n -> header_count (explain_create_index_query d n) = direct_children (explain_create_index_query d n).
Proof. exact create_index_counts_agree. Qed.
Print Assumptions C04_create_index_header_eq_direct_children.

Theorem C04_create_index_is_tree :
  forall (d : nat) (n : create_index_query), inv_create_index n -> nrm (explain_create_index_query d n) = render d (p_tree (create_index_printed n)).
Proof. exact create_index_tree. Qed.
Print Assumptions C04_create_index_is_tree.

Theorem C04_create_index_check_lines :
  forall (n : create_index_query), inv_create_index n -> check_lines (explain_create_index_query 0 n) = true.
Proof. exact create_index_check. Qed.
Print Assumptions C04_create_index_check_lines.

(* ---- assignment ---- *)
Theorem C04_assignment_count_eq_emitted :
  forall (a : assignment), inv_assignment a <-> p_count (assignment_printed a) = length (p_children (assignment_printed a)).
Proof. exact (fun a => assignment_count_correct a). Qed.
Print Assumptions C04_assignment_count_eq_emitted.

Theorem C04_assignment_header_eq_direct_children :
  forall (d : nat) (a : assignment), header_count (explain_assignment d a) = direct_children (explain_assignment d a) <-> inv_assignment a.
Proof. exact assignment_counts_agree_iff. Qed.
Print Assumptions C04_assignment_header_eq_direct_children.

Theorem C04_assignment_is_tree :
  forall (d : nat) (a : assignment), inv_assignment a -> nrm (explain_assignment d a) = render d (p_tree (assignment_printed a)).
Proof. exact assignment_tree. Qed.
Print Assumptions C04_assignment_is_tree.

Theorem C04_assignment_check_lines :
  forall (a : assignment), inv_assignment a -> check_lines (explain_assignment 0 a) = true.
Proof. exact assignment_check. Qed.
Print Assumptions C04_assignment_check_lines.

Theorem C04_assignment_not_tree_outside_condition :
  forall (d : nat) (a : assignment), ~ inv_assignment a -> forall d' t, nrm (explain_assignment d a) <> render d' t.
Proof. exact assignment_not_tree. Qed.
Print Assumptions C04_assignment_not_tree_outside_condition.

(* ---- update ---- *)
Theorem C04_update_count_eq_emitted :
  forall (n : update_query), inv_update_count n <-> p_count (update_printed n) = length (p_children (update_printed n)).
Proof. exact (fun n => update_count_correct n). Qed.
Print Assumptions C04_update_count_eq_emitted.

Theorem C04_update_header_eq_direct_children :
  forall (d : nat) (n : update_query), inv_update_assignments n -> header_count (explain_update_query d n) = direct_children (explain_update_query d n) <-> inv_update_count n.
Proof. exact update_counts_agree_iff. Qed.
Print Assumptions C04_update_header_eq_direct_children.

Theorem C04_update_is_tree :
  forall (d : nat) (n : update_query), inv_update_assignments n -> inv_update_count n -> nrm (explain_update_query d n) = render d (p_tree (update_printed n)).
Proof. exact update_tree. Qed.
Print Assumptions C04_update_is_tree.

Theorem C04_update_check_lines :
  forall (n : update_query), inv_update_assignments n -> inv_update_count n -> check_lines (explain_update_query 0 n) = true.
Proof. exact update_check. Qed.
Print Assumptions C04_update_check_lines.

Theorem C04_update_not_tree_outside_condition :
  forall (d : nat) (n : update_query), inv_update_assignments n -> ~ inv_update_count n -> forall d' t, nrm (explain_update_query d n) <> render d' t.
Proof. exact update_not_tree. Qed.
Print Assumptions C04_update_not_tree_outside_condition.

(* ---- parallel_with ---- *)
Theorem C04_parallel_with_count_eq_emitted :
  forall (n : parallel_with_query), p_count (parallel_printed n) = length (p_children (parallel_printed n)).
Proof. exact (fun n => parallel_count_correct n). Qed.
Print Assumptions C04_parallel_with_count_eq_emitted.

Theorem C04_parallel_with_header_eq_direct_children :
  forall (d : nat) (n : parallel_with_query), header_count (explain_parallel_with_query d n) = direct_children (explain_parallel_with_query d n).
Proof. exact parallel_with_counts_agree. Qed.
Print Assumptions C04_parallel_with_header_eq_direct_children.

Theorem C04_parallel_with_is_tree :
  forall (d : nat) (n : parallel_with_query), nrm (explain_parallel_with_query d n) = render d (p_tree (parallel_printed n)).
Proof. exact parallel_with_tree. Qed.
Print Assumptions C04_parallel_with_is_tree.

Theorem C04_parallel_with_check_lines :
  forall (n : parallel_with_query), check_lines (explain_parallel_with_query 0 n) = true.
Proof. exact parallel_with_check. Qed.
Print Assumptions C04_parallel_with_check_lines.

(* ---- format_child ---- *)
Theorem C04_format_child_count_eq_emitted :
  forall (lab1 : list N) (lab0 : list N) (f : list N), p_count (format_child_printed lab1 lab0 f) = length (p_children (format_child_printed lab1 lab0 f)).
Proof. exact (fun lab1 lab0 f => format_child_count_correct lab1 lab0 f). Qed.
Print Assumptions C04_format_child_count_eq_emitted.

Theorem C04_format_child_header_eq_direct_children :
  forall (d : nat) (lab1 : list N) (lab0 : list N) (f : list N), header_count (explain_format_child d lab1 lab0 f) = direct_children (explain_format_child d lab1 lab0 f).
Proof. exact format_child_counts_agree. Qed.
Print Assumptions C04_format_child_header_eq_direct_children.

Theorem C04_format_child_is_tree :
  forall (d : nat) (lab1 : list N) (lab0 : list N) (f : list N), nrm (explain_format_child d lab1 lab0 f) = render d (p_tree (format_child_printed lab1 lab0 f)).
Proof. exact format_child_tree. Qed.
Print Assumptions C04_format_child_is_tree.

Theorem C04_format_child_check_lines :
  forall (lab1 : list N) (lab0 : list N) (f : list N), check_lines (explain_format_child 0 lab1 lab0 f) = true.
Proof. exact format_child_check. Qed.
Print Assumptions C04_format_child_check_lines.

(* ---- create_workload ---- *)
Theorem C04_create_workload_count_eq_emitted :
  forall (name : list N) (parent : list N), p_count (create_workload_printed name parent) = length (p_children (create_workload_printed name parent)).
Proof. exact (fun name parent => create_workload_count_correct name parent). Qed.
Print Assumptions C04_create_workload_count_eq_emitted.

Theorem C04_create_workload_header_eq_direct_children :
  forall (d : nat) (name : list N) (parent : list N), header_count (explain_create_workload d name parent) = direct_children (explain_create_workload d name parent).
Proof. exact create_workload_counts_agree. Qed.
Print Assumptions C04_create_workload_header_eq_direct_children.

Theorem C04_create_workload_is_tree :
  forall (d : nat) (name : list N) (parent : list N), nrm (explain_create_workload d name parent) = render d (p_tree (create_workload_printed name parent)).
Proof. exact create_workload_tree. Qed.
Print Assumptions C04_create_workload_is_tree.

Theorem C04_create_workload_check_lines :
  forall (name : list N) (parent : list N), check_lines (explain_create_workload 0 name parent) = true.
Proof. exact create_workload_check. Qed.
Print Assumptions C04_create_workload_check_lines.

(* ---- dict_attr ---- *)
Theorem C04_dict_attr_count_eq_emitted :
  forall (a : dict_attr), p_count (dict_attr_printed a) = length (p_children (dict_attr_printed a)).
Proof. exact (fun a => dict_attr_count_correct a). Qed.
Print Assumptions C04_dict_attr_count_eq_emitted.

Theorem C04_dict_attr_header_eq_direct_children :
  forall (d : nat) (a : dict_attr), header_count (explain_dict_attr d a) = direct_children (explain_dict_attr d a).
Proof. exact dict_attr_counts_agree. Qed.
Print Assumptions C04_dict_attr_header_eq_direct_children.

Theorem C04_dict_attr_is_tree :
  forall (d : nat) (a : dict_attr), nrm (explain_dict_attr d a) = render d (p_tree (dict_attr_printed a)).
Proof. exact dict_attr_tree. Qed.
Print Assumptions C04_dict_attr_is_tree.

Theorem C04_dict_attr_check_lines :
  forall (a : dict_attr), check_lines (explain_dict_attr 0 a) = true.
Proof. exact dict_attr_check. Qed.
Print Assumptions C04_dict_attr_check_lines.

(* ---- dict_definition ---- *)
Theorem C04_dict_definition_count_eq_emitted :
  forall (n : dict_definition), p_count (dict_definition_printed n) = length (p_children (dict_definition_printed n)).
Proof. exact (fun n => dict_definition_count_correct n). Qed.
Print Assumptions C04_dict_definition_count_eq_emitted.

Theorem C04_dict_definition_header_eq_direct_children :
  forall (d : nat) (n : dict_definition), header_count (explain_dict_definition d n) = direct_children (explain_dict_definition d n).
Proof. exact dict_definition_counts_agree. Qed.
Print Assumptions C04_dict_definition_header_eq_direct_children.

Theorem C04_dict_definition_is_tree :
  forall (d : nat) (n : dict_definition), nrm (explain_dict_definition d n) = render d (p_tree (dict_definition_printed n)).
Proof. exact dict_definition_tree. Qed.
Print Assumptions C04_dict_definition_is_tree.

Theorem C04_dict_definition_check_lines :
  forall (n : dict_definition), check_lines (explain_dict_definition 0 n) = true.
Proof. exact dict_definition_check. Qed.
Print Assumptions C04_dict_definition_check_lines.

(* ---- tables_element ---- *)
Theorem C04_tables_element_count_eq_emitted :
  forall (e : tables_element), inv_element e <-> p_count (element_printed e) = length (p_children (element_printed e)).
Proof. exact (fun e => element_count_correct e). Qed.
Print Assumptions C04_tables_element_count_eq_emitted.

Theorem C04_tables_element_header_eq_direct_children :
  forall (d : nat) (e : tables_element), header_count (explain_tables_element d e) = direct_children (explain_tables_element d e) <-> inv_element e.
Proof. exact tables_element_counts_agree_iff. Qed.
Print Assumptions C04_tables_element_header_eq_direct_children.

Theorem C04_tables_element_is_tree :
  forall (d : nat) (e : tables_element), inv_element e -> nrm (explain_tables_element d e) = render d (p_tree (element_printed e)).
Proof. exact tables_element_tree. Qed.
Print Assumptions C04_tables_element_is_tree.

Theorem C04_tables_element_check_lines :
  forall (e : tables_element), inv_element e -> check_lines (explain_tables_element 0 e) = true.
Proof. exact tables_element_check. Qed.
Print Assumptions C04_tables_element_check_lines.

Theorem C04_tables_element_not_tree_outside_condition :
  forall (d : nat) (e : tables_element), ~ inv_element e -> forall d' t, nrm (explain_tables_element d e) <> render d' t.
Proof. exact tables_element_not_tree. Qed.
Print Assumptions C04_tables_element_not_tree_outside_condition.

(* ---- table_expression ---- *)
Theorem C04_table_expression_count_eq_emitted :
  forall (n : table_expression), p_count (table_expression_printed n) = length (p_children (table_expression_printed n)).
Proof. exact (fun n => table_expression_count_correct n). Qed.
Print Assumptions C04_table_expression_count_eq_emitted.

Theorem C04_table_expression_header_eq_direct_children :
  forall (d : nat) (n : table_expression), header_count (explain_table_expression d n) = direct_children (explain_table_expression d n).
Proof. exact table_expression_counts_agree. Qed.
Print Assumptions C04_table_expression_header_eq_direct_children.

Theorem C04_table_expression_is_tree :
  forall (d : nat) (n : table_expression), nrm (explain_table_expression d n) = render d (p_tree (table_expression_printed n)).
Proof. exact table_expression_tree. Qed.
Print Assumptions C04_table_expression_is_tree.

Theorem C04_table_expression_check_lines :
  forall (n : table_expression), check_lines (explain_table_expression 0 n) = true.
Proof. exact table_expression_check. Qed.
Print Assumptions C04_table_expression_check_lines.

(* ---- table_join ---- *)
Theorem C04_table_join_count_eq_emitted :
  forall (n : table_join), p_count (table_join_printed n) = length (p_children (table_join_printed n)).
Proof. exact (fun n => table_join_count_correct n). Qed.
Print Assumptions C04_table_join_count_eq_emitted.

Theorem C04_table_join_header_eq_direct_children :
  forall (d : nat) (n : table_join), header_count (explain_table_join d n) = direct_children (explain_table_join d n).
Proof. exact table_join_counts_agree. Qed.
Print Assumptions C04_table_join_header_eq_direct_children.

Theorem C04_table_join_is_tree :
  forall (d : nat) (n : table_join), nrm (explain_table_join d n) = render d (p_tree (table_join_printed n)).
Proof. exact table_join_tree. Qed.
Print Assumptions C04_table_join_is_tree.

Theorem C04_table_join_check_lines :
  forall (n : table_join), check_lines (explain_table_join 0 n) = true.
Proof. exact table_join_check. Qed.
Print Assumptions C04_table_join_check_lines.

(* ---- the remaining inline printers and TablesInSelectQuery ---- *)
Theorem C04_single_line_is_tree :
  forall (d : nat) (lab : list N), nrm (explain_single_line d lab) = render d (T_leaf lab).
Proof. exact single_line_tree. Qed.
Print Assumptions C04_single_line_is_tree.

Theorem C04_create_resource_is_tree :
  forall (d : nat) (name : list N),
    nrm (explain_create_resource d name) = render d (p_tree (create_resource_printed name)).
Proof. exact create_resource_tree. Qed.
Print Assumptions C04_create_resource_is_tree.

Theorem C04_tables_in_select_query_is_tree :
  forall (d : nat) (ts : list rose),
    nrm (explain_tables_in_select_query d ts) = render d (p_tree (tables_printed ts)).
Proof. exact tables_in_select_query_tree. Qed.
Print Assumptions C04_tables_in_select_query_is_tree.

(* ---- the sub-tallies of ATTACH ---- *)
Theorem C04_attach_columns_definition_count_eq_emitted :
  forall n : attach_query, count_attach_columns_children n = length (attach_columns_children n).
Proof. exact count_attach_columns_children_correct. Qed.
Print Assumptions C04_attach_columns_definition_count_eq_emitted.

Theorem C04_attach_storage_count_eq_emitted :
  forall n : attach_query,
    inv_attach_storage_b n = true <->
    p_count (attach_storage_printed n) = length (p_children (attach_storage_printed n)).
Proof. exact attach_storage_count_correct. Qed.
Print Assumptions C04_attach_storage_count_eq_emitted.

(* ---- the callees of the dictionary and table printers ---- *)
Theorem C04_dict_source_is_tree :
  forall (d : nat) (s : dict_source), nrm (explain_dict_source d s) = render d (dict_source_tree s).
Proof. exact (fun d s => tree_of_emits _ _ _ (dict_source_emits d s)). Qed.
Print Assumptions C04_dict_source_is_tree.

Theorem C04_dict_layout_is_tree :
  forall (d : nat) (args : list (option rose)),
    nrm (explain_dict_layout d args) = render d (dict_layout_tree args).
Proof. exact (fun d a => tree_of_emits _ _ _ (dict_layout_emits d a)). Qed.
Print Assumptions C04_dict_layout_is_tree.

Theorem C04_key_value_pair_is_tree :
  forall (d : nat) (v : option rose), nrm (explain_kv_pair d v) = render d (kv_pair_tree v).
Proof. exact (fun d v => tree_of_emits _ _ _ (kv_pair_emits d v)). Qed.
Print Assumptions C04_key_value_pair_is_tree.

Theorem C04_array_join_is_tree :
  forall (d : nat) (cols : list rose), nrm (explain_array_join d cols) = render d (array_join_tree cols).
Proof. exact (fun d c => tree_of_emits _ _ _ (array_join_emits d c)). Qed.
Print Assumptions C04_array_join_is_tree.

Theorem C04_view_explain_is_tree :
  forall (d : nat) (v : view_explain), nrm (explain_view_explain d v) = render d (view_explain_tree v).
Proof. exact (fun d v => tree_of_emits _ _ _ (view_explain_emits d v)). Qed.
Print Assumptions C04_view_explain_is_tree.

(* ---- refutation witnesses ---- *)
Theorem C04_system_flush_logs_settings_refuted :
  header_count (explain_system_query 0 w_system_flush_logs_settings) = 1 /\
  direct_children (explain_system_query 0 w_system_flush_logs_settings) = 3 /\
  check_lines (explain_system_query 0 w_system_flush_logs_settings) = false.
Proof. exact system_flush_logs_settings_refuted. Qed.
Print Assumptions C04_system_flush_logs_settings_refuted.

Theorem C04_update_without_where_refuted :
  header_count (explain_update_query 0 w_update_no_where) = 3 /\
  direct_children (explain_update_query 0 w_update_no_where) = 2 /\
  check_lines (explain_update_query 0 w_update_no_where) = false.
Proof. exact update_without_where_refuted. Qed.
Print Assumptions C04_update_without_where_refuted.

Theorem C04_attach_dictionary_with_columns_refuted :
  header_count (explain_attach_query 0 w_attach_dictionary_columns) = 3 /\
  direct_children (explain_attach_query 0 w_attach_dictionary_columns) = 1 /\
  check_lines (explain_attach_query 0 w_attach_dictionary_columns) = false.
Proof. exact attach_dictionary_with_columns_refuted. Qed.
Print Assumptions C04_attach_dictionary_with_columns_refuted.

Theorem C04_attach_two_order_by_refuted :
  header_count (explain_attach_query 0 w_attach_two_order_by)
  = direct_children (explain_attach_query 0 w_attach_two_order_by) /\
  check_lines (explain_attach_query 0 w_attach_two_order_by) = false.
Proof. exact attach_two_order_by_refuted. Qed.
Print Assumptions C04_attach_two_order_by_refuted.

Theorem C04_rename_database_without_pair_refuted :
  header_count (explain_rename_query 0 w_rename_database_no_pair) = 2 /\
  direct_children (explain_rename_query 0 w_rename_database_no_pair) = 0 /\
  check_lines (explain_rename_query 0 w_rename_database_no_pair) = false.
Proof. exact rename_database_without_pair_refuted. Qed.
Print Assumptions C04_rename_database_without_pair_refuted.

Theorem C04_assignment_without_value_refuted :
  header_count (explain_assignment 0 w_assignment_nil) = 1 /\
  direct_children (explain_assignment 0 w_assignment_nil) = 0 /\
  check_lines (explain_assignment 0 w_assignment_nil) = false.
Proof. exact assignment_without_value_refuted. Qed.
Print Assumptions C04_assignment_without_value_refuted.

Theorem C04_tables_element_empty_refuted :
  header_count (explain_tables_element 0 w_element_empty) = 1 /\
  direct_children (explain_tables_element 0 w_element_empty) = 0 /\
  check_lines (explain_tables_element 0 w_element_empty) = false.
Proof. exact tables_element_empty_refuted. Qed.
Print Assumptions C04_tables_element_empty_refuted.

Theorem C04_create_index_unparenthesized_columns_refuted :
  header_count (explain_create_index_query 0 w_create_index_two_columns)
  = direct_children (explain_create_index_query 0 w_create_index_two_columns) /\
  check_lines (explain_create_index_query 0 w_create_index_two_columns) = false.
Proof. exact create_index_unparenthesized_columns_refuted. Qed.
Print Assumptions C04_create_index_unparenthesized_columns_refuted.

(* ---- all modelled statements at once ([stmt] = the type switch of Node restricted to the statements above;
        [inv_stmt] = the condition of the statement's own theorem, True for 20 of the 27 cases) ---- *)
Theorem C04_stmt_is_tree :
  forall (d : nat) (s : stmt), inv_stmt s -> exists t, nrm (explain_stmt d s) = render d t.
Proof. exact explain_stmt_tree. Qed.
Print Assumptions C04_stmt_is_tree.

Theorem C04_stmt_header_eq_direct_children :
  forall (d : nat) (s : stmt),
    inv_stmt s -> header_count (explain_stmt d s) = direct_children (explain_stmt d s).
Proof. exact explain_stmt_counts_agree. Qed.
Print Assumptions C04_stmt_header_eq_direct_children.

Theorem C04_stmt_check_lines :
  forall s : stmt, inv_stmt s -> check_lines (explain_stmt 0 s) = true.
Proof. exact explain_stmt_check. Qed.
Print Assumptions C04_stmt_check_lines.

(* ---------------------------------------------------------------------------------------- *)
(* Examples: the hypotheses are satisfiable by non-trivial objects *)

From DC Require Import Gen.NodeKinds.
Local Open Scope string_scope.
Local Open Scope list_scope.
Local Open Scope nat_scope.

Definition ex_select (name : string) (fmt : bool) (settings : nat) : select_query :=
  {| sq_with := []; sq_distinct_on := []; sq_top := None; sq_columns := [idt name]; sq_from := None;
     sq_array_join := None; sq_prewhere := None; sq_where := None; sq_group_by := []; sq_group_by_all := false;
     sq_grouping_sets := false; sq_having := None; sq_qualify := None; sq_window := 0; sq_order_by := [];
     sq_interpolate := []; sq_limit := None; sq_limit_by := []; sq_limit_by_limit := None;
     sq_limit_by_offset := None; sq_offset := None; sq_settings := settings; sq_settings_after_format := true;
     sq_into_outfile := None; sq_format := if fmt then Some (idt "Null") else None |}.

Definition ex_union : union_query :=
  {| u_selects := [ItemSelect (ex_select "q" true 1); ItemSelect (ex_select "r" false 0)];
     u_grouped := [ItemSelect (ex_select "q" true 1); ItemSelect (ex_select "r" false 0)];
     u_settings := 0; u_settings_after_format := false; u_settings_before_format := false |}.

Example ex_union_inv : inv_union ex_union.
Proof. repeat constructor; cbn; intros; discriminate. Qed.

(* WITH w AS x INSERT INTO FUNCTION f(a) PARTITION BY p (c1, c2) SELECT q UNION ALL SELECT r FORMAT Null SETTINGS s = 1 *)
Definition ex_insert : insert_query :=
  {| in_infile := []; in_compression := []; in_function := Some (Node (bytes_of "Function f") [Node L_ExpressionList [idt "a"]]);
     in_database := []; in_table := []; in_column_exprs := []; in_columns := [bytes_of "c1"; bytes_of "c2"];
     in_all_columns := false; in_partition_by := Some {| k_view := KV_ident (bytes_of "p"); k_tree := idt "p" |};
     in_select := Some (IS_union ex_union); in_with := [idt "w"]; in_has_settings := true |}.

Example ex_insert_inv : inv_insert ex_insert.
Proof. exact ex_union_inv. Qed.

Example ex_insert_counts :
  header_count (explain_insert_query 0 ex_insert) = 5 /\
  direct_children (explain_insert_query 0 ex_insert) = 5 /\
  check_lines (explain_insert_query 0 ex_insert) = true /\
  check_text node_kinds (print_lines (explain_insert_query 0 ex_insert)) = true.
Proof. vm_compute. repeat split. Qed.

(* EXPLAIN AST header = 1 SELECT q FORMAT Null SETTINGS s = 1 UNION ALL SELECT r *)
Definition ex_explain : explain_query :=
  {| ex_type := ET_AST; ex_explicit_type := true; ex_statement := XS_union ex_union (bytes_of "Null");
     ex_has_settings := true |}.

Example ex_explain_counts :
  inv_explain ex_explain /\
  header_count (explain_explain_query 0 ex_explain) = 4 /\
  direct_children (explain_explain_query 0 ex_explain) = 4 /\
  check_text node_kinds (print_lines (explain_explain_query 0 ex_explain)) = true.
Proof. split; [exact ex_union_inv|]. vm_compute. repeat split. Qed.

(* ATTACH MATERIALIZED VIEW db.mv (a Int32, INDEX i a TYPE minmax, PRIMARY KEY (a, b)) ENGINE = MergeTree(p)
   PARTITION BY a ORDER BY a PRIMARY KEY a SETTINGS s = 1 AS SELECT 1 *)
Definition ex_attach : attach_query :=
  {| ath_database := bytes_of "db"; ath_table := bytes_of "mv"; ath_dictionary := [];
     ath_columns := [ {| cd_name := bytes_of "a"; cd_type := Some (T_leaf (bytes_of "DataType Int32"));
                         cd_statistics := []; cd_default := None; cd_ephemeral := false; cd_ttl := None;
                         cd_codec := None; cd_settings := 0; cd_comment := []; cd_primary_key := false |} ];
     ath_columns_primary_key := [idt "a"; idt "b"]; ath_has_empty_columns_primary_key := false;
     ath_indexes := [ {| ix_expr := Some {| k_view := KV_ident (bytes_of "a"); k_tree := idt "a" |};
                         ix_type := Some (Node (bytes_of "Function minmax") [Node L_ExpressionList []]) |} ];
     ath_engine := Some {| en_name := bytes_of "MergeTree"; en_has_parens := true; en_params := [idt "p"] |};
     ath_order_by := [idt "a"]; ath_primary_key := [idt "a"]; ath_is_materialized_view := true;
     ath_partition_by := Some (idt "a"); ath_select_query := Some select_1_tree; ath_settings := 1 |}.

Example ex_attach_inv : inv_attach ex_attach.
Proof. split; reflexivity. Qed.

Example ex_attach_counts :
  header_count (explain_attach_query 0 ex_attach) = 5 /\
  direct_children (explain_attach_query 0 ex_attach) = 5 /\
  count_attach_columns_children ex_attach = 3 /\
  count_attach_storage_children ex_attach = 5 /\
  check_lines (explain_attach_query 0 ex_attach) = true /\
  check_text node_kinds (print_lines (explain_attach_query 0 ex_attach)) = true.
Proof. vm_compute. repeat split. Qed.

(* SYSTEM FLUSH DISTRIBUTED db.t SETTINGS a = 1 : names printed twice *)
Definition ex_system : system_query :=
  {| yq_is_flush_logs := false; yq_database := bytes_of "db"; yq_table := bytes_of "t";
     yq_duplicate := true; yq_settings := 1 |}.

Example ex_system_counts :
  inv_system ex_system /\
  header_count (explain_system_query 0 ex_system) = 5 /\
  direct_children (explain_system_query 0 ex_system) = 5 /\
  check_lines (explain_system_query 0 ex_system) = true.
Proof. vm_compute. repeat split. Qed.

(* UPDATE db.t SET a = 1, b = x WHERE c *)
Definition ex_update : update_query :=
  {| pq_database := bytes_of "db"; pq_table := bytes_of "t"; pq_where := Some (idt "c");
     pq_assignments := [ {| as_column := bytes_of "a"; as_value := Some (T_leaf L_Literal_UInt64_1) |};
                         {| as_column := bytes_of "b"; as_value := Some (idt "x") |} ] |}.

Example ex_update_inv : inv_update_assignments ex_update /\ inv_update_count ex_update.
Proof. split; [repeat constructor|reflexivity]. Qed.

Example ex_update_counts :
  header_count (explain_update_query 0 ex_update) = 3 /\
  direct_children (explain_update_query 0 ex_update) = 3 /\
  check_text node_kinds (print_lines (explain_update_query 0 ex_update)) = true.
Proof. vm_compute. repeat split. Qed.

(* SELECT .. FROM (EXPLAIN SYNTAX SELECT 1) AS e SAMPLE 1 / 10 OFFSET 1 / 2 *)
Definition ex_table_expression : table_expression :=
  {| tx_table := TV_subquery_explain {| ve_type_str := bytes_of "EXPLAIN SYNTAX"; ve_options := [];
                                        ve_statement := Some select_1_tree |};
     tx_alias := bytes_of "e";
     tx_sample := Some {| sm_ratio := bytes_of "1 / 10"; sm_offset := Some (bytes_of "1 / 2") |} |}.

Example ex_table_expression_counts :
  header_count (explain_table_expression 0 ex_table_expression) = 3 /\
  direct_children (explain_table_expression 0 ex_table_expression) = 3 /\
  List.length (explain_table_expression 0 ex_table_expression) = 22 /\
  check_text node_kinds (print_lines (explain_table_expression 0 ex_table_expression)) = true.
Proof. vm_compute. repeat split. Qed.

(* PRIMARY KEY k SOURCE(CLICKHOUSE(TABLE 't' DB)) LIFETIME(..) LAYOUT(HASHED(SHARDS 2)) RANGE(..) SETTINGS(..) *)
Definition ex_dict_definition : dict_definition :=
  {| dd_primary_key := [idt "k"];
     dd_source := Some {| ds_type := bytes_of "clickhouse"; ds_args := [Some (idt "t"); None] |};
     dd_lifetime := true; dd_layout := Some [Some (T_leaf (bytes_of "Literal UInt64_2"))];
     dd_range := true; dd_settings := 1 |}.

Example ex_dict_definition_counts :
  header_count (explain_dict_definition 0 ex_dict_definition) = 6 /\
  direct_children (explain_dict_definition 0 ex_dict_definition) = 6 /\
  check_lines (explain_dict_definition 0 ex_dict_definition) = true.
Proof. vm_compute. repeat split. Qed.
