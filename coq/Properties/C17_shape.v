(* C17, table half, tie of the model of Lookup to the source.  The theorems of Properties/C17.v are about the map that
   token.init() builds and about Lookup as a plain lookup in it (Lexer/LexerModel.lookup over Gen/TokenTable.v).  The
   translator (cmd/gentables) regenerates the table from token.go on every run AND compares the source of Lookup, init and
   IsKeyword (white space removed) with the shape the model transcribes, and counts the writes to Keywords in package token;
   the result is the boolean below.  A Lookup that is no longer a plain map lookup (a hash table without a final string
   comparison, a case-folding buffer, an extra alias entry added after the loop ...) makes it false and this file stops
   compiling: the table theorems then no longer speak about the code. *)
From DC Require Import Gen.TokenTable.

Theorem C17_lookup_init_iskeyword_have_the_modelled_shape : lookup_shape_ok = true.
Proof. exact (eq_refl : lookup_shape_ok = true). Qed.
Print Assumptions C17_lookup_init_iskeyword_have_the_modelled_shape.
