(* C16 -- cancellation between statements.

   "If the context passed to Parse is already cancelled or is cancelled while a script is being
    parsed, Parse stops at the next statement boundary and returns the context's error together
    with a prefix of the statements it would otherwise have returned; it never returns a nil error
    for input it has not finished, and a context that is never cancelled never causes an error."

   Model: Driver/DriverModel.v (`run` = ParseStatements over the token list, statement parser `ps`
   and cancellation oracle `done` are parameters).  Proofs: Driver/DriverProof.v.
   Assumed about `ps` (explicit premises below): it consumes at least one token unless at EOF,
   and stays at EOF (C02's obligation for the real parser).  Nothing is assumed about `done`
   (monotone or not): only the first check at which it is true matters.

   Reading guide:  run ... done ... ts = Finished ss e rest   means ParseStatements returned
   (ss, e) with `rest` the tokens it had not consumed;  full ... ts = run ... never ... ts;
   after ... k ts [] [] = Some (acc, tsk, errs): state after k uncancelled iterations. *)
From Coq Require Import List NArith Bool.
From DC Require Import Base.Item Gen.TokenTable Driver.DriverModel Driver.DriverProof Driver.DriverToy.
Import ListNotations.

Theorem C16 :
  forall (stmt err : Type) (ps : list item -> option stmt * list item * list err)
         (mk_parallel : stmt -> list stmt -> stmt) (ctx_err : ctx_error) (read_failed : bool),
    (forall ts, ts <> [] -> length (rem (ps ts)) < length ts) ->
    rem (ps []) = [] ->
    forall (done : nat -> bool) (ts : list item),
      (* the model terminates within its fuel *)
      (exists ss e rest, run ps mk_parallel done ctx_err read_failed ts = Finished ss e rest) /\
      (* (i) never cancelled: the uncancelled result; no context error; all input consumed *)
      ((forall j, done j = false) ->
         run ps mk_parallel done ctx_err read_failed ts = full ps mk_parallel ctx_err read_failed ts /\
         exists ss e, full ps mk_parallel ctx_err read_failed ts = Finished ss e [] /\
                      forall c, e <> CtxErr c) /\
      (* (ii) cancelled first at check k: cut there if the loop reaches check k, with exactly the
         statements of the first k iterations (a prefix of the uncancelled result) *)
      (forall k, first_done done k ->
         match after ps mk_parallel k ts [] [] with
         | Some (acc, t :: tsk, _) =>
             run ps mk_parallel done ctx_err read_failed ts = Finished acc (CtxErr ctx_err) (t :: tsk) /\
             is_prefix acc (stmts_of (full ps mk_parallel ctx_err read_failed ts))
         | _ => run ps mk_parallel done ctx_err read_failed ts = full ps mk_parallel ctx_err read_failed ts
         end) /\
      (* (iii) a nil error only for finished input *)
      (forall ss rest, run ps mk_parallel done ctx_err read_failed ts = Finished ss NoErr rest ->
         rest = [] /\ full ps mk_parallel ctx_err read_failed ts = Finished ss NoErr [] /\
         read_failed = false) /\
      (* (iv) pre-cancelled *)
      (done 0 = true ->
         run ps mk_parallel done ctx_err read_failed ts =
         match ts with
         | [] => finish read_failed [] []
         | _ :: _ => Finished [] (CtxErr ctx_err) ts
         end) /\
      (* always a prefix *)
      is_prefix (stmts_of (run ps mk_parallel done ctx_err read_failed ts))
                (stmts_of (full ps mk_parallel ctx_err read_failed ts)).
Proof. exact driver_C16. Qed.
Print Assumptions C16.

(* complete case analysis for an arbitrary oracle *)
Theorem C16_cases :
  forall (stmt err : Type) (ps : list item -> option stmt * list item * list err)
         (mk_parallel : stmt -> list stmt -> stmt) (ctx_err : ctx_error) (read_failed : bool),
    (forall ts, ts <> [] -> length (rem (ps ts)) < length ts) ->
    rem (ps []) = [] ->
    forall (done : nat -> bool) (ts : list item),
      run ps mk_parallel done ctx_err read_failed ts = full ps mk_parallel ctx_err read_failed ts \/
      exists k acc tsk errsk,
        first_done done k /\ after ps mk_parallel k ts [] [] = Some (acc, tsk, errsk) /\ tsk <> [] /\
        run ps mk_parallel done ctx_err read_failed ts = Finished acc (CtxErr ctx_err) tsk /\
        is_prefix acc (stmts_of (full ps mk_parallel ctx_err read_failed ts)).
Proof. exact run_cases. Qed.
Print Assumptions C16_cases.

(* a context error is returned only when a check really saw the context done, the input is then
   unfinished, and the error is the context's *)
Theorem C16_ctx_error_only_when_done :
  forall (stmt err : Type) (ps : list item -> option stmt * list item * list err)
         (mk_parallel : stmt -> list stmt -> stmt) (ctx_err : ctx_error) (read_failed : bool),
    (forall ts, ts <> [] -> length (rem (ps ts)) < length ts) ->
    rem (ps []) = [] ->
    forall (done : nat -> bool) (ts : list item) (ss : list stmt) (c : ctx_error) (rest : list item),
      run ps mk_parallel done ctx_err read_failed ts = Finished ss (CtxErr c) rest ->
      c = ctx_err /\ rest <> [] /\
      exists k errs, first_done done k /\ after ps mk_parallel k ts [] [] = Some (ss, rest, errs) /\
                     is_prefix ss (stmts_of (full ps mk_parallel ctx_err read_failed ts)).
Proof. exact ctx_error_means_cut. Qed.
Print Assumptions C16_ctx_error_only_when_done.

(* cancelling later never returns fewer statements *)
Theorem C16_monotone_in_cancellation_time :
  forall (stmt err : Type) (ps : list item -> option stmt * list item * list err)
         (mk_parallel : stmt -> list stmt -> stmt) (ctx_err : ctx_error) (read_failed : bool),
    (forall ts, ts <> [] -> length (rem (ps ts)) < length ts) ->
    rem (ps []) = [] ->
    forall (d1 d2 : nat -> bool) (k1 k2 : nat) (ts : list item),
      first_done d1 k1 -> first_done d2 k2 -> k1 <= k2 ->
      is_prefix (stmts_of (run ps mk_parallel d1 ctx_err read_failed ts))
                (stmts_of (run ps mk_parallel d2 ctx_err read_failed ts)).
Proof. exact cancel_monotone. Qed.
Print Assumptions C16_monotone_in_cancellation_time.

(* the form with a monotone oracle and any (not necessarily first) done check that is reached *)
Theorem C16_monotone_oracle :
  forall (stmt err : Type) (ps : list item -> option stmt * list item * list err)
         (mk_parallel : stmt -> list stmt -> stmt) (ctx_err : ctx_error) (read_failed : bool),
    (forall ts, ts <> [] -> length (rem (ps ts)) < length ts) ->
    rem (ps []) = [] ->
    forall (done : nat -> bool) (k : nat) (ts : list item) (acc : list stmt) (tsk : list item)
           (errsk : list err),
      monotone done -> done k = true ->
      after ps mk_parallel k ts [] [] = Some (acc, tsk, errsk) -> tsk <> [] ->
      exists ss rest,
        run ps mk_parallel done ctx_err read_failed ts = Finished ss (CtxErr ctx_err) rest /\
        rest <> [] /\ is_prefix ss acc /\
        is_prefix ss (stmts_of (full ps mk_parallel ctx_err read_failed ts)).
Proof. exact monotone_cancelled. Qed.
Print Assumptions C16_monotone_oracle.

(* on a script of delimited statements the boundaries are the segment boundaries: first done
   check k < n returns the statements of the first k segments; no progress premise is needed
   because `delimited` gives it on the segments *)
Theorem C16_script :
  forall (stmt err : Type) (ps : list item -> option stmt * list item * list err)
         (mk_parallel : stmt -> list stmt -> stmt) (ctx_err : ctx_error) (read_failed : bool)
         (done : nat -> bool) (k : nat) (pre : list item) (segs : list (segment stmt err)),
    all_semi pre -> seps_ok segs -> segs_delimited ps mk_parallel segs ->
    first_done done k -> k < length segs ->
    run ps mk_parallel done ctx_err read_failed (pre ++ join segs) =
    Finished (script_stmts (firstn k segs)) (CtxErr ctx_err) (rest_at k pre segs).
Proof. exact cancelled_script. Qed.
Print Assumptions C16_script.

(* ------------------------------------------------------------------------------------------ *)
(* The hypotheses are satisfiable and the conclusions non-trivial: the toy statement parser.   *)

Example toy_satisfies_progress :
  (forall ts, ts <> [] -> length (rem (toy_ps ts)) < length ts) /\ rem (toy_ps []) = [].
Proof. exact (conj toy_progress toy_eof). Qed.

Local Open Scope N_scope.

(* SELECT 1 ; SELECT 1 1 ;; SELECT 1 *)
Definition script3 : list item :=
  map tk [T_SELECT; T_NUMBER; T_SEMICOLON; T_SELECT; T_NUMBER; T_NUMBER; T_SEMICOLON; T_SEMICOLON;
          T_SELECT; T_NUMBER].

Example ex_full :
  toy_run never Canceled script3 =
  Finished [[T_SELECT; T_NUMBER]; [T_SELECT; T_NUMBER; T_NUMBER]; [T_SELECT; T_NUMBER]] NoErr [].
Proof. vm_compute. reflexivity. Qed.

(* cancelled at the check before statement 1 (k = 1): one statement, the context's error, and
   the unconsumed input starts at statement 1 *)
Example ex_cancel_at_1 :
  toy_run (fun k => Nat.leb 1 k) Canceled script3 =
  Finished [[T_SELECT; T_NUMBER]] (CtxErr Canceled)
           (map tk [T_SELECT; T_NUMBER; T_NUMBER; T_SEMICOLON; T_SEMICOLON; T_SELECT; T_NUMBER]).
Proof. vm_compute. reflexivity. Qed.

Example ex_cancel_at_2_deadline :
  toy_run (fun k => Nat.leb 2 k) DeadlineExceeded script3 =
  Finished [[T_SELECT; T_NUMBER]; [T_SELECT; T_NUMBER; T_NUMBER]] (CtxErr DeadlineExceeded)
           (map tk [T_SELECT; T_NUMBER]).
Proof. vm_compute. reflexivity. Qed.

(* cancelled after the last statement was parsed: not observed, nil error *)
Example ex_cancel_too_late :
  toy_run (fun k => Nat.leb 3 k) Canceled script3 = toy_run never Canceled script3.
Proof. vm_compute. reflexivity. Qed.

Example ex_pre_cancelled :
  toy_run (fun _ => true) Canceled script3 = Finished [] (CtxErr Canceled) script3 /\
  toy_run (fun _ => true) Canceled [] = Finished [] NoErr [].
Proof. split; vm_compute; reflexivity. Qed.

(* a non-monotone oracle (done only at check 1) behaves like the monotone one *)
Example ex_non_monotone :
  toy_run (fun k => Nat.eqb k 1) Canceled script3 = toy_run (fun k => Nat.leb 1 k) Canceled script3.
Proof. vm_compute. reflexivity. Qed.

(* PARALLEL WITH chaining, a parse error, and cancellation in the same script:
   SELECT 1 PARALLEL WITH SELECT 1 ; <ILLEGAL> SELECT 1 ; SELECT 1 *)
Definition script_par : list item :=
  map tk [T_SELECT; T_NUMBER; T_PARALLEL; T_WITH; T_SELECT; T_NUMBER; T_SEMICOLON;
          T_ILLEGAL; T_SELECT; T_NUMBER; T_SEMICOLON; T_SELECT; T_NUMBER].

Example ex_par_full :
  toy_run never Canceled script_par =
  Finished [[T_SELECT; T_NUMBER; T_PARALLEL; T_WITH; T_SELECT; T_NUMBER]; [T_SELECT; T_NUMBER];
            [T_SELECT; T_NUMBER]] (ParseErrs [T_ILLEGAL]) [].
Proof. vm_compute. reflexivity. Qed.

(* the ILLEGAL token is an iteration of its own (nil statement): check 2 is before SELECT 1 *)
Example ex_par_cancel_2 :
  toy_run (fun k => Nat.leb 2 k) Canceled script_par =
  Finished [[T_SELECT; T_NUMBER; T_PARALLEL; T_WITH; T_SELECT; T_NUMBER]] (CtxErr Canceled)
           (map tk [T_SELECT; T_NUMBER; T_SEMICOLON; T_SELECT; T_NUMBER]).
Proof. vm_compute. reflexivity. Qed.

(* a failed read is reported at the end of the loop but not on the cancellation return *)
Example ex_read_failed :
  run toy_ps toy_par never Canceled true script3 =
  Finished [[T_SELECT; T_NUMBER]; [T_SELECT; T_NUMBER; T_NUMBER]; [T_SELECT; T_NUMBER]] ReadErr [] /\
  run toy_ps toy_par (fun k => Nat.leb 1 k) Canceled true script3 =
  toy_run (fun k => Nat.leb 1 k) Canceled script3.
Proof. split; vm_compute; reflexivity. Qed.
