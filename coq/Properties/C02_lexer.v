(* C02, lexer premise.  "Parse always terminates, in work linear in the number of tokens": Parse first pulls tokens
   from the lexer, so it can only terminate if the lexer reaches EOF, and the token count that the parser bound is
   stated in must itself be bounded by the input size.  Both follow from the totality theorem of the lexer model
   (Lexer/LexerTotal.v, the same model C12 is stated over; tied to lexer.go by the correspondence run that the C02
   check repeats): for EVERY byte string the model's Tokenize returns -- its fuel is never exhausted -- with at most
   one token per input byte plus the final EOF, and after EOF it keeps returning EOF (the premise the parser
   skeleton's theorem C02_parser_steps_linear uses for its token list). *)
From Coq Require Import List NArith.
From DC Require Import Base.Item Gen.TokenTable Lexer.LexerModel Lexer.LexerTotal.
Import ListNotations.

Theorem C02_lexer_reaches_eof_in_linear_tokens : forall bs : list N,
  exists pre e,
    tokenize bs = Some (pre ++ [e]) /\ it_tok e = T_EOF /\
    Forall (fun i => it_tok i <> T_EOF) pre /\
    length (pre ++ [e]) <= length bs + 1 /\
    forall k, next_tokens (length (pre ++ [e]) + k) bs = Some ((pre ++ [e]) ++ repeat e k).
Proof. exact tokenize_total. Qed.
Print Assumptions C02_lexer_reaches_eof_in_linear_tokens.
