(* C01 (layer 2, whole parser) -- Parse never dereferences nil.
   Statement over the generated nil-flow graphs of package parser (Gen/ParserNil.v: every function
   reachable from Parse, with an explicit call stack): for every oracle (every resolution of the heap
   reads, external results and data-dependent branches) and every number of steps, the run of
   Parse(ctx, r) with usable ctx and r never gets stuck, and reaches [Bad s] -- a method call on a nil
   or typed-nil interface, a field access / assignment / indirection through a nil pointer, a write to
   a nil map, an unchecked type assertion on a nil interface, or a store that breaks the invariant of a
   strict or clean heap cell class -- only at a site s of the reviewed list (Gen/ParserNilAllowed.v,
   from checks/c01_reviewed_sites.json: each entry is a reviewed claim "never nil here").
   (The graphs of this reading contain no IHalt: [Halted] does not occur.)
   The panic sources outside the graphs are inventoried: every index / slice expression carries a
   recognised guard or is reviewed; there is no unchecked type assertion, no explicit panic and no
   integer division by a non-constant that is not reviewed.
   The obligations are computed by the kernel (vm_compute) on the program generated in this run. *)
From Coq Require Import List NArith String.
From DC Require Import Nil.NilLang Nil.NilSem Nil.NilCheck Nil.NilSound Nil.NilInventory.
From DC Require Import Gen.ParserNil Gen.ParserNilInv Gen.ParserNilAllowed.
Import ListNotations.

Theorem C01_nil_no_crash :
  forall (orc : list N) (n : nat),
    match run false parser_nil n (init parser_nil (ptr_args parser_nil) orc) with
    | Bad s => In s (map fst reviewed_c01)
    | Stuck => False
    | Done vs => Forall2 (meets parser_nil) vs (main_results parser_nil)
    | Halted => True
    | Next _ => True
    end.
Proof.
  exact (nil_safe false parser_nil (map fst reviewed_c01)
           (eq_refl true <: check_prog false parser_nil (map fst reviewed_c01) = true)).
Qed.
Print Assumptions C01_nil_no_crash.

(* the reviewed sites are uncertified sites of this very program, named by their keys *)
Theorem C01_nil_reviewed_sites_exist : reviewed_sites_ok parser_nil_uncertified_sites reviewed_c01 = true.
Proof. exact (eq_refl true <: reviewed_sites_ok parser_nil_uncertified_sites reviewed_c01 = true). Qed.
Print Assumptions C01_nil_reviewed_sites_exist.

(* the translator met no construct it cannot model *)
Theorem C01_nil_translation_complete : parser_nil_translation_problems = [].
Proof. exact (eq_refl : parser_nil_translation_problems = []). Qed.
Print Assumptions C01_nil_translation_complete.

(* the reviewed list is current: no entry without a matching open site, no entry whose guard context is gone *)
Theorem C01_nil_reviewed_list_current : stale_reviewed = [].
Proof. exact (eq_refl : stale_reviewed = []). Qed.
Print Assumptions C01_nil_reviewed_list_current.

Theorem C01_nil_index_sites_guarded : forallb (guarded_or_reviewed reviewed_index) index_sites = true.
Proof. exact (eq_refl true <: forallb (guarded_or_reviewed reviewed_index) index_sites = true). Qed.
Print Assumptions C01_nil_index_sites_guarded.

Theorem C01_nil_assert_sites_guarded : forallb (guarded_or_reviewed reviewed_assert) assert_sites = true.
Proof. exact (eq_refl true <: forallb (guarded_or_reviewed reviewed_assert) assert_sites = true). Qed.
Print Assumptions C01_nil_assert_sites_guarded.

Theorem C01_nil_panic_sites_reviewed : forallb (reviewed_only reviewed_panic) panic_sites = true.
Proof. exact (eq_refl true <: forallb (reviewed_only reviewed_panic) panic_sites = true). Qed.
Print Assumptions C01_nil_panic_sites_reviewed.

(* the hypotheses are satisfiable by a non-trivial object: Parse has two tracked parameters (ctx, r) and two
   tracked results (the statement list and the error); the program has more than a hundred functions *)
Example C01_nil_entry_shape :
  ptr_args parser_nil = [VPtr; VPtr] /\ List.length (main_results parser_nil) = 2%nat /\
  Nat.ltb 100 (List.length (p_funcs parser_nil)) = true.
Proof. vm_compute. repeat split. Qed.

(* the checker is not vacuous: without the reviewed list the same program is rejected *)
Example C01_nil_checker_rejects_unreviewed : check_prog false parser_nil [] = false.
Proof. vm_compute. reflexivity. Qed.
