(* C04 (part E) -- the expression printers: the "(children N)" number of every header line equals the
   number of children printed beneath it, for every field combination and every list length; hence the
   output is one rooted tree (up to [norm_line]) whenever the sub-printers' outputs are.
   Model: ExprEx/ExprExplainModel.v.

   Part 1 (Section Printers): every printer over ABSTRACT children.  [node] is any function; [T e t]
   says that [node] prints the one tree [t] for the child [e] at every depth.  For a printer X:
       X_emits   : children's [T] hypotheses -> forall d, emits (explain_X .. d ..) d [X_tree ..]
   with [X_tree] an explicit term over the children's trees; for the printers with a tally, the tally
   is shown equal to the number of emitted children on the way (the side condition of [emits_hdr]).
   Part 2: the aliased / WithElement twins print the plain printer's tree with " (alias a)" appended to
   the root label ([alias_root]), with the exact conditions where the Go code differs.
   Part 3: [enode] (the type switch of Node): strong induction over the nested AST; the global theorem
   holds under [inv_expr] (every ColumnTransformer has one of the three known types) and is refuted
   outside it. *)
From Coq Require Import String.
From Coq Require Import List NArith Arith Bool Lia.
From DC Require Import Tree.LineTree Tree.LineTreeProof
     Select.SelectExplainModel Select.SelectExplainProof
     Ddl.DdlExplainModel Ddl.DdlExplainProof
     Stmt.StmtExplainModel Stmt.StmtExplainProof
     ExprEx.ExprExplainModel.
Import ListNotations.
Local Open Scope string_scope.
Local Open Scope list_scope.
Local Open Scope nat_scope.

(* ---------------------------------------------------------------------------------------- *)
(** * Generic combinators *)

Lemma emits_cons_tree X Y d t ts : emits X d [t] -> emits Y d ts -> emits (X ++ Y) d (t :: ts).
Proof. intros HX HY. apply (emits_app X Y d [t] ts HX HY). Qed.

Lemma emits_snoc_tree X Y d ts t : emits X d ts -> emits Y d [t] -> emits (X ++ Y) d (ts ++ [t]).
Proof. intros HX HY. apply (emits_app X Y d ts [t] HX HY). Qed.

(* "Function f (children 1)" / " ExpressionList (children n)" / the n members *)
Definition fn_tree (lab : list N) (ts : list rose) : rose := Node lab [T_EL ts].

Lemma emits_fn d lab n body ts :
  n = length ts -> emits body (S (S d)) ts ->
  emits (hdr d lab 1 :: hdr (S d) L_ExpressionList n :: body) d [fn_tree lab ts].
Proof.
  intros En Hb. unfold fn_tree. apply emits_hdr; [reflexivity|].
  unfold T_EL. apply emits_hdr; assumption.
Qed.

(* the label of a header line that carries an optional alias *)
Definition alias_lab (lab alias : list N) : list N := if nonempty alias then lab ++ sfx alias else lab.

Lemma hdr_alias_eq d lab alias n : hdr_alias d lab alias n n = hdr d (alias_lab lab alias) n.
Proof. unfold hdr_alias, alias_lab. destruct (nonempty alias); reflexivity. Qed.

Lemma emits_node_nilable1 d o : emits (node_nilable d o) d [nilable_tree o].
Proof. apply emits_node_nilable. Qed.

Lemma emits_map_leaf_id d (l : list (list N)) :
  emits (map (fun c => leaf d (L_Identifier c)) l) d (map (fun c => T_leaf (L_Identifier c)) l).
Proof. apply (emits_map_leaf (fun c => L_Identifier c)). Qed.

(* ---------------------------------------------------------------------------------------- *)
(** * Part 1: the printers over abstract children *)

Section Printers.

Variable node : nat -> expr -> list line.
Variable norm_unit : list N -> list N.

(* Node prints the one tree [t] for [e], at every depth *)
Definition T (e : expr) (t : rose) : Prop := forall d, emits (node d e) d [t].
Definition Ts (es : list expr) (ts : list rose) : Prop := Forall2 T es ts.
(* an optional child: the trees printed for it *)
Definition To (o : option expr) (ts : list rose) : Prop :=
  match o with Some e => exists t, ts = [t] /\ T e t | None => ts = [] end.

Lemma Ts_length es ts : Ts es ts -> length es = length ts.
Proof. intros H. induction H; cbn [length]; congruence. Qed.

Lemma emits_Ts es ts d : Ts es ts -> emits (flat_map (node d) es) d ts.
Proof.
  intros H. induction H as [|e t es ts He _ IH]; [apply emits_nil|].
  cbn [flat_map]. apply emits_cons_tree; [apply He|exact IH].
Qed.

Lemma To_length o ts : To o ts -> length ts = b2n (is_some o).
Proof. destruct o; cbn [To]; [intros (t & -> & _)|intros ->]; reflexivity. Qed.

Lemma emits_To o ts d : To o ts -> emits (node_opt node d o) d ts.
Proof.
  destruct o as [e|]; cbn [To node_opt]; [intros (t & -> & He); apply He|intros ->; apply emits_nil].
Qed.

Lemma el_nodes_emits d es ts : Ts es ts -> emits (el_nodes node d es) d [T_EL ts].
Proof.
  intros H. unfold el_nodes, T_EL. apply emits_hdr; [apply Ts_length, H|apply emits_Ts, H].
Qed.

Lemma el_nodes_pos_emits d es ts : Ts es ts -> emits (el_nodes_pos node d es) d [T_EL ts].
Proof.
  intros H. unfold el_nodes_pos, T_EL. rewrite (Ts_length _ _ H).
  destruct ts as [|t ts].
  - inversion H; subst. apply emits_leaf.
  - cbn [length pos]. apply emits_hdr; [reflexivity|]. apply emits_Ts, H.
Qed.

(* goals [emits (node .. a ++ node .. b ++ ..) d [ta; tb; ..]] from hypotheses [T a ta] .. *)
Ltac kids :=
  repeat first
    [ apply emits_nil
    | match goal with H : T ?e ?t |- emits (node _ ?e) _ [?t] => apply H end
    | match goal with |- emits (node _ _ ++ _) _ (_ :: _) => apply emits_cons_tree end
    | match goal with |- emits (_ :: _) _ (T_leaf _ :: _) => apply emits_cons_leaf end
    | apply emits_leaf ].

(* ---- identifier, parameter ---- *)
Definition identifier_tree (name alias : list N) : rose := T_leaf (alias_lab (L_Identifier name) alias).

Lemma identifier_emits name alias d : emits (explain_identifier d name alias) d [identifier_tree name alias].
Proof. unfold explain_identifier, identifier_tree, alias_lab. destruct (nonempty alias); apply emits_leaf. Qed.

Definition parameter_label (name : list N) (ty : option (list N)) : list N :=
  if nonempty name then
    match ty with Some t => X_QueryParameter_n (name ++ bytes_of ":" ++ t) | None => X_QueryParameter_n name end
  else X_QueryParameter.

Lemma parameter_emits name ty d : emits (explain_parameter d name ty) d [T_leaf (parameter_label name ty)].
Proof. unfold explain_parameter, parameter_label. destruct (nonempty name); [destruct ty|]; apply emits_leaf. Qed.

Lemma parameter_aliased_emits alias name ty d :
  emits (explain_parameter_aliased alias d name ty) d [T_leaf (parameter_label name ty ++ sfx alias)].
Proof. unfold explain_parameter_aliased, parameter_label. destruct (nonempty name); [destruct ty|]; apply emits_leaf. Qed.

(* ---- subquery, exists ---- *)
Definition subquery_tree (q : option rose) (alias : list N) : rose :=
  Node (alias_lab X_Subquery alias) [nilable_tree q].

Lemma subquery_emits q alias d : emits (explain_subquery d q alias) d [subquery_tree q alias].
Proof.
  unfold explain_subquery, subquery_tree. rewrite hdr_alias_eq.
  apply emits_hdr; [reflexivity|apply emits_node_nilable].
Qed.

Definition exists_tree (alias : list N) (q : option rose) : rose :=
  fn_tree (alias_lab (L_Function F_exists) alias) [Node X_Subquery [nilable_tree q]].

Lemma exists_emits alias q d : emits (explain_exists_expr_with_alias alias d q) d [exists_tree alias q].
Proof.
  unfold explain_exists_expr_with_alias, exists_tree. rewrite hdr_alias_eq.
  apply emits_fn; [reflexivity|]. apply emits_hdr; [reflexivity|apply emits_node_nilable].
Qed.

(* ---- ternary (three copies) ---- *)
Section Ternary.
Variables (c t e : expr) (tc tt te : rose).
Hypotheses (Hc : T c tc) (Ht : T t tt) (He : T e te).

Lemma ternary_emits d : emits (explain_ternary_expr node d c t e) d [fn_tree (L_Function F_if) [tc; tt; te]].
Proof. unfold explain_ternary_expr. apply emits_fn; [reflexivity|kids]. Qed.

Lemma aliased_ternary_emits alias d :
  emits (explain_aliased_ternary node alias d c t e) d [fn_tree (L_Function F_if ++ sfx alias) [tc; tt; te]].
Proof. unfold explain_aliased_ternary. apply emits_fn; [reflexivity|kids]. Qed.

Lemma with_ternary_emits name d :
  emits (explain_with_ternary node name d c t e) d [fn_tree (alias_lab (L_Function F_if) name) [tc; tt; te]].
Proof. unfold explain_with_ternary. rewrite hdr_alias_eq. apply emits_fn; [reflexivity|kids]. Qed.
End Ternary.

(* ---- two-argument functions: array / tuple access, LIKE ---- *)
Section Two.
Variables (a b : expr) (ta tb : rose).
Hypotheses (Ha : T a ta) (Hb : T b tb).

Lemma array_access_emits d :
  emits (explain_array_access node d a b) d [fn_tree (L_Function F_arrayElement) [ta; tb]].
Proof. unfold explain_array_access. apply emits_fn; [reflexivity|kids]. Qed.

Lemma array_access_with_alias_emits alias d :
  emits (explain_array_access_with_alias node alias d a b) d
        [fn_tree (alias_lab (L_Function F_arrayElement) alias) [ta; tb]].
Proof. unfold explain_array_access_with_alias. rewrite hdr_alias_eq. apply emits_fn; [reflexivity|kids]. Qed.

Lemma tuple_access_emits d :
  emits (explain_tuple_access node d a b) d [fn_tree (L_Function F_tupleElement) [ta; tb]].
Proof. unfold explain_tuple_access. apply emits_fn; [reflexivity|kids]. Qed.

Lemma tuple_access_with_alias_emits alias d :
  emits (explain_tuple_access_with_alias node alias d a b) d
        [fn_tree (alias_lab (L_Function F_tupleElement) alias) [ta; tb]].
Proof. unfold explain_tuple_access_with_alias. rewrite hdr_alias_eq. apply emits_fn; [reflexivity|kids]. Qed.

Lemma like_emits not ci own d :
  emits (explain_like_expr node d a b not ci own) d [fn_tree (alias_lab (L_Function (like_fn not ci)) own) [ta; tb]].
Proof. unfold explain_like_expr. rewrite hdr_alias_eq. apply emits_fn; [reflexivity|kids]. Qed.

Lemma like_with_alias_emits alias not ci d :
  emits (explain_like_expr_with_alias node alias d a b not ci) d
        [fn_tree (alias_lab (L_Function (like_fn not ci)) alias) [ta; tb]].
Proof. unfold explain_like_expr_with_alias. rewrite hdr_alias_eq. apply emits_fn; [reflexivity|kids]. Qed.

(* explainPositionWithIn(needle = a, haystack = b): the arguments are swapped *)
Lemma position_with_in_emits alias d :
  emits (explain_position_with_in node alias d a b) d [fn_tree (alias_lab (L_Function F_position) alias) [tb; ta]].
Proof. unfold explain_position_with_in. rewrite hdr_alias_eq. apply emits_fn; [reflexivity|kids]. Qed.

Lemma date_add_sub_with_interval_emits alias op_fn d :
  emits (explain_date_add_sub_with_interval node alias d op_fn a b) d
        [fn_tree (alias_lab (L_Function op_fn) alias) [ta; tb]].
Proof. unfold explain_date_add_sub_with_interval. rewrite hdr_alias_eq. apply emits_fn; [reflexivity|kids]. Qed.

(* explainDateAddSubResult(dateArg = a, valueArg = b) *)
Lemma date_add_sub_result_emits alias op_fn unit d :
  emits (explain_date_add_sub_result node norm_unit alias d op_fn a b unit) d
        [fn_tree (alias_lab (L_Function op_fn) alias)
                 [ta; fn_tree (L_Function (F_toInterval (norm_unit unit))) [tb]]].
Proof.
  unfold explain_date_add_sub_result. rewrite hdr_alias_eq. apply emits_fn; [reflexivity|].
  apply emits_cons_tree; [apply Ha|]. apply emits_fn; [reflexivity|apply Hb].
Qed.
End Two.

(* ---- BETWEEN ---- *)
Section Between.
Variables (e lo hi : expr) (te tlo thi : rose).
Hypotheses (He : T e te) (Hlo : T lo tlo) (Hhi : T hi thi).

Definition between_children (not : bool) : list rose :=
  if not then [fn_tree (L_Function F_less) [te; tlo]; fn_tree (L_Function F_greater) [te; thi]]
  else [fn_tree (L_Function F_greaterOrEquals) [te; tlo]; fn_tree (L_Function F_lessOrEquals) [te; thi]].

Lemma between_body_emits not d : emits (between_body node d not e lo hi) (S d) [T_EL (between_children not)].
Proof.
  unfold between_body, between_children. destruct not.
  - unfold T_EL. apply emits_hdr; [reflexivity|].
    apply emits_cons_tree; (apply emits_fn; [reflexivity|kids]).
  - unfold T_EL. apply emits_hdr; [reflexivity|].
    apply emits_cons_tree; (apply emits_fn; [reflexivity|kids]).
Qed.

Definition between_tree (alias : list N) (not : bool) : rose :=
  Node (alias_lab (L_Function (if not then F_or else F_and)) alias) [T_EL (between_children not)].

Lemma between_emits not d : emits (explain_between_expr node d e lo hi not) d [between_tree [] not].
Proof.
  unfold explain_between_expr, between_tree, alias_lab. cbn [nonempty].
  destruct not; (apply emits_hdr; [reflexivity|apply between_body_emits]).
Qed.

Lemma between_with_alias_emits alias not d :
  emits (explain_between_expr_with_alias node alias d e lo hi not) d [between_tree alias not].
Proof.
  unfold explain_between_expr_with_alias, between_tree.
  destruct not; rewrite hdr_alias_eq; (apply emits_hdr; [reflexivity|apply between_body_emits]).
Qed.
End Between.

(* ---- one-argument functions: IS NULL, EXTRACT ---- *)
Section One.
Variables (e : expr) (te : rose).
Hypothesis (He : T e te).

Lemma is_null_emits alias not d :
  emits (explain_is_null_expr_with_alias node alias d e not) d
        [fn_tree (alias_lab (L_Function (if not then F_isNotNull else F_isNull)) alias) [te]].
Proof. unfold explain_is_null_expr_with_alias. rewrite hdr_alias_eq. apply emits_fn; [reflexivity|apply He]. Qed.

Lemma extract_emits alias fn d :
  emits (explain_extract_expr_with_alias node alias d fn e) d [fn_tree (alias_lab (L_Function fn) alias) [te]].
Proof. unfold explain_extract_expr_with_alias. rewrite hdr_alias_eq. apply emits_fn; [reflexivity|apply He]. Qed.

(* ---- lambda ---- *)
Definition lambda_tree (alias : list N) (params : list (list N)) : rose :=
  fn_tree (alias_lab (L_Function F_lambda) alias)
          [fn_tree (L_Function F_tuple) (map (fun p => T_leaf (L_Identifier p)) params); te].

Lemma lambda_emits alias params d :
  emits (explain_lambda_with_alias node alias d params e) d [lambda_tree alias params].
Proof.
  unfold explain_lambda_with_alias, lambda_tree. rewrite hdr_alias_eq. apply emits_fn; [reflexivity|].
  change (hdr (S (S d)) (L_Function F_tuple) 1 :: ?X ++ ?Y) with ((hdr (S (S d)) (L_Function F_tuple) 1 :: X) ++ Y).
  apply emits_cons_tree; [|apply He].
  unfold fn_tree. apply emits_hdr; [reflexivity|].
  destruct params as [|p ps].
  - apply emits_leaf.
  - cbn [length pos]. unfold T_EL. apply emits_hdr; [cbn [length]; rewrite map_length; reflexivity|].
    apply emits_map_leaf_id.
Qed.
End One.

(* ---- CASE ---- *)
Definition Tw (whens : list (expr * expr)) (tps : list (rose * rose)) : Prop :=
  Forall2 (fun w p => T (fst w) (fst p) /\ T (snd w) (snd p)) whens tps.
Definition when_trees (tps : list (rose * rose)) : list rose := flat_map (fun p => [fst p; snd p]) tps.

Lemma length_when_trees tps : length (when_trees tps) = length tps * 2.
Proof. unfold when_trees. induction tps as [|p tps IH]; [reflexivity|]. cbn [flat_map app length]. rewrite IH. lia. Qed.

Lemma Tw_length whens tps : Tw whens tps -> length whens = length tps.
Proof. intros H. induction H; cbn [length]; congruence. Qed.

Lemma case_whens_emits whens tps d : Tw whens tps -> emits (case_whens node d whens) d (when_trees tps).
Proof.
  intros H. induction H as [|[c r] [tc tr] ws tps [Hc Hr] _ IH]; [apply emits_nil|].
  cbn [case_whens flat_map when_trees fst snd] in *.
  change ([tc; tr] ++ flat_map (fun p => [fst p; snd p]) tps) with (tc :: tr :: when_trees tps).
  rewrite <- app_assoc. apply emits_cons_tree; [apply Hc|]. apply emits_cons_tree; [apply Hr|exact IH].
Qed.

Definition else_trees (els : option expr) (ts : list rose) : list rose :=
  match els with Some _ => ts | None => [T_leaf X_Literal_NULL] end.

Lemma case_else_emits els ts d : To els ts -> emits (case_else node d els) d (else_trees els ts).
Proof.
  destruct els as [e|]; cbn [To case_else else_trees]; [intros (t & -> & He); apply He|intros _; apply emits_leaf].
Qed.

Lemma length_else_trees els ts : To els ts -> length (else_trees els ts) = 1.
Proof. destruct els; cbn [To else_trees]; [intros (t & -> & _)|intros _]; reflexivity. Qed.

Definition case_tree (alias : list N) (operand : option expr) (tos : list rose) (tps : list (rose * rose))
           (els : option expr) (tes : list rose) : rose :=
  match operand with
  | Some _ => fn_tree (alias_lab (L_Function F_caseWithExpression) alias) (tos ++ when_trees tps ++ else_trees els tes)
  | None => fn_tree (alias_lab (L_Function F_multiIf) alias) (when_trees tps ++ else_trees els tes)
  end.

Lemma case_emits alias operand whens els tos tps tes d :
  To operand tos -> Tw whens tps -> To els tes ->
  emits (explain_case_expr_with_alias node alias d operand whens els) d [case_tree alias operand tos tps els tes].
Proof.
  intros Ho Hw He. unfold explain_case_expr_with_alias, case_tree.
  destruct operand as [o|]; rewrite hdr_alias_eq.
  - destruct Ho as (t & -> & Ht). apply emits_fn.
    + rewrite !app_length, length_when_trees, (length_else_trees _ _ He), (Tw_length _ _ Hw). cbn [length]. lia.
    + apply emits_cons_tree; [apply Ht|]. apply emits_app; [apply case_whens_emits, Hw|apply case_else_emits, He].
  - apply emits_fn.
    + rewrite !app_length, length_when_trees, (length_else_trees _ _ He), (Tw_length _ _ Hw). lia.
    + apply emits_app; [apply case_whens_emits, Hw|apply case_else_emits, He].
Qed.

(* ---- INTERVAL ---- *)
Definition ipart_tree (p : ipart) : rose :=
  fn_tree (L_Function (F_toInterval (ip_unit p))) [T_leaf (X_Literal (ip_literal p))].

Definition interval_tree (alias : list N) (value : expr) (unit : list N) (tv : rose) : rose :=
  match (if nonempty unit then None else interval_string_parts value) with
  | Some (p1 :: p2 :: rest) => fn_tree (alias_lab (L_Function F_tuple) alias) (map ipart_tree (p1 :: p2 :: rest))
  | Some [p] => fn_tree (alias_lab (L_Function (F_toInterval (ip_unit p))) alias) [T_leaf (X_Literal (ip_literal p))]
  | _ => fn_tree (alias_lab (L_Function (F_toInterval (norm_unit unit))) alias) [tv]
  end.

Lemma iparts_emits d parts :
  emits (flat_map (fun p => [hdr d (L_Function (F_toInterval (ip_unit p))) 1;
                             hdr (S d) L_ExpressionList 1;
                             leaf (S (S d)) (X_Literal (ip_literal p))]) parts) d (map ipart_tree parts).
Proof.
  apply emits_flat_map. intros p. unfold ipart_tree. apply emits_fn; [reflexivity|apply emits_leaf].
Qed.

Lemma interval_emits alias value unit tv d :
  T value tv -> emits (explain_interval_expr node norm_unit alias d value unit) d [interval_tree alias value unit tv].
Proof.
  intros Hv. unfold explain_interval_expr, interval_tree, interval_simple.
  destruct (if nonempty unit then None else interval_string_parts value) as [[|p1 [|p2 rest]]|];
    rewrite hdr_alias_eq.
  - apply emits_fn; [reflexivity|apply Hv].
  - apply emits_fn; [reflexivity|apply emits_leaf].
  - apply emits_fn; [rewrite map_length; reflexivity|]. apply (iparts_emits (S (S d))).
  - apply emits_fn; [reflexivity|apply Hv].
Qed.

(* ---- CAST ---- *)
(* the operand is printed as one Literal line *)
Definition cast_operand_is_line (e : expr) (opsyntax : bool) : bool :=
  opsyntax &&
  match as_lit e with
  | Some (ty, _) =>
      if is_array_or_tuple ty
      then should_use_array_format e || negb (contains_cast_expressions e || negb (contains_only_literals e))
      else true
  | None => neg_numeric e
  end.

Definition cast_tree (alias : list N) (e : expr) (te : rose) (type_expr : option expr) (tty : list rose)
           (type_lbl : list N) (opsyntax : bool) (lit_lbl : list N) : rose :=
  fn_tree (alias_lab (L_Function F_CAST) alias)
          ((if cast_operand_is_line e opsyntax then T_leaf (X_Literal lit_lbl) else te)
           :: match type_expr with Some _ => tty | None => [T_leaf (X_Literal type_lbl)] end).

Lemma cast_operand_emits e te opsyntax lit_lbl d :
  T e te ->
  emits (cast_operand_lines node d e opsyntax lit_lbl) d
        [if cast_operand_is_line e opsyntax then T_leaf (X_Literal lit_lbl) else te].
Proof.
  intros He. unfold cast_operand_lines, cast_operand_is_line.
  destruct opsyntax; cbn [andb]; [|apply He].
  destruct (as_lit e) as [[ty p]|].
  - destruct (is_array_or_tuple ty); [|apply emits_leaf].
    destruct (should_use_array_format e); cbn [orb]; [apply emits_leaf|].
    destruct (contains_cast_expressions e || negb (contains_only_literals e)); cbn [negb];
      [apply He|apply emits_leaf].
  - destruct (neg_numeric e); [apply emits_leaf|apply He].
Qed.

Lemma cast_emits alias e te type_expr tty type_lbl opsyntax lit_lbl d :
  T e te -> To type_expr tty ->
  emits (explain_cast_expr_with_alias node alias d e type_expr type_lbl opsyntax lit_lbl) d
        [cast_tree alias e te type_expr tty type_lbl opsyntax lit_lbl].
Proof.
  intros He Ht. unfold explain_cast_expr_with_alias, cast_tree. rewrite hdr_alias_eq.
  apply emits_fn.
  - destruct type_expr; cbn [To] in Ht; [destruct Ht as (t & -> & _)|]; reflexivity.
  - apply emits_cons_tree; [apply cast_operand_emits, He|].
    destruct type_expr as [x|]; cbn [To] in Ht; [destruct Ht as (t & -> & Hx); apply Hx|apply emits_leaf].
Qed.

(* ---- kql() ---- *)
Definition kql_filter_tree (f : kql_filter) : rose :=
  fn_tree (L_Function (kf_fn f))
          [T_leaf (L_Identifier (kf_left f));
           T_leaf (if kf_right_quoted f then X_Literal (kf_right f) else L_Identifier (kf_right f))].

Definition kql_tree (k : kql_parsed) : rose :=
  fn_tree (L_Function F_view)
    [Node X_SelectWithUnionQuery
       [T_EL [Node X_SelectQuery
                ([Node X_TablesInSelectQuery
                    [Node X_TablesInSelectQueryElement
                       [Node X_TableExpression [T_leaf (X_TableIdentifier (kq_table k))]]]]
                 ++ match kq_filter k with Some f => [kql_filter_tree f] | None => [] end
                 ++ [T_EL (map (fun c => T_leaf (L_Identifier c)) (kq_columns k))])]]].

Lemma kql_filter_emits f d : emits (explain_kql_filter d f) d [kql_filter_tree f].
Proof.
  unfold explain_kql_filter, kql_filter_tree. apply emits_fn; [reflexivity|].
  apply emits_cons_leaf. destruct (kf_right_quoted f); apply emits_leaf.
Qed.

Lemma kql_emits k d : emits (explain_kql d k) d [kql_tree k].
Proof.
  unfold explain_kql, kql_tree. apply emits_fn; [reflexivity|].
  apply emits_hdr; [reflexivity|]. unfold T_EL at 1. apply emits_hdr; [reflexivity|].
  apply emits_hdr.
  { rewrite !app_length. destruct (kq_filter k); reflexivity. }
  match goal with
  | |- emits (?a :: ?b :: ?c :: ?l :: ?F ++ ?R) _ _ => change (a :: b :: c :: l :: F ++ R) with ([a; b; c; l] ++ F ++ R)
  end.
  apply emits_cons_tree.
  { apply emits_hdr; [reflexivity|]. apply emits_hdr; [reflexivity|]. apply emits_hdr; [reflexivity|]. apply emits_leaf. }
  apply emits_app.
  { destruct (kq_filter k) as [f|]; [apply (kql_filter_emits f (5 + d))|apply emits_nil]. }
  unfold T_EL. apply emits_hdr; [rewrite map_length; reflexivity|]. apply emits_map_leaf_id.
Qed.

(* ---- quantified comparisons ---- *)
Definition quantified_block_trees (agg : list N) (tsub : rose) : list rose :=
  [T_EL [fn_tree (L_Function agg) [T_leaf X_Asterisk]];
   Node X_TablesInSelectQuery [Node X_TablesInSelectQueryElement [Node X_TableExpression [tsub]]]].

Definition quantified_tree (alias comp agg : list N) (tl tsub : rose) : rose :=
  fn_tree (alias_lab (L_Function comp) alias)
    [tl; Node X_Subquery
           [Node X_SelectWithUnionQuery
              [T_EL [Node X_SelectQuery (quantified_block_trees agg tsub ++ quantified_block_trees agg tsub)]]]].

Lemma quantified_block_emits d agg sub tsub :
  T sub tsub -> emits (quantified_block node d agg sub) (6 + d) (quantified_block_trees agg tsub).
Proof.
  intros Hs. unfold quantified_block, quantified_block_trees.
  match goal with
  | |- emits ([?a; ?b; ?c; ?l; ?x; ?y; ?z] ++ ?R) _ _ =>
      change ([a; b; c; l; x; y; z] ++ R) with ([a; b; c; l] ++ (x :: y :: z :: R))
  end.
  apply emits_cons_tree.
  - unfold T_EL at 1. apply emits_hdr; [reflexivity|]. apply emits_fn; [reflexivity|apply emits_leaf].
  - apply emits_hdr; [reflexivity|]. apply emits_hdr; [reflexivity|]. apply emits_hdr; [reflexivity|]. apply Hs.
Qed.

Lemma quantified_emits alias comp agg lhs sub tl tsub d :
  T lhs tl -> T sub tsub ->
  emits (output_quantified_with_aggregate node alias d lhs sub comp agg) d [quantified_tree alias comp agg tl tsub].
Proof.
  intros Hl Hs. unfold output_quantified_with_aggregate, quantified_tree. rewrite hdr_alias_eq.
  apply emits_fn; [reflexivity|]. apply emits_cons_tree; [apply Hl|].
  apply emits_hdr; [reflexivity|]. apply emits_hdr; [reflexivity|]. unfold T_EL at 1. apply emits_hdr; [reflexivity|].
  apply emits_hdr; [reflexivity|].
  apply emits_app; apply (quantified_block_emits d agg sub tsub Hs).
Qed.

(* ---- DATE_DIFF ---- *)
Lemma date_diff_lines_emits alias unit_lbl rest ts d :
  Ts rest ts ->
  emits (date_diff_lines node alias d unit_lbl (S (length rest)) rest) d
        [fn_tree (alias_lab (L_Function F_dateDiff) alias) (T_leaf (X_Literal unit_lbl) :: ts)].
Proof.
  intros H. unfold date_diff_lines. rewrite hdr_alias_eq. apply emits_fn.
  - cbn [length]. rewrite (Ts_length _ _ H). reflexivity.
  - apply emits_cons_leaf. apply emits_Ts, H.
Qed.

(* ---- window specification ---- *)
Definition window_spec_children (name : list N) (tpart tord toff : list rose) : list rose :=
  when (nonempty name) [T_leaf (L_Identifier name)]
  ++ when (pos (length tpart)) [T_EL tpart] ++ when (pos (length tord)) [T_EL tord] ++ toff.

Lemma window_spec_emits name partition order offset tpart toff d :
  Ts partition tpart -> To offset toff ->
  emits (explain_window_spec node d name partition order offset) d
        [Node X_WindowDefinition (window_spec_children name tpart order toff)].
Proof.
  intros Hp Ho. unfold explain_window_spec, window_spec_children.
  assert (Ecount : count_window_spec_children name partition order offset
                   = length (when (nonempty name) [T_leaf (L_Identifier name)]
                             ++ when (pos (length tpart)) [T_EL tpart] ++ when (pos (length order)) [T_EL order] ++ toff)).
  { unfold count_window_spec_children. rewrite !app_length, !length_when1, (To_length _ _ Ho), (Ts_length _ _ Hp). lia. }
  destruct (pos (count_window_spec_children name partition order offset)) eqn:Epos.
  - apply emits_hdr; [exact Ecount|].
    apply emits_app; [apply emits_when, emits_leaf|].
    apply emits_app; [rewrite (Ts_length _ _ Hp); apply emits_when, el_nodes_emits, Hp|].
    apply emits_app; [apply emits_when, expr_list_emits|apply emits_To, Ho].
  - assert (E0 : count_window_spec_children name partition order offset = 0) by (destruct (count_window_spec_children _ _ _ _); [reflexivity|discriminate]).
    rewrite E0 in Ecount. symmetry in Ecount. apply length_zero_iff_nil in Ecount. rewrite Ecount. apply emits_leaf.
Qed.

(* ---- literals (explainLiteral and the Literal cases of explainAliasedExpr / explainWithElement) ---- *)
Lemma Ts_nil_inv ts : Ts [] ts -> ts = [].
Proof. intros H. inversion H. reflexivity. Qed.

Lemma empty_fn_emits d fn : emits (empty_fn d fn) d [fn_tree (L_Function fn) []].
Proof. unfold empty_fn, fn_tree. apply emits_hdr; [reflexivity|apply emits_leaf]. Qed.

Definition literal_scalar_tree (ty : lit_type) (v : scalar) (lbl : list N) : rose :=
  match ty, v with
  | LTuple, VNil => fn_tree (L_Function F_tuple) []
  | LArray, VNil => fn_tree (L_Function F_array) []
  | _, _ => T_leaf (X_Literal lbl)
  end.

Lemma literal_scalar_emits ty v lbl d : emits (explain_literal_scalar d ty v lbl) d [literal_scalar_tree ty v lbl].
Proof.
  unfold explain_literal_scalar, literal_scalar_tree.
  destruct ty; try apply emits_leaf; destruct v; try apply emits_leaf; apply empty_fn_emits.
Qed.

(* the tree of a literal with a list value, given the decision [fmt] of the printer at hand *)
Definition literal_list_tree (fmt : option (list N)) (sfx_ : list N) (ts : list rose) (lbl : list N) : rose :=
  match fmt with
  | Some fn => fn_tree (L_Function fn ++ sfx_) ts
  | None => T_leaf (X_Literal lbl ++ sfx_)
  end.

Lemma literal_list_emits ty es ts lbl d :
  Ts es ts ->
  emits (explain_literal_list node d ty es lbl) d [literal_list_tree (literal_list_format ty es) [] ts lbl].
Proof.
  intros H. unfold explain_literal_list, literal_list_tree.
  destruct (literal_list_format ty es) as [fn|]; rewrite app_nil_r; [|apply emits_leaf].
  destruct es as [|e es].
  - rewrite (Ts_nil_inv _ H). apply empty_fn_emits.
  - apply emits_hdr; [reflexivity|apply el_nodes_emits, H].
Qed.

Lemma aliased_literal_scalar_emits alias lbl d :
  emits (explain_aliased_literal_scalar alias d lbl) d [T_leaf (X_Literal lbl ++ sfx alias)].
Proof. apply emits_leaf. Qed.

Lemma aliased_literal_list_emits alias ty es ts lbl d :
  Ts es ts ->
  emits (explain_aliased_literal_list node alias d ty es lbl) d
        [literal_list_tree (aliased_literal_list_format ty es) (sfx alias) ts lbl].
Proof.
  intros H. unfold explain_aliased_literal_list, literal_list_tree.
  destruct (aliased_literal_list_format ty es) as [fn|]; [|apply emits_leaf].
  apply emits_hdr; [reflexivity|apply el_nodes_pos_emits, H].
Qed.

Definition opt_sfx (name : list N) : list N := if nonempty name then sfx name else [].

Lemma alias_lab_opt_sfx lab name : alias_lab lab name = lab ++ opt_sfx name.
Proof. unfold alias_lab, opt_sfx. destruct (nonempty name); [reflexivity|symmetry; apply app_nil_r]. Qed.

Lemma with_literal_leaf_emits name lbl d :
  emits (with_literal_leaf name d lbl) d [T_leaf (X_Literal lbl ++ opt_sfx name)].
Proof.
  unfold with_literal_leaf, opt_sfx. destruct (nonempty name); [|rewrite app_nil_r]; apply emits_leaf.
Qed.

Lemma with_literal_list_emits name ty es ts lbl d :
  Ts es ts ->
  emits (explain_with_literal_list node name d ty es lbl) d
        [literal_list_tree (with_literal_list_format ty es) (opt_sfx name) ts lbl].
Proof.
  intros H. unfold explain_with_literal_list, literal_list_tree.
  destruct (with_literal_list_format ty es) as [fn|]; [|apply with_literal_leaf_emits].
  rewrite hdr_alias_eq, alias_lab_opt_sfx. apply emits_hdr; [reflexivity|apply el_nodes_pos_emits, H].
Qed.

(* ---- binary expressions: the flattened operand list ---- *)
Lemma logical_operand_lines_spec op d x :
  logical_operand_lines node op d x = flat_map (node d) (logical_operands_of op x).
Proof.
  induction x; try (cbn [logical_operand_lines logical_operands_of flat_map]; rewrite app_nil_r; reflexivity).
  cbn [logical_operand_lines logical_operands_of]. destruct paren.
  - cbn [flat_map]. rewrite app_nil_r. reflexivity.
  - fold (logical_operand_lines node op d). destruct (binop_eqb op0 op).
    + rewrite flat_map_app, IHx1, IHx2. reflexivity.
    + cbn [flat_map]. rewrite app_nil_r. reflexivity.
Qed.

Lemma concat_operand_lines_spec d x :
  concat_operand_lines node d x = flat_map (node d) (concat_operands_of x).
Proof.
  induction x; try (cbn [concat_operand_lines concat_operands_of flat_map]; rewrite app_nil_r; reflexivity).
  cbn [concat_operand_lines concat_operands_of]. fold (concat_operand_lines node d).
  destruct op; try (cbn [flat_map]; rewrite app_nil_r; reflexivity).
  rewrite flat_map_app, IHx1, IHx2. reflexivity.
Qed.

(* the operands the printer hands to Node *)
Definition binary_operands (op : binop) (l r : expr) : list expr :=
  match op with
  | OpConcat => collect_concat_operands l r
  | OpAnd | OpOr => collect_logical_operands op l r
  | OpOther _ => [l; r]
  end.

Lemma binary_body_emits lab op l r ts d :
  Ts (binary_operands op l r) ts ->
  emits (hdr d lab 1
         :: match op with
            | OpConcat => hdr (S d) L_ExpressionList (length (collect_concat_operands l r))
                          :: concat_operand_lines node (S (S d)) l ++ concat_operand_lines node (S (S d)) r
            | OpAnd | OpOr => hdr (S d) L_ExpressionList (length (collect_logical_operands op l r))
                              :: logical_operand_lines node op (S (S d)) l ++ logical_operand_lines node op (S (S d)) r
            | OpOther _ => hdr (S d) L_ExpressionList 2 :: node (S (S d)) l ++ node (S (S d)) r
            end) d [fn_tree lab ts].
Proof.
  intros H. pose proof (Ts_length _ _ H) as EL.
  destruct op; cbn [binary_operands] in H, EL.
  - apply emits_fn; [exact EL|]. rewrite !concat_operand_lines_spec, <- flat_map_app. apply emits_Ts, H.
  - apply emits_fn; [exact EL|]. rewrite !logical_operand_lines_spec, <- flat_map_app. apply emits_Ts, H.
  - apply emits_fn; [exact EL|]. rewrite !logical_operand_lines_spec, <- flat_map_app. apply emits_Ts, H.
  - apply emits_fn; [exact EL|].
    replace (node (S (S d)) l ++ node (S (S d)) r) with (flat_map (node (S (S d))) [l; r])
      by (cbn [flat_map]; rewrite app_nil_r; reflexivity).
    apply emits_Ts, H.
Qed.

Lemma binary_emits op l r ts d :
  Ts (binary_operands op l r) ts ->
  emits (explain_binary_expr node d op l r) d [fn_tree (L_Function (binop_fn op)) ts].
Proof.
  intros H. pose proof (binary_body_emits (L_Function (binop_fn op)) op l r ts d H) as E.
  unfold explain_binary_expr. destruct op; exact E.
Qed.

Lemma aliased_binary_emits alias op l r ts d :
  Ts (binary_operands op l r) ts ->
  emits (explain_aliased_binary node alias d op l r) d [fn_tree (L_Function (binop_fn op) ++ sfx alias) ts].
Proof.
  intros H. pose proof (binary_body_emits (L_Function (binop_fn op) ++ sfx alias) op l r ts d H) as E.
  unfold explain_aliased_binary. destruct op; exact E.
Qed.

Lemma with_binary_emits name op l r ts d :
  Ts (binary_operands op l r) ts ->
  emits (explain_with_binary node name d op l r) d [fn_tree (alias_lab (L_Function (binop_fn op)) name) ts].
Proof.
  intros H. pose proof (binary_body_emits (alias_lab (L_Function (binop_fn op)) name) op l r ts d H) as E.
  unfold explain_with_binary. rewrite !hdr_alias_eq. destruct op; exact E.
Qed.

(* ---- unary expressions ---- *)
Definition unary_tree (folds : bool) (lab_sfx : list N) (fn : list N) (to : rose) (neg_lbl : list N) : rose :=
  if folds then T_leaf (X_Literal neg_lbl ++ lab_sfx) else fn_tree (L_Function fn ++ lab_sfx) [to].

Lemma unary_emits minus fn o to neg_lbl d :
  T o to ->
  emits (explain_unary_expr node d minus fn o neg_lbl) d [unary_tree (minus && unary_folds_plain o) [] fn to neg_lbl].
Proof.
  intros H. unfold explain_unary_expr, unary_tree. rewrite !app_nil_r.
  destruct (minus && unary_folds_plain o); [apply emits_leaf|apply emits_fn; [reflexivity|apply H]].
Qed.

Lemma aliased_unary_emits alias minus fn o to neg_lbl d :
  T o to ->
  emits (explain_aliased_unary node alias d minus fn o neg_lbl) d
        [unary_tree (minus && unary_folds_alias o) (sfx alias) fn to neg_lbl].
Proof.
  intros H. unfold explain_aliased_unary, unary_tree.
  destruct (minus && unary_folds_alias o); [apply emits_leaf|apply emits_fn; [reflexivity|apply H]].
Qed.

Lemma with_unary_emits name minus fn o to neg_lbl d :
  T o to ->
  emits (explain_with_unary node name d minus fn o neg_lbl) d
        [if nonempty name then unary_tree (minus && unary_folds_alias o) (sfx name) fn to neg_lbl
         else unary_tree (minus && unary_folds_plain o) [] fn to neg_lbl].
Proof.
  intros H. unfold explain_with_unary.
  destruct (nonempty name); [apply aliased_unary_emits, H|apply unary_emits, H].
Qed.

(* ---- existential forms: "Node prints ONE tree for this child" ---- *)
Definition P (e : expr) : Prop := exists t, T e t.
Definition Po (o : option expr) : Prop := match o with Some e => P e | None => True end.

Lemma P_Ts es : Forall P es -> exists ts, Ts es ts.
Proof.
  intros H. induction H as [|e es (t & Ht) _ (ts & Hts)]; [exists []; constructor|].
  exists (t :: ts). constructor; assumption.
Qed.

Lemma Po_To o : Po o -> exists ts, To o ts.
Proof. destruct o as [e|]; cbn [Po To]; [intros (t & Ht); exists [t], t; auto|intros _; exists []; reflexivity]. Qed.

(* a block of lines that is one tree at every depth *)
Definition one (f : nat -> list line) : Prop := exists t, forall d, emits (f d) d [t].

Lemma exists_forest {A} (f : nat -> A -> list line) (l : list A) :
  Forall (fun x => one (fun d => f d x)) l ->
  exists ts, length ts = length l /\ forall d, emits (flat_map (f d) l) d ts.
Proof.
  intros H. induction H as [|x l (t & Ht) _ (ts & El & Hts)]; [exists []; split; [reflexivity|intros; apply emits_nil]|].
  exists (t :: ts). split; [cbn [length]; congruence|].
  intros d. cbn [flat_map]. apply emits_cons_tree; [apply Ht|apply Hts].
Qed.

(* ---- IN ---- *)
(* the children of an IN-list item the printers may hand to Node themselves *)
Definition Pdeep (x : expr) : Prop :=
  P x /\ match x with ELitList _ _ es _ => Forall P es | _ => True end.

Lemma tuple_in_in_list_one item : Pdeep item -> one (fun d => explain_tuple_in_in_list node d item).
Proof.
  intros [_ Hd]. unfold explain_tuple_in_in_list.
  destruct (contains_only_primitive_literals_with_unary item); [eexists; intros d; apply emits_leaf|].
  destruct item; try (eexists; intros d; apply emits_leaf).
  destruct (P_Ts _ Hd) as (ts & Hts).
  exists (fn_tree (L_Function F_tuple) ts). intros d. apply emits_hdr; [reflexivity|apply el_nodes_emits, Hts].
Qed.

Lemma Pdeep_P items : Forall Pdeep items -> Forall P items.
Proof. intros H. eapply Forall_impl; [|exact H]. intros x [Hx _]. exact Hx. Qed.

Lemma in_list_wrapped_one items : Forall Pdeep items -> one (fun d => in_list_wrapped node d items).
Proof.
  intros H. unfold in_list_wrapped. destruct (all_tuple_literals items).
  - destruct (exists_forest (fun d => explain_tuple_in_in_list node d) items) as (ts & El & Hts).
    { eapply Forall_impl; [|exact H]. intros x Hx. apply tuple_in_in_list_one, Hx. }
    exists (fn_tree (L_Function F_tuple) ts). intros d. apply emits_fn; [symmetry; exact El|apply Hts].
  - destruct (P_Ts _ (Pdeep_P _ H)) as (ts & Hts).
    exists (fn_tree (L_Function F_tuple) ts). intros d. apply emits_hdr; [reflexivity|apply el_nodes_emits, Hts].
Qed.

Lemma wrap1_one x : P x ->
  one (fun d => hdr d (L_Function F_tuple) 1 :: hdr (S d) L_ExpressionList 1 :: node (S (S d)) x).
Proof. intros (t & Ht). exists (fn_tree (L_Function F_tuple) [t]). intros d. apply emits_fn; [reflexivity|apply Ht]. Qed.

Lemma in_rhs_one items query trailing lbl :
  Forall Pdeep items -> one (fun d => explain_in_rhs node d items query trailing lbl).
Proof.
  intros H. unfold explain_in_rhs. destruct query as [q|].
  { exists (Node X_Subquery [q]). intros d. apply emits_hdr; [reflexivity|apply emits_render]. }
  destruct (can_be_tuple_literal_plain None items); [eexists; intros d; apply emits_leaf|].
  destruct items as [|x [|y r]]; [apply in_list_wrapped_one, H| |apply in_list_wrapped_one, H].
  inversion H as [|? ? [Hx Hdeep] _]; subst.
  destruct (lit_ty_is is_tuple x).
  - destruct x; try (apply wrap1_one, Hx).
    destruct (all_parenthesized_primitives es); [|apply wrap1_one, Hx].
    destruct (P_Ts _ Hdeep) as (ts & Hts).
    exists (fn_tree (L_Function F_tuple) ts). intros d. apply emits_hdr; [reflexivity|apply el_nodes_pos_emits, Hts].
  - destruct trailing; [apply wrap1_one, Hx|]. destruct Hx as (t & Ht). exists t. intros d. apply Ht.
Qed.

Lemma in_rhs_alias_one items query trailing lbl :
  Forall Pdeep items -> one (fun d => explain_in_rhs_alias node d items query trailing lbl).
Proof.
  intros H. unfold explain_in_rhs_alias. destruct query as [q|].
  { exists (Node X_Subquery [q]). intros d. apply emits_hdr; [reflexivity|apply emits_render]. }
  destruct (can_be_tuple_literal_alias None items); [eexists; intros d; apply emits_leaf|].
  destruct items as [|x [|y r]]; [apply in_list_wrapped_one, H| |apply in_list_wrapped_one, H].
  inversion H as [|? ? Hxd _]; subst. pose proof Hxd as [Hx _].
  destruct (lit_ty_is is_tuple x); [apply tuple_in_in_list_one, Hxd|].
  destruct trailing; [apply wrap1_one, Hx|]. destruct Hx as (t & Ht). exists t. intros d. apply Ht.
Qed.

(* the tally of explainInExpr is the constant 2 *)
Lemma count_in_args_plain_2 query items trailing : count_in_args_plain query items trailing = 2.
Proof.
  unfold count_in_args_plain. destruct (is_some query); [reflexivity|].
  destruct (can_be_tuple_literal_plain query items); [reflexivity|].
  destruct items as [|x [|y r]]; try reflexivity.
  destruct (lit_ty_is is_tuple x); [reflexivity|]. destruct trailing; reflexivity.
Qed.

(* the loop of explainInExprWithAlias over string literals only *)
Lemma in_step_alias_strings items : forall s,
  forallb (lit_ty_is is_stringt) items = true -> stopped s = false -> all_primitive_literals s = true ->
  let s' := fold_left in_step_alias items s in
  stopped s' = false /\ all_primitive_literals s' = true /\
  has_non_null s' = (pos (length items) || has_non_null s).
Proof.
  induction items as [|x items IH]; intros s Hall Hst Hprim; [cbn; auto|].
  cbn [forallb] in Hall. apply andb_prop in Hall as [Hx Hall].
  cbn [fold_left length pos orb].
  unfold lit_ty_is in Hx. destruct (as_lit x) as [[ty p]|] eqn:Ex; [|discriminate].
  destruct ty; try discriminate.
  set (s1 := mkInSt false (all_strings_or_null s) false false (all_tuples_are_primitive s) true false true false).
  assert (Estep : in_step_alias s x = s1).
  { unfold in_step_alias, s1. rewrite Hst, Ex. cbn [is_nullt is_tuple is_numeric is_stringt is_boolt is_array andb negb].
    rewrite Hprim, !andb_false_r, !andb_true_r. reflexivity. }
  rewrite Estep.
  destruct (IH s1 Hall eq_refl eq_refl) as (A & B & C).
  cbn zeta in *. rewrite A, B, C. cbn [has_non_null]. rewrite orb_true_r. auto.
Qed.

Lemma strings_can_be_tuple_alias items :
  forallb (lit_ty_is is_stringt) items = true -> two_or_more items = true ->
  can_be_tuple_literal_alias None items = true.
Proof.
  intros Hall H2. unfold can_be_tuple_literal_alias. cbn [is_some negb andb]. rewrite H2.
  destruct (in_step_alias_strings items in_state0 Hall eq_refl eq_refl) as (_ & B & C).
  cbn zeta in *. rewrite B, C.
  destruct items as [|x [|y r]]; try discriminate. cbn [length pos orb andb]. rewrite !orb_true_r. reflexivity.
Qed.

(* ... hence the tally of explainInExprWithAlias is 2 as well: its "all string literals" branch is dead *)
Lemma count_in_args_alias_2 query items trailing : count_in_args_alias query items trailing = 2.
Proof.
  unfold count_in_args_alias. destruct query as [q|]; [reflexivity|]. cbn [is_some].
  destruct (can_be_tuple_literal_alias None items) eqn:Ec; [reflexivity|].
  destruct items as [|x [|y r]]; [reflexivity| |].
  - destruct (lit_ty_is is_tuple x); [reflexivity|]. destruct trailing; reflexivity.
  - destruct (forallb (lit_ty_is is_stringt) (x :: y :: r)) eqn:Es; [|reflexivity].
    rewrite (strings_can_be_tuple_alias _ Es eq_refl) in Ec. discriminate.
Qed.

Lemma in_emits e te not global items query trailing lbl :
  T e te -> Forall Pdeep items ->
  exists ts, length ts = count_in_args_plain query items trailing /\
             forall d, emits (explain_in_expr node d e not global items query trailing lbl) d
                             [fn_tree (L_Function (in_fn not global)) ts].
Proof.
  intros He H. destruct (in_rhs_one items query trailing lbl H) as (t2 & H2).
  exists [te; t2]. split; [rewrite count_in_args_plain_2; reflexivity|].
  intros d. unfold explain_in_expr. apply emits_fn; [rewrite count_in_args_plain_2; reflexivity|].
  apply emits_cons_tree; [apply He|apply H2].
Qed.

Lemma in_with_alias_emits alias e te not global items query trailing lbl :
  T e te -> Forall Pdeep items ->
  exists ts, length ts = count_in_args_alias query items trailing /\
             forall d, emits (explain_in_expr_with_alias node alias d e not global items query trailing lbl) d
                             [fn_tree (alias_lab (L_Function (in_fn not global)) alias) ts].
Proof.
  intros He H. destruct (in_rhs_alias_one items query trailing lbl H) as (t2 & H2).
  exists [te; t2]. split; [rewrite count_in_args_alias_2; reflexivity|].
  intros d. unfold explain_in_expr_with_alias. rewrite hdr_alias_eq.
  apply emits_fn; [rewrite count_in_args_alias_2; reflexivity|].
  apply emits_cons_tree; [apply He|apply H2].
Qed.

(* ---- function calls: the generic printer ---- *)
Lemma function_args_forest cls (has_filter : bool) args :
  Forall P args ->
  exists ts, length ts = length (if has_filter then non_asterisk_args args else args) /\
             forall d, emits (flat_map (function_arg_lines node d cls has_filter) args) d ts.
Proof.
  intros H. induction H as [|a args (t & Ht) _ (ts & El & Hts)].
  { exists []. split; [destruct has_filter; reflexivity|intros; apply emits_nil]. }
  assert (Ha : one (fun d => match cls, a with NView, ESubquery q _ => node_nilable d q | _, _ => node d a end)).
  { destruct cls; try (exists t; exact Ht). destruct a; try (exists t; exact Ht).
    eexists. intros d. apply emits_node_nilable. }
  destruct Ha as (ta & Hta).
  destruct (has_filter && is_asterisk a) eqn:Eskip.
  - exists ts. split.
    + apply andb_prop in Eskip as [-> Ea]. unfold non_asterisk_args in *. cbn [filter]. rewrite Ea. exact El.
    + intros d. cbn [flat_map]. unfold function_arg_lines at 1. rewrite Eskip. apply Hts.
  - exists (ta :: ts). split.
    + destruct has_filter; cbn [andb] in Eskip; unfold non_asterisk_args in *; cbn [filter length];
        [rewrite Eskip; cbn [negb length]|]; congruence.
    + intros d. cbn [flat_map]. unfold function_arg_lines at 1. rewrite Eskip.
      apply emits_cons_tree; [apply Hta|apply Hts].
Qed.

Definition Pover (over : option (list N * list expr * list rose * option expr)) : Prop :=
  match over with Some (_, part, _, off) => Forall P part /\ Po off | None => True end.

Lemma function_generic_emits alias cls fn params args settings distinct filter over :
  Forall P args -> Po filter -> match params with Some ps => Forall P ps | None => True end ->
  exists targs tparams,
    length targs = count_function_args args filter settings /\
    length (T_EL targs :: tparams) = count_function_children params over /\
    forall d, emits (explain_function_generic node alias d cls fn params args settings distinct filter over) d
                    [Node (alias_lab (L_Function (function_label fn distinct filter)) alias) (T_EL targs :: tparams)].
Proof.
  intros Ha Hf Hp.
  destruct (function_args_forest cls (is_some filter) args Ha) as (ta & Ela & Hta).
  destruct (Po_To _ Hf) as (tf & Htf).
  assert (Hpar : exists tp, length tp = b2n (is_some params) /\
                 forall d, emits (match params with
                                  | Some ps => hdr_pos d L_ExpressionList (length ps) :: flat_map (node (S d)) ps
                                  | None => [] end) d tp).
  { destruct params as [ps|]; [|exists []; split; [reflexivity|intros; apply emits_nil]].
    destruct (P_Ts _ Hp) as (tps & Htps). exists [T_EL tps]. split; [reflexivity|].
    intros d. unfold T_EL. apply emits_hdr_pos; [apply Ts_length, Htps|apply emits_Ts, Htps]. }
  destruct Hpar as (tp & Elp & Htp).
  exists (ta ++ tf ++ when settings [T_leaf X_Set]), tp.
  assert (Eover : b2n (match over with
                       | Some (name, _, _, _) => negb (nonempty name) && window_spec_has_content
                       | None => false end) = 0).
  { destruct over as [[[[name ?] ?] ?]|]; [|reflexivity]. unfold window_spec_has_content. rewrite andb_false_r. reflexivity. }
  assert (Eargs : length (ta ++ tf ++ when settings [T_leaf X_Set]) = count_function_args args filter settings).
  { unfold count_function_args. rewrite !app_length, length_when1, Ela, (To_length _ _ Htf).
    destruct filter; cbn [is_some b2n]; lia. }
  split; [exact Eargs|]. split.
  { unfold count_function_children. rewrite Eover. cbn [length]. rewrite Elp. lia. }
  intros d. unfold explain_function_generic. rewrite hdr_alias_eq.
  apply emits_hdr.
  { unfold count_function_children. rewrite Eover. cbn [length]. rewrite Elp. lia. }
  assert (Ebody : forall (X Y Z W V : list line) h, h :: X ++ Y ++ Z ++ W ++ V = (h :: (X ++ Y ++ Z)) ++ W ++ V).
  { intros. cbn [app]. rewrite <- !app_assoc. reflexivity. }
  rewrite Ebody.
  apply emits_cons_tree.
  - unfold T_EL. apply emits_hdr_pos; [symmetry; exact Eargs|].
    apply emits_app; [apply Hta|]. apply emits_app; [apply emits_To, Htf|apply emits_when, emits_leaf].
  - replace tp with (tp ++ []) by apply app_nil_r. apply emits_app; [apply Htp|].
    destruct over as [[[[name part] ord] off]|]; [|apply emits_nil].
    unfold window_spec_has_content. rewrite andb_false_r. apply emits_nil.
Qed.

(* ---- function calls: handleSpecialFunction ---- *)
(* the children of an argument that explainPositionWithIn hands to Node *)
Definition Pfn (a : expr) : Prop :=
  P a /\ match a with EIn n _ _ (h :: _) _ _ => P n /\ P h | _ => True end.

Lemma Pfn_P args : Forall Pfn args -> Forall P args.
Proof. intros H. eapply Forall_impl; [|exact H]. intros x [Hx _]. exact Hx. Qed.

(* either handleSpecialFunction returns false (at every depth), or what it printed is one tree *)
Definition special_cases (alias : list N) (cls : name_class) (args : list expr) (sqlstd : bool) : Prop :=
  (forall d, handle_special_function node norm_unit alias d cls args sqlstd = None)
  \/ (exists t, forall d, exists ls, handle_special_function node norm_unit alias d cls args sqlstd = Some ls
                                   /\ emits ls d [t]).

Ltac sp_none := left; intros; reflexivity.

Lemma date_add_sub_cases alias op_fn args :
  Forall P args ->
  (forall d, handle_date_add_sub node norm_unit alias d op_fn args = None)
  \/ (exists t, forall d, exists ls, handle_date_add_sub node norm_unit alias d op_fn args = Some ls /\ emits ls d [t]).
Proof.
  intros H. destruct args as [|a1 [|a2 [|a3 [|a4 r]]]]; try sp_none.
  - inversion H as [|? ? (t1 & H1) H']; subst. inversion H' as [|? ? (t2 & H2) _]; subst.
    cbn [handle_date_add_sub].
    destruct (is_interval a1 || is_tointerval_call a1 || is_interval a2 || is_tointerval_call a2); [|sp_none].
    right. eexists. intros d. eexists. split; [reflexivity|]. apply (date_add_sub_with_interval_emits _ _ _ _ H1 H2).
  - inversion H as [|? ? _ H']; subst. inversion H' as [|? ? (t2 & H2) H'']; subst.
    inversion H'' as [|? ? (t3 & H3) _]; subst.
    destruct a1; try sp_none. cbn [handle_date_add_sub]. destruct (nonempty name); [|sp_none].
    right. eexists. intros d. eexists. split; [reflexivity|]. apply (date_add_sub_result_emits _ _ _ _ H3 H2).
Qed.

Lemma date_diff_cases alias args :
  Forall P args ->
  (forall d, handle_date_diff node alias d args = None)
  \/ (exists t, forall d, exists ls, handle_date_diff node alias d args = Some ls /\ emits ls d [t]).
Proof.
  intros H. destruct args as [|a1 [|a2 [|a3 [|a4 [|a5 r]]]]]; try sp_none; try (destruct a1; sp_none).
  - inversion H as [|? ? _ H']; subst. destruct (P_Ts _ H') as (ts & Hts).
    destruct a1; try sp_none. cbn [handle_date_diff]. destruct (nonempty name); [|sp_none].
    right. eexists. intros d. eexists. split; [reflexivity|]. apply (date_diff_lines_emits alias name [a2; a3] ts d Hts).
  - inversion H as [|? ? _ H']; subst. destruct (P_Ts _ H') as (ts & Hts).
    destruct a1; try sp_none. cbn [handle_date_diff]. destruct (nonempty name); [|sp_none].
    right. eexists. intros d. eexists. split; [reflexivity|]. apply (date_diff_lines_emits alias name [a2; a3; a4] ts d Hts).
Qed.

Lemma handle_special_cases alias cls args sqlstd : Forall Pfn args -> special_cases alias cls args sqlstd.
Proof.
  intros Hfn. pose proof (Pfn_P _ Hfn) as H. unfold special_cases.
  destruct cls; try sp_none.
  - (* kql *)
    destruct args as [|a r]; try sp_none.
    destruct a; try sp_none. destruct ty; try sp_none. destruct v; try sp_none. destruct r; try sp_none.
    cbn [handle_special_function].
    destruct (s_kql s) as [k|]; [|sp_none].
    right. exists (kql_tree k). intros d. eexists. split; [reflexivity|apply kql_emits].
  - (* quantified *)
    destruct args as [|a [|b [|c r]]]; try sp_none.
    inversion H as [|? ? (t1 & H1) H']; subst. inversion H' as [|? ? (t2 & H2) _]; subst.
    destruct b; try sp_none. cbn [handle_special_function].
    destruct (quantified_functions all op) as [[comp agg]|]; [|sp_none].
    right. eexists. intros d. eexists. split; [reflexivity|]. apply (quantified_emits _ _ _ _ _ _ _ d H1 H2).
  - (* position *)
    destruct args as [|a r]; try sp_none. destruct a; try sp_none. destruct items as [|h items]; try sp_none.
    destruct r; try sp_none.
    inversion Hfn as [|? ? Hd _]; subst. destruct Hd as [_ Hd]. cbn beta iota in Hd. destruct Hd as [(tn & Hn) (th & Hh)].
    right. eexists. intros d. eexists. split; [reflexivity|]. apply (position_with_in_emits _ _ _ _ Hn Hh).
  - apply date_add_sub_cases, H.
  - apply date_add_sub_cases, H.
  - apply date_diff_cases, H.
  - (* trim *)
    destruct sqlstd; try sp_none.
    destruct args as [|a [|b r]]; try sp_none. destruct b; try sp_none.
    destruct ty; try sp_none. destruct v; try sp_none. destruct r; try sp_none. cbn [handle_special_function].
    destruct (s_empty s); [|sp_none].
    inversion H as [|? ? (t1 & H1) _]; subst.
    right. exists t1. intros d. eexists. split; [reflexivity|apply H1].
Qed.

Lemma function_call_one alias cls fn params args settings distinct filter over sqlstd :
  Forall Pfn args -> Po filter -> match params with Some ps => Forall P ps | None => True end ->
  one (fun d => explain_function_call_with_alias node norm_unit alias d cls fn params args settings distinct filter over sqlstd).
Proof.
  intros Ha Hf Hp. unfold explain_function_call_with_alias.
  destruct (handle_special_cases alias cls args sqlstd Ha) as [Hn|(t & Ht)].
  - destruct (function_generic_emits alias cls fn params args settings distinct filter over (Pfn_P _ Ha) Hf Hp)
      as (ta & tp & _ & _ & Hg).
    eexists. intros d. rewrite Hn. apply Hg.
  - exists t. intros d. destruct (Ht d) as (ls & -> & Hls). exact Hls.
Qed.

(* ---- column transformers, Asterisk, ColumnsMatcher ---- *)
Definition Trep (rs : list (option expr)) (trs : list (list rose)) : Prop := Forall2 To rs trs.
Definition replacement_tree (tr : list rose) : rose := Node X_Replacement tr.

Lemma replacements_emits d rs trs :
  Trep rs trs -> emits (flat_map (replacement_lines node d) rs) d (map replacement_tree trs).
Proof.
  intros H. induction H as [|r tr rs trs Hr _ IH]; [apply emits_nil|].
  cbn [flat_map map]. apply emits_cons_tree; [|exact IH].
  unfold replacement_lines, replacement_tree. apply emits_hdr; [symmetry; apply To_length, Hr|apply emits_To, Hr].
Qed.

Lemma Trep_length rs trs : Trep rs trs -> length rs = length trs.
Proof. intros H. induction H; cbn [length]; congruence. Qed.

Lemma Po_Trep rs : Forall Po rs -> exists trs, Trep rs trs.
Proof.
  intros H. induction H as [|r rs Hr _ (trs & Htrs)]; [exists []; constructor|].
  destruct (Po_To _ Hr) as (tr & Htr). exists (tr :: trs). constructor; assumption.
Qed.

Definition ident_leaves (cs : list (list N)) : list rose := map (fun c => T_leaf (L_Identifier c)) cs.

Definition transformer_trees (t : transformer) (trs : list (list rose)) : list rose :=
  match t with
  | (ty, pat, exc, _) =>
      match ty with
      | 0 => [T_leaf X_ColumnsApplyTransformer]
      | 1 => [if pat then T_leaf X_ColumnsExceptTransformer else Node X_ColumnsExceptTransformer (ident_leaves exc)]
      | 2 => [Node X_ColumnsReplaceTransformer (map replacement_tree trs)]
      | _ => []
      end
  end.

Lemma single_transformer_emits d t trs :
  Trep (snd t) trs -> emits (explain_single_transformer node d t) d (transformer_trees t trs).
Proof.
  destruct t as [[[ty pat] exc] reps]. cbn [snd]. intros H.
  unfold explain_single_transformer, transformer_trees.
  destruct ty as [|[|[|ty]]].
  - apply emits_leaf.
  - destruct pat; [apply emits_leaf|].
    apply emits_hdr; [unfold ident_leaves; rewrite map_length; reflexivity|apply emits_map_leaf_id].
  - apply emits_hdr; [rewrite map_length; apply Trep_length, H|apply replacements_emits, H].
  - apply emits_nil.
Qed.

Lemma length_transformer_trees t trs : length (transformer_trees t trs) = b2n (transformer_known t).
Proof. destruct t as [[[ty pat] exc] reps]. destruct ty as [|[|[|ty]]]; reflexivity. Qed.

Definition Ptr (t : transformer) : Prop := Forall Po (snd t).

(* the transformers print one tree for each transformer of a known type, nothing for the others *)
Lemma transformers_forest transformers :
  Forall Ptr transformers ->
  exists ts, length ts = length (filter transformer_known transformers) /\
             forall d, emits (flat_map (explain_single_transformer node d) transformers) d ts.
Proof.
  intros H. induction H as [|t l Ht _ (ts & El & Hts)]; [exists []; split; [reflexivity|intros; apply emits_nil]|].
  destruct (Po_Trep _ Ht) as (trs & Htrs).
  exists (transformer_trees t trs ++ ts). split.
  - rewrite app_length, length_transformer_trees, El. cbn [filter]. destruct (transformer_known t); reflexivity.
  - intros d. cbn [flat_map]. apply emits_app; [apply single_transformer_emits, Htrs|apply Hts].
Qed.

Lemma filter_le {A} (f : A -> bool) l : length (filter f l) <= length l.
Proof. induction l as [|x l IH]; [constructor|]. cbn [filter]. destruct (f x); cbn [length]; lia. Qed.

Lemma filter_known_length transformers :
  length (filter transformer_known transformers) = length transformers <-> transformers_known transformers = true.
Proof.
  unfold transformers_known. induction transformers as [|t l IH]; [cbn; tauto|].
  cbn [filter forallb length]. pose proof (filter_le transformer_known l) as Hle.
  destruct (transformer_known t); cbn [length andb].
  - rewrite <- IH. split; [intros E; injection E; trivial|intros ->; reflexivity].
  - split; [intros E; exfalso; lia|discriminate].
Qed.

(* the number in the ColumnsTransformerList header *)
Definition count_transformer_list (transformers : list transformer) (except : list (list N))
           (replace : list (option expr)) (apply : nat) : nat :=
  if pos (length transformers) then length transformers
  else b2n (pos (length except)) + b2n (pos (length replace)) + apply.

(* forest form of explainColumnsTransformers / explainColumnsMatcherTransformers *)
Lemma columns_transformers_prints transformers except replace apply :
  Forall Ptr transformers -> Forall Po replace ->
  exists ts,
    length ts = (if pos (length transformers) then length (filter transformer_known transformers)
                 else count_transformer_list transformers except replace apply) /\
    forall d, prints (explain_columns_transformers node d transformers except replace apply) d
                     (mkPrinted X_ColumnsTransformerList (count_transformer_list transformers except replace apply) ts).
Proof.
  intros Ht Hr. unfold explain_columns_transformers, count_transformer_list.
  destruct (pos (length transformers)).
  - destruct (transformers_forest _ Ht) as (ts & El & Hts). exists ts. split; [exact El|].
    intros d. apply prints_hdr, Hts.
  - destruct (Po_Trep _ Hr) as (trs & Htrs).
    exists (when (pos (length except)) [Node X_ColumnsExceptTransformer (ident_leaves except)]
            ++ when (pos (length replace)) [Node X_ColumnsReplaceTransformer (map replacement_tree trs)]
            ++ repeat (T_leaf X_ColumnsApplyTransformer) apply).
    split; [rewrite !app_length, !length_when1, repeat_length; lia|].
    intros d. apply prints_hdr.
    apply emits_app; [apply emits_when|apply emits_app; [apply emits_when|apply emits_repeat_leaf]].
    + apply emits_hdr; [unfold ident_leaves; rewrite map_length; reflexivity|apply emits_map_leaf_id].
    + apply emits_hdr; [rewrite map_length; apply Trep_length, Htrs|apply replacements_emits, Htrs].
Qed.

(* count = emitted for the transformer list IFF every transformer has a known type *)
Lemma columns_transformers_ok_iff transformers except replace apply ts :
  length ts = (if pos (length transformers) then length (filter transformer_known transformers)
               else count_transformer_list transformers except replace apply) ->
  p_ok (mkPrinted X_ColumnsTransformerList (count_transformer_list transformers except replace apply) ts)
  <-> transformers_known transformers = true.
Proof.
  intros El. unfold p_ok. cbn [p_count p_children]. rewrite El. unfold count_transformer_list.
  destruct transformers as [|t l].
  - cbn [length pos]. split; reflexivity.
  - cbn [length pos]. rewrite <- (filter_known_length (t :: l)). cbn [length]. split; intros E; symmetry; exact E.
Qed.

Lemma columns_transformers_one transformers except replace apply :
  transformers_known transformers = true -> Forall Ptr transformers -> Forall Po replace ->
  one (fun d => explain_columns_transformers node d transformers except replace apply).
Proof.
  intros Hk Ht Hr. destruct (columns_transformers_prints transformers except replace apply Ht Hr) as (ts & El & Hp).
  eexists. intros d. apply (prints_emits _ _ _ (Hp d)).
  apply (columns_transformers_ok_iff _ _ _ _ _ El), Hk.
Qed.

Lemma asterisk_one table except replace apply transformers :
  transformers_known transformers = true -> Forall Ptr transformers -> Forall Po replace ->
  one (fun d => explain_asterisk node d table except replace apply transformers).
Proof.
  intros Hk Ht Hr. destruct (columns_transformers_one transformers except replace apply Hk Ht Hr) as (tt & Htt).
  unfold explain_asterisk. destruct (nonempty table), (has_transformers transformers except replace apply).
  - eexists. intros d. apply emits_hdr with (ts := [T_leaf (L_Identifier table); tt]); [reflexivity|].
    apply emits_cons_leaf, Htt.
  - eexists. intros d. apply emits_hdr with (ts := [T_leaf (L_Identifier table)]); [reflexivity|apply emits_leaf].
  - eexists. intros d. apply emits_hdr with (ts := [tt]); [reflexivity|apply Htt].
  - eexists. intros d. apply emits_leaf.
Qed.

Lemma columns_matcher_one qualifier columns except replace apply transformers :
  transformers_known transformers = true -> Forall Ptr transformers -> Forall Po replace -> Forall P columns ->
  one (fun d => explain_columns_matcher node d qualifier columns except replace apply transformers).
Proof.
  intros Hk Ht Hr Hc. destruct (columns_transformers_one transformers except replace apply Hk Ht Hr) as (tt & Htt).
  destruct (P_Ts _ Hc) as (tcs & Htcs).
  unfold explain_columns_matcher, explain_columns_matcher_transformers.
  set (ht := has_transformers transformers except replace apply).
  destruct (pos (length columns)).
  - eexists. intros d.
    apply emits_hdr with (ts := when (nonempty qualifier) [T_leaf (L_Identifier qualifier)] ++ [T_EL tcs] ++ when ht [tt]).
    + rewrite !app_length, !length_when1. cbn [length]. lia.
    + apply emits_app; [apply emits_when, emits_leaf|]. apply emits_app; [apply el_nodes_emits, Htcs|apply emits_when, Htt].
  - destruct (nonempty qualifier).
    + eexists. intros d. apply emits_hdr with (ts := T_leaf (L_Identifier qualifier) :: when ht [tt]).
      * cbn [length]. rewrite length_when1. reflexivity.
      * apply emits_cons_leaf, emits_when, Htt.
    + destruct ht.
      * eexists. intros d. apply emits_hdr with (ts := [tt]); [reflexivity|apply Htt].
      * eexists. intros d. apply emits_leaf.
Qed.

End Printers.

(* ---------------------------------------------------------------------------------------- *)
(** * Part 3: Node on expressions ([enode]) prints one rooted tree *)

(* strong induction over the nested AST *)
Section ExprInd.
Variable Q : expr -> Prop.
Definition Qo (o : option expr) : Prop := match o with Some e => Q e | None => True end.
Definition Qover (over : option (list N * list expr * list rose * option expr)) : Prop :=
  match over with Some (_, part, _, off) => Forall Q part /\ Qo off | None => True end.
Definition Qparams (params : option (list expr)) : Prop :=
  match params with Some ps => Forall Q ps | None => True end.
Definition Qtrs (l : list transformer) : Prop := Forall (fun t => Forall Qo (snd t)) l.

Hypotheses
  (H_nil : Q ENil)
  (H_opaque : forall t, Q (EOpaque t))
  (H_ident : forall n a, Q (EIdent n a))
  (H_lit : forall ty p b v l, Q (ELit ty p b v l))
  (H_litlist : forall ty p es l, Forall Q es -> Q (ELitList ty p es l))
  (H_unary : forall m fn o, Q o -> Q (EUnary m fn o))
  (H_bin : forall op p l r, Q l -> Q r -> Q (EBin op p l r))
  (H_func : forall cls fn params args st di filter over alias std,
      Qparams params -> Forall Q args -> Qo filter -> Qover over ->
      Q (EFunc cls fn params args st di filter over alias std))
  (H_lambda : forall ps body, Q body -> Q (ELambda ps body))
  (H_cast : forall x te tl a ops ll, Q x -> Qo te -> Q (ECast x te tl a ops ll))
  (H_in : forall x n g items q tr, Q x -> Forall Q items -> Q (EIn x n g items q tr))
  (H_ternary : forall c t e, Q c -> Q t -> Q e -> Q (ETernary c t e))
  (H_aacc : forall a i, Q a -> Q i -> Q (EArrayAccess a i))
  (H_tacc : forall a i, Q a -> Q i -> Q (ETupleAccess a i))
  (H_like : forall x p n ci a, Q x -> Q p -> Q (ELike x p n ci a))
  (H_between : forall x lo hi n, Q x -> Q lo -> Q hi -> Q (EBetween x lo hi n))
  (H_isnull : forall x n, Q x -> Q (EIsNull x n))
  (H_case : forall operand whens els a,
      Qo operand -> Forall (fun w => Q (fst w) /\ Q (snd w)) whens -> Qo els -> Q (ECase operand whens els a))
  (H_interval : forall v u, Q v -> Q (EInterval v u))
  (H_exists : forall q, Q (EExists q))
  (H_subquery : forall q a, Q (ESubquery q a))
  (H_extract : forall fn from a, Q from -> Q (EExtract fn from a))
  (H_param : forall n ty, Q (EParam n ty))
  (H_asterisk : forall table exc rep app trs, Forall Qo rep -> Qtrs trs -> Q (EAsterisk table exc rep app trs))
  (H_columns : forall qual cols exc rep app trs,
      Forall Q cols -> Forall Qo rep -> Qtrs trs -> Q (EColumns qual cols exc rep app trs))
  (H_aliased : forall x a, Q x -> Q (EAliased x a))
  (H_with : forall n q sc, Q q -> Q (EWith n q sc)).

Fixpoint expr_ind' (e : expr) : Q e :=
  let list_ind := fix go (l : list expr) : Forall Q l :=
                    match l with [] => Forall_nil _ | x :: r => Forall_cons x (expr_ind' x) (go r) end in
  let opt_ind := fun o : option expr =>
                   match o return Qo o with Some x => expr_ind' x | None => I end in
  let rep_ind := fix go (l : list (option expr)) : Forall Qo l :=
                   match l with
                   | [] => Forall_nil _
                   | o :: r => Forall_cons o (match o return Qo o with Some x => expr_ind' x | None => I end) (go r)
                   end in
  let trs_ind := fix go (l : list transformer) : Qtrs l :=
                   match l with
                   | [] => Forall_nil _
                   | t :: r => Forall_cons t (match t return Forall Qo (snd t) with (_, rs) => rep_ind rs end) (go r)
                   end in
  match e with
  | ENil => H_nil
  | EOpaque t => H_opaque t
  | EIdent n a => H_ident n a
  | ELit ty p b v l => H_lit ty p b v l
  | ELitList ty p es l => H_litlist ty p es l (list_ind es)
  | EUnary m fn o => H_unary m fn o (expr_ind' o)
  | EBin op p l r => H_bin op p l r (expr_ind' l) (expr_ind' r)
  | EFunc cls fn params args st di filter over alias std =>
      H_func cls fn params args st di filter over alias std
             (match params return Qparams params with Some ps => list_ind ps | None => I end)
             (list_ind args) (opt_ind filter)
             (match over return Qover over with
              | Some (_, part, _, off) => conj (list_ind part) (opt_ind off)
              | None => I
              end)
  | ELambda ps body => H_lambda ps body (expr_ind' body)
  | ECast x te tl a ops ll => H_cast x te tl a ops ll (expr_ind' x) (opt_ind te)
  | EIn x n g items q tr => H_in x n g items q tr (expr_ind' x) (list_ind items)
  | ETernary c t el => H_ternary c t el (expr_ind' c) (expr_ind' t) (expr_ind' el)
  | EArrayAccess a i => H_aacc a i (expr_ind' a) (expr_ind' i)
  | ETupleAccess a i => H_tacc a i (expr_ind' a) (expr_ind' i)
  | ELike x p n ci a => H_like x p n ci a (expr_ind' x) (expr_ind' p)
  | EBetween x lo hi n => H_between x lo hi n (expr_ind' x) (expr_ind' lo) (expr_ind' hi)
  | EIsNull x n => H_isnull x n (expr_ind' x)
  | ECase operand whens els a =>
      H_case operand whens els a (opt_ind operand)
             ((fix go (l : list (expr * expr)) : Forall (fun w => Q (fst w) /\ Q (snd w)) l :=
                 match l with
                 | [] => Forall_nil _
                 | w :: r => Forall_cons w (match w return Q (fst w) /\ Q (snd w) with
                                            | (c, x) => conj (expr_ind' c) (expr_ind' x)
                                            end) (go r)
                 end) whens)
             (opt_ind els)
  | EInterval v u => H_interval v u (expr_ind' v)
  | EExists q => H_exists q
  | ESubquery q a => H_subquery q a
  | EExtract fn from a => H_extract fn from a (expr_ind' from)
  | EParam n ty => H_param n ty
  | EAsterisk table exc rep app trs => H_asterisk table exc rep app trs (rep_ind rep) (trs_ind trs)
  | EColumns qual cols exc rep app trs => H_columns qual cols exc rep app trs (list_ind cols) (rep_ind rep) (trs_ind trs)
  | EAliased x a => H_aliased x a (expr_ind' x)
  | EWith n q sc => H_with n q sc (expr_ind' q)
  end.
End ExprInd.

Lemma forallb_Forall {A} (f : A -> bool) l : forallb f l = true -> Forall (fun x => f x = true) l.
Proof.
  induction l as [|x l IH]; [constructor|]. cbn [forallb]. intros H. apply andb_prop in H as [Hx Hl].
  constructor; [exact Hx|apply IH, Hl].
Qed.

Lemma Forall_mp {A} (P1 P2 : A -> Prop) l : Forall (fun x => P1 x -> P2 x) l -> Forall P1 l -> Forall P2 l.
Proof. intros H. induction H; intros H1; inversion H1; subst; constructor; auto. Qed.

Section Global.
Variable norm_unit : list N -> list N.
Notation nd := (enode norm_unit).
Notation PP := (P nd).

(* the aliased / WithElement printers applied to e, and the children of e that other printers print themselves *)
Definition Pal (e : expr) : Prop := forall alias lbl, one (fun d => explain_aliased_expr nd norm_unit d e alias lbl).
Definition Pwi (e : expr) : Prop := forall name sc lbl, one (fun d => explain_with_element nd norm_unit d name e sc lbl).
Definition Pdp (e : expr) : Prop :=
  match e with
  | ELitList _ _ es _ => Forall PP es
  | EIn n _ _ (h :: _) _ _ => PP n /\ PP h
  | _ => True
  end.
Definition Pops (e : expr) : Prop :=
  (forall op, Forall PP (logical_operands_of op e)) /\ Forall PP (concat_operands_of e).
Definition QQ (e : expr) : Prop := PP e /\ Pal e /\ Pwi e /\ Pdp e /\ Pops e.

Lemma QQ_P e : QQ e -> PP e.
Proof. intros H. apply H. Qed.
Lemma QQ_Pdeep e : QQ e -> Pdeep nd e.
Proof. intros (H1 & _ & _ & H4 & _). split; [exact H1|]. destruct e; try exact I. exact H4. Qed.
Lemma QQ_Pfn e : QQ e -> Pfn nd e.
Proof.
  intros (H1 & _ & _ & H4 & _). split; [exact H1|]. destruct e; try exact I.
  destruct items; [exact I|exact H4].
Qed.
Lemma QQo_Po o : Qo QQ o -> Po nd o.
Proof. destruct o; [apply QQ_P|trivial]. Qed.
Lemma Forall_QQ_P es : Forall QQ es -> Forall PP es.
Proof. apply Forall_impl, QQ_P. Qed.

Lemma Pops_default e :
  PP e -> (forall op, logical_operands_of op e = [e]) -> concat_operands_of e = [e] -> Pops e.
Proof. intros H E1 E2. split; [intros op; rewrite E1|rewrite E2]; constructor; auto. Qed.

Ltac as_one lem := eexists; intros d; apply lem.
Ltac pops := apply Pops_default; [assumption|intros; reflexivity|reflexivity].
Ltac qq := split; [|split; [|split; [|split]]].

Lemma binary_operands_P op l r : PP l -> PP r -> Pops l -> Pops r -> Forall PP (binary_operands op l r).
Proof.
  intros Hl Hr [Hl1 Hl2] [Hr1 Hr2].
  destruct op; cbn [binary_operands]; unfold collect_concat_operands, collect_logical_operands.
  - apply Forall_app; auto.
  - apply Forall_app; auto.
  - apply Forall_app; auto.
  - constructor; [exact Hl|constructor; [exact Hr|constructor]].
Qed.

Lemma Forall_QQ_Tw whens :
  Forall (fun w => QQ (fst w) /\ QQ (snd w)) whens -> exists tps, Tw nd whens tps.
Proof.
  intros H. induction H as [|w ws Hw _ (tps & Htps)]; [exists []; constructor|].
  destruct Hw as [[(tc & Hc) _] [(tr & Hr) _]].
  exists ((tc, tr) :: tps). constructor; [split; assumption|exact Htps].
Qed.

Lemma QQ_reps rs : Forall (Qo QQ) rs -> Forall (Po nd) rs.
Proof. apply Forall_impl. intros o. apply QQo_Po. Qed.

Lemma QQ_trs trs : Qtrs QQ trs -> Forall (Ptr nd) trs.
Proof. apply Forall_impl. intros t H. unfold Ptr. apply QQ_reps, H. Qed.

(* the main induction *)
Theorem enode_QQ : forall e, inv_expr e -> QQ e.
Proof.
  unfold inv_expr.
  induction e using expr_ind'; intros Hinv; cbn [inv_exprb] in Hinv.
  - (* ENil *)
    assert (Hp : PP ENil) by (exists nil_tree; intros d; apply emits_render).
    qq; [exact Hp|intros ? ?; exact Hp|intros ? ? ?; exact Hp|exact I|pops].
  - (* EOpaque *)
    assert (Hp : PP (EOpaque t)) by (exists t; intros d; apply emits_render).
    qq; [exact Hp|intros ? ?; exact Hp|intros ? ? ?; exact Hp|exact I|pops].
  - (* EIdent *)
    assert (Hp : PP (EIdent n a)) by (as_one identifier_emits).
    qq; [exact Hp| | |exact I|pops].
    + intros alias lbl. as_one emits_leaf.
    + intros name sc lbl. cbn [explain_with_element]. destruct (nonempty name); as_one emits_leaf.
  - (* ELit *)
    assert (Hp : PP (ELit ty p b v l)) by (as_one literal_scalar_emits).
    qq; [exact Hp| | |exact I|pops].
    + intros alias lbl. as_one aliased_literal_scalar_emits.
    + intros name sc lbl. as_one with_literal_leaf_emits.
  - (* ELitList *)
    pose proof (Forall_mp _ _ _ H (forallb_Forall _ _ Hinv)) as Hes.
    destruct (P_Ts nd _ (Forall_QQ_P _ Hes)) as (ts & Hts).
    assert (Hp : PP (ELitList ty p es l)) by (as_one literal_list_emits; exact Hts).
    qq; [exact Hp| | |exact (Forall_QQ_P _ Hes)|pops].
    + intros alias lbl. as_one aliased_literal_list_emits. exact Hts.
    + intros name sc lbl. as_one with_literal_list_emits. exact Hts.
  - (* EUnary *)
    destruct (IHe Hinv) as ((to & Hto) & _).
    assert (Hp : PP (EUnary m fn e)) by (as_one unary_emits; exact Hto).
    qq; [exact Hp| | |exact I|pops].
    + intros alias lbl. as_one aliased_unary_emits. exact Hto.
    + intros name sc lbl. as_one with_unary_emits. exact Hto.
  - (* EBin *)
    apply andb_prop in Hinv as [Hi1 Hi2].
    destruct (IHe1 Hi1) as (Hl & _ & _ & _ & Hlo). destruct (IHe2 Hi2) as (Hr & _ & _ & _ & Hro).
    destruct (P_Ts nd _ (binary_operands_P op e1 e2 Hl Hr Hlo Hro)) as (ts & Hts).
    assert (Hp : PP (EBin op p e1 e2)) by (as_one binary_emits; exact Hts).
    qq; [exact Hp| | |exact I|split].
    + intros alias lbl. as_one aliased_binary_emits. exact Hts.
    + intros name sc lbl. as_one with_binary_emits. exact Hts.
    + intros op'. cbn [logical_operands_of]. destruct p; [constructor; auto|].
      destruct (binop_eqb op op'); [apply Forall_app; split; [apply Hlo|apply Hro]|constructor; auto].
    + cbn [concat_operands_of]. destruct op; try (constructor; auto). apply Forall_app; split; [apply Hlo|apply Hro].
  - (* EFunc *)
    apply andb_prop in Hinv as [Hinv Hi4]. apply andb_prop in Hinv as [Hinv Hi3]. apply andb_prop in Hinv as [Hi1 Hi2].
    pose proof (Forall_mp _ _ _ H0 (forallb_Forall _ _ Hi2)) as Hargs.
    assert (Hfn : Forall (Pfn nd) args) by (eapply Forall_impl; [|exact Hargs]; apply QQ_Pfn).
    assert (Hfilter : Po nd filter) by (destruct filter; [apply QQ_P, H1, Hi3|exact I]).
    assert (Hparams : match params with Some ps => Forall PP ps | None => True end).
    { destruct params as [ps|]; [|exact I]. apply Forall_QQ_P, (Forall_mp _ _ _ H (forallb_Forall _ _ Hi1)). }
    assert (Hall : forall a, one (fun d => explain_function_call_with_alias nd norm_unit a d cls fn params args st di filter over std))
      by (intros a; apply function_call_one; assumption).
    assert (Hp : PP (EFunc cls fn params args st di filter over alias std)) by apply Hall.
    qq; [exact Hp|intros ? ?; apply Hall|intros ? ? ?; apply Hall|exact I|pops].
  - (* ELambda *)
    destruct (IHe Hinv) as ((tb & Htb) & _).
    assert (Hall : forall a, one (fun d => explain_lambda_with_alias nd a d ps e)) by (intros a; as_one lambda_emits; exact Htb).
    assert (Hp : PP (ELambda ps e)) by apply Hall.
    qq; [exact Hp|intros ? ?; apply Hall|intros ? ? ?; apply Hall|exact I|pops].
  - (* ECast *)
    apply andb_prop in Hinv as [Hi1 Hi2]. destruct (IHe Hi1) as ((tx & Htx) & _).
    assert (Hte : Po nd te) by (destruct te; [apply QQ_P, H, Hi2|exact I]).
    destruct (Po_To nd _ Hte) as (tty & Htty).
    assert (Hall : forall al, one (fun d => explain_cast_expr_with_alias nd al d e te tl ops ll))
      by (intros al; eexists; intros d; apply (cast_emits nd al e tx te tty tl ops ll d Htx Htty)).
    assert (Hp : PP (ECast e te tl a ops ll)) by apply Hall.
    qq; [exact Hp|intros ? ?; apply Hall|intros ? ? ?; apply Hall|exact I|pops].
  - (* EIn *)
    apply andb_prop in Hinv as [Hi1 Hi2]. destruct (IHe Hi1) as (Hx & _). pose proof Hx as (tx & Htx).
    pose proof (Forall_mp _ _ _ H (forallb_Forall _ _ Hi2)) as Hitems.
    assert (Hdeep : Forall (Pdeep nd) items) by (eapply Forall_impl; [|exact Hitems]; apply QQ_Pdeep).
    assert (Hp : PP (EIn e n g items q tr)).
    { destruct (in_emits nd e tx n g items q tr (bytes_of "_") Htx Hdeep) as (ts & _ & Hts). eexists. exact Hts. }
    qq; [exact Hp| |intros ? ? ?; exact Hp| |pops].
    + intros alias lbl. destruct (in_with_alias_emits nd alias e tx n g items q tr (bytes_of "_") Htx Hdeep) as (ts & _ & Hts).
      eexists. exact Hts.
    + cbn [Pdp]. destruct items as [|h items]; [exact I|]. split; [exact Hx|]. inversion Hitems; subst. apply QQ_P. assumption.
  - (* ETernary *)
    apply andb_prop in Hinv as [Hinv Hi3]. apply andb_prop in Hinv as [Hi1 Hi2].
    destruct (IHe1 Hi1) as ((t1 & H1) & _). destruct (IHe2 Hi2) as ((t2 & H2) & _). destruct (IHe3 Hi3) as ((t3 & H3) & _).
    assert (Hp : PP (ETernary e1 e2 e3)) by (as_one ternary_emits; eassumption).
    qq; [exact Hp| | |exact I|pops].
    + intros alias lbl. as_one aliased_ternary_emits; eassumption.
    + intros name sc lbl. as_one with_ternary_emits; eassumption.
  - (* EArrayAccess *)
    apply andb_prop in Hinv as [Hi1 Hi2]. destruct (IHe1 Hi1) as ((t1 & H1) & _). destruct (IHe2 Hi2) as ((t2 & H2) & _).
    assert (Hp : PP (EArrayAccess e1 e2)) by (as_one array_access_emits; eassumption).
    qq; [exact Hp| | |exact I|pops].
    + intros alias lbl. as_one array_access_with_alias_emits; eassumption.
    + intros name sc lbl. as_one array_access_with_alias_emits; eassumption.
  - (* ETupleAccess *)
    apply andb_prop in Hinv as [Hi1 Hi2]. destruct (IHe1 Hi1) as ((t1 & H1) & _). destruct (IHe2 Hi2) as ((t2 & H2) & _).
    assert (Hp : PP (ETupleAccess e1 e2)) by (as_one tuple_access_emits; eassumption).
    qq; [exact Hp| |intros ? ? ?; exact Hp|exact I|pops].
    intros alias lbl. as_one tuple_access_with_alias_emits; eassumption.
  - (* ELike *)
    apply andb_prop in Hinv as [Hi1 Hi2]. destruct (IHe1 Hi1) as ((t1 & H1) & _). destruct (IHe2 Hi2) as ((t2 & H2) & _).
    assert (Hp : PP (ELike e1 e2 n ci a)) by (as_one like_emits; eassumption).
    qq; [exact Hp| | |exact I|pops].
    + intros alias lbl. as_one like_with_alias_emits; eassumption.
    + intros name sc lbl. as_one like_with_alias_emits; eassumption.
  - (* EBetween *)
    apply andb_prop in Hinv as [Hinv Hi3]. apply andb_prop in Hinv as [Hi1 Hi2].
    destruct (IHe1 Hi1) as ((t1 & H1) & _). destruct (IHe2 Hi2) as ((t2 & H2) & _). destruct (IHe3 Hi3) as ((t3 & H3) & _).
    assert (Hp : PP (EBetween e1 e2 e3 n)) by (as_one between_emits; eassumption).
    qq; [exact Hp| | |exact I|pops].
    + intros alias lbl. as_one between_with_alias_emits; eassumption.
    + intros name sc lbl. as_one between_with_alias_emits; eassumption.
  - (* EIsNull *)
    destruct (IHe Hinv) as ((t1 & H1) & _).
    assert (Hall : forall a, one (fun d => explain_is_null_expr_with_alias nd a d e n)) by (intros a; as_one is_null_emits; exact H1).
    assert (Hp : PP (EIsNull e n)) by apply Hall.
    qq; [exact Hp|intros ? ?; apply Hall|intros ? ? ?; exact Hp|exact I|pops].
  - (* ECase *)
    apply andb_prop in Hinv as [Hinv Hi3]. apply andb_prop in Hinv as [Hi1 Hi2].
    assert (Hop : Po nd operand) by (destruct operand; [apply QQ_P, H, Hi1|exact I]).
    assert (Hel : Po nd els) by (destruct els; [apply QQ_P, H1, Hi3|exact I]).
    assert (Hws : Forall (fun w => QQ (fst w) /\ QQ (snd w)) whens).
    { apply forallb_Forall in Hi2. clear - H0 Hi2. induction H0 as [|[c r] ws [Hc Hr] _ IH]; [constructor|].
      inversion Hi2 as [|? ? Hcr Hrest]; subst. apply andb_prop in Hcr as [Hic Hir].
      constructor; [split; [apply Hc, Hic|apply Hr, Hir]|apply IH, Hrest]. }
    destruct (Po_To nd _ Hop) as (tos & Htos). destruct (Po_To nd _ Hel) as (tes & Htes).
    destruct (Forall_QQ_Tw _ Hws) as (tps & Htps).
    assert (Hall : forall al, one (fun d => explain_case_expr_with_alias nd al d operand whens els))
      by (intros al; as_one case_emits; eassumption).
    assert (Hp : PP (ECase operand whens els a)) by apply Hall.
    qq; [exact Hp|intros ? ?; apply Hall|intros ? ? ?; exact Hp|exact I|pops].
  - (* EInterval *)
    destruct (IHe Hinv) as ((t1 & H1) & _).
    assert (Hall : forall al, one (fun d => explain_interval_expr nd norm_unit al d e u)) by (intros al; as_one interval_emits; exact H1).
    assert (Hp : PP (EInterval e u)) by apply Hall.
    qq; [exact Hp|intros ? ?; apply Hall|intros ? ? ?; exact Hp|exact I|pops].
  - (* EExists *)
    assert (Hall : forall al, one (fun d => explain_exists_expr_with_alias al d q)) by (intros al; as_one exists_emits).
    assert (Hp : PP (EExists q)) by apply Hall.
    qq; [exact Hp|intros ? ?; apply Hall|intros ? ? ?; exact Hp|exact I|pops].
  - (* ESubquery *)
    assert (Hp : PP (ESubquery q a)) by (as_one subquery_emits).
    qq; [exact Hp|intros ? ?; exact Hp| |exact I|pops].
    intros name sc lbl. cbn [explain_with_element]. destruct sc.
    + destruct (nonempty (if nonempty name then name else a)); eexists; intros d;
        (apply emits_hdr with (ts := [nilable_tree q]); [reflexivity|apply emits_node_nilable]).
    + eexists. intros d. apply emits_hdr with (ts := [Node X_Subquery [nilable_tree q]]); [reflexivity|].
      apply emits_hdr with (ts := [nilable_tree q]); [reflexivity|apply emits_node_nilable].
  - (* EExtract *)
    destruct (IHe Hinv) as ((t1 & H1) & _).
    assert (Hall : forall al, one (fun d => explain_extract_expr_with_alias nd al d fn e)) by (intros al; as_one extract_emits; exact H1).
    assert (Hp : PP (EExtract fn e a)) by apply Hall.
    qq; [exact Hp|intros ? ?; apply Hall|intros ? ? ?; exact Hp|exact I|pops].
  - (* EParam *)
    assert (Hp : PP (EParam n ty)) by (as_one parameter_emits).
    qq; [exact Hp| |intros ? ? ?; exact Hp|exact I|pops].
    intros alias lbl. as_one parameter_aliased_emits.
  - (* EAsterisk *)
    apply andb_prop in Hinv as [Hinv Hi3]. apply andb_prop in Hinv as [Hi1 Hi2].
    assert (Hrep : Forall (Qo QQ) rep).
    { apply forallb_Forall in Hi1. clear - H Hi1. induction H as [|o l Ho _ IH]; [constructor|].
      inversion Hi1; subst. constructor; [destruct o; [apply Ho; assumption|exact I]|apply IH; assumption]. }
    assert (Htrs : Qtrs QQ trs).
    { apply forallb_Forall in Hi3. clear - H0 Hi3. induction H0 as [|t l Ht _ IH]; [constructor|].
      inversion Hi3 as [|? ? Hit Hrest]; subst. constructor; [|apply IH, Hrest].
      destruct t as [[[ty pat] exc] rs]. cbn [snd] in *. apply forallb_Forall in Hit. clear - Ht Hit.
      induction Ht as [|o l Ho _ IH]; [constructor|]. inversion Hit; subst.
      constructor; [destruct o; [apply Ho; assumption|exact I]|apply IH; assumption]. }
    assert (Hp : PP (EAsterisk table exc rep app trs))
      by (apply asterisk_one; [exact Hi2|apply QQ_trs, Htrs|apply QQ_reps, Hrep]).
    qq; [exact Hp|intros ? ?; exact Hp|intros ? ? ?; exact Hp|exact I|pops].
  - (* EColumns *)
    apply andb_prop in Hinv as [Hinv Hi4]. apply andb_prop in Hinv as [Hinv Hi3]. apply andb_prop in Hinv as [Hi1 Hi2].
    pose proof (Forall_mp _ _ _ H (forallb_Forall _ _ Hi1)) as Hcols.
    assert (Hrep : Forall (Qo QQ) rep).
    { apply forallb_Forall in Hi2. clear - H0 Hi2. induction H0 as [|o l Ho _ IH]; [constructor|].
      inversion Hi2; subst. constructor; [destruct o; [apply Ho; assumption|exact I]|apply IH; assumption]. }
    assert (Htrs : Qtrs QQ trs).
    { apply forallb_Forall in Hi4. clear - H1 Hi4. induction H1 as [|t l Ht _ IH]; [constructor|].
      inversion Hi4 as [|? ? Hit Hrest]; subst. constructor; [|apply IH, Hrest].
      destruct t as [[[ty pat] exc] rs]. cbn [snd] in *. apply forallb_Forall in Hit. clear - Ht Hit.
      induction Ht as [|o l Ho _ IH]; [constructor|]. inversion Hit; subst.
      constructor; [destruct o; [apply Ho; assumption|exact I]|apply IH; assumption]. }
    assert (Hp : PP (EColumns qual cols exc rep app trs))
      by (apply columns_matcher_one; [exact Hi3|apply QQ_trs, Htrs|apply QQ_reps, Hrep|apply Forall_QQ_P, Hcols]).
    qq; [exact Hp|intros ? ?; exact Hp|intros ? ? ?; exact Hp|exact I|pops].
  - (* EAliased *)
    destruct (IHe Hinv) as (_ & Hal & _).
    assert (Hp : PP (EAliased e a)) by apply Hal.
    qq; [exact Hp|intros ? ?; exact Hp|intros ? ? ?; exact Hp|exact I|pops].
  - (* EWith *)
    destruct (IHe Hinv) as (_ & _ & Hwi & _).
    assert (Hp : PP (EWith n e sc)) by apply Hwi.
    qq; [exact Hp|intros ? ?; exact Hp|intros ? ? ?; exact Hp|exact I|pops].
Qed.

End Global.

(* ---------------------------------------------------------------------------------------- *)
(** * Corollaries for [enode] *)

Theorem enode_tree norm_unit e :
  inv_expr e -> exists t, forall d, nrm (enode norm_unit d e) = render d t.
Proof.
  intros H. destruct (enode_QQ norm_unit e H) as ((t & Ht) & _). exists t. intros d. apply tree_of_emits, Ht.
Qed.

Theorem enode_check_lines norm_unit e : inv_expr e -> check_lines (enode norm_unit 0 e) = true.
Proof. intros H. destruct (enode_tree norm_unit e H) as (t & Ht). apply (check_lines_of_tree _ t), Ht. Qed.

Theorem enode_counts_agree norm_unit e d :
  inv_expr e -> header_count (enode norm_unit d e) = direct_children (enode norm_unit d e).
Proof. intros H. destruct (enode_tree norm_unit e H) as (t & Ht). apply (tree_counts_agree _ d t), Ht. Qed.

(* outside the condition: a ColumnsTransformerList whose header counts a transformer of an unknown type *)
Lemma render_cons_inv d lab k rest t :
  mkLine d lab k :: rest = render d t -> exists ks, t = Node lab ks /\ rest = render_forest (S d) ks.
Proof. destruct t as [l ks]. rewrite render_node. intros E. injection E as -> _ ->. exists ks. auto. Qed.

Section Outside.
Variable node : nat -> expr -> list line.

Lemma columns_transformers_not_tree transformers except replace apply :
  transformers_known transformers = false -> Forall (Ptr node) transformers -> Forall (Po node) replace ->
  forall d d' t, nrm (explain_columns_transformers node d transformers except replace apply) <> render d' t.
Proof.
  intros Hk Ht Hr d. destruct (columns_transformers_prints node transformers except replace apply Ht Hr) as (ts & El & Hp).
  apply (prints_not_tree _ _ _ (Hp d)). intros Hok.
  apply (columns_transformers_ok_iff _ _ _ _ _ El) in Hok. congruence.
Qed.

Lemma columns_transformers_counts_iff transformers except replace apply d :
  Forall (Ptr node) transformers -> Forall (Po node) replace ->
  (header_count (explain_columns_transformers node d transformers except replace apply)
   = direct_children (explain_columns_transformers node d transformers except replace apply)
   <-> transformers_known transformers = true).
Proof.
  intros Ht Hr. destruct (columns_transformers_prints node transformers except replace apply Ht Hr) as (ts & El & Hp).
  rewrite (prints_counts_iff _ _ _ (Hp d)). apply (columns_transformers_ok_iff _ _ _ _ _ El).
Qed.

(* ... and so is the unqualified Asterisk above it *)
Lemma asterisk_not_tree_outside_condition except replace apply transformers :
  transformers_known transformers = false -> Forall (Ptr node) transformers -> Forall (Po node) replace ->
  forall d t, nrm (explain_asterisk node d [] except replace apply transformers) <> render d t.
Proof.
  intros Hk Ht Hr d t E.
  assert (Hne : pos (length transformers) = true).
  { destruct transformers; [discriminate Hk|reflexivity]. }
  unfold explain_asterisk, has_transformers in E. cbn [nonempty] in E. rewrite Hne in E. cbn [orb] in E.
  rewrite nrm_cons, norm_hdr in E. apply render_cons_inv in E as (ks & _ & E).
  destruct ks as [|k [|k2 ks]].
  - unfold explain_columns_transformers in E. rewrite Hne in E. discriminate E.
  - rewrite render_forest_one in E. exact (columns_transformers_not_tree _ _ _ _ Hk Ht Hr _ _ _ E).
  - (* two trees at depth d+1 start with two lines at that depth; the list has one *)
    destruct (columns_transformers_prints node transformers except replace apply Ht Hr) as (ts & El & Hp).
    rewrite (Hp (S d)) in E. cbn [p_label p_count p_children] in E.
    destruct k as [l1 c1], k2 as [l2 c2].
    unfold render_forest in E. cbn [flat_map] in E. rewrite !render_node in E. cbn [app] in E. injection E as _ _ E.
    assert (Hin : In (mkLine (S d) l2 (kcount (length c2))) (flat_map (render (S (S d))) ts)).
    { rewrite E. apply in_or_app. right. left. reflexivity. }
    clear - Hin. apply in_flat_map in Hin as (x & _ & Hx).
    assert (Hdeep : forall dd tt ln, In ln (render dd tt) -> dd <= indent ln).
    { clear. intros dd tt. revert dd. induction tt as [lb kids IH] using rose_ind'.
      intros dd ln. rewrite render_node. intros [<-|Hi]; [cbn; lia|].
      unfold render_forest in Hi. apply in_flat_map in Hi as (k & Hk & Hi).
      rewrite Forall_forall in IH. specialize (IH k Hk (S dd) ln Hi). lia. }
    specialize (Hdeep _ _ _ Hx). cbn [indent] in Hdeep. lia.
Qed.

End Outside.

(* ---------------------------------------------------------------------------------------- *)
(** * Part 2: the aliased twins print the plain printer's text with " (alias a)" on the root line *)

(* append " (alias a)" to the label of the first line *)
Definition alias_root (a : list N) (ls : list line) : list line :=
  match ls with
  | l :: rest => mkLine (indent l) (label l ++ sfx a) (nkids l) :: rest
  | [] => []
  end.

Lemma hdr_alias_root d lab a n :
  nonempty a = true -> hdr_alias d lab a n n = mkLine d (lab ++ sfx a) (Some n).
Proof. intros H. unfold hdr_alias. rewrite H. reflexivity. Qed.

Lemma hdr_alias_nil d lab n : hdr_alias d lab [] n n = hdr d lab n.
Proof. reflexivity. Qed.

Section Alias.
Variable node : nat -> expr -> list line.
Variable norm_unit : list N -> list N.
Variable a : list N.
Hypothesis Ha : nonempty a = true.

(* --- separate code in Go: the cases of explainAliasedExpr / explainWithElement vs the plain printers --- *)
Lemma aliased_binary_is_plain d op l r :
  explain_aliased_binary node a d op l r = alias_root a (explain_binary_expr node d op l r).
Proof. destruct op; reflexivity. Qed.

Lemma with_binary_is_plain d op l r :
  explain_with_binary node a d op l r = alias_root a (explain_binary_expr node d op l r)
  /\ explain_with_binary node [] d op l r = explain_binary_expr node d op l r.
Proof. unfold explain_with_binary. rewrite !hdr_alias_root by exact Ha. split; destruct op; reflexivity. Qed.

Lemma aliased_ternary_is_plain d c t e :
  explain_aliased_ternary node a d c t e = alias_root a (explain_ternary_expr node d c t e).
Proof. reflexivity. Qed.

Lemma with_ternary_is_plain d c t e :
  explain_with_ternary node a d c t e = alias_root a (explain_ternary_expr node d c t e)
  /\ explain_with_ternary node [] d c t e = explain_ternary_expr node d c t e.
Proof. unfold explain_with_ternary. rewrite hdr_alias_root by exact Ha. split; reflexivity. Qed.

Lemma array_access_with_alias_is_plain d x i :
  explain_array_access_with_alias node a d x i = alias_root a (explain_array_access node d x i)
  /\ explain_array_access_with_alias node [] d x i = explain_array_access node d x i.
Proof. unfold explain_array_access_with_alias. rewrite hdr_alias_root by exact Ha. split; reflexivity. Qed.

Lemma tuple_access_with_alias_is_plain d x i :
  explain_tuple_access_with_alias node a d x i = alias_root a (explain_tuple_access node d x i)
  /\ explain_tuple_access_with_alias node [] d x i = explain_tuple_access node d x i.
Proof. unfold explain_tuple_access_with_alias. rewrite hdr_alias_root by exact Ha. split; reflexivity. Qed.

(* LIKE: the plain printer reads the node's own Alias; without one the twin differs by the annotation only *)
Lemma like_with_alias_is_plain d e p not ci :
  explain_like_expr_with_alias node a d e p not ci = alias_root a (explain_like_expr node d e p not ci [])
  /\ forall own, explain_like_expr_with_alias node own d e p not ci = explain_like_expr node d e p not ci own.
Proof. unfold explain_like_expr_with_alias, explain_like_expr. rewrite hdr_alias_root by exact Ha. split; reflexivity. Qed.

Lemma between_with_alias_is_plain d e lo hi not :
  explain_between_expr_with_alias node a d e lo hi not = alias_root a (explain_between_expr node d e lo hi not)
  /\ explain_between_expr_with_alias node [] d e lo hi not = explain_between_expr node d e lo hi not.
Proof.
  unfold explain_between_expr_with_alias, explain_between_expr. rewrite !hdr_alias_root by exact Ha.
  split; destruct not; reflexivity.
Qed.

Lemma aliased_identifier_is_plain d name own :
  [leaf d (L_Identifier name ++ sfx a)] = alias_root a (explain_identifier d name [])
  /\ (nonempty own = true -> explain_identifier d name own = alias_root own (explain_identifier d name [])).
Proof. split; [reflexivity|]. intros H. unfold explain_identifier. rewrite H. reflexivity. Qed.

Lemma aliased_parameter_is_plain d name ty :
  explain_parameter_aliased a d name ty = alias_root a (explain_parameter d name ty).
Proof. unfold explain_parameter_aliased, explain_parameter. destruct (nonempty name); [destruct ty|]; reflexivity. Qed.

(* unary minus: the two copies agree unless the operand is a big integer held as a string, which only the plain
   printer folds into a literal *)
Definition bigint_string_operand (o : expr) : bool :=
  match o with
  | ELit LString false true (VStr s) _ => s_float s
  | _ => false
  end.

Lemma unary_folds_differ o : unary_folds_plain o = unary_folds_alias o || bigint_string_operand o.
Proof.
  destruct o; try reflexivity.
  - destruct ty, paren, bigint, v; cbn; rewrite ?orb_false_r; reflexivity.
  - destruct ty, paren; reflexivity.
Qed.

Lemma aliased_unary_is_plain d minus fn o lbl :
  (minus && bigint_string_operand o) = false ->
  explain_aliased_unary node a d minus fn o lbl = alias_root a (explain_unary_expr node d minus fn o lbl).
Proof.
  intros H. unfold explain_aliased_unary, explain_unary_expr. rewrite unary_folds_differ.
  destruct minus; cbn [andb] in *; [rewrite H, orb_false_r|]; [destruct (unary_folds_alias o)|]; reflexivity.
Qed.

(* ... and differs there: Function negate (alias a) with the string literal beneath vs ONE folded Literal line *)
Lemma aliased_unary_drift_refuted d fn lbl nl s :
  s_float s = true ->
  explain_unary_expr node d true fn (ELit LString false true (VStr s) lbl) nl = [leaf d (X_Literal nl)]
  /\ explain_aliased_unary node a d true fn (ELit LString false true (VStr s) lbl) nl
     = hdr d (L_Function fn ++ sfx a) 1 :: hdr (S d) L_ExpressionList 1 :: node (S (S d)) (ELit LString false true (VStr s) lbl).
Proof. intros H. unfold explain_unary_expr, explain_aliased_unary. cbn. rewrite H. split; reflexivity. Qed.

(* literals: the three printers decide separately whether an array / tuple literal is a Function *)
Lemma aliased_literal_scalar_is_plain d ty v lbl :
  negb (is_array_or_tuple ty && match v with VNil => true | _ => false end) = true ->
  explain_aliased_literal_scalar a d lbl = alias_root a (explain_literal_scalar d ty v lbl).
Proof. destruct ty, v; cbn; intros H; try discriminate H; reflexivity. Qed.

Lemma aliased_literal_list_is_plain d ty es lbl :
  aliased_literal_list_format ty es = literal_list_format ty es ->
  explain_aliased_literal_list node a d ty es lbl = alias_root a (explain_literal_list node d ty es lbl).
Proof.
  intros E. unfold explain_aliased_literal_list, explain_literal_list. rewrite E.
  destruct (literal_list_format ty es); [|reflexivity]. destruct es; reflexivity.
Qed.

Lemma with_literal_list_is_plain d ty es lbl :
  with_literal_list_format ty es = literal_list_format ty es ->
  explain_with_literal_list node a d ty es lbl = alias_root a (explain_literal_list node d ty es lbl)
  /\ explain_with_literal_list node [] d ty es lbl = explain_literal_list node d ty es lbl.
Proof.
  intros E. unfold explain_with_literal_list, explain_literal_list, with_literal_leaf. rewrite E, Ha.
  destruct (literal_list_format ty es); [|split; reflexivity].
  rewrite hdr_alias_root by exact Ha. destruct es; split; reflexivity.
Qed.

(* IN: the twin classifies the list with different helpers and prints a single tuple literal differently *)
Lemma in_with_alias_is_plain d e not global items query trailing lbl :
  explain_in_rhs_alias node (S (S d)) items query trailing lbl = explain_in_rhs node (S (S d)) items query trailing lbl ->
  explain_in_expr_with_alias node a d e not global items query trailing lbl
  = alias_root a (explain_in_expr node d e not global items query trailing lbl).
Proof.
  intros E. unfold explain_in_expr_with_alias, explain_in_expr.
  rewrite hdr_alias_root by exact Ha. rewrite E, count_in_args_alias_2, count_in_args_plain_2. reflexivity.
Qed.

(* --- one printer in Go ([...WithAlias] called with "" by the plain entry point) --- *)
Lemma is_null_alias d e not :
  explain_is_null_expr_with_alias node a d e not = alias_root a (explain_is_null_expr_with_alias node [] d e not).
Proof. unfold explain_is_null_expr_with_alias. rewrite hdr_alias_root by exact Ha. reflexivity. Qed.

Lemma case_alias d operand whens els :
  explain_case_expr_with_alias node a d operand whens els
  = alias_root a (explain_case_expr_with_alias node [] d operand whens els).
Proof. unfold explain_case_expr_with_alias. rewrite !hdr_alias_root by exact Ha. destruct operand; reflexivity. Qed.

Lemma exists_alias d q :
  explain_exists_expr_with_alias a d q = alias_root a (explain_exists_expr_with_alias [] d q).
Proof. unfold explain_exists_expr_with_alias. rewrite hdr_alias_root by exact Ha. reflexivity. Qed.

Lemma extract_alias d fn from :
  explain_extract_expr_with_alias node a d fn from = alias_root a (explain_extract_expr_with_alias node [] d fn from).
Proof. unfold explain_extract_expr_with_alias. rewrite hdr_alias_root by exact Ha. reflexivity. Qed.

Lemma lambda_alias d params body :
  explain_lambda_with_alias node a d params body = alias_root a (explain_lambda_with_alias node [] d params body).
Proof. unfold explain_lambda_with_alias. rewrite hdr_alias_root by exact Ha. reflexivity. Qed.

Lemma cast_alias d e te tl ops ll :
  explain_cast_expr_with_alias node a d e te tl ops ll
  = alias_root a (explain_cast_expr_with_alias node [] d e te tl ops ll).
Proof. unfold explain_cast_expr_with_alias. rewrite hdr_alias_root by exact Ha. reflexivity. Qed.

Lemma interval_alias d value unit :
  explain_interval_expr node norm_unit a d value unit = alias_root a (explain_interval_expr node norm_unit [] d value unit).
Proof.
  unfold explain_interval_expr, interval_simple.
  destruct (if nonempty unit then None else interval_string_parts value) as [[|p1 [|p2 rest]]|];
    rewrite hdr_alias_root by exact Ha; reflexivity.
Qed.

Lemma subquery_alias d q :
  explain_subquery d q a = alias_root a (explain_subquery d q []).
Proof. unfold explain_subquery. rewrite hdr_alias_root by exact Ha. reflexivity. Qed.

(* function calls: kql() ignores the alias, and the SQL-standard TRIM with an empty trim string prints its first
   argument alone, without the alias; everywhere else the alias is the annotation of the root line *)
Definition special_drops_alias (cls : name_class) (args : list expr) (sqlstd : bool) : bool :=
  match cls with
  | NKql => match args with [ELit LString _ _ (VStr s) _] => is_some (s_kql s) | _ => false end
  | NTrim => sqlstd && match args with [_; ELit LString _ _ (VStr s) _] => s_empty s | _ => false end
  | _ => false
  end.

Lemma special_alias d cls args sqlstd :
  match handle_special_function node norm_unit [] d cls args sqlstd with
  | Some ls =>
      handle_special_function node norm_unit a d cls args sqlstd
      = Some (if special_drops_alias cls args sqlstd then ls else alias_root a ls)
  | None => handle_special_function node norm_unit a d cls args sqlstd = None
  end.
Proof.
  destruct cls; try reflexivity.
  - destruct args as [|x r]; try reflexivity. destruct x; try reflexivity. destruct ty; try reflexivity.
    destruct v; try reflexivity. destruct r; try reflexivity. cbn. destruct (s_kql s); reflexivity.
  - destruct args as [|x [|y [|z r]]]; try reflexivity. destruct y; try reflexivity. cbn.
    destruct (quantified_functions all op) as [[comp agg]|]; [|reflexivity].
    unfold output_quantified_with_aggregate. rewrite hdr_alias_root by exact Ha. reflexivity.
  - destruct args as [|x r]; try reflexivity. destruct x; try reflexivity. destruct items; try reflexivity.
    destruct r; try reflexivity. cbn. unfold explain_position_with_in. rewrite hdr_alias_root by exact Ha. reflexivity.
  - cbn. destruct args as [|a1 [|a2 [|a3 [|a4 r]]]]; try reflexivity; cbn.
    + destruct (is_interval a1 || is_tointerval_call a1 || is_interval a2 || is_tointerval_call a2); [|reflexivity].
      unfold explain_date_add_sub_with_interval. rewrite hdr_alias_root by exact Ha. reflexivity.
    + destruct a1; try reflexivity. destruct (nonempty name); [|reflexivity].
      unfold explain_date_add_sub_result. rewrite hdr_alias_root by exact Ha. reflexivity.
  - cbn. destruct args as [|a1 [|a2 [|a3 [|a4 r]]]]; try reflexivity; cbn.
    + destruct (is_interval a1 || is_tointerval_call a1 || is_interval a2 || is_tointerval_call a2); [|reflexivity].
      unfold explain_date_add_sub_with_interval. rewrite hdr_alias_root by exact Ha. reflexivity.
    + destruct a1; try reflexivity. destruct (nonempty name); [|reflexivity].
      unfold explain_date_add_sub_result. rewrite hdr_alias_root by exact Ha. reflexivity.
  - cbn. destruct args as [|a1 [|a2 [|a3 [|a4 [|a5 r]]]]]; try reflexivity; try (destruct a1; reflexivity).
    + destruct a1; try reflexivity. cbn. destruct (nonempty name); [|reflexivity].
      unfold date_diff_lines. rewrite hdr_alias_root by exact Ha. reflexivity.
    + destruct a1; try reflexivity. cbn. destruct (nonempty name); [|reflexivity].
      unfold date_diff_lines. rewrite hdr_alias_root by exact Ha. reflexivity.
  - destruct sqlstd; try reflexivity. destruct args as [|x [|y r]]; try reflexivity.
    destruct y; try reflexivity. destruct ty; try reflexivity. destruct v; try reflexivity. destruct r; try reflexivity.
    cbn. destruct (s_empty s); reflexivity.
Qed.

Theorem function_call_alias d cls fn params args settings distinct filter over sqlstd :
  explain_function_call_with_alias node norm_unit a d cls fn params args settings distinct filter over sqlstd
  = if match handle_special_function node norm_unit [] d cls args sqlstd with
       | Some _ => special_drops_alias cls args sqlstd | None => false end
    then explain_function_call_with_alias node norm_unit [] d cls fn params args settings distinct filter over sqlstd
    else alias_root a (explain_function_call_with_alias node norm_unit [] d cls fn params args settings distinct filter over sqlstd).
Proof.
  unfold explain_function_call_with_alias. pose proof (special_alias d cls args sqlstd) as H.
  destruct (handle_special_function node norm_unit [] d cls args sqlstd) as [ls|]; rewrite H.
  - destruct (special_drops_alias cls args sqlstd); reflexivity.
  - unfold explain_function_generic. rewrite hdr_alias_root by exact Ha. reflexivity.
Qed.

End Alias.

(* explainAliasedExpr has no case for these kinds: the alias is dropped, the node prints as without it *)
Definition aliased_default (e : expr) : bool :=
  match e with
  | ENil | EOpaque _ | ESubquery _ _ | EAsterisk _ _ _ _ _
  | EColumns _ _ _ _ _ _ | EAliased _ _ | EWith _ _ _ => true
  | _ => false
  end.

Lemma aliased_default_drops_alias norm_unit d e a :
  aliased_default e = true -> enode norm_unit d (EAliased e a) = enode norm_unit d e.
Proof. destruct e; try discriminate; reflexivity. Qed.

(* BETWEEN and LIKE inside an AliasedExpr (cases of explainAliasedExpr since /repo 49bf3628f): the plain printer's text
   with the annotation; the LikeExpr's own Alias is ignored there, the AliasedExpr's is printed *)
Lemma aliased_between_is_plain norm_unit d e lo hi not a :
  nonempty a = true ->
  enode norm_unit d (EAliased (EBetween e lo hi not) a) = alias_root a (enode norm_unit d (EBetween e lo hi not)).
Proof.
  intros Ha. cbn [enode explain_aliased_expr].
  exact (proj1 (between_with_alias_is_plain (enode norm_unit) a Ha d e lo hi not)).
Qed.

Lemma aliased_like_is_plain norm_unit d e p not ci own a :
  nonempty a = true ->
  enode norm_unit d (EAliased (ELike e p not ci own) a) = alias_root a (enode norm_unit d (ELike e p not ci [])).
Proof.
  intros Ha. cbn [enode explain_aliased_expr].
  exact (proj1 (like_with_alias_is_plain (enode norm_unit) a Ha d e p not ci)).
Qed.

(* ... likewise explainWithElement for the kinds outside its switch *)
Definition with_default (e : expr) : bool :=
  match e with
  | ELit _ _ _ _ _ | ELitList _ _ _ _ | EIdent _ _ | EFunc _ _ _ _ _ _ _ _ _ _ | ELambda _ _ | EBin _ _ _ _
  | ESubquery _ _ | ECast _ _ _ _ _ _ | EArrayAccess _ _ | EBetween _ _ _ _ | ELike _ _ _ _ _ | EUnary _ _ _
  | ETernary _ _ _ => false
  | _ => true
  end.

Lemma with_default_drops_name norm_unit d e n sc :
  with_default e = true -> enode norm_unit d (EWith n e sc) = enode norm_unit d e.
Proof. destruct e; try discriminate; reflexivity. Qed.

(* concrete witnesses of the differences between the aliased and the plain printers (computed on [enode]) *)
Definition W_int : expr := ELit LInteger false false VInt (bytes_of "1").
Definition W_al : list N := bytes_of "x".
Definition idu (u : list N) : list N := u.

(* (1,) : a one-element tuple is a Function tuple without alias and a Literal with one *)
Lemma aliased_literal_drift_single_tuple :
  enode idu 0 (ELitList LTuple false [W_int] (bytes_of "T"))
  = [hdr 0 (L_Function F_tuple) 1; hdr 1 L_ExpressionList 1; leaf 2 (X_Literal (bytes_of "1"))]
  /\ enode idu 0 (EAliased (ELitList LTuple false [W_int] (bytes_of "T")) W_al)
     = [leaf 0 (X_Literal (bytes_of "T") ++ sfx W_al)].
Proof. split; vm_compute; reflexivity. Qed.

(* (1, -2) : a negated number keeps the tuple a Literal without alias and makes it a Function tuple with one *)
Lemma aliased_literal_drift_negative_element :
  literal_list_format LTuple [W_int; EUnary true (bytes_of "negate") W_int] = None
  /\ aliased_literal_list_format LTuple [W_int; EUnary true (bytes_of "negate") W_int] = Some F_tuple.
Proof. split; vm_compute; reflexivity. Qed.

(* x IN ((1, 2)) : a single tuple literal is wrapped into Function tuple without alias and printed bare with one *)
Lemma aliased_in_drift_single_tuple :
  let tup := ELitList LTuple false [W_int; W_int] (bytes_of "T") in
  explain_in_rhs (enode idu) 2 [tup] None false (bytes_of "_")
  = [hdr 2 (L_Function F_tuple) 1; hdr 3 L_ExpressionList 1; leaf 4 (X_Literal (bytes_of "T"))]
  /\ explain_in_rhs_alias (enode idu) 2 [tup] None false (bytes_of "_") = [leaf 2 (X_Literal (bytes_of "_"))].
Proof. split; vm_compute; reflexivity. Qed.

(* the transformer of an unknown type: the printed text is not a tree *)
Lemma asterisk_unknown_transformer_refuted :
  inv_exprb (EAsterisk [] [] [] 0 [(3, false, [], [])]) = false
  /\ check_lines (enode idu 0 (EAsterisk [] [] [] 0 [(3, false, [], [])])) = false
  /\ header_count (explain_columns_transformers (enode idu) 1 [(3, false, [], [])] [] [] 0) = 1
  /\ direct_children (explain_columns_transformers (enode idu) 1 [(3, false, [], [])] [] [] 0) = 0.
Proof. repeat split; vm_compute; reflexivity. Qed.

(* the hypotheses of the main theorem are satisfiable by a non-trivial object *)
Example inv_expr_example :
  inv_expr (EAliased (EFunc NPlain (bytes_of "f") (Some [W_int])
                            [EBin OpAnd false (EIdent (bytes_of "a") []) (EIn (EIdent (bytes_of "b") []) false false [W_int; W_int] None false);
                             EAsterisk [] [] [] 0 [(1, false, [bytes_of "c"], [])]]
                            false true None None [] false) W_al).
Proof. vm_compute. reflexivity. Qed.

(* ---------------------------------------------------------------------------------------- *)
(** * Per-printer corollaries in the form of Properties/C04_expr.v (tree form and header = direct children) *)

Corollary identifier_is_tree (name alias : list N) :
  forall d, nrm (explain_identifier d name alias) = render d (identifier_tree name alias).
Proof. intros; apply tree_of_emits; eapply identifier_emits; eassumption. Qed.

Corollary identifier_counts_agree (name alias : list N) :
  forall d, header_count (explain_identifier d name alias) = direct_children (explain_identifier d name alias).
Proof. intros; eapply tree_counts_agree; apply tree_of_emits; eapply identifier_emits; eassumption. Qed.

Corollary parameter_is_tree (name : list N) (ty : option (list N)) :
  forall d, nrm (explain_parameter d name ty) = render d (T_leaf (parameter_label name ty)).
Proof. intros; apply tree_of_emits; eapply parameter_emits; eassumption. Qed.

Corollary parameter_counts_agree (name : list N) (ty : option (list N)) :
  forall d, header_count (explain_parameter d name ty) = direct_children (explain_parameter d name ty).
Proof. intros; eapply tree_counts_agree; apply tree_of_emits; eapply parameter_emits; eassumption. Qed.

Corollary parameter_aliased_is_tree (alias name : list N) (ty : option (list N)) :
  forall d, nrm (explain_parameter_aliased alias d name ty) = render d (T_leaf (parameter_label name ty ++ sfx alias)).
Proof. intros; apply tree_of_emits; eapply parameter_aliased_emits; eassumption. Qed.

Corollary parameter_aliased_counts_agree (alias name : list N) (ty : option (list N)) :
  forall d, header_count (explain_parameter_aliased alias d name ty) = direct_children (explain_parameter_aliased alias d name ty).
Proof. intros; eapply tree_counts_agree; apply tree_of_emits; eapply parameter_aliased_emits; eassumption. Qed.

Corollary subquery_is_tree (q : option rose) (alias : list N) :
  forall d, nrm (explain_subquery d q alias) = render d (subquery_tree q alias).
Proof. intros; apply tree_of_emits; eapply subquery_emits; eassumption. Qed.

Corollary subquery_counts_agree (q : option rose) (alias : list N) :
  forall d, header_count (explain_subquery d q alias) = direct_children (explain_subquery d q alias).
Proof. intros; eapply tree_counts_agree; apply tree_of_emits; eapply subquery_emits; eassumption. Qed.

Corollary exists_is_tree (alias : list N) (q : option rose) :
  forall d, nrm (explain_exists_expr_with_alias alias d q) = render d (exists_tree alias q).
Proof. intros; apply tree_of_emits; eapply exists_emits; eassumption. Qed.

Corollary exists_counts_agree (alias : list N) (q : option rose) :
  forall d, header_count (explain_exists_expr_with_alias alias d q) = direct_children (explain_exists_expr_with_alias alias d q).
Proof. intros; eapply tree_counts_agree; apply tree_of_emits; eapply exists_emits; eassumption. Qed.

Corollary ternary_is_tree (node : nat -> expr -> list line) (c t e : expr) (tc tt te : rose) :
  T node c tc -> T node t tt -> T node e te -> forall d, nrm (explain_ternary_expr node d c t e) = render d (fn_tree (L_Function F_if) [tc; tt; te]).
Proof. intros; apply tree_of_emits; eapply ternary_emits; eassumption. Qed.

Corollary ternary_counts_agree (node : nat -> expr -> list line) (c t e : expr) (tc tt te : rose) :
  T node c tc -> T node t tt -> T node e te -> forall d, header_count (explain_ternary_expr node d c t e) = direct_children (explain_ternary_expr node d c t e).
Proof. intros; eapply tree_counts_agree; apply tree_of_emits; eapply ternary_emits; eassumption. Qed.

Corollary aliased_ternary_is_tree (node : nat -> expr -> list line) (c t e : expr) (tc tt te : rose) (alias : list N) :
  T node c tc -> T node t tt -> T node e te -> forall d, nrm (explain_aliased_ternary node alias d c t e) = render d (fn_tree (L_Function F_if ++ sfx alias) [tc; tt; te]).
Proof. intros; apply tree_of_emits; eapply aliased_ternary_emits; eassumption. Qed.

Corollary aliased_ternary_counts_agree (node : nat -> expr -> list line) (c t e : expr) (tc tt te : rose) (alias : list N) :
  T node c tc -> T node t tt -> T node e te -> forall d, header_count (explain_aliased_ternary node alias d c t e) = direct_children (explain_aliased_ternary node alias d c t e).
Proof. intros; eapply tree_counts_agree; apply tree_of_emits; eapply aliased_ternary_emits; eassumption. Qed.

Corollary with_ternary_is_tree (node : nat -> expr -> list line) (c t e : expr) (tc tt te : rose) (name : list N) :
  T node c tc -> T node t tt -> T node e te -> forall d, nrm (explain_with_ternary node name d c t e) = render d (fn_tree (alias_lab (L_Function F_if) name) [tc; tt; te]).
Proof. intros; apply tree_of_emits; eapply with_ternary_emits; eassumption. Qed.

Corollary with_ternary_counts_agree (node : nat -> expr -> list line) (c t e : expr) (tc tt te : rose) (name : list N) :
  T node c tc -> T node t tt -> T node e te -> forall d, header_count (explain_with_ternary node name d c t e) = direct_children (explain_with_ternary node name d c t e).
Proof. intros; eapply tree_counts_agree; apply tree_of_emits; eapply with_ternary_emits; eassumption. Qed.

Corollary array_access_is_tree (node : nat -> expr -> list line) (a b : expr) (ta tb : rose) :
  T node a ta -> T node b tb -> forall d, nrm (explain_array_access node d a b) = render d (fn_tree (L_Function F_arrayElement) [ta; tb]).
Proof. intros; apply tree_of_emits; eapply array_access_emits; eassumption. Qed.

Corollary array_access_counts_agree (node : nat -> expr -> list line) (a b : expr) (ta tb : rose) :
  T node a ta -> T node b tb -> forall d, header_count (explain_array_access node d a b) = direct_children (explain_array_access node d a b).
Proof. intros; eapply tree_counts_agree; apply tree_of_emits; eapply array_access_emits; eassumption. Qed.

Corollary array_access_with_alias_is_tree (node : nat -> expr -> list line) (a b : expr) (ta tb : rose) (alias : list N) :
  T node a ta -> T node b tb -> forall d, nrm (explain_array_access_with_alias node alias d a b) = render d (fn_tree (alias_lab (L_Function F_arrayElement) alias) [ta; tb]).
Proof. intros; apply tree_of_emits; eapply array_access_with_alias_emits; eassumption. Qed.

Corollary array_access_with_alias_counts_agree (node : nat -> expr -> list line) (a b : expr) (ta tb : rose) (alias : list N) :
  T node a ta -> T node b tb -> forall d, header_count (explain_array_access_with_alias node alias d a b) = direct_children (explain_array_access_with_alias node alias d a b).
Proof. intros; eapply tree_counts_agree; apply tree_of_emits; eapply array_access_with_alias_emits; eassumption. Qed.

Corollary tuple_access_is_tree (node : nat -> expr -> list line) (a b : expr) (ta tb : rose) :
  T node a ta -> T node b tb -> forall d, nrm (explain_tuple_access node d a b) = render d (fn_tree (L_Function F_tupleElement) [ta; tb]).
Proof. intros; apply tree_of_emits; eapply tuple_access_emits; eassumption. Qed.

Corollary tuple_access_counts_agree (node : nat -> expr -> list line) (a b : expr) (ta tb : rose) :
  T node a ta -> T node b tb -> forall d, header_count (explain_tuple_access node d a b) = direct_children (explain_tuple_access node d a b).
Proof. intros; eapply tree_counts_agree; apply tree_of_emits; eapply tuple_access_emits; eassumption. Qed.

Corollary tuple_access_with_alias_is_tree (node : nat -> expr -> list line) (a b : expr) (ta tb : rose) (alias : list N) :
  T node a ta -> T node b tb -> forall d, nrm (explain_tuple_access_with_alias node alias d a b) = render d (fn_tree (alias_lab (L_Function F_tupleElement) alias) [ta; tb]).
Proof. intros; apply tree_of_emits; eapply tuple_access_with_alias_emits; eassumption. Qed.

Corollary tuple_access_with_alias_counts_agree (node : nat -> expr -> list line) (a b : expr) (ta tb : rose) (alias : list N) :
  T node a ta -> T node b tb -> forall d, header_count (explain_tuple_access_with_alias node alias d a b) = direct_children (explain_tuple_access_with_alias node alias d a b).
Proof. intros; eapply tree_counts_agree; apply tree_of_emits; eapply tuple_access_with_alias_emits; eassumption. Qed.

Corollary like_is_tree (node : nat -> expr -> list line) (a b : expr) (ta tb : rose) (not ci : bool) (own : list N) :
  T node a ta -> T node b tb -> forall d, nrm (explain_like_expr node d a b not ci own) = render d (fn_tree (alias_lab (L_Function (like_fn not ci)) own) [ta; tb]).
Proof. intros; apply tree_of_emits; eapply like_emits; eassumption. Qed.

Corollary like_counts_agree (node : nat -> expr -> list line) (a b : expr) (ta tb : rose) (not ci : bool) (own : list N) :
  T node a ta -> T node b tb -> forall d, header_count (explain_like_expr node d a b not ci own) = direct_children (explain_like_expr node d a b not ci own).
Proof. intros; eapply tree_counts_agree; apply tree_of_emits; eapply like_emits; eassumption. Qed.

Corollary like_with_alias_is_tree (node : nat -> expr -> list line) (a b : expr) (ta tb : rose) (alias : list N) (not ci : bool) :
  T node a ta -> T node b tb -> forall d, nrm (explain_like_expr_with_alias node alias d a b not ci) = render d (fn_tree (alias_lab (L_Function (like_fn not ci)) alias) [ta; tb]).
Proof. intros; apply tree_of_emits; eapply like_with_alias_emits; eassumption. Qed.

Corollary like_with_alias_counts_agree (node : nat -> expr -> list line) (a b : expr) (ta tb : rose) (alias : list N) (not ci : bool) :
  T node a ta -> T node b tb -> forall d, header_count (explain_like_expr_with_alias node alias d a b not ci) = direct_children (explain_like_expr_with_alias node alias d a b not ci).
Proof. intros; eapply tree_counts_agree; apply tree_of_emits; eapply like_with_alias_emits; eassumption. Qed.

Corollary position_with_in_is_tree (node : nat -> expr -> list line) (needle haystack : expr) (tn th : rose) (alias : list N) :
  T node needle tn -> T node haystack th -> forall d, nrm (explain_position_with_in node alias d needle haystack) = render d (fn_tree (alias_lab (L_Function F_position) alias) [th; tn]).
Proof. intros; apply tree_of_emits; eapply position_with_in_emits; eassumption. Qed.

Corollary position_with_in_counts_agree (node : nat -> expr -> list line) (needle haystack : expr) (tn th : rose) (alias : list N) :
  T node needle tn -> T node haystack th -> forall d, header_count (explain_position_with_in node alias d needle haystack) = direct_children (explain_position_with_in node alias d needle haystack).
Proof. intros; eapply tree_counts_agree; apply tree_of_emits; eapply position_with_in_emits; eassumption. Qed.

Corollary date_add_sub_with_interval_is_tree (node : nat -> expr -> list line) (a b : expr) (ta tb : rose) (alias op_fn : list N) :
  T node a ta -> T node b tb -> forall d, nrm (explain_date_add_sub_with_interval node alias d op_fn a b) = render d (fn_tree (alias_lab (L_Function op_fn) alias) [ta; tb]).
Proof. intros; apply tree_of_emits; eapply date_add_sub_with_interval_emits; eassumption. Qed.

Corollary date_add_sub_with_interval_counts_agree (node : nat -> expr -> list line) (a b : expr) (ta tb : rose) (alias op_fn : list N) :
  T node a ta -> T node b tb -> forall d, header_count (explain_date_add_sub_with_interval node alias d op_fn a b) = direct_children (explain_date_add_sub_with_interval node alias d op_fn a b).
Proof. intros; eapply tree_counts_agree; apply tree_of_emits; eapply date_add_sub_with_interval_emits; eassumption. Qed.

Corollary date_add_sub_result_is_tree (node : nat -> expr -> list line) (norm_unit : list N -> list N) (date value : expr) (tdate tvalue : rose) (alias op_fn unit : list N) :
  T node date tdate -> T node value tvalue -> forall d, nrm (explain_date_add_sub_result node norm_unit alias d op_fn date value unit) = render d (fn_tree (alias_lab (L_Function op_fn) alias) [tdate; fn_tree (L_Function (F_toInterval (norm_unit unit))) [tvalue]]).
Proof. intros; apply tree_of_emits; eapply date_add_sub_result_emits; eassumption. Qed.

Corollary date_add_sub_result_counts_agree (node : nat -> expr -> list line) (norm_unit : list N -> list N) (date value : expr) (tdate tvalue : rose) (alias op_fn unit : list N) :
  T node date tdate -> T node value tvalue -> forall d, header_count (explain_date_add_sub_result node norm_unit alias d op_fn date value unit) = direct_children (explain_date_add_sub_result node norm_unit alias d op_fn date value unit).
Proof. intros; eapply tree_counts_agree; apply tree_of_emits; eapply date_add_sub_result_emits; eassumption. Qed.

Corollary date_diff_is_tree (node : nat -> expr -> list line) (alias unit_lbl : list N) (rest : list expr) (ts : list rose) :
  Ts node rest ts -> forall d, nrm (date_diff_lines node alias d unit_lbl (S (length rest)) rest) = render d (fn_tree (alias_lab (L_Function F_dateDiff) alias) (T_leaf (X_Literal unit_lbl) :: ts)).
Proof. intros; apply tree_of_emits; eapply date_diff_lines_emits; eassumption. Qed.

Corollary date_diff_counts_agree (node : nat -> expr -> list line) (alias unit_lbl : list N) (rest : list expr) (ts : list rose) :
  Ts node rest ts -> forall d, header_count (date_diff_lines node alias d unit_lbl (S (length rest)) rest) = direct_children (date_diff_lines node alias d unit_lbl (S (length rest)) rest).
Proof. intros; eapply tree_counts_agree; apply tree_of_emits; eapply date_diff_lines_emits; eassumption. Qed.

Corollary between_is_tree (node : nat -> expr -> list line) (e lo hi : expr) (te tlo thi : rose) (not : bool) :
  T node e te -> T node lo tlo -> T node hi thi -> forall d, nrm (explain_between_expr node d e lo hi not) = render d (between_tree te tlo thi [] not).
Proof. intros; apply tree_of_emits; eapply between_emits; eassumption. Qed.

Corollary between_counts_agree (node : nat -> expr -> list line) (e lo hi : expr) (te tlo thi : rose) (not : bool) :
  T node e te -> T node lo tlo -> T node hi thi -> forall d, header_count (explain_between_expr node d e lo hi not) = direct_children (explain_between_expr node d e lo hi not).
Proof. intros; eapply tree_counts_agree; apply tree_of_emits; eapply between_emits; eassumption. Qed.

Corollary between_with_alias_is_tree (node : nat -> expr -> list line) (e lo hi : expr) (te tlo thi : rose) (alias : list N) (not : bool) :
  T node e te -> T node lo tlo -> T node hi thi -> forall d, nrm (explain_between_expr_with_alias node alias d e lo hi not) = render d (between_tree te tlo thi alias not).
Proof. intros; apply tree_of_emits; eapply between_with_alias_emits; eassumption. Qed.

Corollary between_with_alias_counts_agree (node : nat -> expr -> list line) (e lo hi : expr) (te tlo thi : rose) (alias : list N) (not : bool) :
  T node e te -> T node lo tlo -> T node hi thi -> forall d, header_count (explain_between_expr_with_alias node alias d e lo hi not) = direct_children (explain_between_expr_with_alias node alias d e lo hi not).
Proof. intros; eapply tree_counts_agree; apply tree_of_emits; eapply between_with_alias_emits; eassumption. Qed.

Corollary is_null_is_tree (node : nat -> expr -> list line) (e : expr) (te : rose) (alias : list N) (not : bool) :
  T node e te -> forall d, nrm (explain_is_null_expr_with_alias node alias d e not) = render d (fn_tree (alias_lab (L_Function (if not then F_isNotNull else F_isNull)) alias) [te]).
Proof. intros; apply tree_of_emits; eapply is_null_emits; eassumption. Qed.

Corollary is_null_counts_agree (node : nat -> expr -> list line) (e : expr) (te : rose) (alias : list N) (not : bool) :
  T node e te -> forall d, header_count (explain_is_null_expr_with_alias node alias d e not) = direct_children (explain_is_null_expr_with_alias node alias d e not).
Proof. intros; eapply tree_counts_agree; apply tree_of_emits; eapply is_null_emits; eassumption. Qed.

Corollary extract_is_tree (node : nat -> expr -> list line) (e : expr) (te : rose) (alias fn : list N) :
  T node e te -> forall d, nrm (explain_extract_expr_with_alias node alias d fn e) = render d (fn_tree (alias_lab (L_Function fn) alias) [te]).
Proof. intros; apply tree_of_emits; eapply extract_emits; eassumption. Qed.

Corollary extract_counts_agree (node : nat -> expr -> list line) (e : expr) (te : rose) (alias fn : list N) :
  T node e te -> forall d, header_count (explain_extract_expr_with_alias node alias d fn e) = direct_children (explain_extract_expr_with_alias node alias d fn e).
Proof. intros; eapply tree_counts_agree; apply tree_of_emits; eapply extract_emits; eassumption. Qed.

Corollary lambda_is_tree (node : nat -> expr -> list line) (e : expr) (te : rose) (alias : list N) (params : list (list N)) :
  T node e te -> forall d, nrm (explain_lambda_with_alias node alias d params e) = render d (lambda_tree te alias params).
Proof. intros; apply tree_of_emits; eapply lambda_emits; eassumption. Qed.

Corollary lambda_counts_agree (node : nat -> expr -> list line) (e : expr) (te : rose) (alias : list N) (params : list (list N)) :
  T node e te -> forall d, header_count (explain_lambda_with_alias node alias d params e) = direct_children (explain_lambda_with_alias node alias d params e).
Proof. intros; eapply tree_counts_agree; apply tree_of_emits; eapply lambda_emits; eassumption. Qed.

Corollary case_is_tree (node : nat -> expr -> list line) (alias : list N) (operand : option expr) (whens : list (expr * expr)) (els : option expr) (tos : list rose) (tps : list (rose * rose)) (tes : list rose) :
  To node operand tos -> Tw node whens tps -> To node els tes -> forall d, nrm (explain_case_expr_with_alias node alias d operand whens els) = render d (case_tree alias operand tos tps els tes).
Proof. intros; apply tree_of_emits; eapply case_emits; eassumption. Qed.

Corollary case_counts_agree (node : nat -> expr -> list line) (alias : list N) (operand : option expr) (whens : list (expr * expr)) (els : option expr) (tos : list rose) (tps : list (rose * rose)) (tes : list rose) :
  To node operand tos -> Tw node whens tps -> To node els tes -> forall d, header_count (explain_case_expr_with_alias node alias d operand whens els) = direct_children (explain_case_expr_with_alias node alias d operand whens els).
Proof. intros; eapply tree_counts_agree; apply tree_of_emits; eapply case_emits; eassumption. Qed.

Corollary interval_is_tree (node : nat -> expr -> list line) (norm_unit : list N -> list N) (alias : list N) (value : expr) (unit : list N) (tv : rose) :
  T node value tv -> forall d, nrm (explain_interval_expr node norm_unit alias d value unit) = render d (interval_tree norm_unit alias value unit tv).
Proof. intros; apply tree_of_emits; eapply interval_emits; eassumption. Qed.

Corollary interval_counts_agree (node : nat -> expr -> list line) (norm_unit : list N -> list N) (alias : list N) (value : expr) (unit : list N) (tv : rose) :
  T node value tv -> forall d, header_count (explain_interval_expr node norm_unit alias d value unit) = direct_children (explain_interval_expr node norm_unit alias d value unit).
Proof. intros; eapply tree_counts_agree; apply tree_of_emits; eapply interval_emits; eassumption. Qed.

Corollary cast_is_tree (node : nat -> expr -> list line) (alias : list N) (e : expr) (te : rose) (type_expr : option expr) (tty : list rose) (type_lbl : list N) (opsyntax : bool) (lit_lbl : list N) :
  T node e te -> To node type_expr tty -> forall d, nrm (explain_cast_expr_with_alias node alias d e type_expr type_lbl opsyntax lit_lbl) = render d (cast_tree alias e te type_expr tty type_lbl opsyntax lit_lbl).
Proof. intros; apply tree_of_emits; eapply cast_emits; eassumption. Qed.

Corollary cast_counts_agree (node : nat -> expr -> list line) (alias : list N) (e : expr) (te : rose) (type_expr : option expr) (tty : list rose) (type_lbl : list N) (opsyntax : bool) (lit_lbl : list N) :
  T node e te -> To node type_expr tty -> forall d, header_count (explain_cast_expr_with_alias node alias d e type_expr type_lbl opsyntax lit_lbl) = direct_children (explain_cast_expr_with_alias node alias d e type_expr type_lbl opsyntax lit_lbl).
Proof. intros; eapply tree_counts_agree; apply tree_of_emits; eapply cast_emits; eassumption. Qed.

Corollary kql_is_tree (k : kql_parsed) :
  forall d, nrm (explain_kql d k) = render d (kql_tree k).
Proof. intros; apply tree_of_emits; eapply kql_emits; eassumption. Qed.

Corollary kql_counts_agree (k : kql_parsed) :
  forall d, header_count (explain_kql d k) = direct_children (explain_kql d k).
Proof. intros; eapply tree_counts_agree; apply tree_of_emits; eapply kql_emits; eassumption. Qed.

Corollary quantified_is_tree (node : nat -> expr -> list line) (alias comp agg : list N) (lhs sub : expr) (tl tsub : rose) :
  T node lhs tl -> T node sub tsub -> forall d, nrm (output_quantified_with_aggregate node alias d lhs sub comp agg) = render d (quantified_tree alias comp agg tl tsub).
Proof. intros; apply tree_of_emits; eapply quantified_emits; eassumption. Qed.

Corollary quantified_counts_agree (node : nat -> expr -> list line) (alias comp agg : list N) (lhs sub : expr) (tl tsub : rose) :
  T node lhs tl -> T node sub tsub -> forall d, header_count (output_quantified_with_aggregate node alias d lhs sub comp agg) = direct_children (output_quantified_with_aggregate node alias d lhs sub comp agg).
Proof. intros; eapply tree_counts_agree; apply tree_of_emits; eapply quantified_emits; eassumption. Qed.

Corollary window_spec_is_tree (node : nat -> expr -> list line) (name : list N) (partition : list expr) (order : list rose) (offset : option expr) (tpart toff : list rose) :
  Ts node partition tpart -> To node offset toff -> forall d, nrm (explain_window_spec node d name partition order offset) = render d (Node X_WindowDefinition (window_spec_children name tpart order toff)).
Proof. intros; apply tree_of_emits; eapply window_spec_emits; eassumption. Qed.

Corollary window_spec_counts_agree (node : nat -> expr -> list line) (name : list N) (partition : list expr) (order : list rose) (offset : option expr) (tpart toff : list rose) :
  Ts node partition tpart -> To node offset toff -> forall d, header_count (explain_window_spec node d name partition order offset) = direct_children (explain_window_spec node d name partition order offset).
Proof. intros; eapply tree_counts_agree; apply tree_of_emits; eapply window_spec_emits; eassumption. Qed.

Corollary literal_scalar_is_tree (ty : lit_type) (v : scalar) (lbl : list N) :
  forall d, nrm (explain_literal_scalar d ty v lbl) = render d (literal_scalar_tree ty v lbl).
Proof. intros; apply tree_of_emits; eapply literal_scalar_emits; eassumption. Qed.

Corollary literal_scalar_counts_agree (ty : lit_type) (v : scalar) (lbl : list N) :
  forall d, header_count (explain_literal_scalar d ty v lbl) = direct_children (explain_literal_scalar d ty v lbl).
Proof. intros; eapply tree_counts_agree; apply tree_of_emits; eapply literal_scalar_emits; eassumption. Qed.

Corollary literal_list_is_tree (node : nat -> expr -> list line) (ty : lit_type) (es : list expr) (ts : list rose) (lbl : list N) :
  Ts node es ts -> forall d, nrm (explain_literal_list node d ty es lbl) = render d (literal_list_tree (literal_list_format ty es) [] ts lbl).
Proof. intros; apply tree_of_emits; eapply literal_list_emits; eassumption. Qed.

Corollary literal_list_counts_agree (node : nat -> expr -> list line) (ty : lit_type) (es : list expr) (ts : list rose) (lbl : list N) :
  Ts node es ts -> forall d, header_count (explain_literal_list node d ty es lbl) = direct_children (explain_literal_list node d ty es lbl).
Proof. intros; eapply tree_counts_agree; apply tree_of_emits; eapply literal_list_emits; eassumption. Qed.

Corollary aliased_literal_list_is_tree (node : nat -> expr -> list line) (alias : list N) (ty : lit_type) (es : list expr) (ts : list rose) (lbl : list N) :
  Ts node es ts -> forall d, nrm (explain_aliased_literal_list node alias d ty es lbl) = render d (literal_list_tree (aliased_literal_list_format ty es) (sfx alias) ts lbl).
Proof. intros; apply tree_of_emits; eapply aliased_literal_list_emits; eassumption. Qed.

Corollary aliased_literal_list_counts_agree (node : nat -> expr -> list line) (alias : list N) (ty : lit_type) (es : list expr) (ts : list rose) (lbl : list N) :
  Ts node es ts -> forall d, header_count (explain_aliased_literal_list node alias d ty es lbl) = direct_children (explain_aliased_literal_list node alias d ty es lbl).
Proof. intros; eapply tree_counts_agree; apply tree_of_emits; eapply aliased_literal_list_emits; eassumption. Qed.

Corollary with_literal_list_is_tree (node : nat -> expr -> list line) (name : list N) (ty : lit_type) (es : list expr) (ts : list rose) (lbl : list N) :
  Ts node es ts -> forall d, nrm (explain_with_literal_list node name d ty es lbl) = render d (literal_list_tree (with_literal_list_format ty es) (opt_sfx name) ts lbl).
Proof. intros; apply tree_of_emits; eapply with_literal_list_emits; eassumption. Qed.

Corollary with_literal_list_counts_agree (node : nat -> expr -> list line) (name : list N) (ty : lit_type) (es : list expr) (ts : list rose) (lbl : list N) :
  Ts node es ts -> forall d, header_count (explain_with_literal_list node name d ty es lbl) = direct_children (explain_with_literal_list node name d ty es lbl).
Proof. intros; eapply tree_counts_agree; apply tree_of_emits; eapply with_literal_list_emits; eassumption. Qed.

Corollary binary_is_tree (node : nat -> expr -> list line) (op : binop) (l r : expr) (ts : list rose) :
  Ts node (binary_operands op l r) ts -> forall d, nrm (explain_binary_expr node d op l r) = render d (fn_tree (L_Function (binop_fn op)) ts).
Proof. intros; apply tree_of_emits; eapply binary_emits; eassumption. Qed.

Corollary binary_counts_agree (node : nat -> expr -> list line) (op : binop) (l r : expr) (ts : list rose) :
  Ts node (binary_operands op l r) ts -> forall d, header_count (explain_binary_expr node d op l r) = direct_children (explain_binary_expr node d op l r).
Proof. intros; eapply tree_counts_agree; apply tree_of_emits; eapply binary_emits; eassumption. Qed.

Corollary aliased_binary_is_tree (node : nat -> expr -> list line) (alias : list N) (op : binop) (l r : expr) (ts : list rose) :
  Ts node (binary_operands op l r) ts -> forall d, nrm (explain_aliased_binary node alias d op l r) = render d (fn_tree (L_Function (binop_fn op) ++ sfx alias) ts).
Proof. intros; apply tree_of_emits; eapply aliased_binary_emits; eassumption. Qed.

Corollary aliased_binary_counts_agree (node : nat -> expr -> list line) (alias : list N) (op : binop) (l r : expr) (ts : list rose) :
  Ts node (binary_operands op l r) ts -> forall d, header_count (explain_aliased_binary node alias d op l r) = direct_children (explain_aliased_binary node alias d op l r).
Proof. intros; eapply tree_counts_agree; apply tree_of_emits; eapply aliased_binary_emits; eassumption. Qed.

Corollary with_binary_is_tree (node : nat -> expr -> list line) (name : list N) (op : binop) (l r : expr) (ts : list rose) :
  Ts node (binary_operands op l r) ts -> forall d, nrm (explain_with_binary node name d op l r) = render d (fn_tree (alias_lab (L_Function (binop_fn op)) name) ts).
Proof. intros; apply tree_of_emits; eapply with_binary_emits; eassumption. Qed.

Corollary with_binary_counts_agree (node : nat -> expr -> list line) (name : list N) (op : binop) (l r : expr) (ts : list rose) :
  Ts node (binary_operands op l r) ts -> forall d, header_count (explain_with_binary node name d op l r) = direct_children (explain_with_binary node name d op l r).
Proof. intros; eapply tree_counts_agree; apply tree_of_emits; eapply with_binary_emits; eassumption. Qed.

Corollary unary_is_tree (node : nat -> expr -> list line) (minus : bool) (fn : list N) (o : expr) (to : rose) (neg_lbl : list N) :
  T node o to -> forall d, nrm (explain_unary_expr node d minus fn o neg_lbl) = render d (unary_tree (minus && unary_folds_plain o) [] fn to neg_lbl).
Proof. intros; apply tree_of_emits; eapply unary_emits; eassumption. Qed.

Corollary unary_counts_agree (node : nat -> expr -> list line) (minus : bool) (fn : list N) (o : expr) (to : rose) (neg_lbl : list N) :
  T node o to -> forall d, header_count (explain_unary_expr node d minus fn o neg_lbl) = direct_children (explain_unary_expr node d minus fn o neg_lbl).
Proof. intros; eapply tree_counts_agree; apply tree_of_emits; eapply unary_emits; eassumption. Qed.

Corollary aliased_unary_is_tree (node : nat -> expr -> list line) (alias : list N) (minus : bool) (fn : list N) (o : expr) (to : rose) (neg_lbl : list N) :
  T node o to -> forall d, nrm (explain_aliased_unary node alias d minus fn o neg_lbl) = render d (unary_tree (minus && unary_folds_alias o) (sfx alias) fn to neg_lbl).
Proof. intros; apply tree_of_emits; eapply aliased_unary_emits; eassumption. Qed.

Corollary aliased_unary_counts_agree (node : nat -> expr -> list line) (alias : list N) (minus : bool) (fn : list N) (o : expr) (to : rose) (neg_lbl : list N) :
  T node o to -> forall d, header_count (explain_aliased_unary node alias d minus fn o neg_lbl) = direct_children (explain_aliased_unary node alias d minus fn o neg_lbl).
Proof. intros; eapply tree_counts_agree; apply tree_of_emits; eapply aliased_unary_emits; eassumption. Qed.

(* ---- the printers whose tree depends on classifications: existential form ---- *)
Lemma one_tree f : one f -> exists t, forall d, nrm (f d) = render d t.
Proof. intros (t & Ht). exists t. intros d. apply tree_of_emits, Ht. Qed.

Lemma one_counts f : one f -> forall d, header_count (f d) = direct_children (f d).
Proof. intros (t & Ht) d. eapply tree_counts_agree. apply tree_of_emits, Ht. Qed.

Corollary in_one node e not global items query trailing lbl :
  P node e -> Forall (Pdeep node) items ->
  one (fun d => explain_in_expr node d e not global items query trailing lbl).
Proof. intros (te & He) H. destruct (in_emits node e te not global items query trailing lbl He H) as (ts & _ & Hts). eexists. exact Hts. Qed.

Corollary in_with_alias_one node alias e not global items query trailing lbl :
  P node e -> Forall (Pdeep node) items ->
  one (fun d => explain_in_expr_with_alias node alias d e not global items query trailing lbl).
Proof.
  intros (te & He) H. destruct (in_with_alias_emits node alias e te not global items query trailing lbl He H) as (ts & _ & Hts).
  eexists. exact Hts.
Qed.

Corollary in_is_tree node e not global items query trailing lbl :
  P node e -> Forall (Pdeep node) items ->
  exists t, forall d, nrm (explain_in_expr node d e not global items query trailing lbl) = render d t.
Proof. intros He H. apply one_tree, in_one; assumption. Qed.

Corollary in_counts_agree node e not global items query trailing lbl :
  P node e -> Forall (Pdeep node) items ->
  forall d, header_count (explain_in_expr node d e not global items query trailing lbl)
            = direct_children (explain_in_expr node d e not global items query trailing lbl).
Proof. intros He H. apply (one_counts (fun d => explain_in_expr node d e not global items query trailing lbl)), in_one; assumption. Qed.

Corollary in_with_alias_is_tree node alias e not global items query trailing lbl :
  P node e -> Forall (Pdeep node) items ->
  exists t, forall d, nrm (explain_in_expr_with_alias node alias d e not global items query trailing lbl) = render d t.
Proof. intros He H. apply one_tree, in_with_alias_one; assumption. Qed.

Corollary in_with_alias_counts_agree node alias e not global items query trailing lbl :
  P node e -> Forall (Pdeep node) items ->
  forall d, header_count (explain_in_expr_with_alias node alias d e not global items query trailing lbl)
            = direct_children (explain_in_expr_with_alias node alias d e not global items query trailing lbl).
Proof.
  intros He H.
  apply (one_counts (fun d => explain_in_expr_with_alias node alias d e not global items query trailing lbl)), in_with_alias_one; assumption.
Qed.

Corollary function_call_is_tree node norm_unit alias cls fn params args settings distinct filter over sqlstd :
  Forall (Pfn node) args -> Po node filter -> match params with Some ps => Forall (P node) ps | None => True end ->
  exists t, forall d,
    nrm (explain_function_call_with_alias node norm_unit alias d cls fn params args settings distinct filter over sqlstd)
    = render d t.
Proof. intros Ha Hf Hp. apply one_tree, function_call_one; assumption. Qed.

Corollary function_call_counts_agree node norm_unit alias cls fn params args settings distinct filter over sqlstd :
  Forall (Pfn node) args -> Po node filter -> match params with Some ps => Forall (P node) ps | None => True end ->
  forall d,
    header_count (explain_function_call_with_alias node norm_unit alias d cls fn params args settings distinct filter over sqlstd)
    = direct_children (explain_function_call_with_alias node norm_unit alias d cls fn params args settings distinct filter over sqlstd).
Proof.
  intros Ha Hf Hp.
  apply (one_counts (fun d => explain_function_call_with_alias node norm_unit alias d cls fn params args settings distinct filter over sqlstd)),
        function_call_one; assumption.
Qed.

(* the two tallies of the generic function printer against what it emits *)
Corollary function_generic_count_eq_emitted node alias cls fn params args settings distinct filter over :
  Forall (P node) args -> Po node filter -> match params with Some ps => Forall (P node) ps | None => True end ->
  exists targs tparams,
    length targs = count_function_args args filter settings /\
    length (T_EL targs :: tparams) = count_function_children params over /\
    forall d, nrm (explain_function_generic node alias d cls fn params args settings distinct filter over)
              = render d (Node (alias_lab (L_Function (function_label fn distinct filter)) alias) (T_EL targs :: tparams)).
Proof.
  intros Ha Hf Hp.
  destruct (function_generic_emits node alias cls fn params args settings distinct filter over Ha Hf Hp) as (ta & tp & E1 & E2 & H).
  exists ta, tp. split; [exact E1|]. split; [exact E2|]. intros d. apply tree_of_emits, H.
Qed.

Corollary asterisk_is_tree node table except replace apply transformers :
  transformers_known transformers = true -> Forall (Ptr node) transformers -> Forall (Po node) replace ->
  exists t, forall d, nrm (explain_asterisk node d table except replace apply transformers) = render d t.
Proof. intros. apply one_tree, asterisk_one; assumption. Qed.

Corollary asterisk_counts_agree node table except replace apply transformers :
  transformers_known transformers = true -> Forall (Ptr node) transformers -> Forall (Po node) replace ->
  forall d, header_count (explain_asterisk node d table except replace apply transformers)
            = direct_children (explain_asterisk node d table except replace apply transformers).
Proof. intros. apply (one_counts (fun d => explain_asterisk node d table except replace apply transformers)), asterisk_one; assumption. Qed.

Corollary columns_matcher_is_tree node qualifier columns except replace apply transformers :
  transformers_known transformers = true -> Forall (Ptr node) transformers -> Forall (Po node) replace ->
  Forall (P node) columns ->
  exists t, forall d, nrm (explain_columns_matcher node d qualifier columns except replace apply transformers) = render d t.
Proof. intros. apply one_tree, columns_matcher_one; assumption. Qed.

Corollary columns_matcher_counts_agree node qualifier columns except replace apply transformers :
  transformers_known transformers = true -> Forall (Ptr node) transformers -> Forall (Po node) replace ->
  Forall (P node) columns ->
  forall d, header_count (explain_columns_matcher node d qualifier columns except replace apply transformers)
            = direct_children (explain_columns_matcher node d qualifier columns except replace apply transformers).
Proof.
  intros. apply (one_counts (fun d => explain_columns_matcher node d qualifier columns except replace apply transformers)),
                columns_matcher_one; assumption.
Qed.

(* the aliased and the WithElement printers on a whole expression, and the expression itself *)
Corollary aliased_expr_is_tree norm_unit e alias lbl :
  inv_expr e -> exists t, forall d, nrm (explain_aliased_expr (enode norm_unit) norm_unit d e alias lbl) = render d t.
Proof. intros H. destruct (enode_QQ norm_unit e H) as (_ & Hal & _). apply one_tree, Hal. Qed.

Corollary with_element_is_tree norm_unit e name sc lbl :
  inv_expr e -> exists t, forall d, nrm (explain_with_element (enode norm_unit) norm_unit d name e sc lbl) = render d t.
Proof. intros H. destruct (enode_QQ norm_unit e H) as (_ & _ & Hwi & _). apply one_tree, Hwi. Qed.
