(* C04 (part E) -- count-vs-emit model of the EXPRESSION printers of /repo/internal/explain:
   expressions.go, functions.go and the expression cases of the type switch of explain.go [Node]
   (plus explainParameter of statements.go).

   DEFINITIONS ONLY.  Hand-written transcription of /repo revision 49bf3628f.  As in the Select /
   Ddl / Stmt models the "(children N)" number of a header line is computed by the code that computes
   it in Go (a constant, a tally, [len(..)] of a list built by a helper) and the children are emitted
   by separate code: same order of emission, same conditions, same depths, nothing shared.  The
   aliased twins ([...WithAlias], the cases of explainAliasedExpr and of explainWithElement) are
   transcribed separately from the plain printers wherever Go has separate code for them.

   Shape of the model.  The printers are definitions inside a Section over a variable
       node : nat -> expr -> list line           ("Node(sb, x, depth)" for an expression x)
   so every printer is stated for ABSTRACT children; the theorems of ExprExplainProof.v about one
   printer assume only that [node] prints exactly one rooted tree at the requested depth for the
   children the printer hands to it.  [enode] at the end ties the knot (the type switch of Node).

   What is kept of a node: everything a printer branches on -- dynamic type, presence of optional
   fields (nil interfaces / nil slices where Go tests [!= nil], lengths where Go tests [len]),
   flags, literal type / Parenthesized / IsBigInt / dynamic type of Value, the classes of function
   names that handleSpecialFunction and explainFunctionCallWithAlias compare with, and for string
   values what the three parsers applied to them return (empty?, ParseFloat ok?, parseKQL,
   parseMultiIntervalString).  What is opaque: every label text (identifier names, aliases, the text
   of a Literal line = format.go, normalised function / operator names, interval units), statements
   (a Subquery's query is an [option rose] printed by [node_nilable]), data types, ORDER BY elements.

   Transcribed (functions.go / expressions.go line numbers of that revision):
     explainIdentifier 57; explainLiteral 96 with isSimpleLiteralOrNegation, isSimpleLiteralOrNestedLiteral,
     containsNonLiteralExpressions, containsNonLiteralInNested, containsTuples, containsEmptyArrays,
     containsEmptyArraysRecursive, containsTuplesRecursive, containsNonLiteralExpressionsRecursive 249-445;
     explainBinaryExpr 447, collectConcatOperands 481, collectLogicalOperands 505; explainUnaryExpr 526;
     explainSubquery 590; explainAliasedExpr 600 (every case, BetweenExpr and LikeExpr since 49bf3628f); explainAsterisk 873, explainColumnsTransformers 896,
     explainSingleTransformer 947, explainColumnsMatcher 976, explainColumnsMatcherTransformers 1033;
     explainWithElement 1084 (every case);
     explainFunctionCall(WithAlias) 113-218, handleSpecialFunction 229, handleQuantifiedComparison 287,
     outputQuantifiedWithAggregate 378, explainPositionWithIn 420, handleDateAddSub 434, explainDateAddSubResult 485,
     explainDateAddSubWithInterval 504, handleDateDiff 517, explainLambda(WithAlias) 563, explainCastExpr(WithAlias) 590
     with shouldUseArrayFormat, containsNullElements, containsBooleanElements, containsCastExpressions,
     containsOnlyLiterals, isNumericExpr, containsOnlyPrimitiveLiterals(WithUnary), extractNegatedLiteral 680-1008;
     explainInExpr 1010, explainTupleInInList 1214, explainInExprWithAlias 1233; explainTernaryExpr 1394;
     explainArrayAccess(WithAlias) 1403; explainTupleAccess(WithAlias) 1423; explainLikeExpr(WithAlias) 1443;
     explainBetweenExpr(WithAlias) 1481; explainIsNullExpr(WithAlias) 1557; explainCaseExpr(WithAlias) 1576;
     explainIntervalExpr 1626; explainExistsExpr(WithAlias) 1734; explainExtractExpr(WithAlias) 1750;
     explainWindowSpec 1794; handleKQLFunction 1840, explainKQLFilter 2004; statements.go explainParameter 1373. *)
From Coq Require Import String.
From Coq Require Import List NArith Bool.
From DC Require Import Tree.LineTree Select.SelectExplainModel Ddl.DdlExplainModel.
Import ListNotations.
Local Open Scope string_scope.
Local Open Scope list_scope.
Local Open Scope nat_scope.

(* ---------------------------------------------------------------------------------------- *)
(** * Labels *)

Definition X_Subquery := bytes_of "Subquery".
Definition X_WithElement := bytes_of "WithElement".
Definition X_Asterisk := bytes_of "Asterisk".
Definition X_QualifiedAsterisk := bytes_of "QualifiedAsterisk".
Definition X_ColumnsTransformerList := bytes_of "ColumnsTransformerList".
Definition X_ColumnsApplyTransformer := bytes_of "ColumnsApplyTransformer".
Definition X_ColumnsExceptTransformer := bytes_of "ColumnsExceptTransformer".
Definition X_ColumnsReplaceTransformer := bytes_of "ColumnsReplaceTransformer".
Definition X_Replacement := bytes_of "ColumnsReplaceTransformer::Replacement".
Definition X_ColumnsListMatcher := bytes_of "ColumnsListMatcher".
Definition X_QualifiedColumnsListMatcher := bytes_of "QualifiedColumnsListMatcher".
Definition X_ColumnsRegexpMatcher := bytes_of "ColumnsRegexpMatcher".
Definition X_QualifiedColumnsRegexpMatcher := bytes_of "QualifiedColumnsRegexpMatcher".
Definition X_SelectWithUnionQuery := bytes_of "SelectWithUnionQuery".
Definition X_SelectQuery := bytes_of "SelectQuery".
Definition X_TablesInSelectQuery := bytes_of "TablesInSelectQuery".
Definition X_TablesInSelectQueryElement := bytes_of "TablesInSelectQueryElement".
Definition X_TableExpression := bytes_of "TableExpression".
Definition X_TableIdentifier (x : list N) : list N := bytes_of "TableIdentifier " ++ x.
Definition X_WindowDefinition := bytes_of "WindowDefinition".
Definition X_Set := bytes_of "Set".
Definition X_QueryParameter := bytes_of "QueryParameter".
Definition X_QueryParameter_n (x : list N) : list N := bytes_of "QueryParameter " ++ x.
(* the text after "Literal " is format.go's business: an opaque label *)
Definition X_Literal (x : list N) : list N := bytes_of "Literal " ++ x.
Definition X_Literal_NULL := bytes_of "Literal NULL".

Definition F_tuple := bytes_of "tuple".
Definition F_array := bytes_of "array".
Definition F_if := bytes_of "if".
Definition F_lambda := bytes_of "lambda".
Definition F_CAST := bytes_of "CAST".
Definition F_in := bytes_of "in".
Definition F_notIn := bytes_of "notIn".
Definition F_globalIn := bytes_of "globalIn".
Definition F_globalNotIn := bytes_of "globalNotIn".
Definition F_arrayElement := bytes_of "arrayElement".
Definition F_tupleElement := bytes_of "tupleElement".
Definition F_like := bytes_of "like".
Definition F_ilike := bytes_of "ilike".
Definition F_notLike := bytes_of "notLike".
Definition F_notIlike := bytes_of "notIlike".
Definition F_or := bytes_of "or".
Definition F_and := bytes_of "and".
Definition F_concat := bytes_of "concat".
Definition F_less := bytes_of "less".
Definition F_greater := bytes_of "greater".
Definition F_lessOrEquals := bytes_of "lessOrEquals".
Definition F_greaterOrEquals := bytes_of "greaterOrEquals".
Definition F_isNull := bytes_of "isNull".
Definition F_isNotNull := bytes_of "isNotNull".
Definition F_caseWithExpression := bytes_of "caseWithExpression".
Definition F_multiIf := bytes_of "multiIf".
Definition F_exists := bytes_of "exists".
Definition F_position := bytes_of "position".
Definition F_plus := bytes_of "plus".
Definition F_minus := bytes_of "minus".
Definition F_dateDiff := bytes_of "dateDiff".
Definition F_view := bytes_of "view".
Definition F_singleValueOrNull := bytes_of "singleValueOrNull".
Definition F_max := bytes_of "max".
Definition F_min := bytes_of "min".
Definition F_toInterval (unit : list N) : list N := bytes_of "toInterval" ++ unit.

(* " (alias %s)" *)
Definition sfx (a : list N) : list N := bytes_of " (alias " ++ a ++ bytes_of ")".

(* if alias != "" { "%s<lab> (alias %s) (children %d)", .., n1 } else { "%s<lab> (children %d)", .., n2 } *)
Definition hdr_alias (d : nat) (lab alias : list N) (n1 n2 : nat) : line :=
  if nonempty alias then hdr d (lab ++ sfx alias) n1 else hdr d lab n2.

(* ---------------------------------------------------------------------------------------- *)
(** * The abstract AST *)

Inductive lit_type := LString | LInteger | LFloat | LBoolean | LNull | LArray | LTuple.

Definition is_tuple (t : lit_type) : bool := match t with LTuple => true | _ => false end.
Definition is_array (t : lit_type) : bool := match t with LArray => true | _ => false end.
Definition is_array_or_tuple (t : lit_type) : bool := is_array t || is_tuple t.
Definition is_numeric (t : lit_type) : bool := match t with LInteger | LFloat => true | _ => false end.
Definition is_stringt (t : lit_type) : bool := match t with LString => true | _ => false end.
Definition is_boolt (t : lit_type) : bool := match t with LBoolean => true | _ => false end.
Definition is_nullt (t : lit_type) : bool := match t with LNull => true | _ => false end.

(* kqlFilter: the three texts and the function name explainKQLFilter derives from the operator *)
Record kql_filter := mkKqlF { kf_fn : list N; kf_left : list N; kf_right_quoted : bool; kf_right : list N }.
(* *kqlParsed *)
Record kql_parsed := mkKql { kq_table : list N; kq_columns : list (list N); kq_filter : option kql_filter }.
(* one intervalPart: the normalised unit and the text of the Literal line printed for the value *)
Record ipart := mkIPart { ip_unit : list N; ip_literal : list N }.

(* what the printers read of a Go string held in Literal.Value *)
Record str_info := mkStr {
  s_empty : bool;                          (* Value == "" *)
  s_float : bool;                          (* strconv.ParseFloat(Value, 64) succeeds *)
  s_kql : option kql_parsed;               (* parseKQL(Value) *)
  s_iparts : list ipart                    (* parseMultiIntervalString(Value) *)
}.

(* the dynamic type of Literal.Value when it is not []ast.Expression *)
Inductive scalar :=
| VNil                                     (* nil *)
| VInt                                     (* int64 or uint64 *)
| VFloat                                   (* float64 *)
| VBool
| VStr (s : str_info)
| VOtherVal.                               (* any other Go value *)

(* strings.ToUpper(n.Name) / strings.ToLower(n.Name) as the function printers compare them *)
Inductive qop := QEquals | QNotEquals | QLess | QLessOrEquals | QGreater | QGreaterOrEquals | QOtherOp.
Inductive name_class :=
| NKql                                     (* KQL *)
| NQuant (all : bool) (op : qop)           (* lower-case name has the prefix "any" / "all"; the rest *)
| NPosition
| NDateAdd                                 (* DATE_ADD DATEADD TIMESTAMP_ADD TIMESTAMPADD *)
| NDateSub                                 (* DATE_SUB DATESUB TIMESTAMP_SUB TIMESTAMPSUB *)
| NDateDiff                                (* DATE_DIFF DATEDIFF *)
| NTrim                                    (* TRIM LTRIM RTRIM TRIMLEFT TRIMRIGHT TRIMBOTH *)
| NView                                    (* lower-case name is "view" *)
| NToInterval                              (* lower-case name has the prefix "tointerval" *)
| NPlain.

Inductive binop :=
| OpConcat                                 (* "||" *)
| OpAnd                                    (* "AND" *)
| OpOr                                     (* "OR" *)
| OpOther (fn : list N).                   (* anything else; OperatorToFunction(op) *)

Definition binop_eqb (a b : binop) : bool :=
  match a, b with
  | OpConcat, OpConcat | OpAnd, OpAnd | OpOr, OpOr => true
  | OpOther x, OpOther y => bytes_eqb x y
  | _, _ => false
  end.

Definition binop_fn (o : binop) : list N :=
  match o with OpConcat => F_concat | OpAnd => F_and | OpOr => F_or | OpOther f => f end.

(* *ast.ColumnTransformer and *ast.ReplaceExpr are below, after [expr] (they hold expressions) *)

Inductive expr :=
| ENil                                     (* a nil interface handed to Node *)
| EOpaque (t : rose)                       (* a node of a dynamic type no expression printer tests for, printed as [t] *)
| EIdent (name alias : list N)             (* formatIdentifierName / Name() (one opaque text), Alias *)
| ELit (ty : lit_type) (paren bigint : bool) (v : scalar) (lbl : list N)
                                           (* *ast.Literal whose Value is not []ast.Expression; lbl = FormatLiteral *)
| ELitList (ty : lit_type) (paren : bool) (es : list expr) (lbl : list N)
                                           (* *ast.Literal whose Value is []ast.Expression *)
| EUnary (minus : bool) (fn : list N) (operand : expr)
                                           (* Op == "-"; UnaryOperatorToFunction(Op) *)
| EBin (op : binop) (paren : bool) (l r : expr)
| EFunc (cls : name_class) (fn : list N)   (* class of Name; NormalizeFunctionName(Name) *)
        (params : option (list expr))      (* Parameters != nil *)
        (args : list expr)
        (settings : bool)                  (* len(Settings) > 0 *)
        (distinct : bool)
        (filter : option expr)
        (over : option (list N * list expr * list rose * option expr))
                                           (* Over != nil: Name, PartitionBy, OrderBy (printed by explainOrderByElement),
                                              Frame.StartBound.Offset when all three are non-nil *)
        (alias : list N) (sqlstd : bool)
| ELambda (params : list (list N)) (body : expr)
| ECast (e : expr) (type_expr : option expr) (type_lbl : list N) (alias : list N) (opsyntax : bool)
        (lit_lbl : list N)                 (* the text of the Literal line printed for Expr, when one is *)
| EIn (e : expr) (not global : bool) (items : list expr) (query : option rose) (trailing : bool)
| ETernary (c t e : expr)
| EArrayAccess (a i : expr)
| ETupleAccess (t i : expr)
| ELike (e p : expr) (not ci : bool) (alias : list N)
| EBetween (e lo hi : expr) (not : bool)
| EIsNull (e : expr) (not : bool)
| ECase (operand : option expr) (whens : list (expr * expr)) (els : option expr) (alias : list N)
| EInterval (value : expr) (unit : list N)
| EExists (q : option rose)
| ESubquery (q : option rose) (alias : list N)
| EExtract (fn : list N) (from : expr) (alias : list N)     (* extractFieldToFunction(Field) *)
| EParam (name : list N) (ty : option (list N))             (* Name, FormatDataType(Type) *)
| EAsterisk (table : list N) (except : list (list N)) (replace : list (option expr)) (apply : nat)
            (transformers : list (nat * bool * list (list N) * list (option expr)))
| EColumns (qualifier : list N) (columns : list expr) (except : list (list N)) (replace : list (option expr))
           (apply : nat) (transformers : list (nat * bool * list (list N) * list (option expr)))
| EAliased (e : expr) (alias : list N)
| EWith (name : list N) (q : expr) (scalar_with : bool).

(* a *ast.ColumnTransformer: (Type, Pattern != "", Except, Replaces[i].Expr) with Type 0 "apply", 1 "except",
   2 "replace", anything else another string *)
Definition transformer : Type := (nat * bool * list (list N) * list (option expr))%type.

(* ---------------------------------------------------------------------------------------- *)
(** * Dynamic-type tests *)

(* e.( *ast.Literal): Type and Parenthesized *)
Definition as_lit (e : expr) : option (lit_type * bool) :=
  match e with
  | ELit ty p _ _ _ => Some (ty, p)
  | ELitList ty p _ _ => Some (ty, p)
  | _ => None
  end.
Definition is_lit (e : expr) : bool := is_some (as_lit e).
Definition lit_ty_is (f : lit_type -> bool) (e : expr) : bool :=
  match as_lit e with Some (ty, _) => f ty | None => false end.
Definition lit_paren (e : expr) : bool :=
  match as_lit e with Some (_, p) => p | None => false end.
(* lit.Value.([]ast.Expression) *)
Definition lit_elems (e : expr) : option (list expr) :=
  match e with ELitList _ _ es _ => Some es | _ => None end.

(* unary, ok := e.( *ast.UnaryExpr); ok && unary.Op == "-" && the operand is a literal of Type Integer or Float *)
Definition neg_numeric (e : expr) : bool :=
  match e with
  | EUnary true _ o => lit_ty_is is_numeric o
  | _ => false
  end.

Definition is_asterisk (e : expr) : bool := match e with EAsterisk _ _ _ _ _ => true | _ => false end.
Definition is_interval (e : expr) : bool := match e with EInterval _ _ => true | _ => false end.
Definition is_tointerval_call (e : expr) : bool :=
  match e with EFunc NToInterval _ _ _ _ _ _ _ _ _ => true | _ => false end.
Definition is_cast (e : expr) : bool := match e with ECast _ _ _ _ _ _ => true | _ => false end.

(* ---------------------------------------------------------------------------------------- *)
(** * The helper predicates of expressions.go / functions.go *)

(* isSimpleLiteralOrNegation *)
Definition is_simple_literal_or_negation (e : expr) : bool :=
  match as_lit e with
  | Some (ty, _) => negb (is_tuple ty) && negb (is_array ty)
  | None => neg_numeric e
  end.

(* isSimpleLiteralOrNestedLiteral *)
Fixpoint is_simple_literal_or_nested_literal (e : expr) : bool :=
  match e with
  | ELit _ _ _ _ _ => true
  | ELitList ty _ es _ =>
      if is_array_or_tuple ty then forallb is_simple_literal_or_nested_literal es else true
  | _ => neg_numeric e
  end.

(* containsNonLiteralExpressions *)
Definition contains_non_literal_expressions (es : list expr) : bool :=
  existsb (fun e => match as_lit e with
                    | Some (_, p) => p
                    | None => negb (neg_numeric e)
                    end) es.

(* containsNonLiteralInNested(lit) *)
Fixpoint contains_non_literal_in_nested (e : expr) : bool :=
  match e with
  | ELitList ty _ es _ =>
      if is_array_or_tuple ty
      then existsb (fun x => negb (is_lit x) || contains_non_literal_in_nested x) es
      else false
  | _ => false
  end.

(* containsTuples *)
Definition contains_tuples (es : list expr) : bool := existsb (lit_ty_is is_tuple) es.

(* containsEmptyArrays *)
Definition contains_empty_arrays (es : list expr) : bool :=
  existsb (fun e => lit_ty_is is_array e &&
                    match lit_elems e with Some [] => true | _ => false end) es.

(* one element of containsEmptyArraysRecursive's loop *)
Fixpoint empty_array_rec (e : expr) : bool :=
  match e with
  | ELitList ty _ es _ =>
      is_array ty && (match es with [] => true | _ => false end || existsb empty_array_rec es)
  | _ => false
  end.
Definition contains_empty_arrays_recursive (es : list expr) : bool := existsb empty_array_rec es.

(* one element of containsTuplesRecursive's loop *)
Fixpoint tuple_rec (e : expr) : bool :=
  match e with
  | ELit ty _ _ _ _ => is_tuple ty
  | ELitList ty _ es _ => is_tuple ty || (is_array ty && existsb tuple_rec es)
  | _ => false
  end.
Definition contains_tuples_recursive (es : list expr) : bool := existsb tuple_rec es.

(* one element of containsNonLiteralExpressionsRecursive's loop *)
Fixpoint non_literal_rec (e : expr) : bool :=
  match e with
  | ELit _ p _ _ _ => p
  | ELitList ty p es _ => p || (is_array ty && existsb non_literal_rec es)
  | _ => negb (neg_numeric e)
  end.
Definition contains_non_literal_expressions_recursive (es : list expr) : bool := existsb non_literal_rec es.

(* containsOnlyPrimitiveLiterals(lit) *)
Fixpoint contains_only_primitive_literals (e : expr) : bool :=
  match e with
  | ELit ty _ _ _ _ => negb (is_tuple ty)
  | ELitList ty _ es _ =>
      if is_tuple ty
      then forallb (fun x => is_lit x &&
                             (if lit_ty_is is_tuple x then contains_only_primitive_literals x else true)) es
      else true
  | _ => true
  end.

(* containsOnlyPrimitiveLiteralsWithUnary(lit) *)
Fixpoint contains_only_primitive_literals_with_unary (e : expr) : bool :=
  match e with
  | ELit ty _ _ _ _ => negb (is_tuple ty)
  | ELitList ty _ es _ =>
      if is_tuple ty
      then forallb (fun x => if is_lit x
                             then (if lit_ty_is is_tuple x then contains_only_primitive_literals_with_unary x else true)
                                  && negb (lit_ty_is is_array x)
                             else neg_numeric x) es
      else true
  | _ => true
  end.

(* containsOnlyLiterals(lit) *)
Fixpoint contains_only_literals (e : expr) : bool :=
  match e with
  | ELit ty _ _ _ _ => negb (is_array_or_tuple ty)
  | ELitList ty _ es _ =>
      if is_array_or_tuple ty
      then forallb (fun x => if is_lit x
                             then (if lit_ty_is is_array_or_tuple x then contains_only_literals x else true)
                             else neg_numeric x) es
      else true
  | _ => true
  end.

(* containsCastExpressions(lit) *)
Fixpoint contains_cast_expressions (e : expr) : bool :=
  match e with
  | ELitList ty _ es _ =>
      is_array_or_tuple ty &&
      existsb (fun x => is_cast x || (lit_ty_is is_array_or_tuple x && contains_cast_expressions x)) es
  | _ => false
  end.

(* containsBooleanElements / containsNullElements (lit), for [f] = is_boolt / is_nullt *)
Fixpoint contains_elements_of (f : lit_type -> bool) (e : expr) : bool :=
  match e with
  | ELitList ty _ es _ =>
      is_array_or_tuple ty &&
      existsb (fun x => lit_ty_is f x || (lit_ty_is is_array_or_tuple x && contains_elements_of f x)) es
  | _ => false
  end.

(* shouldUseArrayFormat(lit, targetType): the string test at its end returns false either way *)
Definition should_use_array_format (e : expr) : bool :=
  if negb (contains_only_literals e) then false
  else if contains_elements_of is_boolt e then true
  else if contains_elements_of is_nullt e then true
  else false.

(* isNumericExpr *)
Definition is_numeric_expr (e : expr) : bool :=
  match as_lit e with Some (ty, _) => is_numeric ty | None => neg_numeric e end.

(* collectConcatOperands(n) for n = BinaryExpr{Left: l, Op: "||", Right: r} *)
Fixpoint concat_operands_of (e : expr) : list expr :=
  match e with
  | EBin OpConcat _ l r => concat_operands_of l ++ concat_operands_of r
  | _ => [e]
  end.
Definition collect_concat_operands (l r : expr) : list expr := concat_operands_of l ++ concat_operands_of r.

(* collectLogicalOperands(n) for n = BinaryExpr{Left: l, Op: op, Right: r}: a side is flattened when it is a
   BinaryExpr with the same Op that is not Parenthesized *)
Fixpoint logical_operands_of (op : binop) (e : expr) : list expr :=
  match e with
  | EBin op' false l r =>
      if binop_eqb op' op then logical_operands_of op l ++ logical_operands_of op r else [e]
  | _ => [e]
  end.
Definition collect_logical_operands (op : binop) (l r : expr) : list expr :=
  logical_operands_of op l ++ logical_operands_of op r.

(* ---------------------------------------------------------------------------------------- *)
(** * The IN-list classification (the loop of explainInExpr / explainInExprWithAlias) *)

Record in_state := mkInSt {
  all_numeric_or_null : bool; all_strings_or_null : bool; all_booleans_or_null : bool;
  all_tuples : bool; all_tuples_are_primitive : bool; all_primitive_literals : bool;
  all_null : bool; has_non_null : bool;
  stopped : bool                           (* the loop has executed [break] *)
}.

Definition in_state0 : in_state := mkInSt true true true true true true true false false.

(* one iteration of the plain printer's loop *)
Definition in_step_plain (s : in_state) (item : expr) : in_state :=
  if stopped s then s else
  match as_lit item with
  | Some (ty, _) =>
      if is_nullt ty then s else
      let prim := if is_tuple ty then contains_only_primitive_literals_with_unary item else true in
      mkInSt (all_numeric_or_null s && is_numeric ty)
             (all_strings_or_null s && is_stringt ty)
             (all_booleans_or_null s && is_boolt ty)
             (all_tuples s && is_tuple ty)
             (all_tuples_are_primitive s && prim)
             (all_primitive_literals s && prim && negb (is_array ty))
             false true false
  | None =>
      if is_numeric_expr item
      then mkInSt (all_numeric_or_null s) false false false (all_tuples_are_primitive s)
                  (all_primitive_literals s) false true false
      else mkInSt false false false false (all_tuples_are_primitive s) false false (has_non_null s) true
  end.

(* one iteration of the aliased printer's loop *)
Definition in_step_alias (s : in_state) (item : expr) : in_state :=
  if stopped s then s else
  match as_lit item with
  | Some (ty, _) =>
      if is_nullt ty then s else
      let prim := if is_tuple ty then contains_only_primitive_literals item else true in
      mkInSt (all_numeric_or_null s && is_numeric ty)
             (all_strings_or_null s && is_stringt ty)
             (all_booleans_or_null s && is_boolt ty)
             (all_tuples s && is_tuple ty)
             (all_tuples_are_primitive s && prim)
             (all_primitive_literals s && prim && negb (is_array ty && negb (contains_only_literals item)))
             false true false
  | None =>
      if is_numeric_expr item
      then mkInSt (all_numeric_or_null s) false false false (all_tuples_are_primitive s)
                  (all_primitive_literals s) false true false
      else mkInSt false false false false (all_tuples_are_primitive s) false false (has_non_null s) true
  end.

Definition two_or_more {A : Type} (l : list A) : bool :=
  match l with _ :: _ :: _ => true | _ => false end.                 (* len(l) > 1 *)

Definition can_be_tuple_literal_plain (query : option rose) (items : list expr) : bool :=
  if negb (is_some query) && two_or_more items then
    let s := fold_left in_step_plain items in_state0 in
    all_null s || (has_non_null s && (all_numeric_or_null s || all_strings_or_null s || all_booleans_or_null s
                                      || (all_tuples s && all_tuples_are_primitive s) || all_primitive_literals s))
  else false.

(* maxStringTupleSizeWithAlias = 10 *)
Definition can_be_tuple_literal_alias (query : option rose) (items : list expr) : bool :=
  if negb (is_some query) && two_or_more items then
    let s := fold_left in_step_alias items in_state0 in
    all_null s || (has_non_null s && (all_numeric_or_null s
                                      || (all_strings_or_null s && Nat.leb (length items) 10)
                                      || all_booleans_or_null s
                                      || (all_tuples s && all_tuples_are_primitive s) || all_primitive_literals s))
  else false.

(* the argument tally of explainInExpr *)
Definition count_in_args_plain (query : option rose) (items : list expr) (trailing : bool) : nat :=
  1 + (if is_some query then 1
       else if can_be_tuple_literal_plain query items then 1
       else match items with
            | [x] => if lit_ty_is is_tuple x then 1 else if trailing then 1 else length items
            | _ => 1
            end).

(* the argument tally of explainInExprWithAlias *)
Definition count_in_args_alias (query : option rose) (items : list expr) (trailing : bool) : nat :=
  1 + (if is_some query then 1
       else if can_be_tuple_literal_alias query items then 1
       else match items with
            | [x] => if lit_ty_is is_tuple x then 1 else if trailing then 1 else length items
            | _ => if forallb (lit_ty_is is_stringt) items && pos (length items) then length items else 1
            end).

Definition in_fn (not global : bool) : list N :=
  match not, global with
  | false, false => F_in | true, false => F_notIn | false, true => F_globalIn | true, true => F_globalNotIn
  end.

Definition like_fn (not ci : bool) : list N :=
  match ci, not with
  | false, false => F_like | true, false => F_ilike | false, true => F_notLike | true, true => F_notIlike
  end.

(* ---------------------------------------------------------------------------------------- *)
(** * The printers, over abstract children *)

Section Printers.

(* Node(sb, x, depth) for an expression *)
Variable node : nat -> expr -> list line.
(* normalizeIntervalUnit: an opaque text function *)
Variable norm_unit : list N -> list N.

Definition node_opt (d : nat) (o : option expr) : list line :=
  match o with Some e => node d e | None => [] end.

(* "%s ExpressionList (children %d)", len(es); for .. { Node(sb, e, d+1) } *)
Definition el_nodes (d : nat) (es : list expr) : list line :=
  hdr d L_ExpressionList (length es) :: flat_map (node (S d)) es.

(* if len(es) > 0 { "ExpressionList (children n)" } else { "ExpressionList" }; for .. { Node } *)
Definition el_nodes_pos (d : nat) (es : list expr) : list line :=
  (if pos (length es) then hdr d L_ExpressionList (length es) else leaf d L_ExpressionList)
  :: flat_map (node (S d)) es.

(* ---- explainIdentifier ---- *)
Definition explain_identifier (d : nat) (name alias : list N) : list line :=
  if nonempty alias then [leaf d (L_Identifier name ++ sfx alias)] else [leaf d (L_Identifier name)].

(* ---- explainParameter and the Parameter case of explainAliasedExpr ---- *)
Definition explain_parameter (d : nat) (name : list N) (ty : option (list N)) : list line :=
  if nonempty name then
    match ty with
    | Some t => [leaf d (X_QueryParameter_n (name ++ bytes_of ":" ++ t))]
    | None => [leaf d (X_QueryParameter_n name)]
    end
  else [leaf d X_QueryParameter].

Definition explain_parameter_aliased (alias : list N) (d : nat) (name : list N) (ty : option (list N)) : list line :=
  if nonempty name then
    match ty with
    | Some t => [leaf d (X_QueryParameter_n (name ++ bytes_of ":" ++ t) ++ sfx alias)]
    | None => [leaf d (X_QueryParameter_n name ++ sfx alias)]
    end
  else [leaf d (X_QueryParameter ++ sfx alias)].

(* ---- explainLiteral ---- *)

(* "Function tuple (children 1)" / " ExpressionList" *)
Definition empty_fn (d : nat) (fn : list N) : list line :=
  [hdr d (L_Function fn) 1; leaf (S d) L_ExpressionList].

(* the tuple loop: the element makes the tuple a Function tuple *)
Definition tuple_elem_complex (e : expr) : bool :=
  match as_lit e with
  | Some (ty, p) =>
      p || (if is_tuple ty then negb (contains_only_primitive_literals_with_unary e) else is_array ty)
  | None => negb (neg_numeric e)
  end.

(* the array loop and the four tests after it *)
Definition array_needs_function (es : list expr) : bool :=
  let should := existsb (fun e => match as_lit e with
                                  | Some (ty, p) => p || is_tuple ty
                                  | None => negb (is_simple_literal_or_negation e)
                                  end) es in
  let has_nested := existsb (lit_ty_is is_array) es in
  let nested_need := existsb (fun e => lit_ty_is is_array e &&
                                       match lit_elems e with
                                       | Some inner => contains_non_literal_expressions inner
                                                       || negb (pos (length inner))
                                                       || contains_tuples inner
                                                       || contains_empty_arrays inner
                                       | None => false
                                       end) es in
  should || (has_nested && nested_need)
         || (has_nested && contains_empty_arrays_recursive es)
         || (has_nested && contains_tuples_recursive es)
         || (has_nested && contains_non_literal_expressions_recursive es).

(* the decision of explainLiteral for a literal whose Value is []ast.Expression: Some fn = "Function fn" *)
Definition literal_list_format (ty : lit_type) (es : list expr) : option (list N) :=
  match ty with
  | LTuple =>
      match es with
      | [] => Some F_tuple
      | _ => if Nat.eqb (length es) 1 || existsb tuple_elem_complex es then Some F_tuple else None
      end
  | LArray =>
      match es with
      | [] => Some F_array
      | _ => if array_needs_function es then Some F_array else None
      end
  | _ => None
  end.

(* Value is not []ast.Expression *)
Definition explain_literal_scalar (d : nat) (ty : lit_type) (v : scalar) (lbl : list N) : list line :=
  match ty, v with
  | LTuple, VNil => empty_fn d F_tuple
  | LArray, VNil => empty_fn d F_array
  | _, _ => [leaf d (X_Literal lbl)]
  end.

Definition explain_literal_list (d : nat) (ty : lit_type) (es : list expr) (lbl : list N) : list line :=
  match literal_list_format ty es with
  | Some fn =>
      match es with
      | [] => empty_fn d fn
      | _ => hdr d (L_Function fn) 1 :: el_nodes (S d) es
      end
  | None => [leaf d (X_Literal lbl)]
  end.

(* ---- the Literal case of explainAliasedExpr ---- *)

Definition aliased_tuple_needs_function (es : list expr) : bool :=
  negb (pos (length es))
  || existsb (fun e => negb (is_lit e) || lit_ty_is is_array e || contains_non_literal_in_nested e) es.

(* an element at which the array loop sets needsFunctionFormat and breaks *)
Definition aliased_array_elem_breaks (e : expr) : bool :=
  match as_lit e with
  | Some (ty, _) =>
      is_tuple ty
      || (is_array ty && match lit_elems e with
                         | Some inner => negb (pos (length inner)) || contains_empty_arrays inner
                         | None => false
                         end)
  | None => negb (neg_numeric e)
  end.

Definition aliased_array_needs_function (es : list expr) : bool :=
  let has_nested := existsb (lit_ty_is is_array) es in
  negb (pos (length es))
  || existsb aliased_array_elem_breaks es
  || (has_nested && contains_empty_arrays_recursive es)
  || (has_nested && contains_tuples_recursive es)
  || (has_nested && contains_non_literal_expressions_recursive es).

Definition aliased_literal_list_format (ty : lit_type) (es : list expr) : option (list N) :=
  match ty with
  | LTuple => if aliased_tuple_needs_function es then Some F_tuple else None
  | LArray => if aliased_array_needs_function es then Some F_array else None
  | _ => None
  end.

Definition explain_aliased_literal_scalar (alias : list N) (d : nat) (lbl : list N) : list line :=
  [leaf d (X_Literal lbl ++ sfx alias)].

Definition explain_aliased_literal_list (alias : list N) (d : nat) (ty : lit_type) (es : list expr) (lbl : list N)
  : list line :=
  match aliased_literal_list_format ty es with
  | Some fn => hdr d (L_Function fn ++ sfx alias) 1 :: el_nodes_pos (S d) es
  | None => [leaf d (X_Literal lbl ++ sfx alias)]
  end.

(* ---- the Literal case of explainWithElement ---- *)

Definition with_literal_list_format (ty : lit_type) (es : list expr) : option (list N) :=
  match ty with
  | LTuple =>
      if negb (pos (length es)) || existsb (fun e => negb (is_simple_literal_or_nested_literal e)) es
      then Some F_tuple else None
  | LArray =>
      if existsb (fun e => negb (is_simple_literal_or_negation e)) es then Some F_array else None
  | _ => None
  end.

Definition with_literal_leaf (name : list N) (d : nat) (lbl : list N) : list line :=
  if nonempty name then [leaf d (X_Literal lbl ++ sfx name)] else [leaf d (X_Literal lbl)].

Definition explain_with_literal_list (name : list N) (d : nat) (ty : lit_type) (es : list expr) (lbl : list N)
  : list line :=
  match with_literal_list_format ty es with
  | Some fn => hdr_alias d (L_Function fn) name 1 1 :: el_nodes_pos (S d) es
  | None => with_literal_leaf name d lbl
  end.

(* ---- explainBinaryExpr and its two copies ---- *)

(* for _, op := range collectLogicalOperands(n) { Node(sb, op, d) }: the members of the flattened list in order *)
Definition logical_operand_lines (op : binop) (d : nat) : expr -> list line :=
  fix go (x : expr) : list line :=
    match x with
    | EBin op' false l r => if binop_eqb op' op then go l ++ go r else node d x
    | _ => node d x
    end.

Definition concat_operand_lines (d : nat) : expr -> list line :=
  fix go (x : expr) : list line :=
    match x with
    | EBin OpConcat _ l r => go l ++ go r
    | _ => node d x
    end.

Definition explain_binary_expr (d : nat) (op : binop) (l r : expr) : list line :=
  match op with
  | OpConcat =>
      hdr d (L_Function (binop_fn op)) 1
      :: hdr (S d) L_ExpressionList (length (collect_concat_operands l r))
      :: concat_operand_lines (S (S d)) l ++ concat_operand_lines (S (S d)) r
  | OpAnd | OpOr =>
      hdr d (L_Function (binop_fn op)) 1
      :: hdr (S d) L_ExpressionList (length (collect_logical_operands op l r))
      :: logical_operand_lines op (S (S d)) l ++ logical_operand_lines op (S (S d)) r
  | OpOther _ =>
      hdr d (L_Function (binop_fn op)) 1
      :: hdr (S d) L_ExpressionList 2
      :: node (S (S d)) l ++ node (S (S d)) r
  end.

(* case *ast.BinaryExpr of explainAliasedExpr *)
Definition explain_aliased_binary (alias : list N) (d : nat) (op : binop) (l r : expr) : list line :=
  match op with
  | OpConcat =>
      hdr d (L_Function (binop_fn op) ++ sfx alias) 1
      :: hdr (S d) L_ExpressionList (length (collect_concat_operands l r))
      :: concat_operand_lines (S (S d)) l ++ concat_operand_lines (S (S d)) r
  | OpAnd | OpOr =>
      hdr d (L_Function (binop_fn op) ++ sfx alias) 1
      :: hdr (S d) L_ExpressionList (length (collect_logical_operands op l r))
      :: logical_operand_lines op (S (S d)) l ++ logical_operand_lines op (S (S d)) r
  | OpOther _ =>
      hdr d (L_Function (binop_fn op) ++ sfx alias) 1
      :: hdr (S d) L_ExpressionList 2
      :: node (S (S d)) l ++ node (S (S d)) r
  end.

(* case *ast.BinaryExpr of explainWithElement *)
Definition explain_with_binary (name : list N) (d : nat) (op : binop) (l r : expr) : list line :=
  match op with
  | OpConcat =>
      hdr_alias d (L_Function (binop_fn op)) name 1 1
      :: hdr (S d) L_ExpressionList (length (collect_concat_operands l r))
      :: concat_operand_lines (S (S d)) l ++ concat_operand_lines (S (S d)) r
  | OpAnd | OpOr =>
      hdr_alias d (L_Function (binop_fn op)) name 1 1
      :: hdr (S d) L_ExpressionList (length (collect_logical_operands op l r))
      :: logical_operand_lines op (S (S d)) l ++ logical_operand_lines op (S (S d)) r
  | OpOther _ =>
      hdr_alias d (L_Function (binop_fn op)) name 1 1
      :: hdr (S d) L_ExpressionList 2
      :: node (S (S d)) l ++ node (S (S d)) r
  end.

(* ---- explainUnaryExpr and its copy ---- *)

(* the operand of a "-" is folded into one Literal line (plain printer) *)
Definition unary_folds_plain (o : expr) : bool :=
  match o with
  | ELit ty false bigint v _ =>
      match ty with
      | LInteger => match v with VInt => true | _ => false end
      | LFloat => true                      (* lit.Value.(float64): another dynamic type panics *)
      | LString => bigint && match v with VStr s => s_float s | _ => false end
      | _ => false
      end
  | ELitList LFloat false _ _ => true       (* would panic *)
  | _ => false
  end.

(* ... (the copy in explainAliasedExpr: no big-integer case) *)
Definition unary_folds_alias (o : expr) : bool :=
  match o with
  | ELit ty false _ v _ =>
      match ty with
      | LInteger => match v with VInt => true | _ => false end
      | LFloat => true
      | _ => false
      end
  | ELitList LFloat false _ _ => true
  | _ => false
  end.

Definition explain_unary_expr (d : nat) (minus : bool) (fn : list N) (o : expr) (neg_lbl : list N) : list line :=
  if minus && unary_folds_plain o then [leaf d (X_Literal neg_lbl)]
  else hdr d (L_Function fn) 1 :: hdr (S d) L_ExpressionList 1 :: node (S (S d)) o.

Definition explain_aliased_unary (alias : list N) (d : nat) (minus : bool) (fn : list N) (o : expr) (neg_lbl : list N)
  : list line :=
  if minus && unary_folds_alias o then [leaf d (X_Literal neg_lbl ++ sfx alias)]
  else hdr d (L_Function fn ++ sfx alias) 1 :: hdr (S d) L_ExpressionList 1 :: node (S (S d)) o.

(* case *ast.UnaryExpr of explainWithElement *)
Definition explain_with_unary (name : list N) (d : nat) (minus : bool) (fn : list N) (o : expr) (neg_lbl : list N)
  : list line :=
  if nonempty name then explain_aliased_unary name d minus fn o neg_lbl
  else explain_unary_expr d minus fn o neg_lbl.

(* ---- explainSubquery ---- *)
Definition explain_subquery (d : nat) (q : option rose) (alias : list N) : list line :=
  hdr_alias d X_Subquery alias 1 1 :: node_nilable (S d) q.

(* ---- explainTernaryExpr and its two copies ---- *)
Definition explain_ternary_expr (d : nat) (c t e : expr) : list line :=
  hdr d (L_Function F_if) 1 :: hdr (S d) L_ExpressionList 3
  :: node (S (S d)) c ++ node (S (S d)) t ++ node (S (S d)) e.

Definition explain_aliased_ternary (alias : list N) (d : nat) (c t e : expr) : list line :=
  hdr d (L_Function F_if ++ sfx alias) 1 :: hdr (S d) L_ExpressionList 3
  :: node (S (S d)) c ++ node (S (S d)) t ++ node (S (S d)) e.

Definition explain_with_ternary (name : list N) (d : nat) (c t e : expr) : list line :=
  hdr_alias d (L_Function F_if) name 1 1 :: hdr (S d) L_ExpressionList 3
  :: node (S (S d)) c ++ node (S (S d)) t ++ node (S (S d)) e.

(* ---- explainArrayAccess / explainTupleAccess and their WithAlias twins ---- *)
Definition explain_array_access (d : nat) (a i : expr) : list line :=
  hdr d (L_Function F_arrayElement) 1 :: hdr (S d) L_ExpressionList 2
  :: node (S (S d)) a ++ node (S (S d)) i.
Definition explain_array_access_with_alias (alias : list N) (d : nat) (a i : expr) : list line :=
  hdr_alias d (L_Function F_arrayElement) alias 1 1 :: hdr (S d) L_ExpressionList 2
  :: node (S (S d)) a ++ node (S (S d)) i.
Definition explain_tuple_access (d : nat) (t i : expr) : list line :=
  hdr d (L_Function F_tupleElement) 1 :: hdr (S d) L_ExpressionList 2
  :: node (S (S d)) t ++ node (S (S d)) i.
Definition explain_tuple_access_with_alias (alias : list N) (d : nat) (t i : expr) : list line :=
  hdr_alias d (L_Function F_tupleElement) alias 1 1 :: hdr (S d) L_ExpressionList 2
  :: node (S (S d)) t ++ node (S (S d)) i.

(* ---- explainLikeExpr (reads n.Alias) / explainLikeExprWithAlias ---- *)
Definition explain_like_expr (d : nat) (e p : expr) (not ci : bool) (own_alias : list N) : list line :=
  hdr_alias d (L_Function (like_fn not ci)) own_alias 1 1 :: hdr (S d) L_ExpressionList 2
  :: node (S (S d)) e ++ node (S (S d)) p.
Definition explain_like_expr_with_alias (alias : list N) (d : nat) (e p : expr) (not ci : bool) : list line :=
  hdr_alias d (L_Function (like_fn not ci)) alias 1 1 :: hdr (S d) L_ExpressionList 2
  :: node (S (S d)) e ++ node (S (S d)) p.

(* ---- explainBetweenExpr / explainBetweenExprWithAlias ---- *)
Definition between_body (d : nat) (not : bool) (e lo hi : expr) : list line :=
  if not then
    hdr (S d) L_ExpressionList 2
    :: (hdr (S (S d)) (L_Function F_less) 1 :: hdr (3 + d) L_ExpressionList 2
        :: node (4 + d) e ++ node (4 + d) lo)
    ++ (hdr (S (S d)) (L_Function F_greater) 1 :: hdr (3 + d) L_ExpressionList 2
        :: node (4 + d) e ++ node (4 + d) hi)
  else
    hdr (S d) L_ExpressionList 2
    :: (hdr (S (S d)) (L_Function F_greaterOrEquals) 1 :: hdr (3 + d) L_ExpressionList 2
        :: node (4 + d) e ++ node (4 + d) lo)
    ++ (hdr (S (S d)) (L_Function F_lessOrEquals) 1 :: hdr (3 + d) L_ExpressionList 2
        :: node (4 + d) e ++ node (4 + d) hi).

Definition explain_between_expr (d : nat) (e lo hi : expr) (not : bool) : list line :=
  (if not then hdr d (L_Function F_or) 1 else hdr d (L_Function F_and) 1) :: between_body d not e lo hi.
Definition explain_between_expr_with_alias (alias : list N) (d : nat) (e lo hi : expr) (not : bool) : list line :=
  (if not then hdr_alias d (L_Function F_or) alias 1 1 else hdr_alias d (L_Function F_and) alias 1 1)
  :: between_body d not e lo hi.

(* ---- explainIsNullExprWithAlias (explainIsNullExpr passes "") ---- *)
Definition explain_is_null_expr_with_alias (alias : list N) (d : nat) (e : expr) (not : bool) : list line :=
  hdr_alias d (L_Function (if not then F_isNotNull else F_isNull)) alias 1 1
  :: hdr (S d) L_ExpressionList 1 :: node (S (S d)) e.

(* ---- explainCaseExprWithAlias (explainCaseExpr passes n.Alias) ---- *)
Definition case_else (d : nat) (els : option expr) : list line :=
  match els with Some e => node d e | None => [leaf d X_Literal_NULL] end.
Definition case_whens (d : nat) (whens : list (expr * expr)) : list line :=
  flat_map (fun w => match w with (c, r) => node d c ++ node d r end) whens.

Definition explain_case_expr_with_alias (alias : list N) (d : nat) (operand : option expr)
           (whens : list (expr * expr)) (els : option expr) : list line :=
  match operand with
  | Some o =>
      hdr_alias d (L_Function F_caseWithExpression) alias 1 1
      :: hdr (S d) L_ExpressionList (1 + length whens * 2 + 1)
      :: node (S (S d)) o ++ case_whens (S (S d)) whens ++ case_else (S (S d)) els
  | None =>
      hdr_alias d (L_Function F_multiIf) alias 1 1
      :: hdr (S d) L_ExpressionList (length whens * 2 + 1)
      :: case_whens (S (S d)) whens ++ case_else (S (S d)) els
  end.

(* ---- explainIntervalExpr ---- *)
Definition interval_string_parts (value : expr) : option (list ipart) :=
  match value with
  | ELit LString _ _ (VStr s) _ => Some (s_iparts s)
  | _ => None
  end.

Definition interval_simple (alias : list N) (d : nat) (unit : list N) (value_lines : list line) : list line :=
  hdr_alias d (L_Function (F_toInterval (norm_unit unit))) alias 1 1
  :: hdr (S d) L_ExpressionList 1 :: value_lines.

Definition explain_interval_expr (alias : list N) (d : nat) (value : expr) (unit : list N) : list line :=
  match (if nonempty unit then None else interval_string_parts value) with
  | Some (p1 :: p2 :: rest) =>
      let parts := p1 :: p2 :: rest in
      hdr_alias d (L_Function F_tuple) alias 1 1
      :: hdr (S d) L_ExpressionList (length parts)
      :: flat_map (fun p => [hdr (S (S d)) (L_Function (F_toInterval (ip_unit p))) 1;
                             hdr (3 + d) L_ExpressionList 1;
                             leaf (4 + d) (X_Literal (ip_literal p))]) parts
  | Some [p] =>
      (* unit = parts[0].unit; value = &ast.Literal{Type: LiteralInteger, Value: parts[0].value}: one Literal line *)
      hdr_alias d (L_Function (F_toInterval (ip_unit p))) alias 1 1
      :: hdr (S d) L_ExpressionList 1 :: [leaf (S (S d)) (X_Literal (ip_literal p))]
  | _ => interval_simple alias d unit (node (S (S d)) value)
  end.

(* ---- explainExistsExprWithAlias ---- *)
Definition explain_exists_expr_with_alias (alias : list N) (d : nat) (q : option rose) : list line :=
  hdr_alias d (L_Function F_exists) alias 1 1
  :: hdr (S d) L_ExpressionList 1 :: hdr (S (S d)) X_Subquery 1 :: node_nilable (3 + d) q.

(* ---- explainExtractExprWithAlias ---- *)
Definition explain_extract_expr_with_alias (alias : list N) (d : nat) (fn : list N) (from : expr) : list line :=
  hdr_alias d (L_Function fn) alias 1 1 :: hdr (S d) L_ExpressionList 1 :: node (S (S d)) from.

(* ---- explainLambdaWithAlias ---- *)
Definition explain_lambda_with_alias (alias : list N) (d : nat) (params : list (list N)) (body : expr) : list line :=
  hdr_alias d (L_Function F_lambda) alias 1 1
  :: hdr (S d) L_ExpressionList 2
  :: hdr (S (S d)) (L_Function F_tuple) 1
  :: (if pos (length params)
      then hdr (3 + d) L_ExpressionList (length params) :: map (fun p => leaf (4 + d) (L_Identifier p)) params
      else [leaf (3 + d) L_ExpressionList])
  ++ node (S (S d)) body.

(* ---- explainCastExprWithAlias ---- *)
Definition cast_operand_lines (d : nat) (e : expr) (opsyntax : bool) (lit_lbl : list N) : list line :=
  if opsyntax then
    match as_lit e with
    | Some (ty, _) =>
        if is_array_or_tuple ty then
          if should_use_array_format e then [leaf d (X_Literal lit_lbl)]
          else if contains_cast_expressions e || negb (contains_only_literals e) then node d e
          else [leaf d (X_Literal lit_lbl)]
        else [leaf d (X_Literal lit_lbl)]       (* NULL, Bool_x, or the quoted text *)
    | None =>
        if neg_numeric e then [leaf d (X_Literal lit_lbl)] else node d e
    end
  else node d e.

Definition explain_cast_expr_with_alias (alias : list N) (d : nat) (e : expr) (type_expr : option expr)
           (type_lbl : list N) (opsyntax : bool) (lit_lbl : list N) : list line :=
  hdr_alias d (L_Function F_CAST) alias 1 1
  :: hdr (S d) L_ExpressionList 2
  :: cast_operand_lines (S (S d)) e opsyntax lit_lbl
  ++ match type_expr with
     | Some te => node (S (S d)) te
     | None => [leaf (S (S d)) (X_Literal type_lbl)]
     end.

(* ---- explainInExpr / explainTupleInInList / explainInExprWithAlias ---- *)

(* explainTupleInInList(sb, lit, indent, depth) with the line at depth [d] *)
Definition explain_tuple_in_in_list (d : nat) (item : expr) : list line :=
  if contains_only_primitive_literals_with_unary item then [leaf d (X_Literal (bytes_of "_"))]
  else match item with                      (* exprs, ok := lit.Value.([]ast.Expression) *)
       | ELitList _ _ es _ => hdr d (L_Function F_tuple) 1 :: el_nodes (S d) es
       | _ => [leaf d (X_Literal (bytes_of "_"))]
       end.

Definition all_tuple_literals (items : list expr) : bool := forallb (lit_ty_is is_tuple) items.

(* the wrapped forms shared by the two printers' last branch *)
Definition in_list_wrapped (d : nat) (items : list expr) : list line :=
  if all_tuple_literals items then
    hdr d (L_Function F_tuple) 1
    :: hdr (S d) L_ExpressionList (length items)
    :: flat_map (explain_tuple_in_in_list (S (S d))) items
  else
    hdr d (L_Function F_tuple) 1 :: el_nodes (S d) items.

Definition all_parenthesized_primitives (es : list expr) : bool :=
  forallb (fun e => match as_lit e with
                    | Some (ty, p) => p && negb (is_array_or_tuple ty)
                    | None => false
                    end) es.

(* what follows Node(sb, n.Expr, depth+2) in explainInExpr; [d] = depth+2 *)
Definition explain_in_rhs (d : nat) (items : list expr) (query : option rose) (trailing : bool) (tuple_lbl : list N)
  : list line :=
  match query with
  | Some q => hdr d X_Subquery 1 :: render (S d) q
  | None =>
      if can_be_tuple_literal_plain query items then [leaf d (X_Literal tuple_lbl)]
      else match items with
           | [x] =>
               if lit_ty_is is_tuple x then
                 match x with                      (* elems, ok := lit.Value.([]ast.Expression) *)
                 | ELitList _ _ elems _ =>
                     hdr d (L_Function F_tuple) 1
                     :: (if all_parenthesized_primitives elems
                         then el_nodes_pos (S d) elems
                         else hdr (S d) L_ExpressionList 1 :: node (S (S d)) x)
                 | _ =>
                     hdr d (L_Function F_tuple) 1 :: hdr (S d) L_ExpressionList 1 :: node (S (S d)) x
                 end
               else if trailing then
                 hdr d (L_Function F_tuple) 1 :: hdr (S d) L_ExpressionList 1 :: node (S (S d)) x
               else node d x
           | _ => in_list_wrapped d items
           end
  end.

Definition explain_in_expr (d : nat) (e : expr) (not global : bool) (items : list expr) (query : option rose)
           (trailing : bool) (tuple_lbl : list N) : list line :=
  hdr d (L_Function (in_fn not global)) 1
  :: hdr (S d) L_ExpressionList (count_in_args_plain query items trailing)
  :: node (S (S d)) e
  ++ explain_in_rhs (S (S d)) items query trailing tuple_lbl.

(* ... in explainInExprWithAlias *)
Definition explain_in_rhs_alias (d : nat) (items : list expr) (query : option rose) (trailing : bool)
           (tuple_lbl : list N) : list line :=
  match query with
  | Some q => hdr d X_Subquery 1 :: render (S d) q
  | None =>
      if can_be_tuple_literal_alias query items then [leaf d (X_Literal tuple_lbl)]
      else match items with
           | [x] =>
               if lit_ty_is is_tuple x then explain_tuple_in_in_list d x
               else if trailing then
                 hdr d (L_Function F_tuple) 1 :: hdr (S d) L_ExpressionList 1 :: node (S (S d)) x
               else node d x
           | _ => in_list_wrapped d items
           end
  end.

Definition explain_in_expr_with_alias (alias : list N) (d : nat) (e : expr) (not global : bool) (items : list expr)
           (query : option rose) (trailing : bool) (tuple_lbl : list N) : list line :=
  hdr_alias d (L_Function (in_fn not global)) alias 1 1
  :: hdr (S d) L_ExpressionList (count_in_args_alias query items trailing)
  :: node (S (S d)) e
  ++ explain_in_rhs_alias (S (S d)) items query trailing tuple_lbl.

(* ---- explainWindowSpec (header at depth [d]) ---- *)
Definition count_window_spec_children (name : list N) (partition : list expr) (order : list rose)
           (offset : option expr) : nat :=
  b2n (nonempty name) + b2n (pos (length partition)) + b2n (pos (length order)) + b2n (is_some offset).

Definition explain_window_spec (d : nat) (name : list N) (partition : list expr) (order : list rose)
           (offset : option expr) : list line :=
  if pos (count_window_spec_children name partition order offset) then
    hdr d X_WindowDefinition (count_window_spec_children name partition order offset)
    :: when (nonempty name) [leaf (S d) (L_Identifier name)]
    ++ when (pos (length partition)) (el_nodes (S d) partition)
    ++ when (pos (length order)) (hdr (S d) L_ExpressionList (length order) :: nodes (S (S d)) order)
    ++ node_opt (S d) offset
  else [leaf d X_WindowDefinition].

(* windowSpecHasContent: "return false" *)
Definition window_spec_has_content : bool := false.

(* ---- handleKQLFunction / explainKQLFilter ---- *)
Definition explain_kql_filter (d : nat) (f : kql_filter) : list line :=
  [hdr d (L_Function (kf_fn f)) 1;
   hdr (S d) L_ExpressionList 2;
   leaf (S (S d)) (L_Identifier (kf_left f));
   if kf_right_quoted f then leaf (S (S d)) (X_Literal (kf_right f)) else leaf (S (S d)) (L_Identifier (kf_right f))].

Definition explain_kql (d : nat) (k : kql_parsed) : list line :=
  hdr d (L_Function F_view) 1
  :: hdr (S d) L_ExpressionList 1
  :: hdr (S (S d)) X_SelectWithUnionQuery 1
  :: hdr (3 + d) L_ExpressionList 1
  :: hdr (4 + d) X_SelectQuery (if is_some (kq_filter k) then 3 else 2)
  :: hdr (5 + d) X_TablesInSelectQuery 1
  :: hdr (6 + d) X_TablesInSelectQueryElement 1
  :: hdr (7 + d) X_TableExpression 1
  :: leaf (8 + d) (X_TableIdentifier (kq_table k))
  :: match kq_filter k with Some f => explain_kql_filter (5 + d) f | None => [] end
  ++ hdr (5 + d) L_ExpressionList (length (kq_columns k))
  :: map (fun c => leaf (6 + d) (L_Identifier c)) (kq_columns k).

(* ---- outputQuantifiedWithAggregate ---- *)
Definition quantified_block (d : nat) (agg : list N) (subquery : expr) : list line :=
  [hdr (6 + d) L_ExpressionList 1;
   hdr (7 + d) (L_Function agg) 1;
   hdr (8 + d) L_ExpressionList 1;
   leaf (9 + d) X_Asterisk;
   hdr (6 + d) X_TablesInSelectQuery 1;
   hdr (7 + d) X_TablesInSelectQueryElement 1;
   hdr (8 + d) X_TableExpression 1]
  ++ node (9 + d) subquery.

Definition output_quantified_with_aggregate (alias : list N) (d : nat) (lhs subquery : expr) (comp agg : list N)
  : list line :=
  hdr_alias d (L_Function comp) alias 1 1
  :: hdr (S d) L_ExpressionList 2
  :: node (S (S d)) lhs
  ++ hdr (S (S d)) X_Subquery 1
  :: hdr (3 + d) X_SelectWithUnionQuery 1
  :: hdr (4 + d) L_ExpressionList 1
  :: hdr (5 + d) X_SelectQuery 4
  :: quantified_block d agg subquery ++ quantified_block d agg subquery.

(* the switch of handleQuantifiedComparison: (comparison function, aggregate) or "return false" *)
Definition quantified_functions (all : bool) (op : qop) : option (list N * list N) :=
  match op, all with
  | QEquals, false => None
  | QEquals, true => Some (F_in, F_singleValueOrNull)
  | QNotEquals, true => None
  | QNotEquals, false => Some (F_notIn, F_singleValueOrNull)
  | QLess, false => Some (F_less, F_max)
  | QLess, true => Some (F_less, F_min)
  | QLessOrEquals, false => Some (F_lessOrEquals, F_max)
  | QLessOrEquals, true => Some (F_lessOrEquals, F_min)
  | QGreater, false => Some (F_greater, F_min)
  | QGreater, true => Some (F_greater, F_max)
  | QGreaterOrEquals, false => Some (F_greaterOrEquals, F_min)
  | QGreaterOrEquals, true => Some (F_greaterOrEquals, F_max)
  | QOtherOp, _ => None
  end.

(* ---- explainPositionWithIn / explainDateAddSubResult / explainDateAddSubWithInterval / handleDateDiff ---- *)
Definition explain_position_with_in (alias : list N) (d : nat) (needle haystack : expr) : list line :=
  hdr_alias d (L_Function F_position) alias 1 1
  :: hdr (S d) L_ExpressionList 2
  :: node (S (S d)) haystack ++ node (S (S d)) needle.

Definition explain_date_add_sub_result (alias : list N) (d : nat) (op_fn : list N) (date value : expr)
           (unit : list N) : list line :=
  hdr_alias d (L_Function op_fn) alias 1 1
  :: hdr (S d) L_ExpressionList 2
  :: node (S (S d)) date
  ++ hdr (S (S d)) (L_Function (F_toInterval (norm_unit unit))) 1
  :: hdr (3 + d) L_ExpressionList 1
  :: node (4 + d) value.

Definition explain_date_add_sub_with_interval (alias : list N) (d : nat) (op_fn : list N) (a1 a2 : expr) : list line :=
  hdr_alias d (L_Function op_fn) alias 1 1
  :: hdr (S d) L_ExpressionList 2
  :: node (S (S d)) a1 ++ node (S (S d)) a2.

Definition handle_date_add_sub (alias : list N) (d : nat) (op_fn : list N) (args : list expr) : option (list line) :=
  match args with
  | [unit_arg; value_arg; date_arg] =>
      match unit_arg with
      | EIdent name _ =>
          if nonempty name then Some (explain_date_add_sub_result alias d op_fn date_arg value_arg name) else None
      | _ => None
      end
  | [a1; a2] =>
      if is_interval a1 || is_tointerval_call a1 || is_interval a2 || is_tointerval_call a2
      then Some (explain_date_add_sub_with_interval alias d op_fn a1 a2) else None
  | _ => None
  end.

Definition date_diff_lines (alias : list N) (d : nat) (unit_lbl : list N) (n : nat) (rest : list expr) : list line :=
  hdr_alias d (L_Function F_dateDiff) alias 1 1
  :: hdr (S d) L_ExpressionList n
  :: leaf (S (S d)) (X_Literal unit_lbl)
  :: flat_map (node (S (S d))) rest.

Definition handle_date_diff (alias : list N) (d : nat) (args : list expr) : option (list line) :=
  match args with
  | [EIdent name _; d1; d2] =>
      if nonempty name then Some (date_diff_lines alias d name 3 [d1; d2]) else None
  | [EIdent name _; d1; d2; tz] =>
      if nonempty name then Some (date_diff_lines alias d name 4 [d1; d2; tz]) else None
  | _ => None
  end.

(* ---- handleSpecialFunction ---- *)
Definition handle_special_function (alias : list N) (d : nat) (cls : name_class) (args : list expr) (sqlstd : bool)
  : option (list line) :=
  match cls with
  | NKql =>
      match args with
      | [ELit LString _ _ (VStr s) _] =>
          match s_kql s with Some k => Some (explain_kql d k) | None => None end
      | _ => None
      end
  | NQuant all op =>
      match args with
      | [lhs; sq] =>
          match sq with
          | ESubquery _ _ =>
              match quantified_functions all op with
              | Some (comp, agg) => Some (output_quantified_with_aggregate alias d lhs sq comp agg)
              | None => None
              end
          | _ => None
          end
      | _ => None
      end
  | NPosition =>
      match args with
      | [EIn needle _ _ (haystack :: _) _ _] => Some (explain_position_with_in alias d needle haystack)
      | _ => None
      end
  | NDateAdd => handle_date_add_sub alias d F_plus args
  | NDateSub => handle_date_add_sub alias d F_minus args
  | NDateDiff => handle_date_diff alias d args
  | NTrim =>
      if sqlstd then
        match args with
        | [x; ELit LString _ _ (VStr s) _] => if s_empty s then Some (node d x) else None
        | _ => None
        end
      else None
  | _ => None
  end.

(* ---- explainFunctionCallWithAlias ---- *)
Definition non_asterisk_args (args : list expr) : list expr := filter (fun a => negb (is_asterisk a)) args.

Definition count_function_children (params : option (list expr))
           (over : option (list N * list expr * list rose * option expr)) : nat :=
  1 + b2n (is_some params)
    + b2n (match over with
           | Some (name, _, _, _) => negb (nonempty name) && window_spec_has_content
           | None => false
           end).

Definition count_function_args (args : list expr) (filter : option expr) (settings : bool) : nat :=
  (match filter with
   | Some _ => length (non_asterisk_args args) + 1
   | None => length args
   end) + b2n settings.

Definition function_label (fn : list N) (distinct : bool) (filter : option expr) : list N :=
  fn ++ (if distinct then bytes_of "Distinct" else []) ++ (if is_some filter then bytes_of "If" else []).

(* one member of argsToOutput *)
Definition function_arg_lines (d : nat) (cls : name_class) (has_filter : bool) (a : expr) : list line :=
  if has_filter && is_asterisk a then []
  else match cls, a with
       | NView, ESubquery q _ => node_nilable d q
       | _, _ => node d a
       end.

(* explainFunctionCallWithAlias after handleSpecialFunction has returned false *)
Definition explain_function_generic (alias : list N) (d : nat) (cls : name_class) (fn : list N)
           (params : option (list expr)) (args : list expr) (settings distinct : bool) (filter : option expr)
           (over : option (list N * list expr * list rose * option expr)) : list line :=
  hdr_alias d (L_Function (function_label fn distinct filter)) alias
            (count_function_children params over) (count_function_children params over)
  :: hdr_pos (S d) L_ExpressionList (count_function_args args filter settings)
  :: flat_map (function_arg_lines (S (S d)) cls (is_some filter)) args
  ++ node_opt (S (S d)) filter
  ++ when settings [leaf (S (S d)) X_Set]
  ++ match params with
     | Some ps => hdr_pos (S d) L_ExpressionList (length ps) :: flat_map (node (S (S d))) ps
     | None => []
     end
  ++ match over with
     | Some (name, partition, order, offset) =>
         when (negb (nonempty name) && window_spec_has_content)
              (explain_window_spec (S d) name partition order offset)
     | None => []
     end.

Definition explain_function_call_with_alias (alias : list N) (d : nat) (cls : name_class) (fn : list N)
           (params : option (list expr)) (args : list expr) (settings distinct : bool) (filter : option expr)
           (over : option (list N * list expr * list rose * option expr)) (sqlstd : bool) : list line :=
  match handle_special_function alias d cls args sqlstd with
  | Some ls => ls
  | None => explain_function_generic alias d cls fn params args settings distinct filter over
  end.

(* ---- explainAsterisk / explainColumnsMatcher and the transformers ---- *)

Definition replacement_lines (d : nat) (r : option expr) : list line :=
  hdr d X_Replacement (b2n (is_some r)) :: node_opt (S d) r.

(* explainSingleTransformer, the transformer's own line at depth [d] *)
Definition explain_single_transformer (d : nat) (t : transformer) : list line :=
  match t with
  | (ty, pattern, except, replaces) =>
      match ty with
      | 0 => [leaf d X_ColumnsApplyTransformer]
      | 1 => if pattern then [leaf d X_ColumnsExceptTransformer]
             else hdr d X_ColumnsExceptTransformer (length except)
                  :: map (fun c => leaf (S d) (L_Identifier c)) except
      | 2 => hdr d X_ColumnsReplaceTransformer (length replaces)
             :: flat_map (replacement_lines (S d)) replaces
      | _ => []
      end
  end.

Definition has_transformers (transformers : list transformer) (except : list (list N))
           (replace : list (option expr)) (apply : nat) : bool :=
  pos (length transformers) || pos (length except) || pos (length replace) || pos apply.

(* explainColumnsTransformers and explainColumnsMatcherTransformers (the same text twice), list line at depth [d] *)
Definition explain_columns_transformers (d : nat) (transformers : list transformer) (except : list (list N))
           (replace : list (option expr)) (apply : nat) : list line :=
  if pos (length transformers) then
    hdr d X_ColumnsTransformerList (length transformers)
    :: flat_map (explain_single_transformer (S d)) transformers
  else
    hdr d X_ColumnsTransformerList (b2n (pos (length except)) + b2n (pos (length replace)) + apply)
    :: when (pos (length except))
            (hdr (S d) X_ColumnsExceptTransformer (length except)
             :: map (fun c => leaf (S (S d)) (L_Identifier c)) except)
    ++ when (pos (length replace))
            (hdr (S d) X_ColumnsReplaceTransformer (length replace)
             :: flat_map (replacement_lines (S (S d))) replace)
    ++ repeat (leaf (S d) X_ColumnsApplyTransformer) apply.

Definition explain_columns_matcher_transformers := explain_columns_transformers.

Definition explain_asterisk (d : nat) (table : list N) (except : list (list N)) (replace : list (option expr))
           (apply : nat) (transformers : list transformer) : list line :=
  if nonempty table then
    if has_transformers transformers except replace apply then
      hdr d X_QualifiedAsterisk 2 :: leaf (S d) (L_Identifier table)
      :: explain_columns_transformers (S d) transformers except replace apply
    else [hdr d X_QualifiedAsterisk 1; leaf (S d) (L_Identifier table)]
  else
    if has_transformers transformers except replace apply then
      hdr d X_Asterisk 1 :: explain_columns_transformers (S d) transformers except replace apply
    else [leaf d X_Asterisk].

Definition explain_columns_matcher (d : nat) (qualifier : list N) (columns : list expr) (except : list (list N))
           (replace : list (option expr)) (apply : nat) (transformers : list transformer) : list line :=
  let ht := has_transformers transformers except replace apply in
  if pos (length columns) then
    hdr d (if nonempty qualifier then X_QualifiedColumnsListMatcher else X_ColumnsListMatcher)
        (1 + b2n (nonempty qualifier) + b2n ht)
    :: when (nonempty qualifier) [leaf (S d) (L_Identifier qualifier)]
    ++ el_nodes (S d) columns
    ++ when ht (explain_columns_matcher_transformers (S d) transformers except replace apply)
  else if nonempty qualifier then
    hdr d X_QualifiedColumnsRegexpMatcher (1 + b2n ht)
    :: leaf (S d) (L_Identifier qualifier)
    :: when ht (explain_columns_matcher_transformers (S d) transformers except replace apply)
  else if ht then
    hdr d X_ColumnsRegexpMatcher 1
    :: explain_columns_matcher_transformers (S d) transformers except replace apply
  else [leaf d X_ColumnsRegexpMatcher].

(* ---- explainAliasedExpr ---- *)
Definition explain_aliased_expr (d : nat) (e : expr) (alias : list N) (lit_neg_lbl : list N) : list line :=
  match e with
  | ELit ty _ _ _ lbl => explain_aliased_literal_scalar alias d lbl
  | ELitList ty _ es lbl => explain_aliased_literal_list alias d ty es lbl
  | EBin op _ l r => explain_aliased_binary alias d op l r
  | EUnary minus fn o => explain_aliased_unary alias d minus fn o lit_neg_lbl
  | EFunc cls fn params args settings distinct filter over _ sqlstd =>
      explain_function_call_with_alias alias d cls fn params args settings distinct filter over sqlstd
  | ELambda params body => explain_lambda_with_alias alias d params body
  | EExtract fn from _ => explain_extract_expr_with_alias alias d fn from
  | EIdent name _ => [leaf d (L_Identifier name ++ sfx alias)]
  | EInterval value unit => explain_interval_expr alias d value unit
  | ETernary c t el => explain_aliased_ternary alias d c t el
  | ECast x te tl _ ops ll => explain_cast_expr_with_alias alias d x te tl ops ll
  | EArrayAccess a i => explain_array_access_with_alias alias d a i
  | ETupleAccess t i => explain_tuple_access_with_alias alias d t i
  | EIn x not global items query trailing => explain_in_expr_with_alias alias d x not global items query trailing (bytes_of "_")
  | ECase operand whens els _ => explain_case_expr_with_alias alias d operand whens els
  | EExists q => explain_exists_expr_with_alias alias d q
  | EIsNull x not => explain_is_null_expr_with_alias alias d x not
  | EBetween x lo hi not => explain_between_expr_with_alias alias d x lo hi not
  | ELike x p not ci _ => explain_like_expr_with_alias alias d x p not ci     (* the LikeExpr's own Alias is not read *)
  | EParam name ty => explain_parameter_aliased alias d name ty
  | _ => node d e
  end.

(* ---- explainWithElement ---- *)
Definition explain_with_element (d : nat) (name : list N) (q : expr) (scalar_with : bool) (lit_neg_lbl : list N)
  : list line :=
  match q with
  | ELit ty _ _ _ lbl => with_literal_leaf name d lbl
  | ELitList ty _ es lbl => explain_with_literal_list name d ty es lbl
  | EIdent iname _ => if nonempty name then [leaf d (L_Identifier iname ++ sfx name)] else [leaf d (L_Identifier iname)]
  | EFunc cls fn params args settings distinct filter over _ sqlstd =>
      explain_function_call_with_alias name d cls fn params args settings distinct filter over sqlstd
  | ELambda params body => explain_lambda_with_alias name d params body
  | EBin op _ l r => explain_with_binary name d op l r
  | ESubquery sq salias =>
      if scalar_with then
        (if nonempty (if nonempty name then name else salias)
         then hdr d (X_Subquery ++ sfx (if nonempty name then name else salias)) 1
         else hdr d X_Subquery 1)
        :: node_nilable (S d) sq
      else
        hdr d X_WithElement 1 :: hdr (S d) X_Subquery 1 :: node_nilable (S (S d)) sq
  | ECast x te tl _ ops ll => explain_cast_expr_with_alias name d x te tl ops ll
  | EArrayAccess a i => explain_array_access_with_alias name d a i
  | EBetween x lo hi not => explain_between_expr_with_alias name d x lo hi not
  | ELike x p not ci _ => explain_like_expr_with_alias name d x p not ci
  | EUnary minus fn o => explain_with_unary name d minus fn o lit_neg_lbl
  | ETernary c t el => explain_with_ternary name d c t el
  | _ => node d q
  end.

End Printers.

(* ---------------------------------------------------------------------------------------- *)
(** * Node(sb, x, depth) restricted to expressions: the type switch of explain.go *)

Section NodeOf.
Variable norm_unit : list N -> list N.

Fixpoint enode (d : nat) (e : expr) {struct e} : list line :=
  match e with
  | ENil => render d nil_tree
  | EOpaque t => render d t
  | EIdent name alias => explain_identifier d name alias
  | ELit ty _ _ v lbl => explain_literal_scalar d ty v lbl
  | ELitList ty _ es lbl => explain_literal_list enode d ty es lbl
  | EUnary minus fn o => explain_unary_expr enode d minus fn o (bytes_of "_")
  | EBin op _ l r => explain_binary_expr enode d op l r
  | EFunc cls fn params args settings distinct filter over alias sqlstd =>
      explain_function_call_with_alias enode norm_unit alias d cls fn params args settings distinct filter over sqlstd
  | ELambda params body => explain_lambda_with_alias enode [] d params body
  | ECast x te tl alias ops ll => explain_cast_expr_with_alias enode alias d x te tl ops ll
  | EIn x not global items query trailing => explain_in_expr enode d x not global items query trailing (bytes_of "_")
  | ETernary c t el => explain_ternary_expr enode d c t el
  | EArrayAccess a i => explain_array_access enode d a i
  | ETupleAccess t i => explain_tuple_access enode d t i
  | ELike x p not ci alias => explain_like_expr enode d x p not ci alias
  | EBetween x lo hi not => explain_between_expr enode d x lo hi not
  | EIsNull x not => explain_is_null_expr_with_alias enode [] d x not
  | ECase operand whens els alias => explain_case_expr_with_alias enode alias d operand whens els
  | EInterval value unit => explain_interval_expr enode norm_unit [] d value unit
  | EExists q => explain_exists_expr_with_alias [] d q
  | ESubquery q alias => explain_subquery d q alias
  | EExtract fn from alias => explain_extract_expr_with_alias enode alias d fn from
  | EParam name ty => explain_parameter d name ty
  | EAsterisk table except replace apply transformers =>
      explain_asterisk enode d table except replace apply transformers
  | EColumns qualifier columns except replace apply transformers =>
      explain_columns_matcher enode d qualifier columns except replace apply transformers
  | EAliased x alias => explain_aliased_expr enode norm_unit d x alias (bytes_of "_")
  | EWith name q scalar_with => explain_with_element enode norm_unit d name q scalar_with (bytes_of "_")
  end.

End NodeOf.

(* ---------------------------------------------------------------------------------------- *)
(** * The condition of the theorems *)

(* a ColumnTransformer whose Type is "apply", "except" or "replace": explainSingleTransformer prints nothing for
   any other Type, while the ColumnsTransformerList header counts it *)
Definition transformer_known (t : transformer) : bool :=
  match t with (ty, _, _, _) => Nat.leb ty 2 end.
Definition transformers_known (ts : list transformer) : bool := forallb transformer_known ts.

(* every transformer list anywhere in the expression holds known transformers only *)
Fixpoint inv_exprb (e : expr) : bool :=
  match e with
  | ENil | EOpaque _ | EIdent _ _ | ELit _ _ _ _ _ | EExists _ | ESubquery _ _ | EParam _ _ => true
  | ELitList _ _ es _ => forallb inv_exprb es
  | EUnary _ _ o => inv_exprb o
  | EBin _ _ l r => inv_exprb l && inv_exprb r
  | EFunc _ _ params args _ _ filter over _ _ =>
      match params with Some ps => forallb inv_exprb ps | None => true end
      && forallb inv_exprb args
      && match filter with Some x => inv_exprb x | None => true end
      && match over with
         | Some (_, part, _, off) => forallb inv_exprb part && match off with Some x => inv_exprb x | None => true end
         | None => true
         end
  | ELambda _ body => inv_exprb body
  | ECast x te _ _ _ _ => inv_exprb x && match te with Some y => inv_exprb y | None => true end
  | EIn x _ _ items _ _ => inv_exprb x && forallb inv_exprb items
  | ETernary c t el => inv_exprb c && inv_exprb t && inv_exprb el
  | EArrayAccess a i => inv_exprb a && inv_exprb i
  | ETupleAccess t i => inv_exprb t && inv_exprb i
  | ELike x p _ _ _ => inv_exprb x && inv_exprb p
  | EBetween x lo hi _ => inv_exprb x && inv_exprb lo && inv_exprb hi
  | EIsNull x _ => inv_exprb x
  | ECase operand whens els _ =>
      match operand with Some x => inv_exprb x | None => true end
      && forallb (fun w => match w with (c, r) => inv_exprb c && inv_exprb r end) whens
      && match els with Some x => inv_exprb x | None => true end
  | EInterval value _ => inv_exprb value
  | EExtract _ from _ => inv_exprb from
  | EAsterisk _ _ replace _ transformers =>
      forallb (fun o => match o with Some x => inv_exprb x | None => true end) replace
      && transformers_known transformers
      && forallb (fun t => match t with
                           | (_, _, _, rs) => forallb (fun o => match o with Some x => inv_exprb x | None => true end) rs
                           end) transformers
  | EColumns _ columns _ replace _ transformers =>
      forallb inv_exprb columns
      && forallb (fun o => match o with Some x => inv_exprb x | None => true end) replace
      && transformers_known transformers
      && forallb (fun t => match t with
                           | (_, _, _, rs) => forallb (fun o => match o with Some x => inv_exprb x | None => true end) rs
                           end) transformers
  | EAliased x _ => inv_exprb x
  | EWith _ q _ => inv_exprb q
  end.

Definition inv_expr (e : expr) : Prop := inv_exprb e = true.
