(* Go 1.25 bufio.Reader (src/bufio/bufio.go: NewReaderSize, fill, readErr, Peek, ReadRune) over a
   scripted io.Reader, wrapped by lexer.go's errorTrackingReader.  Model only: total computable
   definitions, no proofs (those are in BufioProof.v).  Validated against the real bufio by the
   correspondence harness /verif/harness/cmd/bufioops  <->  /verif/driver/bufio.

   What is modelled of the Reader struct {buf; rd; r; w; err; lastByte; lastRuneSize}:
     win     = buf[r:w], the unread window (len(buf) = 4096 = defaultBufSize, fixed by
               bufio.NewReader; minReadBufferSize = 16 is irrelevant for that size);
     berr    = err;
     script  = what rd will still deliver.
   r itself is not kept: fill() slides the window to offset 0 when r > 0, so at the moment of every
   rd.Read call the destination b.buf[b.w:] has length len(buf) - (w - r) = 4096 - length win, whether
   or not a slide happened; every loop condition of Peek/ReadRune is a function of w - r, of
   buf[r:w] and of err.  lastByte/lastRuneSize only serve UnreadByte/UnreadRune (never called).
   "panic: tried to fill full buffer" and the negative-count panic are unreachable/not modelled:
   both callers test b.w-b.r < len(b.buf) before fill, and the scripted reader never returns n < 0.
*)
From Coq Require Import List NArith Bool Arith.
From DC Require Import Base.Utf8 Base.Stream.
Import ListNotations.

(* ---------- the underlying io.Reader: a script, one chunk per Read call ---------- *)

Inductive chunk :=
| Data (bs : list N)               (* Read returns (len bs, nil); Data [] is a (0, nil) read *)
| Err (e : N)                      (* Read returns (0, e) *)
| DataErr (bs : list N) (e : N).   (* Read returns (len bs, e) *)

(* error codes of the scripted reader: 0 is io.EOF, everything else is "some other error" *)
Definition eof_code : N := 0%N.
Definition is_eof (e : N) : bool := N.eqb e eof_code.

(* errors as seen by bufio's caller *)
Inductive gerr :=
| GE (e : N)          (* an error returned by the underlying Read (GE 0 = io.EOF) *)
| GNoProgress         (* io.ErrNoProgress, made up by fill *)
| GBufferFull.        (* bufio.ErrBufferFull, made up by Peek *)

(* One Read(p) with len p = free.  A chunk that does not fit is split: the first `free` bytes are
   returned with a nil error and the remainder (with the chunk's error, if any) stays first in the
   script.  After the script: (0, io.EOF) forever. *)
Definition src_read (free : nat) (s : list chunk) : list N * option N * list chunk :=
  match s with
  | [] => ([], Some eof_code, [])
  | Data bs :: rest =>
    if length bs <=? free then (bs, None, rest)
    else (firstn free bs, None, Data (skipn free bs) :: rest)
  | Err e :: rest => ([], Some e, rest)
  | DataErr bs e :: rest =>
    if length bs <=? free then (bs, Some e, rest)
    else (firstn free bs, None, DataErr (skipn free bs) e :: rest)
  end.

(* errorTrackingReader.Read: if err != nil && err != io.EOF && e.err == nil { e.err = err } *)
Definition track (tr : option N) (e : option N) : option N :=
  match e with
  | None => tr
  | Some c => if is_eof c then tr else match tr with None => Some c | Some _ => tr end
  end.

(* ghost: one entry per Read call performed (len p, n, err); never read by any operation *)
Record rentry := { re_free : N; re_n : N; re_err : option N }.

Record bstate := {
  win : list N;             (* b.buf[b.r:b.w] *)
  berr : option gerr;       (* b.err *)
  script : list chunk;      (* remaining behaviour of the user's io.Reader *)
  tracked : option N;       (* errorTrackingReader.err *)
  rlog : list rentry;       (* ghost history of Read calls, most recent first *)
  diverged : bool           (* a loop of the model ran out of fuel (excluded by BufioProof) *)
}.

Definition set_berr (e : option gerr) (st : bstate) : bstate :=
  {| win := win st; berr := e; script := script st; tracked := tracked st;
     rlog := rlog st; diverged := diverged st |}.
Definition set_win (w : list N) (st : bstate) : bstate :=
  {| win := w; berr := berr st; script := script st; tracked := tracked st;
     rlog := rlog st; diverged := diverged st |}.
Definition set_diverged (st : bstate) : bstate :=
  {| win := win st; berr := berr st; script := script st; tracked := tracked st;
     rlog := rlog st; diverged := true |}.

(* lexer.New: source := &errorTrackingReader{r: r}; bufio.NewReader(source) *)
Definition bufio_init (s : list chunk) : bstate :=
  {| win := []; berr := None; script := s; tracked := None; rlog := []; diverged := false |}.

Definition tracked_err (st : bstate) : option N := tracked st.

(* n, err := b.rd.Read(b.buf[b.w:]); b.w += n     (through the tracking wrapper) *)
Definition read_once (st : bstate) : list N * option N * bstate :=
  let free := bufio_size - length (win st) in
  let '(bs, e, s') := src_read free (script st) in
  (bs, e,
   {| win := win st ++ bs; berr := berr st; script := s'; tracked := track (tracked st) e;
      rlog := {| re_free := N.of_nat free; re_n := N.of_nat (length bs); re_err := e |} :: rlog st;
      diverged := diverged st |}).

Definition max_consecutive_empty_reads : nat := 100.

(* func (b *Reader) fill(): the loop "for i := maxConsecutiveEmptyReads; i > 0; i--" *)
Fixpoint fill_loop (i : nat) (st : bstate) : bstate :=
  match i with
  | O => set_berr (Some GNoProgress) st                       (* b.err = io.ErrNoProgress *)
  | S i' =>
    let '(bs, e, st1) := read_once st in
    match e with
    | Some c => set_berr (Some (GE c)) st1                    (* b.err = err; return *)
    | None => match bs with
              | [] => fill_loop i' st1                        (* n == 0: try again *)
              | _ :: _ => st1                                 (* n > 0: return *)
              end
    end
  end.

Definition fill (st : bstate) : bstate := fill_loop max_consecutive_empty_reads st.

Definition is_none {A : Type} (o : option A) : bool := match o with None => true | Some _ => false end.

(* ---------- Peek ---------- *)

(* for b.w-b.r < n && b.w-b.r < len(b.buf) && b.err == nil *)
Definition peek_cond (n : nat) (st : bstate) : bool :=
  (length (win st) <? n) && (length (win st) <? bufio_size) && is_none (berr st).

Fixpoint peek_loop (fuel : nat) (n : nat) (st : bstate) : bstate :=
  if peek_cond n st then
    match fuel with
    | O => set_diverged st
    | S f => peek_loop f n (fill st)
    end
  else st.

(* every iteration adds a byte or sets err, so bufio_size + 1 iterations are never needed *)
Definition peek_fuel : nat := S bufio_size.

Definition bufio_peek_full (n : nat) (st : bstate) : (list N * option gerr) * bstate :=
  let st1 := peek_loop peek_fuel n st in
  if bufio_size <? n then
    (* if n > len(b.buf) { return b.buf[b.r:b.w], ErrBufferFull }   -- b.err is NOT cleared *)
    ((win st1, Some GBufferFull), st1)
  else if length (win st1) <? n then
    (* n = avail; err = b.readErr(); if err == nil { err = ErrBufferFull } *)
    ((win st1, Some (match berr st1 with Some e => e | None => GBufferFull end)),
     set_berr None st1)
  else ((firstn n (win st1), None), st1).

(* ---------- ReadRune ---------- *)

Definition utf_max : nat := 4.

(* for b.r+utf8.UTFMax > b.w && !utf8.FullRune(b.buf[b.r:b.w]) && b.err == nil && b.w-b.r < len(b.buf) *)
Definition rr_cond (st : bstate) : bool :=
  (length (win st) <? utf_max) && negb (full_rune (win st)) && is_none (berr st)
  && (length (win st) <? bufio_size).

Fixpoint rr_loop (fuel : nat) (st : bstate) : bstate :=
  if rr_cond st then
    match fuel with
    | O => set_diverged st
    | S f => rr_loop f (fill st)
    end
  else st.

Definition rr_fuel : nat := S utf_max.

Definition bufio_read_rune_full (st : bstate) : (N * nat * option gerr) * bstate :=
  let st1 := rr_loop rr_fuel st in
  match win st1 with
  | [] => ((0%N, 0, berr st1), set_berr None st1)          (* return 0, 0, b.readErr() *)
  | b0 :: _ =>
    let '(r, sz) := if N.ltb b0 128 then (b0, 1)             (* r, size = rune(b.buf[b.r]), 1 *)
                    else decode_rune (win st1) in           (* utf8.DecodeRune(b.buf[b.r:b.w]) *)
    ((r, sz, None), set_win (skipn sz (win st1)) st1)       (* b.r += size *)
  end.

(* ---------- the stream interface used by the lexer model ---------- *)

Definition bufio_peek (n : nat) (st : bstate) : list N * bstate :=
  let '((bs, _), st') := bufio_peek_full n st in (bs, st').

(* lexer.readChar: "if err != nil { eof }" -- None stands for err != nil *)
Definition bufio_read_rune (st : bstate) : option (N * nat) * bstate :=
  let '((r, sz, e), st') := bufio_read_rune_full st in
  (match e with None => Some (r, sz) | Some _ => None end, st').

Definition bufio_stream : stream_ops bstate :=
  {| s_peek := bufio_peek; s_read_rune := bufio_read_rune |}.
