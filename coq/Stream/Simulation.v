(* Simulation between two implementations of the stream interface (Base/Stream.v), and the two
   client-independence corollaries:
     - run_ops    : a fixed sequence of Peek n / ReadRune operations;
     - run_client : an ADAPTIVE client (an interaction tree whose next operation may depend on every
                    earlier answer) -- this is the general form of "a program that touches the stream
                    only through Peek and ReadRune", e.g. the lexer.
   Related states give equal answers and related final states. *)
From Coq Require Import List NArith.
From DC Require Import Base.Stream.
Import ListNotations.

Set Implicit Arguments.

Section Sim.
  Variables S1 S2 : Type.
  Variable R : S1 -> S2 -> Prop.
  Variable o1 : stream_ops S1.
  Variable o2 : stream_ops S2.

  (* related states: equal peek bytes / equal read_rune results, related successor states *)
  Definition stream_sim : Prop :=
    (forall n s1 s2, R s1 s2 ->
       fst (s_peek o1 n s1) = fst (s_peek o2 n s2) /\
       R (snd (s_peek o1 n s1)) (snd (s_peek o2 n s2))) /\
    (forall s1 s2, R s1 s2 ->
       fst (s_read_rune o1 s1) = fst (s_read_rune o2 s2) /\
       R (snd (s_read_rune o1 s1)) (snd (s_read_rune o2 s2))).
End Sim.

(* ---------- fixed operation sequences ---------- *)

Inductive op := OPeek (n : nat) | ORead.
Inductive result := RPeek (bs : list N) | RRead (r : option (N * nat)).

Definition run_op {S : Type} (o : stream_ops S) (x : op) (s : S) : result * S :=
  match x with
  | OPeek n => let '(bs, s') := s_peek o n s in (RPeek bs, s')
  | ORead => let '(r, s') := s_read_rune o s in (RRead r, s')
  end.

(* results of all operations, and the final state *)
Fixpoint run_ops {S : Type} (o : stream_ops S) (ops : list op) (s : S) : list result * S :=
  match ops with
  | [] => ([], s)
  | x :: rest =>
    let '(r, s') := run_op o x s in
    let '(rs, s'') := run_ops o rest s' in
    (r :: rs, s'')
  end.

(* ---------- adaptive clients ---------- *)

Inductive client (A : Type) : Type :=
| Ret (a : A)
| DoPeek (n : nat) (k : list N -> client A)
| DoRead (k : option (N * nat) -> client A).
Arguments Ret {A}.
Arguments DoPeek {A}.
Arguments DoRead {A}.

Fixpoint run_client {S A : Type} (o : stream_ops S) (c : client A) (s : S) : A * S :=
  match c with
  | Ret a => (a, s)
  | DoPeek n k => let '(bs, s') := s_peek o n s in run_client o (k bs) s'
  | DoRead k => let '(r, s') := s_read_rune o s in run_client o (k r) s'
  end.

Section SimFacts.
  Variables S1 S2 : Type.
  Variable R : S1 -> S2 -> Prop.
  Variable o1 : stream_ops S1.
  Variable o2 : stream_ops S2.
  Hypothesis Hsim : stream_sim R o1 o2.

  Lemma sim_run_op : forall x s1 s2, R s1 s2 ->
    fst (run_op o1 x s1) = fst (run_op o2 x s2) /\ R (snd (run_op o1 x s1)) (snd (run_op o2 x s2)).
  Proof.
    intros x s1 s2 HR. destruct Hsim as [Hp Hr]. destruct x as [n|]; cbn [run_op].
    - specialize (Hp n s1 s2 HR).
      destruct (s_peek o1 n s1) as [b1 t1]; destruct (s_peek o2 n s2) as [b2 t2].
      cbn [fst snd] in *. destruct Hp as [E HR']. subst b2. split; [reflexivity|exact HR'].
    - specialize (Hr s1 s2 HR).
      destruct (s_read_rune o1 s1) as [b1 t1]; destruct (s_read_rune o2 s2) as [b2 t2].
      cbn [fst snd] in *. destruct Hr as [E HR']. subst b2. split; [reflexivity|exact HR'].
  Qed.

  (* client independence, fixed op sequences *)
  Theorem sim_run_ops : forall ops s1 s2, R s1 s2 ->
    fst (run_ops o1 ops s1) = fst (run_ops o2 ops s2) /\
    R (snd (run_ops o1 ops s1)) (snd (run_ops o2 ops s2)).
  Proof.
    induction ops as [|x rest IH]; intros s1 s2 HR; cbn [run_ops].
    - split; [reflexivity|exact HR].
    - pose proof (sim_run_op x HR) as [E HR'].
      destruct (run_op o1 x s1) as [r1 t1]; destruct (run_op o2 x s2) as [r2 t2].
      cbn [fst snd] in *. subst r2.
      specialize (IH t1 t2 HR'). destruct IH as [E2 HR2].
      destruct (run_ops o1 rest t1) as [rs1 u1]; destruct (run_ops o2 rest t2) as [rs2 u2].
      cbn [fst snd] in *. subst rs2. split; [reflexivity|exact HR2].
  Qed.

  (* client independence, adaptive clients *)
  Theorem sim_run_client : forall (A : Type) (c : client A) s1 s2, R s1 s2 ->
    fst (run_client o1 c s1) = fst (run_client o2 c s2) /\
    R (snd (run_client o1 c s1)) (snd (run_client o2 c s2)).
  Proof.
    intros A c. destruct Hsim as [Hp Hr].
    induction c as [a|n k IH|k IH]; intros s1 s2 HR; cbn [run_client].
    - split; [reflexivity|exact HR].
    - specialize (Hp n s1 s2 HR).
      destruct (s_peek o1 n s1) as [b1 t1]; destruct (s_peek o2 n s2) as [b2 t2].
      cbn [fst snd] in *. destruct Hp as [E HR']. subst b2. apply IH; exact HR'.
    - specialize (Hr s1 s2 HR).
      destruct (s_read_rune o1 s1) as [b1 t1]; destruct (s_read_rune o2 s2) as [b2 t2].
      cbn [fst snd] in *. destruct Hr as [E HR']. subst b2. apply IH; exact HR'.
  Qed.
End SimFacts.

(* Two implementations that both simulate a common third one give equal answers to every client:
   this is the shape in which C14 is used (two chunkings of the same bytes, both refining the pure
   stream). *)
Section TwoSided.
  Variables S1 S2 S3 : Type.
  Variable R1 : S1 -> S3 -> Prop.
  Variable R2 : S2 -> S3 -> Prop.
  Variable o1 : stream_ops S1.
  Variable o2 : stream_ops S2.
  Variable o3 : stream_ops S3.
  Hypothesis H1 : stream_sim R1 o1 o3.
  Hypothesis H2 : stream_sim R2 o2 o3.

  Theorem sim_two_run_ops : forall ops s1 s2 s3, R1 s1 s3 -> R2 s2 s3 ->
    fst (run_ops o1 ops s1) = fst (run_ops o2 ops s2).
  Proof.
    intros ops s1 s2 s3 Ha Hb.
    destruct (sim_run_ops H1 ops _ _ Ha) as [E1 _]. destruct (sim_run_ops H2 ops _ _ Hb) as [E2 _].
    congruence.
  Qed.

  Theorem sim_two_run_client : forall (A : Type) (c : client A) s1 s2 s3, R1 s1 s3 -> R2 s2 s3 ->
    fst (run_client o1 c s1) = fst (run_client o2 c s2).
  Proof.
    intros A c s1 s2 s3 Ha Hb.
    destruct (sim_run_client H1 c _ _ Ha) as [E1 _]. destruct (sim_run_client H2 c _ _ Hb) as [E2 _].
    congruence.
  Qed.
End TwoSided.
