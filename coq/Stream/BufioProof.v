(* Refinement proofs for Stream/BufioModel.v.

   Part 1 (C14): over well-behaved scripts (no error other than a terminal io.EOF, never 100
     consecutive empty reads) bufio_stream simulates pure_stream through
         abs st = window ++ (all bytes the script will still deliver),
     whatever the chunking:  bufio_refines_pure.
   Part 2 (C15): over ARBITRARY scripts, the error-tracking wrapper's field equals the first
     non-EOF error among all Read calls performed so far (tracked_is_first_read_error), it is
     monotone, no loop of the model runs out of fuel, and ReadRune reporting "end of input" means
     either a tracked error or (for scripts without explicit EOF chunks / long empty runs) that the
     whole script was consumed without any error. *)
From Coq Require Import List NArith Bool Arith Lia ZifyN ZifyNat ZifyBool.
From DC Require Import Base.Utf8 Base.Stream Stream.Utf8Prefix Stream.Simulation Stream.BufioModel.
Import ListNotations.

(* ------------------------------------------------------------------------------------------ *)
(* Specification vocabulary                                                                   *)
(* ------------------------------------------------------------------------------------------ *)

(* all bytes a script delivers *)
Fixpoint data_of (s : list chunk) : list N :=
  match s with
  | [] => []
  | Data bs :: r => bs ++ data_of r
  | Err _ :: r => data_of r
  | DataErr bs _ :: r => bs ++ data_of r
  end.

Definition abs (st : bstate) : list N := win st ++ data_of (script st).

(* number of leading (0, nil) reads *)
Fixpoint empty_run (s : list chunk) : nat :=
  match s with
  | Data [] :: r => S (empty_run r)
  | _ => O
  end.

Definition nodata (s : list chunk) : bool :=
  match data_of s with [] => true | _ :: _ => false end.

(* an error chunk is acceptable only if it is io.EOF and no byte follows it *)
Definition chunk_ok (c : chunk) (rest : list chunk) : bool :=
  match c with
  | Data _ => true
  | Err e => is_eof e && nodata rest
  | DataErr _ e => is_eof e && nodata rest
  end.

(* well-behaved: the only error ever returned is io.EOF, at the end of the data (alone, repeated,
   or together with the last bytes), and the reader never returns (0, nil) 100 times in a row *)
Fixpoint well_behavedb (s : list chunk) : bool :=
  match s with
  | [] => true
  | c :: r =>
    (empty_run (c :: r) <? max_consecutive_empty_reads) && chunk_ok c r && well_behavedb r
  end.

Definition well_behaved (s : list chunk) : Prop := well_behavedb s = true.

Definition wb_state (st : bstate) : Prop :=
  diverged st = false /\
  length (win st) <= bufio_size /\
  well_behaved (script st) /\
  (berr st = None \/ (berr st = Some (GE eof_code) /\ data_of (script st) = [])).

(* non-EOF errors of a script, in order *)
Definition err_list (e : option N) : list N :=
  match e with
  | None => []
  | Some c => if is_eof c then [] else [c]
  end.

Fixpoint script_errs (s : list chunk) : list N :=
  match s with
  | [] => []
  | Data _ :: r => script_errs r
  | Err e :: r => err_list (Some e) ++ script_errs r
  | DataErr _ e :: r => err_list (Some e) ++ script_errs r
  end.

(* the Read calls performed so far, oldest first, and the non-EOF errors they returned *)
Definition read_history (st : bstate) : list rentry := rev (rlog st).
Definition entry_errs (h : list rentry) : list N := flat_map (fun x => err_list (re_err x)) h.
Definition read_errors (st : bstate) : list N := entry_errs (read_history st).
Definition first_read_error (st : bstate) : option N := hd_error (read_errors st).

(* plain scripts: no explicit io.EOF chunk (EOF only by exhaustion) and no long empty run *)
Definition chunk_plain (c : chunk) : bool :=
  match c with
  | Data _ => true
  | Err e => negb (is_eof e)
  | DataErr _ e => negb (is_eof e)
  end.

Fixpoint plainb (s : list chunk) : bool :=
  match s with
  | [] => true
  | c :: r => (empty_run (c :: r) <? max_consecutive_empty_reads) && chunk_plain c && plainb r
  end.

Definition plain (s : list chunk) : Prop := plainb s = true.

(* ------------------------------------------------------------------------------------------ *)
(* Arithmetic about the constants, then keep them abstract                                     *)
(* ------------------------------------------------------------------------------------------ *)

Lemma bufio_size_gt_4 : 4 < bufio_size.
Proof. apply Nat.ltb_lt. vm_compute. reflexivity. Qed.

Lemma peek_fuel_eq : peek_fuel = S bufio_size.
Proof. reflexivity. Qed.

Local Opaque bufio_size.
Local Arguments Nat.sub : simpl never.
Local Arguments Nat.leb : simpl never.
Local Arguments Nat.ltb : simpl never.
Local Arguments Nat.min : simpl never.

Lemma is_eof_true : forall c, is_eof c = true <-> c = eof_code.
Proof. intros c. unfold is_eof. apply N.eqb_eq. Qed.

Lemma is_eof_eof : is_eof eof_code = true.
Proof. reflexivity. Qed.

(* ------------------------------------------------------------------------------------------ *)
(* One Read call                                                                               *)
(* ------------------------------------------------------------------------------------------ *)

Lemma src_read_spec : forall free s bs e s',
  src_read free s = (bs, e, s') ->
  data_of s = bs ++ data_of s' /\ length bs <= free /\
  script_errs s = err_list e ++ script_errs s'.
Proof.
  intros free s bs e s' H. destruct s as [|[b|c|b c] r]; cbn [src_read] in H.
  - inversion H; subst. repeat split; cbn; lia.
  - destruct (length b <=? free) eqn:E; inversion H; subst; cbn [data_of script_errs err_list app].
    + repeat split. apply Nat.leb_le; exact E.
    + rewrite app_assoc, firstn_skipn. repeat split. rewrite firstn_length; lia.
  - inversion H; subst. cbn [data_of script_errs app length]. repeat split. lia.
  - destruct (length b <=? free) eqn:E; inversion H; subst; cbn [data_of script_errs err_list app].
    + repeat split. apply Nat.leb_le; exact E.
    + rewrite app_assoc, firstn_skipn. repeat split. rewrite firstn_length; lia.
Qed.

(* what a Read does to a script, case by case *)
Lemma src_read_cases : forall free s bs e s',
  0 < free -> src_read free s = (bs, e, s') ->
  (s = [] /\ bs = [] /\ e = Some eof_code /\ s' = []) \/
  (exists r, s = Data [] :: r /\ bs = [] /\ e = None /\ s' = r) \/
  (exists b r, s = Data b :: r /\ bs = b /\ bs <> [] /\ e = None /\ s' = r) \/
  (exists b r, s = Data b :: r /\ bs <> [] /\ e = None /\ s' = Data (skipn free b) :: r /\
               skipn free b <> []) \/
  (exists c r, s = Err c :: r /\ bs = [] /\ e = Some c /\ s' = r) \/
  (exists b c r, s = DataErr b c :: r /\ bs = b /\ e = Some c /\ s' = r) \/
  (exists b c r, s = DataErr b c :: r /\ bs <> [] /\ e = None /\
                 s' = DataErr (skipn free b) c :: r).
Proof.
  intros free s bs e s' Hfree H. destruct s as [|[b|c|b c] r]; cbn [src_read] in H.
  - left. injection H as E1 E2 E3. subst bs e s'. auto.
  - destruct (length b <=? free) eqn:E; injection H as E1 E2 E3; subst bs e s'.
    + destruct b as [|x t].
      * right; left. exists r. auto.
      * right; right; left. exists (x :: t), r. repeat split; congruence.
    + right; right; right; left. exists b, r. apply Nat.leb_gt in E.
      assert (Hb : firstn free b <> []).
      { intros C. apply (f_equal (@length N)) in C. rewrite firstn_length in C. cbn in C. lia. }
      assert (Hs : skipn free b <> []).
      { intros C. apply (f_equal (@length N)) in C. rewrite skipn_length in C. cbn in C. lia. }
      repeat split; auto.
  - right; right; right; right; left. injection H as E1 E2 E3. subst bs e s'. exists c, r. auto.
  - destruct (length b <=? free) eqn:E; injection H as E1 E2 E3; subst bs e s'.
    + right; right; right; right; right; left. exists b, c, r. auto.
    + right; right; right; right; right; right. exists b, c, r. apply Nat.leb_gt in E.
      assert (Hb : firstn free b <> []).
      { intros C. apply (f_equal (@length N)) in C. rewrite firstn_length in C. cbn in C. lia. }
      repeat split; auto.
Qed.

Lemma read_once_fields : forall st bs e st1,
  read_once st = (bs, e, st1) ->
  exists s', src_read (bufio_size - length (win st)) (script st) = (bs, e, s') /\
    win st1 = win st ++ bs /\ berr st1 = berr st /\ script st1 = s' /\
    tracked st1 = track (tracked st) e /\
    rlog st1 = {| re_free := N.of_nat (bufio_size - length (win st));
                  re_n := N.of_nat (length bs); re_err := e |} :: rlog st /\
    diverged st1 = diverged st.
Proof.
  intros st bs e st1 H. unfold read_once in H.
  destruct (src_read (bufio_size - length (win st)) (script st)) as [[bs0 e0] s0] eqn:Hsr.
  inversion H; subst. exists s0. cbn. repeat split; reflexivity.
Qed.

Lemma read_once_abs : forall st bs e st1, read_once st = (bs, e, st1) -> abs st1 = abs st.
Proof.
  intros st bs e st1 H. apply read_once_fields in H.
  destruct H as (s' & Hsr & Hw & _ & Hs & _). apply src_read_spec in Hsr.
  destruct Hsr as (Hd & _). unfold abs. rewrite Hw, Hs, Hd, app_assoc. reflexivity.
Qed.

(* ------------------------------------------------------------------------------------------ *)
(* Part 1: well-behaved scripts (C14)                                                          *)
(* ------------------------------------------------------------------------------------------ *)

Lemma well_behaved_cons : forall c r, well_behaved (c :: r) ->
  empty_run (c :: r) < max_consecutive_empty_reads /\ chunk_ok c r = true /\ well_behaved r.
Proof.
  intros c r H. unfold well_behaved in *. cbn [well_behavedb] in H.
  apply andb_true_iff in H. destruct H as [H H3]. apply andb_true_iff in H. destruct H as [H1 H2].
  apply Nat.ltb_lt in H1. auto.
Qed.

Lemma well_behaved_empty_run : forall s, well_behaved s ->
  empty_run s < max_consecutive_empty_reads.
Proof.
  intros [|c r] H.
  - cbn. unfold max_consecutive_empty_reads. lia.
  - apply well_behaved_cons in H. tauto.
Qed.

Lemma well_behaved_cons_intro : forall c r,
  empty_run (c :: r) < max_consecutive_empty_reads -> chunk_ok c r = true -> well_behaved r ->
  well_behaved (c :: r).
Proof.
  intros c r H1 H2 H3. unfold well_behaved in *. cbn [well_behavedb].
  apply Nat.ltb_lt in H1. rewrite H1, H2, H3. reflexivity.
Qed.

Lemma nodata_true : forall s, nodata s = true <-> data_of s = [].
Proof. intros s. unfold nodata. destruct (data_of s); split; congruence. Qed.

Lemma max_empty_pos : 0 < max_consecutive_empty_reads.
Proof. unfold max_consecutive_empty_reads. lia. Qed.

(* A Read on a well-behaved state. *)
Lemma read_once_wb : forall st bs e st1,
  wb_state st -> berr st = None -> length (win st) < bufio_size ->
  read_once st = (bs, e, st1) ->
  abs st1 = abs st /\ diverged st1 = false /\ berr st1 = None /\
  length (win st1) <= bufio_size /\ length (win st1) = length (win st) + length bs /\
  well_behaved (script st1) /\
  match e with
  | Some c => c = eof_code /\ data_of (script st1) = []
  | None => match bs with
            | [] => S (empty_run (script st1)) = empty_run (script st)
            | _ :: _ => True
            end
  end.
Proof.
  intros st bs e st1 (Hdiv & Hlen & Hwb & Herr) Hnone Hlt H.
  pose proof (read_once_abs _ _ _ _ H) as Habs.
  apply read_once_fields in H.
  destruct H as (s' & Hsr & Hw & Hbe & Hs & _ & _ & Hdv).
  pose proof (src_read_spec _ _ _ _ _ Hsr) as (Hd & Hbl & _).
  assert (Hfree : 0 < bufio_size - length (win st)) by lia.
  assert (Hl1 : length (win st1) = length (win st) + length bs) by (rewrite Hw, app_length; lia).
  split; [exact Habs|]. split; [congruence|]. split; [congruence|].
  split; [lia|]. split; [exact Hl1|]. rewrite Hs. clear Hs Habs.
  pose proof (src_read_cases _ _ _ _ _ Hfree Hsr) as Hc.
  destruct Hc as [(E1 & E2 & E3 & E4) | [(r & E1 & E2 & E3 & E4) | [(b & r & E1 & E2 & E2' & E3 & E4)
    | [(b & r & E1 & E2 & E3 & E4 & E5) | [(c & r & E1 & E2 & E3 & E4)
    | [(b & c & r & E1 & E2 & E3 & E4) | (b & c & r & E1 & E2 & E3 & E4)]]]]]];
    rewrite E1 in *; subst e s'.
  - split; [reflexivity|]. split; reflexivity.
  - subst bs. apply well_behaved_cons in Hwb. destruct Hwb as (_ & _ & Hr).
    split; [exact Hr|]. reflexivity.
  - apply well_behaved_cons in Hwb. destruct Hwb as (_ & _ & Hr).
    split; [exact Hr|]. destruct bs; [congruence|exact I].
  - apply well_behaved_cons in Hwb. destruct Hwb as (_ & _ & Hr).
    split.
    + apply well_behaved_cons_intro; [|reflexivity|exact Hr].
      destruct (skipn (bufio_size - length (win st)) b); [congruence|].
      cbn [empty_run]. apply max_empty_pos.
    + destruct bs; [congruence|exact I].
  - apply well_behaved_cons in Hwb. destruct Hwb as (_ & Hok & Hr).
    cbn [chunk_ok] in Hok. apply andb_true_iff in Hok. destruct Hok as [Ho1 Ho2].
    split; [exact Hr|]. split; [apply is_eof_true; exact Ho1 | apply nodata_true; exact Ho2].
  - apply well_behaved_cons in Hwb. destruct Hwb as (_ & Hok & Hr).
    cbn [chunk_ok] in Hok. apply andb_true_iff in Hok. destruct Hok as [Ho1 Ho2].
    split; [exact Hr|]. split; [apply is_eof_true; exact Ho1 | apply nodata_true; exact Ho2].
  - apply well_behaved_cons in Hwb. destruct Hwb as (_ & Hok & Hr).
    split.
    + apply well_behaved_cons_intro; [cbn [empty_run]; apply max_empty_pos|exact Hok|exact Hr].
    + destruct bs; [congruence|exact I].
Qed.

Lemma wb_state_set_berr_eof : forall st,
  diverged st = false -> length (win st) <= bufio_size -> well_behaved (script st) ->
  data_of (script st) = [] -> wb_state (set_berr (Some (GE eof_code)) st).
Proof.
  intros st H1 H2 H3 H4. unfold wb_state. cbn. repeat split; auto.
Qed.

Lemma abs_set_berr : forall e st, abs (set_berr e st) = abs st.
Proof. reflexivity. Qed.

(* fill on a well-behaved state: same abs; either more bytes in the window and no error, or
   io.EOF stored and nothing left to deliver *)
Lemma fill_loop_wb : forall i st,
  wb_state st -> berr st = None -> length (win st) < bufio_size ->
  empty_run (script st) < i ->
  wb_state (fill_loop i st) /\ abs (fill_loop i st) = abs st /\
  ((berr (fill_loop i st) = None /\ length (win st) < length (win (fill_loop i st))) \/
   berr (fill_loop i st) <> None).
Proof.
  induction i as [|i IH]; intros st Hwb Hnone Hlt Hrun; [lia|].
  cbn [fill_loop]. destruct (read_once st) as [[bs e] st1] eqn:Hro.
  pose proof (read_once_wb _ _ _ _ Hwb Hnone Hlt Hro) as (Habs & Hdv & Hbe & Hl & Hl1 & Hw & Hcase).
  destruct e as [c|].
  - destruct Hcase as [Hc Hd]. subst c. split; [|split].
    + apply wb_state_set_berr_eof; auto.
    + rewrite abs_set_berr. exact Habs.
    + right. cbn. congruence.
  - destruct bs as [|b bs].
    + assert (Hwb1 : wb_state st1) by (unfold wb_state; auto).
      assert (Hlt1 : length (win st1) < bufio_size) by (cbn in Hl1; lia).
      assert (Hrun1 : empty_run (script st1) < i) by lia.
      specialize (IH st1 Hwb1 Hbe Hlt1 Hrun1). destruct IH as (I1 & I2 & I3).
      split; [exact I1|]. split; [congruence|].
      cbn in Hl1. destruct I3 as [[I3 I4]|I3]; [left; split; [exact I3|lia] | right; exact I3].
    + split; [unfold wb_state; auto|]. split; [exact Habs|]. left. split; [exact Hbe|].
      cbn in Hl1. lia.
Qed.

Lemma fill_wb : forall st,
  wb_state st -> berr st = None -> length (win st) < bufio_size ->
  wb_state (fill st) /\ abs (fill st) = abs st /\
  ((berr (fill st) = None /\ length (win st) < length (win (fill st))) \/ berr (fill st) <> None).
Proof.
  intros st Hwb Hnone Hlt. unfold fill. apply fill_loop_wb; auto.
  apply well_behaved_empty_run. destruct Hwb as (_ & _ & H & _). exact H.
Qed.

(* ---------- Peek ---------- *)

Lemma peek_cond_true : forall n st, peek_cond n st = true ->
  length (win st) < n /\ length (win st) < bufio_size /\ berr st = None.
Proof.
  intros n st H. unfold peek_cond in H.
  apply andb_true_iff in H. destruct H as [H H3]. apply andb_true_iff in H. destruct H as [H1 H2].
  apply Nat.ltb_lt in H1. apply Nat.ltb_lt in H2. destruct (berr st); [discriminate|]. auto.
Qed.

Lemma peek_cond_false : forall n st, peek_cond n st = false ->
  n <= length (win st) \/ bufio_size <= length (win st) \/ berr st <> None.
Proof.
  intros n st H. unfold peek_cond in H.
  destruct (length (win st) <? n) eqn:E1; [|apply Nat.ltb_ge in E1; auto].
  destruct (length (win st) <? bufio_size) eqn:E2; [|apply Nat.ltb_ge in E2; auto].
  destruct (berr st); [right; right; congruence|discriminate].
Qed.

Lemma peek_loop_done : forall fuel n st, peek_cond n st = false -> peek_loop fuel n st = st.
Proof. intros [|f] n st H; cbn [peek_loop]; rewrite H; reflexivity. Qed.

Lemma peek_loop_wb : forall fuel n st,
  wb_state st -> bufio_size < fuel + length (win st) ->
  wb_state (peek_loop fuel n st) /\ abs (peek_loop fuel n st) = abs st /\
  peek_cond n (peek_loop fuel n st) = false.
Proof.
  induction fuel as [|f IH]; intros n st Hwb Hfuel.
  - destruct (peek_cond n st) eqn:Hc.
    + apply peek_cond_true in Hc. lia.
    + rewrite peek_loop_done by exact Hc. auto.
  - destruct (peek_cond n st) eqn:Hc.
    + cbn [peek_loop]. rewrite Hc. apply peek_cond_true in Hc. destruct Hc as (_ & Hlt & Hnone).
      pose proof (fill_wb st Hwb Hnone Hlt) as (F1 & F2 & F3).
      destruct F3 as [[F3 F4]|F3].
      * assert (Hfuel' : bufio_size < f + length (win (fill st))) by lia.
        specialize (IH n (fill st) F1 Hfuel'). destruct IH as (I1 & I2 & I3).
        split; [exact I1|]. split; [congruence|exact I3].
      * assert (Hc' : peek_cond n (fill st) = false).
        { unfold peek_cond. destruct (berr (fill st)); [|congruence].
          cbn. rewrite andb_false_r. reflexivity. }
        rewrite peek_loop_done by exact Hc'. auto.
    + rewrite peek_loop_done by exact Hc. auto.
Qed.

Lemma wb_state_clear : forall st, wb_state st -> wb_state (set_berr None st).
Proof.
  intros st (H1 & H2 & H3 & H4). unfold wb_state. cbn. auto.
Qed.

(* when the loop condition is false on a well-behaved state, the window is the right prefix *)
Lemma window_is_prefix : forall n st, wb_state st -> peek_cond n st = false ->
  firstn (min n bufio_size) (abs st) = firstn n (win st) /\
  (length (win st) < n -> n <= bufio_size -> berr st <> None).
Proof.
  intros n st (Hdv & Hlen & Hwb & Herr) Hc. apply peek_cond_false in Hc. unfold abs.
  destruct Herr as [Hnone|[Heof Hnd]].
  - (* no stored error: the window has n bytes or is full *)
    assert (Hge : n <= length (win st) \/ bufio_size <= length (win st)).
    { destruct Hc as [Hc|[Hc|Hc]]; auto. congruence. }
    split.
    + rewrite firstn_app.
      assert (E : min n bufio_size - length (win st) = 0) by lia. rewrite E, firstn_O, app_nil_r.
      destruct (Nat.le_gt_cases n bufio_size) as [Hn|Hn].
      * rewrite Nat.min_l by exact Hn. reflexivity.
      * rewrite Nat.min_r by lia. rewrite !firstn_all2 by lia. reflexivity.
    + intros Hlt Hn. lia.
  - rewrite Hnd, app_nil_r. split.
    + destruct (Nat.le_gt_cases n bufio_size) as [Hn|Hn].
      * rewrite Nat.min_l by exact Hn. reflexivity.
      * rewrite Nat.min_r by lia. rewrite !firstn_all2 by lia. reflexivity.
    + intros _ _. congruence.
Qed.

Theorem bufio_peek_refines : forall n st, wb_state st ->
  fst (bufio_peek n st) = firstn (min n bufio_size) (abs st) /\
  wb_state (snd (bufio_peek n st)) /\
  abs (snd (bufio_peek n st)) = abs st.
Proof.
  intros n st Hwb. unfold bufio_peek, bufio_peek_full.
  assert (Hfuel : bufio_size < peek_fuel + length (win st)) by (rewrite peek_fuel_eq; lia).
  pose proof (peek_loop_wb peek_fuel n st Hwb Hfuel) as (L1 & L2 & L3).
  set (st1 := peek_loop peek_fuel n st) in *. clearbody st1.
  pose proof (window_is_prefix n st1 L1 L3) as (W1 & W2).
  pose proof L1 as (_ & Hlen1 & _ & _).
  rewrite <- L2.
  destruct (bufio_size <? n) eqn:E1.
  - apply Nat.ltb_lt in E1. cbn [fst snd]. split; [|auto].
    rewrite W1. rewrite firstn_all2 by lia. reflexivity.
  - apply Nat.ltb_ge in E1. destruct (length (win st1) <? n) eqn:E2; cbn [fst snd].
    + apply Nat.ltb_lt in E2. split; [|split].
      * rewrite W1. rewrite firstn_all2 by lia. reflexivity.
      * apply wb_state_clear; exact L1.
      * reflexivity.
    + split; [|auto]. rewrite W1. reflexivity.
Qed.

(* ---------- ReadRune ---------- *)

Lemma rr_cond_true : forall st, rr_cond st = true ->
  length (win st) < utf_max /\ full_rune (win st) = false /\ berr st = None /\
  length (win st) < bufio_size.
Proof.
  intros st H. unfold rr_cond in H.
  apply andb_true_iff in H. destruct H as [H H4]. apply andb_true_iff in H. destruct H as [H H3].
  apply andb_true_iff in H. destruct H as [H1 H2].
  apply Nat.ltb_lt in H1. apply Nat.ltb_lt in H4. apply negb_true_iff in H2.
  destruct (berr st); [discriminate|]. auto.
Qed.

Lemma rr_cond_false : forall st, rr_cond st = false ->
  utf_max <= length (win st) \/ full_rune (win st) = true \/ berr st <> None \/
  bufio_size <= length (win st).
Proof.
  intros st H. unfold rr_cond in H.
  destruct (length (win st) <? utf_max) eqn:E1; [|apply Nat.ltb_ge in E1; auto].
  destruct (full_rune (win st)) eqn:E2; [auto|].
  destruct (berr st) eqn:E3; [right; right; left; congruence|].
  destruct (length (win st) <? bufio_size) eqn:E4; [discriminate|apply Nat.ltb_ge in E4; auto].
Qed.

Lemma rr_loop_done : forall fuel st, rr_cond st = false -> rr_loop fuel st = st.
Proof. intros [|f] st H; cbn [rr_loop]; rewrite H; reflexivity. Qed.

Lemma rr_loop_wb : forall fuel st,
  wb_state st -> utf_max < fuel + length (win st) ->
  wb_state (rr_loop fuel st) /\ abs (rr_loop fuel st) = abs st /\
  rr_cond (rr_loop fuel st) = false.
Proof.
  induction fuel as [|f IH]; intros st Hwb Hfuel.
  - destruct (rr_cond st) eqn:Hc.
    + apply rr_cond_true in Hc. lia.
    + rewrite rr_loop_done by exact Hc. auto.
  - destruct (rr_cond st) eqn:Hc.
    + cbn [rr_loop]. rewrite Hc. apply rr_cond_true in Hc. destruct Hc as (_ & _ & Hnone & Hlt).
      pose proof (fill_wb st Hwb Hnone Hlt) as (F1 & F2 & F3).
      destruct F3 as [[F3 F4]|F3].
      * assert (Hfuel' : utf_max < f + length (win (fill st))) by lia.
        specialize (IH (fill st) F1 Hfuel'). destruct IH as (I1 & I2 & I3).
        split; [exact I1|]. split; [congruence|exact I3].
      * assert (Hc' : rr_cond (fill st) = false).
        { unfold rr_cond. destruct (berr (fill st)); [|congruence].
          cbn. rewrite andb_false_r. reflexivity. }
        rewrite rr_loop_done by exact Hc'. auto.
    + rewrite rr_loop_done by exact Hc. auto.
Qed.

Lemma wb_state_set_win : forall w st, wb_state st -> length w <= length (win st) ->
  wb_state (set_win w st).
Proof.
  intros w st (H1 & H2 & H3 & H4) Hl. unfold wb_state. cbn. repeat split; auto. lia.
Qed.

Theorem bufio_read_rune_refines : forall st, wb_state st ->
  fst (bufio_read_rune st) = fst (pure_read_rune (abs st)) /\
  wb_state (snd (bufio_read_rune st)) /\
  abs (snd (bufio_read_rune st)) = snd (pure_read_rune (abs st)).
Proof.
  intros st Hwb. unfold bufio_read_rune, bufio_read_rune_full.
  assert (Hfuel : utf_max < rr_fuel + length (win st)) by (unfold rr_fuel; lia).
  pose proof (rr_loop_wb rr_fuel st Hwb Hfuel) as (L1 & L2 & L3).
  set (st1 := rr_loop rr_fuel st) in *. clearbody st1. rewrite <- L2.
  apply rr_cond_false in L3. pose proof L1 as (Hdv & Hlen & Hws & Herr).
  pose proof bufio_size_gt_4 as Hsz.
  destruct (win st1) as [|b0 t] eqn:Hw.
  - (* empty window: the loop stopped on the stored io.EOF, nothing is left *)
    assert (Heof : berr st1 = Some (GE eof_code) /\ data_of (script st1) = []).
    { destruct Herr as [Hn|He]; [|exact He]. exfalso.
      destruct L3 as [L3|[L3|[L3|L3]]]; cbn in L3; unfold utf_max in *; try lia; try congruence. }
    destruct Heof as [He Hd]. rewrite He. cbn [fst snd].
    assert (Ha : abs st1 = []) by (unfold abs; rewrite Hw, Hd; reflexivity).
    rewrite Ha. cbn [pure_read_rune fst snd]. split; [reflexivity|]. split.
    + apply wb_state_clear; exact L1.
    + unfold abs. cbn. rewrite Hw, Hd. reflexivity.
  - (* the decoded rune only depends on the window *)
    assert (Hdec : decode_rune (abs st1) = decode_rune (b0 :: t)).
    { unfold abs. rewrite Hw.
      destruct Herr as [Hn|[He Hd]]; [|rewrite Hd, app_nil_r; reflexivity].
      destruct L3 as [L3|[L3|[L3|L3]]].
      - apply decode_rune_app_4. unfold utf_max in L3. exact L3.
      - apply decode_rune_app_full. exact L3.
      - congruence.
      - apply decode_rune_app_4. lia. }
    assert (Hfast : (if N.ltb b0 128 then (b0, 1) else decode_rune (b0 :: t)) = decode_rune (b0 :: t)).
    { destruct (N.ltb b0 128) eqn:E; [|reflexivity]. symmetry. apply decode_rune_ascii. exact E. }
    rewrite Hfast.
    assert (Hne : b0 :: t <> []) by congruence.
    pose proof (decode_rune_size (b0 :: t) Hne) as Hsize.
    destruct (decode_rune (b0 :: t)) as [r sz] eqn:Hd. cbn [snd] in Hsize. cbn [fst snd].
    assert (Hpure : pure_read_rune (abs st1) = (Some (r, sz), skipn sz (abs st1))).
    { unfold pure_read_rune. rewrite Hdec. unfold abs. rewrite Hw. reflexivity. }
    rewrite Hpure. cbn [fst snd]. split; [reflexivity|]. split.
    + apply wb_state_set_win; [exact L1|]. rewrite Hw, skipn_length. lia.
    + unfold abs. cbn [set_win win script]. rewrite Hw.
      rewrite skipn_app. assert (E : sz - length (b0 :: t) = 0) by lia. rewrite E. reflexivity.
Qed.

(* ---------- the simulation ---------- *)

Definition bufio_abs_rel (st : bstate) (l : list N) : Prop := wb_state st /\ abs st = l.

Theorem bufio_refines_pure : stream_sim bufio_abs_rel bufio_stream pure_stream.
Proof.
  split.
  - intros n s1 s2 [Hwb Ha]. subst s2. cbn [s_peek bufio_stream pure_stream].
    pose proof (bufio_peek_refines n s1 Hwb) as (P1 & P2 & P3).
    unfold pure_peek. cbn [fst snd]. split; [exact P1|]. split; assumption.
  - intros s1 s2 [Hwb Ha]. subst s2. cbn [s_read_rune bufio_stream pure_stream].
    pose proof (bufio_read_rune_refines s1 Hwb) as (P1 & P2 & P3).
    split; [exact P1|]. split; assumption.
Qed.

Theorem bufio_init_rel : forall s, well_behaved s -> bufio_abs_rel (bufio_init s) (data_of s).
Proof.
  intros s H. split; [|reflexivity]. unfold wb_state. cbn. repeat split; auto. lia.
Qed.

(* C14 core, fixed op sequences: the answers are those of the pure stream over the bytes *)
Theorem bufio_run_ops_pure : forall s ops, well_behaved s ->
  fst (run_ops bufio_stream ops (bufio_init s)) = fst (run_ops pure_stream ops (data_of s)).
Proof.
  intros s ops H.
  apply (sim_run_ops bufio_refines_pure ops _ _ (bufio_init_rel s H)).
Qed.

(* ... hence equal for any two chunkings of the same bytes *)
Theorem bufio_run_ops_chunking : forall s1 s2 ops,
  well_behaved s1 -> well_behaved s2 -> data_of s1 = data_of s2 ->
  fst (run_ops bufio_stream ops (bufio_init s1)) = fst (run_ops bufio_stream ops (bufio_init s2)).
Proof.
  intros s1 s2 ops H1 H2 E. rewrite !bufio_run_ops_pure by assumption. rewrite E. reflexivity.
Qed.

(* the same for adaptive clients *)
Theorem bufio_run_client_pure : forall (A : Type) (c : client A) s, well_behaved s ->
  fst (run_client bufio_stream c (bufio_init s)) = fst (run_client pure_stream c (data_of s)).
Proof.
  intros A c s H.
  apply (sim_run_client bufio_refines_pure c _ _ (bufio_init_rel s H)).
Qed.

Theorem bufio_run_client_chunking : forall (A : Type) (c : client A) s1 s2,
  well_behaved s1 -> well_behaved s2 -> data_of s1 = data_of s2 ->
  fst (run_client bufio_stream c (bufio_init s1)) = fst (run_client bufio_stream c (bufio_init s2)).
Proof.
  intros A c s1 s2 H1 H2 E. rewrite !bufio_run_client_pure by assumption. rewrite E. reflexivity.
Qed.

(* ------------------------------------------------------------------------------------------ *)
(* Part 2: arbitrary scripts (C15)                                                             *)
(* ------------------------------------------------------------------------------------------ *)

(* ---------- fill always terminates with progress: no loop of the model runs out of fuel ---------- *)

Lemma fill_loop_progress : forall i st,
  length (win st) < bufio_size ->
  length (win (fill_loop i st)) <= bufio_size /\
  diverged (fill_loop i st) = diverged st /\
  (berr (fill_loop i st) <> None \/ length (win st) < length (win (fill_loop i st))).
Proof.
  induction i as [|i IH]; intros st Hlt.
  - cbn. repeat split; [lia|]. left. congruence.
  - cbn [fill_loop]. destruct (read_once st) as [[bs e] st1] eqn:Hro.
    apply read_once_fields in Hro. destruct Hro as (s' & Hsr & Hw & Hbe & Hs & _ & _ & Hdv).
    apply src_read_spec in Hsr. destruct Hsr as (_ & Hbl & _).
    assert (Hl1 : length (win st1) = length (win st) + length bs) by (rewrite Hw, app_length; lia).
    destruct e as [c|].
    + cbn. repeat split; [lia|exact Hdv|]. left. congruence.
    + destruct bs as [|b bs].
      * cbn [length] in Hl1, Hbl. assert (Hlt1 : length (win st1) < bufio_size) by lia.
        specialize (IH st1 Hlt1). destruct IH as (I1 & I2 & I3).
        repeat split; [exact I1|congruence|]. destruct I3 as [I3|I3]; [left; exact I3|right; lia].
      * cbn [length] in Hl1, Hbl. repeat split; [lia|exact Hdv|]. right. lia.
Qed.

Lemma peek_loop_nodiv : forall fuel n st,
  length (win st) <= bufio_size -> bufio_size < fuel + length (win st) ->
  diverged (peek_loop fuel n st) = diverged st.
Proof.
  induction fuel as [|f IH]; intros n st Hlen Hfuel.
  - destruct (peek_cond n st) eqn:Hc.
    + apply peek_cond_true in Hc. lia.
    + rewrite peek_loop_done by exact Hc. reflexivity.
  - destruct (peek_cond n st) eqn:Hc.
    + cbn [peek_loop]. rewrite Hc. apply peek_cond_true in Hc. destruct Hc as (_ & Hlt & Hnone).
      pose proof (fill_loop_progress max_consecutive_empty_reads st Hlt) as (F1 & F2 & F3).
      fold (fill st) in F1, F2, F3. destruct F3 as [F3|F3].
      * assert (Hc' : peek_cond n (fill st) = false).
        { unfold peek_cond. destruct (berr (fill st)); [|congruence].
          cbn. rewrite andb_false_r. reflexivity. }
        rewrite peek_loop_done by exact Hc'. exact F2.
      * rewrite IH by lia. exact F2.
    + rewrite peek_loop_done by exact Hc. reflexivity.
Qed.

Lemma rr_loop_nodiv : forall fuel st,
  length (win st) <= bufio_size -> utf_max < fuel + length (win st) ->
  diverged (rr_loop fuel st) = diverged st.
Proof.
  induction fuel as [|f IH]; intros st Hlen Hfuel.
  - destruct (rr_cond st) eqn:Hc.
    + apply rr_cond_true in Hc. lia.
    + rewrite rr_loop_done by exact Hc. reflexivity.
  - destruct (rr_cond st) eqn:Hc.
    + cbn [rr_loop]. rewrite Hc. apply rr_cond_true in Hc. destruct Hc as (_ & _ & Hnone & Hlt).
      pose proof (fill_loop_progress max_consecutive_empty_reads st Hlt) as (F1 & F2 & F3).
      fold (fill st) in F1, F2, F3. destruct F3 as [F3|F3].
      * assert (Hc' : rr_cond (fill st) = false).
        { unfold rr_cond. destruct (berr (fill st)); [|congruence].
          cbn. rewrite andb_false_r. reflexivity. }
        rewrite rr_loop_done by exact Hc'. exact F2.
      * rewrite IH by lia. exact F2.
    + rewrite rr_loop_done by exact Hc. reflexivity.
Qed.

(* ---------- generic transport of an invariant through the two operations ---------- *)

Section OpInvariant.
  Variable P : bstate -> Prop.
  Hypothesis Pfill : forall st, P st -> berr st = None -> length (win st) < bufio_size -> P (fill st).
  Hypothesis Pdiv : forall st, P st -> P (set_diverged st).
  Hypothesis Pclear : forall st, P st -> P (set_berr None st).
  Hypothesis Pskip : forall st k, P st -> P (set_win (skipn k (win st)) st).

  Lemma peek_loop_inv : forall fuel n st, P st -> P (peek_loop fuel n st).
  Proof.
    induction fuel as [|f IH]; intros n st HP; cbn [peek_loop];
      destruct (peek_cond n st) eqn:Hc; auto.
    apply peek_cond_true in Hc. destruct Hc as (_ & Hlt & Hnone). apply IH. apply Pfill; auto.
  Qed.

  Lemma rr_loop_inv : forall fuel st, P st -> P (rr_loop fuel st).
  Proof.
    induction fuel as [|f IH]; intros st HP; cbn [rr_loop];
      destruct (rr_cond st) eqn:Hc; auto.
    apply rr_cond_true in Hc. destruct Hc as (_ & _ & Hnone & Hlt). apply IH. apply Pfill; auto.
  Qed.

  Lemma peek_inv : forall n st, P st -> P (snd (bufio_peek n st)).
  Proof.
    intros n st HP. unfold bufio_peek, bufio_peek_full.
    pose proof (peek_loop_inv peek_fuel n st HP) as H1.
    destruct (bufio_size <? n); [exact H1|].
    destruct (length (win (peek_loop peek_fuel n st)) <? n); cbn [snd]; auto.
  Qed.

  Lemma read_rune_inv : forall st, P st -> P (snd (bufio_read_rune st)).
  Proof.
    intros st HP. unfold bufio_read_rune, bufio_read_rune_full.
    pose proof (rr_loop_inv rr_fuel st HP) as H1.
    set (st1 := rr_loop rr_fuel st) in *. clearbody st1.
    destruct (win st1) as [|b0 t] eqn:Hw; cbn [snd]; [auto|].
    destruct (if N.ltb b0 128 then (b0, 1) else decode_rune (b0 :: t)) as [r sz].
    cbn [snd]. rewrite <- Hw. apply Pskip. exact HP || exact H1.
  Qed.

  Lemma run_op_inv : forall x st, P st -> P (snd (run_op bufio_stream x st)).
  Proof.
    intros [n|] st HP; cbn [run_op bufio_stream s_peek s_read_rune].
    - pose proof (peek_inv n st HP) as H. destruct (bufio_peek n st). exact H.
    - pose proof (read_rune_inv st HP) as H. destruct (bufio_read_rune st). exact H.
  Qed.

  Lemma run_ops_inv : forall ops st, P st -> P (snd (run_ops bufio_stream ops st)).
  Proof.
    induction ops as [|x rest IH]; intros st HP; cbn [run_ops]; [exact HP|].
    pose proof (run_op_inv x st HP) as H. destruct (run_op bufio_stream x st) as [r st1].
    cbn [snd] in H. specialize (IH st1 H). destruct (run_ops bufio_stream rest st1). exact IH.
  Qed.

  Lemma run_client_inv : forall (A : Type) (c : client A) st, P st ->
    P (snd (run_client bufio_stream c st)).
  Proof.
    intros A c. induction c as [a|n k IH|k IH]; intros st HP;
      cbn [run_client bufio_stream s_peek s_read_rune].
    - exact HP.
    - pose proof (peek_inv n st HP) as H. destruct (bufio_peek n st) as [bs st1]. apply IH. exact H.
    - pose proof (read_rune_inv st HP) as H. destruct (bufio_read_rune st) as [r st1].
      apply IH. exact H.
  Qed.
End OpInvariant.

(* ---------- monotonicity of the tracked error; every consumed error is tracked ---------- *)

(* st' is a later state than st: the tracked error is kept, the history only grows, and if one
   of the new Read calls returned a non-EOF error then some error is tracked afterwards *)
Definition later (st st' : bstate) : Prop :=
  (forall e, tracked st = Some e -> tracked st' = Some e) /\
  exists new, rlog st' = new ++ rlog st /\
    forall x c, In x new -> re_err x = Some c -> is_eof c = false -> tracked st' <> None.

Lemma later_refl : forall st, later st st.
Proof. intros st. split; [auto|]. exists []. split; [reflexivity|]. intros x c []. Qed.

Lemma later_trans : forall a b c, later a b -> later b c -> later a c.
Proof.
  intros a b c [M1 (n1 & L1 & T1)] [M2 (n2 & L2 & T2)]. split; [auto|].
  exists (n2 ++ n1). split; [rewrite L2, L1, app_assoc; reflexivity|].
  intros x e Hin He Hne. apply in_app_or in Hin. destruct Hin as [Hin|Hin].
  - eapply T2; eauto.
  - specialize (T1 x e Hin He Hne). destruct (tracked b) as [t|] eqn:Eb; [|congruence].
    rewrite (M2 t eq_refl). congruence.
Qed.

Lemma later_same : forall st st',
  tracked st' = tracked st -> rlog st' = rlog st -> later st st'.
Proof.
  intros st st' Ht Hl. split; [intros e H; congruence|].
  exists []. split; [exact Hl|]. intros x c [].
Qed.

Lemma track_keeps : forall t e c, t = Some c -> track t e = Some c.
Proof.
  intros t e c H. subst t. destruct e as [d|]; cbn [track]; [|reflexivity].
  destruct (is_eof d); reflexivity.
Qed.

Lemma track_sets : forall t c, is_eof c = false -> track t (Some c) <> None.
Proof.
  intros t c H. cbn [track]. rewrite H. destruct t; congruence.
Qed.

Lemma read_once_later : forall st bs e st1, read_once st = (bs, e, st1) -> later st st1.
Proof.
  intros st bs e st1 H. apply read_once_fields in H.
  destruct H as (s' & _ & _ & _ & _ & Ht & Hl & _). split.
  - intros c Hc. rewrite Ht. apply track_keeps. exact Hc.
  - eexists [_]. split; [exact Hl|]. intros x c [Hx|[]] He Hne. subst x. cbn [re_err] in He.
    subst e. rewrite Ht. apply track_sets. exact Hne.
Qed.

Lemma fill_loop_later : forall i st, later st (fill_loop i st).
Proof.
  induction i as [|i IH]; intros st.
  - apply later_same; reflexivity.
  - cbn [fill_loop]. destruct (read_once st) as [[bs e] st1] eqn:Hro.
    pose proof (read_once_later _ _ _ _ Hro) as H1. destruct e as [c|].
    + eapply later_trans; [exact H1|]. apply later_same; reflexivity.
    + destruct bs; [|exact H1]. eapply later_trans; [exact H1|apply IH].
Qed.

Lemma fill_later : forall st, later st (fill st).
Proof. intros st. apply fill_loop_later. Qed.

(* "if a fill consumes an Err e / DataErr _ e chunk with e <> io.EOF then an error is tracked" *)
Theorem fill_tracks_error : forall st,
  exists new, rlog (fill st) = new ++ rlog st /\
    forall x c, In x new -> re_err x = Some c -> is_eof c = false -> tracked_err (fill st) <> None.
Proof. intros st. destruct (fill_later st) as [_ H]. exact H. Qed.

Lemma later_P_facts : forall st0,
  (forall st, later st0 st -> berr st = None -> length (win st) < bufio_size -> later st0 (fill st)) /\
  (forall st, later st0 st -> later st0 (set_diverged st)) /\
  (forall st, later st0 st -> later st0 (set_berr None st)) /\
  (forall st k, later st0 st -> later st0 (set_win (skipn k (win st)) st)).
Proof.
  intros st0. split; [|split; [|split]].
  - intros st H _ _. eapply later_trans; [exact H|apply fill_later].
  - intros st H. eapply later_trans; [exact H|apply later_same; reflexivity].
  - intros st H. eapply later_trans; [exact H|apply later_same; reflexivity].
  - intros st k H. eapply later_trans; [exact H|apply later_same; reflexivity].
Qed.

Theorem peek_later : forall n st, later st (snd (bufio_peek n st)).
Proof.
  intros n st. destruct (later_P_facts st) as (F1 & F2 & F3 & F4).
  apply (peek_inv (later st) F1 F2 F3). apply later_refl.
Qed.

Theorem read_rune_later : forall st, later st (snd (bufio_read_rune st)).
Proof.
  intros st. destruct (later_P_facts st) as (F1 & F2 & F3 & F4).
  apply (read_rune_inv (later st) F1 F2 F3 F4). apply later_refl.
Qed.

Theorem run_ops_later : forall ops st, later st (snd (run_ops bufio_stream ops st)).
Proof.
  intros ops st. destruct (later_P_facts st) as (F1 & F2 & F3 & F4).
  apply (run_ops_inv (later st) F1 F2 F3 F4). apply later_refl.
Qed.

Theorem run_client_later : forall (A : Type) (c : client A) st,
  later st (snd (run_client bufio_stream c st)).
Proof.
  intros A c st. destruct (later_P_facts st) as (F1 & F2 & F3 & F4).
  apply (run_client_inv (later st) F1 F2 F3 F4). apply later_refl.
Qed.

(* first error wins: once Some e, always Some e *)
Theorem tracked_monotone : forall ops st e,
  tracked_err st = Some e -> tracked_err (snd (run_ops bufio_stream ops st)) = Some e.
Proof. intros ops st e H. destruct (run_ops_later ops st) as [M _]. apply M. exact H. Qed.

Theorem tracked_monotone_client : forall (A : Type) (c : client A) st e,
  tracked_err st = Some e -> tracked_err (snd (run_client bufio_stream c st)) = Some e.
Proof. intros A c st e H. destruct (run_client_later A c st) as [M _]. apply M. exact H. Qed.

(* ---------- the tracked error is the first non-EOF error of the Read history ---------- *)

Lemma entry_errs_app : forall a b, entry_errs (a ++ b) = entry_errs a ++ entry_errs b.
Proof. intros a b. unfold entry_errs. apply flat_map_app. Qed.

Lemma read_errors_cons : forall st st1 x, rlog st1 = x :: rlog st ->
  read_errors st1 = read_errors st ++ err_list (re_err x).
Proof.
  intros st st1 x H. unfold read_errors, read_history. rewrite H. cbn [rev].
  rewrite entry_errs_app. unfold entry_errs at 2. cbn [flat_map]. rewrite app_nil_r. reflexivity.
Qed.

Lemma track_spec : forall t e l, t = hd_error l -> track t e = hd_error (l ++ err_list e).
Proof.
  intros t e l H. subst t. destruct e as [c|]; cbn [track err_list].
  - destruct (is_eof c).
    + rewrite app_nil_r. reflexivity.
    + destruct l; reflexivity.
  - rewrite app_nil_r. reflexivity.
Qed.

(* invariant of every state reachable from bufio_init s0, for ANY script s0 *)
Record ginv (s0 : list chunk) (st : bstate) : Prop := {
  gi_len : length (win st) <= bufio_size;
  gi_trk : tracked st = first_read_error st;
  gi_errs : script_errs s0 = read_errors st ++ script_errs (script st);
  gi_berr : forall c, berr st = Some (GE c) -> is_eof c = false -> In c (read_errors st);
  gi_nofull : berr st <> Some GBufferFull
}.

Lemma ginv_init : forall s0, ginv s0 (bufio_init s0).
Proof.
  intros s0. constructor; cbn; try reflexivity; try lia; try congruence.
Qed.

Lemma read_once_ginv : forall s0 st bs e st1,
  ginv s0 st -> length (win st) < bufio_size -> read_once st = (bs, e, st1) ->
  ginv s0 st1 /\ read_errors st1 = read_errors st ++ err_list e /\ berr st1 = berr st /\
  length (win st1) = length (win st) + length bs.
Proof.
  intros s0 st bs e st1 [G1 G2 G3 G4 G5] Hlt H. apply read_once_fields in H.
  destruct H as (s' & Hsr & Hw & Hbe & Hs & Ht & Hl & _).
  apply src_read_spec in Hsr. destruct Hsr as (_ & Hbl & Herrs).
  pose proof (read_errors_cons _ _ _ Hl) as Hre. cbn [re_err] in Hre.
  assert (Hl1 : length (win st1) = length (win st) + length bs) by (rewrite Hw, app_length; lia).
  split; [|auto]. constructor.
  - lia.
  - unfold first_read_error. rewrite Ht, Hre. apply track_spec. exact G2.
  - rewrite G3, Hre, Hs, Herrs, app_assoc. reflexivity.
  - intros c Hc Hne. rewrite Hre. apply in_or_app. left. apply G4; congruence.
  - congruence.
Qed.

Lemma ginv_set_berr : forall s0 st e, ginv s0 st ->
  (forall c, e = Some (GE c) -> is_eof c = false -> In c (read_errors st)) ->
  e <> Some GBufferFull -> ginv s0 (set_berr e st).
Proof.
  intros s0 st e [G1 G2 G3 G4 G5] He Hnf. constructor; auto.
Qed.

Lemma fill_loop_ginv : forall s0 i st,
  ginv s0 st -> length (win st) < bufio_size -> ginv s0 (fill_loop i st).
Proof.
  intros s0. induction i as [|i IH]; intros st Hg Hlt.
  - cbn [fill_loop]. apply ginv_set_berr; [exact Hg| |]; congruence.
  - cbn [fill_loop]. destruct (read_once st) as [[bs e] st1] eqn:Hro.
    pose proof (read_once_ginv _ _ _ _ _ Hg Hlt Hro) as (G & Hre & Hbe & Hl1).
    destruct e as [c|].
    + apply ginv_set_berr; [exact G| |congruence].
      intros c0 E Hne. injection E as E. subst c0. rewrite Hre. apply in_or_app. right.
      cbn [err_list]. rewrite Hne. left. reflexivity.
    + destruct bs as [|b bs]; [|exact G]. apply IH; [exact G|]. cbn [length] in Hl1. lia.
Qed.

Lemma ginv_P_facts : forall s0,
  (forall st, ginv s0 st -> berr st = None -> length (win st) < bufio_size -> ginv s0 (fill st)) /\
  (forall st, ginv s0 st -> ginv s0 (set_diverged st)) /\
  (forall st, ginv s0 st -> ginv s0 (set_berr None st)) /\
  (forall st k, ginv s0 st -> ginv s0 (set_win (skipn k (win st)) st)).
Proof.
  intros s0. split; [|split; [|split]].
  - intros st Hg _ Hlt. apply fill_loop_ginv; assumption.
  - intros st [G1 G2 G3 G4 G5]. constructor; auto.
  - intros st Hg. apply ginv_set_berr; [exact Hg| |]; congruence.
  - intros st k [G1 G2 G3 G4 G5]. constructor; auto. cbn [set_win win]. rewrite skipn_length. lia.
Qed.

(* reachable states *)
Definition reachable (s0 : list chunk) (st : bstate) : Prop := ginv s0 st /\ diverged st = false.

Lemma reachable_init : forall s0, reachable s0 (bufio_init s0).
Proof. intros s0. split; [apply ginv_init|reflexivity]. Qed.

Lemma reachable_peek : forall s0 n st, reachable s0 st -> reachable s0 (snd (bufio_peek n st)).
Proof.
  intros s0 n st [Hg Hd]. destruct (ginv_P_facts s0) as (F1 & F2 & F3 & F4). split.
  - apply (peek_inv (ginv s0) F1 F2 F3). exact Hg.
  - unfold bufio_peek, bufio_peek_full.
    assert (Hnd : diverged (peek_loop peek_fuel n st) = false).
    { rewrite peek_loop_nodiv; [exact Hd|apply (gi_len _ _ Hg)|]. rewrite peek_fuel_eq. lia. }
    destruct (bufio_size <? n); [exact Hnd|].
    destruct (length (win (peek_loop peek_fuel n st)) <? n); exact Hnd.
Qed.

Lemma reachable_read_rune : forall s0 st, reachable s0 st ->
  reachable s0 (snd (bufio_read_rune st)).
Proof.
  intros s0 st [Hg Hd]. destruct (ginv_P_facts s0) as (F1 & F2 & F3 & F4). split.
  - apply (read_rune_inv (ginv s0) F1 F2 F3 F4). exact Hg.
  - unfold bufio_read_rune, bufio_read_rune_full.
    assert (Hnd : diverged (rr_loop rr_fuel st) = false).
    { rewrite rr_loop_nodiv; [exact Hd|apply (gi_len _ _ Hg)|]. unfold rr_fuel. lia. }
    destruct (win (rr_loop rr_fuel st)) as [|b0 t]; [exact Hnd|].
    destruct (if N.ltb b0 128 then (b0, 1) else decode_rune (b0 :: t)) as [r sz]. exact Hnd.
Qed.

Lemma reachable_run_op : forall s0 x st, reachable s0 st ->
  reachable s0 (snd (run_op bufio_stream x st)).
Proof.
  intros s0 [n|] st H; cbn [run_op bufio_stream s_peek s_read_rune].
  - pose proof (reachable_peek s0 n st H) as H1. destruct (bufio_peek n st). exact H1.
  - pose proof (reachable_read_rune s0 st H) as H1. destruct (bufio_read_rune st). exact H1.
Qed.

Lemma reachable_run_ops : forall s0 ops st, reachable s0 st ->
  reachable s0 (snd (run_ops bufio_stream ops st)).
Proof.
  intros s0. induction ops as [|x rest IH]; intros st H; cbn [run_ops]; [exact H|].
  pose proof (reachable_run_op s0 x st H) as H1. destruct (run_op bufio_stream x st) as [r st1].
  cbn [snd] in H1. specialize (IH st1 H1). destruct (run_ops bufio_stream rest st1). exact IH.
Qed.

Lemma reachable_from_init : forall s0 ops,
  reachable s0 (snd (run_ops bufio_stream ops (bufio_init s0))).
Proof. intros s0 ops. apply reachable_run_ops. apply reachable_init. Qed.

Lemma reachable_run_client : forall s0 (A : Type) (c : client A) st, reachable s0 st ->
  reachable s0 (snd (run_client bufio_stream c st)).
Proof.
  intros s0 A c. induction c as [a|n k IH|k IH]; intros st H;
    cbn [run_client bufio_stream s_peek s_read_rune].
  - exact H.
  - pose proof (reachable_peek s0 n st H) as H1. destruct (bufio_peek n st) as [bs st1].
    apply IH. exact H1.
  - pose proof (reachable_read_rune s0 st H) as H1. destruct (bufio_read_rune st) as [r st1].
    apply IH. exact H1.
Qed.

(* C15 core over op sequences: after any sequence of Peek/ReadRune calls on any script,
   - no model loop ran out of fuel,
   - Lexer.Err() (the tracked error) is exactly the first non-EOF error returned by any Read call
     performed so far,
   - the non-EOF errors returned so far followed by those still in the script are those of the
     original script (errors are handed out in script order, none is lost or invented). *)
Theorem tracked_is_first_read_error : forall s0 ops,
  let st := snd (run_ops bufio_stream ops (bufio_init s0)) in
  diverged st = false /\
  tracked_err st = first_read_error st /\
  script_errs s0 = read_errors st ++ script_errs (script st).
Proof.
  intros s0 ops st. destruct (reachable_run_ops s0 ops _ (reachable_init s0)) as [Hg Hd].
  fold st in Hg, Hd. split; [exact Hd|]. split; [apply (gi_trk _ _ Hg)|apply (gi_errs _ _ Hg)].
Qed.

Theorem tracked_is_first_read_error_client : forall s0 (A : Type) (c : client A),
  let st := snd (run_client bufio_stream c (bufio_init s0)) in
  diverged st = false /\
  tracked_err st = first_read_error st /\
  script_errs s0 = read_errors st ++ script_errs (script st).
Proof.
  intros s0 A c st. destruct (reachable_run_client s0 A c _ (reachable_init s0)) as [Hg Hd].
  fold st in Hg, Hd. split; [exact Hd|]. split; [apply (gi_trk _ _ Hg)|apply (gi_errs _ _ Hg)].
Qed.

(* the shape asked for: if some Read performed so far returned a non-EOF error, e0 being the first,
   then tracked_err = Some e0 -- and e0 is the first non-EOF error of the script *)
Corollary first_error_is_tracked : forall s0 ops e0,
  let st := snd (run_ops bufio_stream ops (bufio_init s0)) in
  first_read_error st = Some e0 ->
  tracked_err st = Some e0 /\ hd_error (script_errs s0) = Some e0.
Proof.
  intros s0 ops e0 st H. destruct (tracked_is_first_read_error s0 ops) as (_ & Ht & He).
  fold st in Ht, He. split; [congruence|]. rewrite He. unfold first_read_error in H.
  destruct (read_errors st); [discriminate|exact H].
Qed.

(* conversely nothing is tracked unless a Read returned it *)
Corollary tracked_none_no_error : forall s0 ops,
  let st := snd (run_ops bufio_stream ops (bufio_init s0)) in
  tracked_err st = None -> read_errors st = [] /\ script_errs (script st) = script_errs s0.
Proof.
  intros s0 ops st H. destruct (tracked_is_first_read_error s0 ops) as (_ & Ht & He).
  fold st in Ht, He. rewrite H in Ht. unfold first_read_error in Ht.
  destruct (read_errors st) eqn:E; [|discriminate]. split; [reflexivity|]. rewrite He. reflexivity.
Qed.

(* ---------- ReadRune reporting end of input ---------- *)

(* the error ReadRune returns *)
Definition rr_err (st : bstate) : option gerr := snd (fst (bufio_read_rune_full st)).

Lemma hd_error_none : forall (A : Type) (l : list A), hd_error l = None -> l = [].
Proof. intros A [|x l] H; [reflexivity|discriminate]. Qed.

(* General scripts.  When ReadRune returns an error (the lexer's end of input) then either an
   error is tracked (so Lexer.Err() <> nil), or no Read call so far has returned anything but nil
   or io.EOF and the error returned is io.EOF or io.ErrNoProgress. *)
Theorem read_rune_none_general : forall s0 st,
  reachable s0 st -> fst (bufio_read_rune st) = None ->
  let st' := snd (bufio_read_rune st) in
  tracked_err st' <> None \/
  (tracked_err st' = None /\ read_errors st' = [] /\
   (rr_err st = Some (GE eof_code) \/ rr_err st = Some GNoProgress)).
Proof.
  intros s0 st Hr Hnone st'.
  destruct (reachable_read_rune s0 st Hr) as [Hg' _]. fold st' in Hg'.
  destruct (tracked_err st') as [t|] eqn:Et; [left; congruence|right].
  split; [reflexivity|].
  assert (Hre : read_errors st' = []).
  { apply hd_error_none. pose proof (gi_trk _ _ Hg') as H. unfold tracked_err in Et.
    unfold first_read_error in H. congruence. }
  split; [exact Hre|].
  (* look at the state after the loop *)
  destruct Hr as [Hg Hd]. destruct (ginv_P_facts s0) as (F1 & F2 & F3 & F4).
  pose proof (rr_loop_inv (ginv s0) F1 F2 rr_fuel st Hg) as Hg1.
  unfold rr_err. unfold st', bufio_read_rune in Hre, Hnone. unfold bufio_read_rune_full in *.
  set (st1 := rr_loop rr_fuel st) in *. clearbody st1.
  destruct (win st1) as [|b0 t] eqn:Hw.
  - cbn [fst snd] in *. destruct (berr st1) as [[c| |]|] eqn:Eb.
    + destruct (is_eof c) eqn:Ec.
      * apply is_eof_true in Ec. subst c. left. reflexivity.
      * exfalso. pose proof (gi_berr _ _ Hg1 c Eb Ec) as Hin.
        assert (E : read_errors (set_berr None st1) = read_errors st1) by reflexivity.
        rewrite E in Hre. rewrite Hre in Hin. exact Hin.
    + right. reflexivity.
    + exfalso. apply (gi_nofull _ _ Hg1). exact Eb.
    + discriminate.
  - destruct (if N.ltb b0 128 then (b0, 1) else decode_rune (b0 :: t)) as [r sz].
    cbn [fst snd] in Hnone. discriminate.
Qed.

(* Plain scripts (errors are never io.EOF, EOF only by exhaustion, no 100 empty reads in a row):
   end of input with nothing tracked means the whole script was consumed and contained no error. *)
Definition plain_state (st : bstate) : Prop :=
  plain (script st) /\
  (berr st = Some (GE eof_code) -> script st = []) /\
  berr st <> Some GNoProgress.

Lemma plain_cons : forall c r, plain (c :: r) ->
  empty_run (c :: r) < max_consecutive_empty_reads /\ chunk_plain c = true /\ plain r.
Proof.
  intros c r H. unfold plain in *. cbn [plainb] in H.
  apply andb_true_iff in H. destruct H as [H H3]. apply andb_true_iff in H. destruct H as [H1 H2].
  apply Nat.ltb_lt in H1. auto.
Qed.

Lemma plain_cons_intro : forall c r,
  empty_run (c :: r) < max_consecutive_empty_reads -> chunk_plain c = true -> plain r ->
  plain (c :: r).
Proof.
  intros c r H1 H2 H3. unfold plain in *. cbn [plainb].
  apply Nat.ltb_lt in H1. rewrite H1, H2, H3. reflexivity.
Qed.

Lemma plain_empty_run : forall s, plain s -> empty_run s < max_consecutive_empty_reads.
Proof.
  intros [|c r] H; [apply max_empty_pos|]. apply plain_cons in H. tauto.
Qed.

Lemma fill_loop_plain : forall i st,
  plain_state st -> berr st = None -> length (win st) < bufio_size ->
  empty_run (script st) < i -> plain_state (fill_loop i st).
Proof.
  induction i as [|i IH]; intros st Hp Hnone Hlt Hrun; [lia|].
  cbn [fill_loop]. destruct (read_once st) as [[bs e] st1] eqn:Hro.
  apply read_once_fields in Hro. destruct Hro as (s' & Hsr & Hw & Hbe & Hs & _ & _ & _).
  assert (Hfree : 0 < bufio_size - length (win st)) by lia.
  destruct Hp as (Hpl & _ & _).
  pose proof (src_read_cases _ _ _ _ _ Hfree Hsr) as Hc.
  destruct Hc as [(E1 & E2 & E3 & E4) | [(r & E1 & E2 & E3 & E4) | [(b & r & E1 & E2 & E2' & E3 & E4)
    | [(b & r & E1 & E2 & E3 & E4 & E5) | [(c & r & E1 & E2 & E3 & E4)
    | [(b & c & r & E1 & E2 & E3 & E4) | (b & c & r & E1 & E2 & E3 & E4)]]]]]];
    rewrite E1 in *; subst e; rewrite E4 in Hs; clear E4.
  - unfold plain_state. cbn. rewrite Hs. repeat split; congruence.
  - subst bs. apply plain_cons in Hpl. destruct Hpl as (_ & _ & Hr).
    apply IH.
    + unfold plain_state. rewrite Hs, Hbe, Hnone. repeat split; [exact Hr|discriminate|discriminate].
    + congruence.
    + rewrite Hw, app_nil_r. exact Hlt.
    + rewrite Hs. cbn [empty_run] in Hrun. lia.
  - apply plain_cons in Hpl. destruct Hpl as (_ & _ & Hr).
    destruct bs; [congruence|].
    unfold plain_state. rewrite Hs, Hbe, Hnone. repeat split; [exact Hr|discriminate|discriminate].
  - apply plain_cons in Hpl. destruct Hpl as (_ & _ & Hr).
    destruct bs; [congruence|].
    unfold plain_state. rewrite Hs, Hbe, Hnone. repeat split; [|discriminate|discriminate].
    apply plain_cons_intro; [|reflexivity|exact Hr].
    destruct (skipn (bufio_size - length (win st)) b); [congruence|]. cbn [empty_run].
    apply max_empty_pos.
  - apply plain_cons in Hpl. destruct Hpl as (_ & Hc & Hr). cbn [chunk_plain] in Hc.
    apply negb_true_iff in Hc.
    unfold plain_state. cbn. rewrite Hs. repeat split; [exact Hr| |discriminate].
    intros E. injection E as E. subst c. discriminate.
  - apply plain_cons in Hpl. destruct Hpl as (_ & Hc & Hr). cbn [chunk_plain] in Hc.
    apply negb_true_iff in Hc.
    unfold plain_state. cbn. rewrite Hs. repeat split; [exact Hr| |discriminate].
    intros E. injection E as E. subst c. discriminate.
  - apply plain_cons in Hpl. destruct Hpl as (_ & Hc & Hr).
    destruct bs; [congruence|].
    unfold plain_state. rewrite Hs, Hbe, Hnone. repeat split; [|discriminate|discriminate].
    apply plain_cons_intro; [cbn [empty_run]; apply max_empty_pos|exact Hc|exact Hr].
Qed.

Lemma plain_P_facts :
  (forall st, plain_state st -> berr st = None -> length (win st) < bufio_size ->
     plain_state (fill st)) /\
  (forall st, plain_state st -> plain_state (set_diverged st)) /\
  (forall st, plain_state st -> plain_state (set_berr None st)) /\
  (forall st k, plain_state st -> plain_state (set_win (skipn k (win st)) st)).
Proof.
  split; [|split; [|split]].
  - intros st Hp Hnone Hlt. apply fill_loop_plain; auto. apply plain_empty_run.
    destruct Hp as [H _]. exact H.
  - intros st H. exact H.
  - intros st (H1 & H2 & H3). unfold plain_state. cbn. repeat split; [exact H1| |]; discriminate.
  - intros st k H. exact H.
Qed.

Lemma plain_state_init : forall s0, plain s0 -> plain_state (bufio_init s0).
Proof. intros s0 H. unfold plain_state. cbn. repeat split; [exact H| |]; discriminate. Qed.

Theorem read_rune_none_plain_state : forall s0 st,
  reachable s0 st -> plain_state st -> fst (bufio_read_rune st) = None ->
  let st' := snd (bufio_read_rune st) in
  tracked_err st' <> None \/
  (tracked_err st' = None /\ script st' = [] /\ script_errs s0 = [] /\ read_errors st' = []).
Proof.
  intros s0 st Hr Hp Hnone st'.
  destruct (read_rune_none_general s0 st Hr Hnone) as [H|(Ht & Hre & Herr)]; [left; exact H|right].
  fold st' in Ht, Hre.
  destruct (reachable_read_rune s0 st Hr) as [Hg' _]. fold st' in Hg'.
  destruct plain_P_facts as (F1 & F2 & F3 & F4).
  pose proof (rr_loop_inv plain_state F1 F2 rr_fuel st Hp) as Hp1.
  assert (Hs : script st' = []).
  { unfold st', bufio_read_rune. unfold rr_err in Herr. unfold bufio_read_rune_full in *.
    set (st1 := rr_loop rr_fuel st) in *. clearbody st1. destruct Hp1 as (_ & P2 & P3).
    destruct (win st1) as [|b0 t] eqn:Hw.
    - cbn [fst snd] in *. destruct Herr as [Herr|Herr]; [apply P2; exact Herr|congruence].
    - destruct (if N.ltb b0 128 then (b0, 1) else decode_rune (b0 :: t)) as [r sz].
      cbn [fst snd] in Herr. destruct Herr; discriminate. }
  split; [exact Ht|]. split; [exact Hs|]. split; [|exact Hre].
  rewrite (gi_errs _ _ Hg'), Hre, Hs. reflexivity.
Qed.

(* ... stated over op sequences from the initial state *)
Theorem read_rune_none_plain : forall s0 ops, plain s0 ->
  let st := snd (run_ops bufio_stream ops (bufio_init s0)) in
  fst (bufio_read_rune st) = None ->
  let st' := snd (bufio_read_rune st) in
  tracked_err st' <> None \/
  (tracked_err st' = None /\ script st' = [] /\ script_errs s0 = [] /\ read_errors st' = []).
Proof.
  intros s0 ops Hpl st. apply read_rune_none_plain_state.
  - apply reachable_run_ops. apply reachable_init.
  - destruct plain_P_facts as (F1 & F2 & F3 & F4).
    apply (run_ops_inv plain_state F1 F2 F3 F4). apply plain_state_init. exact Hpl.
Qed.

(* ReadRune never returns (0, 0, nil): an empty window after its loop means a stored error *)
Theorem read_rune_some_nonempty : forall s0 st r sz,
  reachable s0 st -> fst (bufio_read_rune st) = Some (r, sz) -> 1 <= sz.
Proof.
  intros s0 st r sz [Hg Hd] H. unfold bufio_read_rune, bufio_read_rune_full in H.
  assert (Hnd : diverged (rr_loop rr_fuel st) = false).
  { rewrite rr_loop_nodiv; [exact Hd|apply (gi_len _ _ Hg)|]. unfold rr_fuel. lia. }
  assert (Hcond : rr_cond (rr_loop rr_fuel st) = false \/ diverged (rr_loop rr_fuel st) = true).
  { clear. generalize rr_fuel. intros fuel. revert st.
    induction fuel as [|f IH]; intros st; cbn [rr_loop]; destruct (rr_cond st) eqn:Hc; auto;
      try (right; reflexivity); try (left; exact Hc). }
  destruct Hcond as [Hcond|Hcond]; [|congruence].
  set (st1 := rr_loop rr_fuel st) in *. clearbody st1.
  destruct (win st1) as [|b0 t] eqn:Hw.
  - cbn [fst snd] in H. apply rr_cond_false in Hcond. rewrite Hw in Hcond. cbn in Hcond.
    pose proof bufio_size_gt_4. unfold utf_max in Hcond.
    destruct (berr st1); [discriminate|]. destruct Hcond as [C|[C|[C|C]]]; try lia; congruence.
  - assert (Hne : b0 :: t <> []) by congruence.
    pose proof (decode_rune_size (b0 :: t) Hne) as Hsize.
    destruct (N.ltb b0 128).
    + cbn [fst snd] in H. injection H as H1 H2. lia.
    + destruct (decode_rune (b0 :: t)) as [r' sz']. cbn [fst snd] in *. injection H as H1 H2. lia.
Qed.

(* ------------------------------------------------------------------------------------------ *)
(* The chunkings named by C14 are well-behaved                                                 *)
(* ------------------------------------------------------------------------------------------ *)

(* a list of non-empty pieces delivered one per Read, followed by any well-behaved ending
   ([] = plain exhaustion, [Err 0] = explicit (0, io.EOF), [DataErr bs 0] = last bytes with io.EOF) *)
Definition chunked (pieces : list (list N)) (ending : list chunk) : list chunk :=
  map Data pieces ++ ending.

Lemma chunked_well_behaved : forall pieces ending,
  Forall (fun bs => bs <> []) pieces -> well_behaved ending ->
  well_behaved (chunked pieces ending).
Proof.
  intros pieces ending Hne Hend. unfold chunked.
  induction Hne as [|bs l Hbs Hl IH]; cbn [map app]; [exact Hend|].
  apply well_behaved_cons_intro; [|reflexivity|exact IH].
  destruct bs; [congruence|]. cbn [empty_run]. apply max_empty_pos.
Qed.

Lemma chunked_data : forall pieces ending,
  data_of (chunked pieces ending) = concat pieces ++ data_of ending.
Proof.
  intros pieces ending. unfold chunked.
  induction pieces as [|bs l IH]; cbn [map app data_of concat]; [reflexivity|].
  rewrite IH, app_assoc. reflexivity.
Qed.

Lemma ending_eof_with_data_wb : forall bs, well_behaved [DataErr bs eof_code].
Proof. intros bs. reflexivity. Qed.

Lemma ending_eof_wb : well_behaved [Err eof_code].
Proof. reflexivity. Qed.

(* all inputs x all chunkings: any two ways of cutting the same bytes into non-empty reads, each
   ending by exhaustion, by an explicit (0, io.EOF) or with the last bytes together with io.EOF,
   give the same answers to every adaptive Peek/ReadRune client, namely those of the pure stream *)
Theorem chunkings_indistinguishable : forall (A : Type) (c : client A) p1 e1 p2 e2,
  Forall (fun bs => bs <> []) p1 -> well_behaved e1 ->
  Forall (fun bs => bs <> []) p2 -> well_behaved e2 ->
  concat p1 ++ data_of e1 = concat p2 ++ data_of e2 ->
  fst (run_client bufio_stream c (bufio_init (chunked p1 e1))) =
  fst (run_client bufio_stream c (bufio_init (chunked p2 e2))) /\
  fst (run_client bufio_stream c (bufio_init (chunked p1 e1))) =
  fst (run_client pure_stream c (concat p1 ++ data_of e1)).
Proof.
  intros A c p1 e1 p2 e2 H1 H2 H3 H4 E.
  pose proof (chunked_well_behaved p1 e1 H1 H2) as W1.
  pose proof (chunked_well_behaved p2 e2 H3 H4) as W2.
  split.
  - apply bufio_run_client_chunking; auto. rewrite !chunked_data. exact E.
  - rewrite bufio_run_client_pure by exact W1. rewrite chunked_data. reflexivity.
Qed.

(* chunk-level form of fill_tracks_error: a fill that meets an error chunk stores that error in
   b.err and leaves an error tracked *)
Lemma fill_err_chunk : forall st e r,
  script st = Err e :: r -> is_eof e = false ->
  berr (fill st) = Some (GE e) /\ tracked_err (fill st) <> None /\ script (fill st) = r.
Proof.
  intros st e r Hs Hne. unfold fill, max_consecutive_empty_reads. cbn [fill_loop].
  unfold read_once. rewrite Hs. cbn [src_read]. cbn [set_berr berr tracked_err tracked script].
  split; [reflexivity|]. split; [apply track_sets; exact Hne|reflexivity].
Qed.

Lemma fill_dataerr_chunk : forall st bs e r,
  script st = DataErr bs e :: r -> length bs <= bufio_size - length (win st) -> is_eof e = false ->
  berr (fill st) = Some (GE e) /\ tracked_err (fill st) <> None /\ script (fill st) = r /\
  win (fill st) = win st ++ bs.
Proof.
  intros st bs e r Hs Hfit Hne. unfold fill, max_consecutive_empty_reads. cbn [fill_loop].
  unfold read_once. rewrite Hs. cbn [src_read]. apply Nat.leb_le in Hfit. rewrite Hfit.
  cbn [set_berr berr tracked_err tracked script win].
  split; [reflexivity|]. split; [apply track_sets; exact Hne|]. split; reflexivity.
Qed.
