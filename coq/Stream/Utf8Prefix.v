(* Facts about Base/Utf8.v needed by the bufio refinement: decode_rune only looks at a prefix that
   full_rune accepts (or at 4 bytes), and consumes between 1 and length bytes. *)
From Coq Require Import List NArith Bool Arith Lia ZifyN ZifyNat ZifyBool.
From DC Require Import Base.Utf8.
Import ListNotations.
Local Open Scope N_scope.

Ltac break_ifs :=
  repeat match goal with
         | |- context [if ?c then _ else _] => destruct c eqn:?
         end.

Lemma decode_rune_size : forall p, p <> [] ->
  (1 <= snd (decode_rune p) <= length p)%nat.
Proof.
  intros p Hp. destruct p as [|p0 [|p1 [|p2 [|p3 t]]]]; [congruence| | | |];
    cbn [decode_rune length]; break_ifs; cbn [snd]; lia.
Qed.

Lemma decode_rune_app_full : forall p q, full_rune p = true -> decode_rune (p ++ q) = decode_rune p.
Proof.
  intros p q. destruct p as [|p0 [|p1 [|p2 [|p3 t]]]]; destruct q as [|q0 [|q1 [|q2 q']]];
    cbn [full_rune decode_rune app];
    break_ifs; intros H; try discriminate; try reflexivity.
Qed.

Lemma decode_rune_app_4 : forall p q, (4 <= length p)%nat -> decode_rune (p ++ q) = decode_rune p.
Proof.
  intros p q. destruct p as [|p0 [|p1 [|p2 [|p3 t]]]]; cbn [length]; intros H; try lia.
  reflexivity.
Qed.

Lemma decode_rune_ascii : forall b t, (b <? 128) = true -> decode_rune (b :: t) = (b, 1%nat).
Proof. intros b t H. cbn [decode_rune]. rewrite H. reflexivity. Qed.
