(* A termination measure for clients of the bufio.Reader model (Stream/BufioModel.v), valid for
   EVERY state and EVERY script (error chunks anywhere, empty reads, data together with an error,
   data after errors):

     bmu st = length (abs st) = bytes in the window + bytes the script will still deliver.

   * Peek never changes it (bufio_peek_mu): fill only moves bytes from the script to the window;
     consuming an Err chunk, an empty read, giving up with io.ErrNoProgress after 100 empty reads,
     clearing b.err, even the model's own out-of-fuel flag -- none of them creates a byte.
   * A ReadRune that returns a rune strictly decreases it (bufio_read_rune_mu): the only way to
     return (r, size, nil) is from a non-empty window, and then 1 <= size bytes leave the window.
     In particular ReadRune never returns (0, 0, nil): an empty window after its loop means that
     b.err is set (rr_loop_empty_err) -- no reachability hypothesis is needed for this.
   * Nothing is claimed (or needed) about a ReadRune that returns an error.

   These are exactly the hypotheses of Lexer/LexerTotalGen.v; Lexer/LexerTotalBufio.v instantiates. *)
From Coq Require Import List NArith Bool Arith Lia ZifyN ZifyNat ZifyBool.
From DC Require Import Base.Utf8 Base.Stream Stream.Utf8Prefix Stream.BufioModel Stream.BufioProof.
Import ListNotations.

Local Opaque bufio_size.
Local Arguments Nat.sub : simpl never.
Local Arguments Nat.leb : simpl never.
Local Arguments Nat.ltb : simpl never.

Definition bmu (st : bstate) : nat := length (abs st).

Lemma bmu_init : forall s, bmu (bufio_init s) = length (data_of s).
Proof. intros s. reflexivity. Qed.

Lemma bmu_split : forall st, bmu st = length (win st) + length (data_of (script st)).
Proof. intros st. unfold bmu, abs. apply app_length. Qed.

(* ---------- fill and the two loops keep abs ---------- *)

Lemma fill_loop_abs : forall i st, abs (fill_loop i st) = abs st.
Proof.
  induction i as [|i IH]; intros st; cbn [fill_loop]; [apply abs_set_berr|].
  destruct (read_once st) as [[bs e] st1] eqn:Hro.
  pose proof (read_once_abs _ _ _ _ Hro) as Ha.
  destruct e as [c|]; [rewrite abs_set_berr; exact Ha|].
  destruct bs as [|b bs]; [rewrite IH; exact Ha|exact Ha].
Qed.

Lemma fill_abs : forall st, abs (fill st) = abs st.
Proof. intros st. apply fill_loop_abs. Qed.

Lemma abs_set_diverged : forall st, abs (set_diverged st) = abs st.
Proof. reflexivity. Qed.

Lemma peek_loop_abs : forall fuel n st, abs (peek_loop fuel n st) = abs st.
Proof.
  induction fuel as [|f IH]; intros n st; cbn [peek_loop]; destruct (peek_cond n st);
    try reflexivity.
  rewrite IH. apply fill_abs.
Qed.

Lemma rr_loop_abs : forall fuel st, abs (rr_loop fuel st) = abs st.
Proof.
  induction fuel as [|f IH]; intros st; cbn [rr_loop]; destruct (rr_cond st); try reflexivity.
  rewrite IH. apply fill_abs.
Qed.

(* ---------- Peek ---------- *)

Theorem bufio_peek_abs : forall n st, abs (snd (bufio_peek n st)) = abs st.
Proof.
  intros n st. unfold bufio_peek, bufio_peek_full.
  pose proof (peek_loop_abs peek_fuel n st) as H.
  destruct (bufio_size <? n); [exact H|].
  destruct (length (win (peek_loop peek_fuel n st)) <? n); cbn [snd]; [|exact H].
  rewrite abs_set_berr. exact H.
Qed.

Theorem bufio_peek_mu : forall n st, bmu (snd (bufio_peek n st)) = bmu st.
Proof. intros n st. unfold bmu. rewrite bufio_peek_abs. reflexivity. Qed.

(* ---------- ReadRune ---------- *)

Lemma fill_loop_win_grow : forall i st, length (win st) <= length (win (fill_loop i st)).
Proof.
  induction i as [|i IH]; intros st; cbn [fill_loop]; [cbn; lia|].
  destruct (read_once st) as [[bs e] st1] eqn:Hro.
  apply read_once_fields in Hro. destruct Hro as (s' & _ & Hw & _).
  assert (Hl : length (win st) <= length (win st1)) by (rewrite Hw, app_length; lia).
  destruct e as [c|]; [cbn; exact Hl|].
  destruct bs as [|b bs]; [|exact Hl]. specialize (IH st1). lia.
Qed.

Lemma rr_loop_win_grow : forall fuel st, length (win st) <= length (win (rr_loop fuel st)).
Proof.
  induction fuel as [|f IH]; intros st; cbn [rr_loop]; destruct (rr_cond st); try (cbn; lia).
  specialize (IH (fill st)). pose proof (fill_loop_win_grow max_consecutive_empty_reads st) as H.
  fold (fill st) in H. lia.
Qed.

(* an empty window after ReadRune's loop: b.err is set (whatever the state the loop started in) *)
Lemma rr_loop_empty_err : forall fuel st, 0 < fuel ->
  win (rr_loop fuel st) = [] -> berr (rr_loop fuel st) <> None.
Proof.
  intros fuel st Hf. destruct fuel as [|f]; [lia|]. cbn [rr_loop].
  destruct (rr_cond st) eqn:Hc.
  - apply rr_cond_true in Hc. destruct Hc as (_ & _ & Hnone & Hlt).
    pose proof (fill_loop_progress max_consecutive_empty_reads st Hlt) as (_ & _ & F3).
    fold (fill st) in F3. destruct F3 as [F3|F3].
    + assert (Hc' : rr_cond (fill st) = false).
      { unfold rr_cond. destruct (berr (fill st)); [|congruence].
        cbn. rewrite andb_false_r. reflexivity. }
      rewrite rr_loop_done by exact Hc'. intros _. exact F3.
    + intros Hw. pose proof (rr_loop_win_grow f (fill st)) as Hg. rewrite Hw in Hg.
      cbn [length] in Hg. lia.
  - intros Hw. apply rr_cond_false in Hc. rewrite Hw in Hc. cbn [length full_rune] in Hc.
    pose proof bufio_size_gt_4 as Hsz. unfold utf_max in Hc.
    destruct Hc as [Hc|[Hc|[Hc|Hc]]]; [lia|discriminate|exact Hc|lia].
Qed.

Lemma rr_fuel_pos : 0 < rr_fuel.
Proof. unfold rr_fuel. lia. Qed.

(* ReadRune returns a rune only from a non-empty window, and takes 1 <= size bytes out of it *)
Theorem bufio_read_rune_mu : forall st r,
  fst (bufio_read_rune st) = Some r -> bmu (snd (bufio_read_rune st)) < bmu st.
Proof.
  intros st r H. unfold bufio_read_rune, bufio_read_rune_full in *.
  pose proof (rr_loop_abs rr_fuel st) as Ha.
  pose proof (rr_loop_empty_err rr_fuel st rr_fuel_pos) as He.
  set (st1 := rr_loop rr_fuel st) in *. clearbody st1.
  unfold bmu. rewrite <- Ha. unfold abs.
  destruct (win st1) as [|b0 t] eqn:Hw.
  - exfalso. cbn [fst snd] in H. destruct (berr st1); [discriminate H|]. apply He; reflexivity.
  - assert (Hsz : 1 <= snd (if N.ltb b0 128 then (b0, 1) else decode_rune (b0 :: t))).
    { destruct (N.ltb b0 128); [cbn [snd]; lia|].
      assert (Hne : b0 :: t <> []) by congruence.
      pose proof (decode_rune_size (b0 :: t) Hne) as Hs. lia. }
    destruct (if N.ltb b0 128 then (b0, 1) else decode_rune (b0 :: t)) as [r' sz]. cbn [snd] in Hsz.
    cbn [fst snd set_win win script]. rewrite !app_length, skipn_length. cbn [length]. lia.
Qed.

(* and an unsuccessful one does not increase it either (not needed by the lexer proof) *)
Theorem bufio_read_rune_mu_le : forall st, bmu (snd (bufio_read_rune st)) <= bmu st.
Proof.
  intros st. unfold bufio_read_rune, bufio_read_rune_full.
  pose proof (rr_loop_abs rr_fuel st) as Ha.
  set (st1 := rr_loop rr_fuel st) in *. clearbody st1.
  unfold bmu. rewrite <- Ha. unfold abs.
  destruct (win st1) as [|b0 t] eqn:Hw.
  - cbn [snd set_berr win script]. rewrite Hw. lia.
  - destruct (if N.ltb b0 128 then (b0, 1) else decode_rune (b0 :: t)) as [r' sz].
    cbn [snd set_win win script]. rewrite !app_length, skipn_length. lia.
Qed.

(* the two hypotheses of LexerTotalGen for bufio_stream *)
Theorem bufio_stream_peek_mu : forall n st, bmu (snd (s_peek bufio_stream n st)) <= bmu st.
Proof. intros n st. cbn [s_peek bufio_stream]. rewrite bufio_peek_mu. lia. Qed.

Theorem bufio_stream_read_mu : forall st r,
  fst (s_read_rune bufio_stream st) = Some r -> bmu (snd (s_read_rune bufio_stream st)) < bmu st.
Proof. intros st r H. cbn [s_read_rune bufio_stream] in *. exact (bufio_read_rune_mu st r H). Qed.
