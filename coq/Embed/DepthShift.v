(* C07 -- an abstract calculus of depth-parametric printers and its shift law.

   A printer is a function from the depth at which it is started to the lines it prints.  The
   combinators below are everything the explain functions of /repo/internal/explain do with their
   `depth` / `indent` parameters according to the generated inventory Gen/DepthUses.v:

     emit_line k lab n     fmt.Fprintf(sb, "%s<k spaces><label>...\n", indent, ...)   a line at depth+k
     call_deeper k p       callee(sb, x, indent + <k spaces>, depth+k)               p started at depth+k
     seq p q, skip         statement sequence, loops over the node's data
     cond b p q            a branch on the node's DATA (b does not mention depth)

   and nothing that inspects the depth.  For every printer built from these,
        p d = map (shift d) (p 0)                                   [shift_law]
   i.e. printing deeper only shifts the indentation (shift is Tree.LineTreeProof.shift).

   The one construct of the code that does look at depth is `if depth == 0 { A } else { B }`
   ([depth_test], two sites in explainExplainQuery).  With it the law holds between all depths >= 1
        p (S d) = map (shift d) (p 1)                               [shift_law_pos]
   and for ALL depths when every depth test sits below a call_deeper with k >= 1 ([built0],
   [shift_law_guarded]): such a test is never evaluated at depth 0.  [depth_test_is_an_exception]
   shows that nothing more can be said: a depth test at the root breaks the law between 0 and 1.

   The second half of the file is the deep embedding ([trace], [denote]) used by DepthCheck.v to
   state the translator's soundness claim. *)
From Coq Require Import List NArith Arith Lia String Bool.
From DC Require Import Tree.LineTree Tree.LineTreeProof.
Import ListNotations.

(* ---------------------------------------------------------------------------------------- *)
(** * Printers and combinators *)

Definition printer := nat -> list line.

Definition emit_line (k : nat) (lab : list N) (n : option nat) : printer :=
  fun d => [mkLine (d + k) lab n].
Definition call_deeper (k : nat) (p : printer) : printer := fun d => p (d + k).
Definition seq (p q : printer) : printer := fun d => p d ++ q d.
Definition skip : printer := fun _ => [].
Definition cond (b : bool) (p q : printer) : printer := if b then p else q.
(* for x in xs { p x }: a data-dependent loop is a fold of seq *)
Definition for_each {A : Type} (xs : list A) (body : A -> printer) : printer :=
  fold_right (fun x acc => seq (body x) acc) skip xs.

(* `if depth == 0 { p0 } else { p1 }` *)
Definition depth_test (p0 p1 : printer) : printer :=
  fun d => match d with O => p0 O | S _ => p1 d end.

(* ---------------------------------------------------------------------------------------- *)
(** * shift *)

Lemma shift_shift a b l : shift a (shift b l) = shift (a + b) l.
Proof. unfold shift. cbn. f_equal. lia. Qed.

Lemma map_shift_shift a b ls : map (shift a) (map (shift b) ls) = map (shift (a + b)) ls.
Proof. rewrite map_map. apply map_ext. intros l. apply shift_shift. Qed.

Lemma shift_0 l : shift 0 l = l.
Proof. destruct l. reflexivity. Qed.

Lemma map_shift_0 ls : map (shift 0) ls = ls.
Proof. rewrite (map_ext _ (fun l => l)); [apply map_id|apply shift_0]. Qed.

(* ---------------------------------------------------------------------------------------- *)
(** * Printers that never inspect the depth *)

Inductive built : printer -> Prop :=
| B_emit k lab n : built (emit_line k lab n)
| B_call k p : built p -> built (call_deeper k p)
| B_seq p q : built p -> built q -> built (seq p q)
| B_skip : built skip
| B_cond b p q : built p -> built q -> built (cond b p q).

Lemma built_for_each {A} (xs : list A) body :
  (forall x, In x xs -> built (body x)) -> built (for_each xs body).
Proof.
  induction xs as [|x xs IH]; intros H; cbn; [constructor|].
  constructor; [apply H; left; reflexivity|apply IH; intros y Hy; apply H; right; exact Hy].
Qed.

Theorem shift_law p : built p -> forall d, p d = map (shift d) (p 0).
Proof.
  induction 1 as [k lab n|k p Hp IH|p q Hp IHp Hq IHq| |b p q Hp IHp Hq IHq]; intros d.
  - unfold emit_line. cbn. unfold shift. cbn. reflexivity.
  - unfold call_deeper. rewrite (IH (d + k)), (IH (0 + k)). cbn [Nat.add].
    rewrite map_shift_shift. reflexivity.
  - unfold seq. rewrite map_app, <- IHp, <- IHq. reflexivity.
  - reflexivity.
  - destruct b; cbn; [apply IHp|apply IHq].
Qed.

(* two depths compared directly *)
Corollary shift_law_rel p : built p -> forall d e, p (d + e) = map (shift d) (p e).
Proof.
  intros H d e. rewrite (shift_law p H (d + e)), (shift_law p H e), map_shift_shift. reflexivity.
Qed.

(* ---------------------------------------------------------------------------------------- *)
(** * With depth tests: the law between depths >= 1 *)

Inductive built_t : printer -> Prop :=
| T_emit k lab n : built_t (emit_line k lab n)
| T_call k p : built_t p -> built_t (call_deeper k p)
| T_seq p q : built_t p -> built_t q -> built_t (seq p q)
| T_skip : built_t skip
| T_cond b p q : built_t p -> built_t q -> built_t (cond b p q)
| T_test p0 p1 : built_t p0 -> built_t p1 -> built_t (depth_test p0 p1).

Lemma built_built_t p : built p -> built_t p.
Proof. induction 1; constructor; assumption. Qed.

Theorem shift_law_pos p : built_t p -> forall d, p (S d) = map (shift d) (p 1).
Proof.
  induction 1 as [k lab n|k p Hp IH|p q Hp IHp Hq IHq| |b p q Hp IHp Hq IHq|p0 p1 H0 IH0 H1 IH1]; intros d.
  - unfold emit_line. cbn. unfold shift. cbn. do 2 f_equal. lia.
  - unfold call_deeper. replace (S d + k) with (S (d + k)) by lia. rewrite (IH (d + k)).
    replace (1 + k) with (S k) by lia. rewrite (IH k), map_shift_shift. reflexivity.
  - unfold seq. rewrite map_app, <- IHp, <- IHq. reflexivity.
  - reflexivity.
  - destruct b; cbn; [apply IHp|apply IHq].
  - unfold depth_test. apply IH1.
Qed.

(* any two depths >= 1 *)
Corollary shift_law_pos_rel p : built_t p -> forall d e, p (S (d + e)) = map (shift d) (p (S e)).
Proof.
  intros H d e. rewrite (shift_law_pos p H (d + e)), (shift_law_pos p H e), map_shift_shift. reflexivity.
Qed.

(* ---------------------------------------------------------------------------------------- *)
(** * Guarded depth tests: the full law again

   built0: every depth test is below a call_deeper (S k), hence never evaluated at depth 0 when
   the printer is started at depth 0. *)

Inductive built0 : printer -> Prop :=
| Z_emit k lab n : built0 (emit_line k lab n)
| Z_call0 p : built0 p -> built0 (call_deeper 0 p)
| Z_callS k p : built_t p -> built0 (call_deeper (S k) p)
| Z_seq p q : built0 p -> built0 q -> built0 (seq p q)
| Z_skip : built0 skip
| Z_cond b p q : built0 p -> built0 q -> built0 (cond b p q).

Lemma built_built0 p : built p -> built0 p.
Proof.
  induction 1 as [k lab n|k p Hp IH|p q Hp IHp Hq IHq| |b p q Hp IHp Hq IHq]; try (constructor; assumption).
  destruct k; constructor; [assumption|apply built_built_t; assumption].
Qed.

Lemma built0_built_t p : built0 p -> built_t p.
Proof. induction 1; constructor; assumption. Qed.

Theorem shift_law_guarded p : built0 p -> forall d, p d = map (shift d) (p 0).
Proof.
  induction 1 as [k lab n|p Hp IH|k p Hp|p q Hp IHp Hq IHq| |b p q Hp IHp Hq IHq]; intros d.
  - unfold emit_line. cbn. unfold shift. cbn. reflexivity.
  - unfold call_deeper. rewrite !Nat.add_0_r. apply IH.
  - unfold call_deeper. replace (d + S k) with (S (d + k)) by lia. cbn [Nat.add].
    rewrite (shift_law_pos p Hp (d + k)), (shift_law_pos p Hp k), map_shift_shift. reflexivity.
  - unfold seq. rewrite map_app, <- IHp, <- IHq. reflexivity.
  - reflexivity.
  - destruct b; cbn; [apply IHp|apply IHq].
Qed.

(* ---------------------------------------------------------------------------------------- *)
(** * The exception: a depth test evaluated at depth 0 *)

Definition explain_header : printer :=
  depth_test (emit_line 0 [69; 88]%N None)      (* "EX": `Explain EXPLAIN ...` *)
             (emit_line 0 [69]%N None).         (* "E" : `Explain ...` *)

Theorem depth_test_is_an_exception :
  built_t explain_header /\ explain_header 1 <> map (shift 1) (explain_header 0).
Proof.
  split; [repeat constructor|]. cbn. unfold shift. cbn. intros H. discriminate H.
Qed.

(* ---------------------------------------------------------------------------------------- *)
(** * Deep embedding: the trace of one call

   The trace of a terminating call f(sb, data, spaces(d), d) for FIXED data: what the call does
   as far as depth is concerned.  Loops and data-dependent branches are already unfolded (the
   data is fixed), recursion is finite because the call terminates. *)

Inductive trace :=
| TEmit (k : nat) (lab : list N) (n : option nat)
| TCall (callee : string) (k : nat) (body : trace)      (* body: the trace of the callee *)
| TSeq (a b : trace)
| TSkip
| TTest (site : string) (at0 atpos : trace).            (* if depth == 0 { at0 } else { atpos } *)

Fixpoint denote (t : trace) : printer :=
  match t with
  | TEmit k lab n => emit_line k lab n
  | TCall _ k b => call_deeper k (denote b)
  | TSeq a b => seq (denote a) (denote b)
  | TSkip => skip
  | TTest _ a b => depth_test (denote a) (denote b)
  end.

Fixpoint test_sites (t : trace) : list string :=
  match t with
  | TEmit _ _ _ | TSkip => []
  | TCall _ _ b => test_sites b
  | TSeq a b => test_sites a ++ test_sites b
  | TTest s a b => s :: test_sites a ++ test_sites b
  end.

Fixpoint callees (t : trace) : list string :=
  match t with
  | TEmit _ _ _ | TSkip => []
  | TCall c _ b => c :: callees b
  | TSeq a b | TTest _ a b => callees a ++ callees b
  end.

(* no depth test at cumulative offset 0 *)
Fixpoint guarded (t : trace) : bool :=
  match t with
  | TEmit _ _ _ | TSkip => true
  | TCall _ O b => guarded b
  | TCall _ (S _) _ => true
  | TSeq a b => guarded a && guarded b
  | TTest _ _ _ => false
  end.

Lemma denote_built_t t : built_t (denote t).
Proof. induction t; cbn; constructor; assumption. Qed.

Lemma denote_built0 t : guarded t = true -> built0 (denote t).
Proof.
  induction t as [k lab n|c k b IH|a IHa b IHb| |s a IHa b IHb]; cbn; intros H.
  - constructor.
  - destruct k; constructor; [apply IH; exact H|apply denote_built_t].
  - apply andb_prop in H. destruct H. constructor; auto.
  - constructor.
  - discriminate.
Qed.

Lemma denote_built t : test_sites t = [] -> built (denote t).
Proof.
  induction t as [k lab n|c k b IH|a IHa b IHb| |s a IHa b IHb]; cbn; intros H.
  - constructor.
  - constructor. apply IH. exact H.
  - apply app_eq_nil in H. destruct H. constructor; auto.
  - constructor.
  - discriminate.
Qed.

Theorem trace_shift_pos t d : denote t (S d) = map (shift d) (denote t 1).
Proof. apply shift_law_pos, denote_built_t. Qed.

Theorem trace_shift_guarded t d : guarded t = true -> denote t d = map (shift d) (denote t 0).
Proof. intros H. apply shift_law_guarded, denote_built0, H. Qed.

Theorem trace_shift_no_tests t d : test_sites t = [] -> denote t d = map (shift d) (denote t 0).
Proof. intros H. apply shift_law, denote_built, H. Qed.

(* ---------------------------------------------------------------------------------------- *)
(** * Embedding: a context that prints its operand by a call at depth+k contains the operand's
      own output, shifted by k, as a contiguous block *)

Theorem embedded_block (pre post q : printer) k :
  built0 q ->
  forall d, seq pre (seq (call_deeper k q) post) d = pre d ++ map (shift (d + k)) (q 0) ++ post d.
Proof.
  intros Hq d. unfold seq, call_deeper. rewrite (shift_law_guarded q Hq (d + k)). reflexivity.
Qed.

(* a non-trivial inhabitant: Subquery (children 1) / SelectWithUnionQuery / Explain header below *)
Example example_trace : trace :=
  TSeq (TEmit 0 [83]%N (Some 1))
       (TCall "Node" 1 (TSeq (TEmit 0 [85]%N (Some 1))
                             (TCall "explainExplainQuery" 2
                                (TTest "internal/explain|explainExplainQuery|depth == 0 #2"
                                       (TEmit 0 [69; 88]%N None) (TEmit 0 [69]%N None))))).

Example example_trace_guarded : guarded example_trace = true /\ test_sites example_trace <> [].
Proof. split; [reflexivity|discriminate]. Qed.

Example example_trace_law d : denote example_trace d = map (shift d) (denote example_trace 0).
Proof. apply trace_shift_guarded. reflexivity. Qed.
