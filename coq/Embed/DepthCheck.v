(* C07 -- checker over the generated depth/indent inventory (Gen/DepthUses.v) and the theorems that
   connect it to the printer calculus of Embed/DepthShift.v.

   ============================================================================================
   TRUSTED BASE: the translator's soundness claim (what [conforms] assumes)
   ============================================================================================
   The Go code of /repo/internal/explain is not modelled statement by statement.  The link between
   the code and the traces of DepthShift.v is the following claim about
   /verif/translator/cmd/depthgen, argued here and tested by mutation (see the report), not proved
   in Coq:

     (D) Let f be a function of internal/explain, a its arguments other than depth/indent, and
         suppose the call  f(sb, a, strings.Repeat(" ", d + skew_f), d)  terminates for the depths d
         considered and enters no function that the inventory marks DIRTY ([dirty_funcs]).  Then
         there is ONE trace t (DepthShift.trace), not depending on d, such that for every d the
         bytes the call appends to sb, cut at the "\n" written by the code, are the lines
         [denote t d]; and t is made of the sites of the inventory ([wf_trace]):
           - every TEmit k is a write whose `%s`/WriteString prefix is an `indent-prefix` use of f
             with offset k (the line starts with d + k spaces; the rest of the line is the label),
           - every TCall c k is a call listed in di_pairs from f to c whose depth argument is
             depth + k (for a callee that only has `indent`: indent + k spaces), and its body is
             the trace of that call,
           - every TTest s is a `depth-test` use of f with key s, of the shape `depth == 0`.

   Why (D) holds for a function that is not dirty.  The translator type-checks every non-test file
   of the package from source (tag sets {} and {verif}, abort on any error).  In f, the values
   that depend on d are, initially, the parameters `depth` and `indent` (= spaces(depth + skew_f),
   by the consistency of EVERY call site of f, [pair_ok]; the two root calls pass the constant 0
   and a builder that the root owns).  Every identifier occurrence of the two parameters and of
   the locals all of whose assignments are of the form D(k) / I(k) is classified; when none is
   `other`, a d-dependent value is never stored anywhere else (a store to a non-derived variable,
   a field, a return value, a capture by a function literal, an argument for a differently named
   parameter or for a function outside the package are all `other`), never enters arithmetic other
   than `+ constant`, and is only
     (1) written at the very start of a line (`indent-prefix`; the line-state pass follows every
         write to the builder through the statements of each function, summarises a function as
         start->start or mid->mid, and reports any text written at a line start that is not such
         a prefix as `raw-write`, any other use of the builder as `sb-escape`, any call whose
         callee expects another line state as `state-mismatch`);
     (2) handed to the parameter of the same name of a function of the package (`pass-deeper`,
         `indent-pass`), where the argument applies again;
     (3) compared (`depth-test`), which is reported and must be allow-listed.
   The package has no package-level variable that is written after initialisation and the explain
   functions write nothing through their AST arguments (Properties/C10.v, C10_no_findings = true):
   there is no other channel by which a value depending on d, or anything left by an earlier call,
   could reach a later branch or label.  Hence control flow and every label are functions of the
   data alone, apart from the listed tests; that is (D).

   What (D) does NOT cover (outside the model):
     - labels are opaque: a label containing a newline byte is ONE line here but two in the text
       (a back-quoted name with a raw newline is printed unescaped: see the harness report);
     - a function that owns a builder (Explain, ExplainStatements) called from inside the package
       would insert a rendering that starts at depth 0 as data; the translator lists such a call
       as `nested-root` (never accepted; none today), EXCEPT when the callee is a LINE ROOT
       (exprFallbackText: it hands out nothing but `line, _, _ := strings.Cut(sb.String(), "\n")`):
       its result has no newline and does not depend on any depth, it is label data like any
       other string, and a caller that writes it at a line start is still a `raw-write`;
     - fmt/strings behave as documented; panics and non-termination are excluded by hypothesis.
   ============================================================================================ *)
From Coq Require Import List String ZArith Bool Lia.
From DC Require Import Tree.LineTree Tree.LineTreeProof Embed.DepthInv Embed.DepthShift.
Import ListNotations.
Local Open Scope string_scope.
Local Open Scope list_scope.

(* ------------------------------------------------------------------------------------------ *)
(** * The checker *)

Definition str_in (k : string) (l : list string) : bool := existsb (String.eqb k) l.

Lemma str_in_In k l : str_in k l = true <-> In k l.
Proof.
  unfold str_in. rewrite existsb_exists. split.
  - intros [x [Hx He]]. apply String.eqb_eq in He. subst. exact Hx.
  - intros H. exists k. split; [exact H|apply String.eqb_refl].
Qed.

Definition is_nil {A} (l : list A) : bool := match l with [] => true | _ => false end.

(* the committed allow-lists (Gen/DepthAllowed.v, from checks/c07_allowed_sites.json) *)
Record allow := mk_allow {
  a_depth_tests : list string;     (* keys of justified `depth == 0` tests *)
  a_root_writes : list string;     (* keys of writes of functions that own their builder *)
  a_skewed      : list string      (* skew keys of functions called with indent = spaces(depth+c) *)
}.

Definition zs_eqb (a b : list Z) : bool :=
  match a, b with
  | [x], [y] => Z.eqb x y
  | _, _ => false
  end.

(* a depth test is accepted only in the shape the calculus knows: `depth == 0` *)
Definition test_shape (u : duse) : bool :=
  String.eqb (u_text u) "depth == 0" && zs_eqb (u_k u) [0%Z].

Definition use_ok (al : allow) (u : duse) : bool :=
  let k := u_kind u in
  String.eqb k "indent-def" || String.eqb k "depth-def" || String.eqb k "pass-deeper"
  || String.eqb k "indent-pass" || String.eqb k "indent-prefix"
  || (String.eqb k "depth-test" && str_in (u_key u) (a_depth_tests al) && test_shape u).

Definition write_ok (al : allow) (w : dwrite) : bool :=
  String.eqb (w_kind w) "root-write" && str_in (w_key w) (a_root_writes al).

Definition pair_ok (p : dpair) : bool := p_consistent p.

Definition fun_ok (al : allow) (f : dfun) : bool :=
  String.eqb (f_skew_key f) "" || str_in (f_skew_key f) (a_skewed al).

Definition bad_uses (inv : dinventory) (al : allow) : list duse :=
  filter (fun u => negb (use_ok al u)) (di_uses inv).
Definition bad_writes (inv : dinventory) (al : allow) : list dwrite :=
  filter (fun w => negb (write_ok al w)) (di_writes inv).
Definition bad_pairs (inv : dinventory) : list dpair :=
  filter (fun p => negb (pair_ok p)) (di_pairs inv).
Definition bad_funs (inv : dinventory) (al : allow) : list dfun :=
  filter (fun f => negb (fun_ok al f)) (di_funcs inv).

(* the functions that contain a site for which claim (D) is not made *)
Definition dirty_funcs (inv : dinventory) (al : allow) : list string :=
  map u_func (bad_uses inv al) ++ map w_func (bad_writes inv al)
  ++ map p_func (bad_pairs inv) ++ map f_name (bad_funs inv al).

(* every dirty function is a listed known finding *)
Definition check_depth (inv : dinventory) (al : allow) (quarantine : list string) : bool :=
  forallb (fun f => str_in f quarantine) (dirty_funcs inv al).

(* full strength: nothing dirty at all *)
Definition check_depth_clean (inv : dinventory) (al : allow) : bool := is_nil (dirty_funcs inv al).

(* allow-list / quarantine entries that match nothing any more (informational) *)
Definition stale_quarantine (inv : dinventory) (al : allow) (quarantine : list string) : list string :=
  filter (fun f => negb (str_in f (dirty_funcs inv al))) quarantine.
Definition stale_depth_tests (inv : dinventory) (al : allow) : list string :=
  filter (fun k => negb (str_in k (map u_key (di_uses inv)))) (a_depth_tests al).

(* ------------------------------------------------------------------------------------------ *)
(** * Traces made of the inventory's sites *)

(* the offsets of a call: of its depth argument, or of its indent argument for a callee that has
   no depth parameter *)
Definition offsets (p : dpair) : list Z :=
  match p_depth_k p with [] => p_indent_k p | ks => ks end.

Inductive wf_trace (inv : dinventory) : string -> trace -> Prop :=
| wf_emit f k lab n u :
    In u (di_uses inv) -> u_kind u = "indent-prefix" -> u_func u = f -> In (Z.of_nat k) (u_k u) ->
    wf_trace inv f (TEmit k lab n)
| wf_call f c k b p :
    In p (di_pairs inv) -> p_func p = f -> p_callee p = c -> In (Z.of_nat k) (offsets p) ->
    wf_trace inv c b ->
    wf_trace inv f (TCall c k b)
| wf_seq f a b : wf_trace inv f a -> wf_trace inv f b -> wf_trace inv f (TSeq a b)
| wf_skip f : wf_trace inv f TSkip
| wf_test f s a b u :
    In u (di_uses inv) -> u_kind u = "depth-test" -> u_func u = f -> u_key u = s ->
    wf_trace inv f a -> wf_trace inv f b ->
    wf_trace inv f (TTest s a b).

(* ------------------------------------------------------------------------------------------ *)
(** * Guardedness from the call graph of the inventory

   A set S of function names that is closed under calls at offset 0 and contains no function with
   a depth test: a trace that starts in S evaluates no depth test at cumulative offset 0. *)

Definition has_zero (p : dpair) : bool := existsb (Z.eqb 0) (offsets p).

Definition closed_b (inv : dinventory) (S : list string) : bool :=
  forallb (fun p => negb (str_in (p_func p) S && has_zero p) || str_in (p_callee p) S) (di_pairs inv).

Definition test_free_b (inv : dinventory) (S : list string) : bool :=
  forallb (fun u => negb (String.eqb (u_kind u) "depth-test" && str_in (u_func u) S)) (di_uses inv).

(* a candidate for S: iterate the offset-0 callees (untrusted; closed_b validates the result) *)
Fixpoint zero_closure (fuel : nat) (inv : dinventory) (S : list string) : list string :=
  match fuel with
  | O => S
  | Datatypes.S n =>
      let new := filter (fun c => negb (str_in c S))
                   (map p_callee (filter (fun p => str_in (p_func p) S && has_zero p) (di_pairs inv))) in
      match new with
      | [] => S
      | _ => zero_closure n inv (S ++ nodup string_dec new)
      end
  end.

Lemma has_zero_of_nat p : In (Z.of_nat 0) (offsets p) -> has_zero p = true.
Proof.
  intros H. unfold has_zero. apply existsb_exists. exists 0%Z. split; [exact H|reflexivity].
Qed.

Lemma guarded_of_wf inv S :
  closed_b inv S = true -> test_free_b inv S = true ->
  forall f t, wf_trace inv f t -> str_in f S = true -> guarded t = true.
Proof.
  intros Hc Ht f t Hwf. induction Hwf as [f k lab n u Hu Hk Hf Hin|f c k b p Hp Hf Hcal Hin Hb IH|f a b Ha IHa Hb IHb|f|f s a b u Hu Hk Hf Hs Ha IHa Hb IHb]; intros HS.
  - reflexivity.
  - destruct k as [|k]; [|reflexivity]. cbn [guarded]. apply IH.
    unfold closed_b in Hc. rewrite forallb_forall in Hc. specialize (Hc p Hp).
    rewrite Hf, Hcal, HS, (has_zero_of_nat p Hin) in Hc. cbn in Hc. exact Hc.
  - cbn. rewrite IHa, IHb by assumption. reflexivity.
  - reflexivity.
  - exfalso. unfold test_free_b in Ht. rewrite forallb_forall in Ht. specialize (Ht u Hu).
    rewrite Hk, Hf, HS in Ht. cbn in Ht. discriminate Ht.
Qed.

(* every test site of a well-formed trace is a depth-test use of the inventory *)
Lemma test_sites_of_wf inv f t :
  wf_trace inv f t -> forall s, In s (test_sites t) ->
  exists u, In u (di_uses inv) /\ u_kind u = "depth-test" /\ u_key u = s.
Proof.
  induction 1 as [f k lab n u Hu Hk Hf Hin|f c k b p Hp Hf Hcal Hin Hb IH|f a b Ha IHa Hb IHb|f|f s0 a b u Hu Hk Hf Hs Ha IHa Hb IHb]; cbn; intros s Hs'.
  - contradiction.
  - apply IH. exact Hs'.
  - apply in_app_or in Hs'. destruct Hs'; auto.
  - contradiction.
  - destruct Hs' as [<-|Hs']; [exists u; auto|]. apply in_app_or in Hs'. destruct Hs'; auto.
Qed.

(* ------------------------------------------------------------------------------------------ *)
(** * Claim (D) and its consequences *)

Section Claim.
  Variable inv : dinventory.
  Variable al : allow.

  (* the arguments of a call other than the builder, depth and indent *)
  Variable data : Type.
  (* [sem f a d]: the lines a terminating call f(sb, a, spaces(d + skew_f), d) appends to sb *)
  Variable sem : string -> data -> printer.
  (* [enters f a g]: the call f(.., a, ..) enters function g at some depth (g = f included) *)
  Variable enters : string -> data -> string -> Prop.

  (* claim (D) *)
  Definition conforms : Prop :=
    forall f a, (forall g, enters f a g -> ~ In g (dirty_funcs inv al)) ->
    exists t, wf_trace inv f t /\ forall d, sem f a d = denote t d.

  Variable quarantine : list string.

  Lemma avoids_dirty f a :
    check_depth inv al quarantine = true ->
    (forall g, enters f a g -> ~ In g quarantine) ->
    forall g, enters f a g -> ~ In g (dirty_funcs inv al).
  Proof.
    intros Hc Hq g Hg Hd. apply (Hq g Hg).
    unfold check_depth in Hc. rewrite forallb_forall in Hc. apply str_in_In. apply Hc. exact Hd.
  Qed.

  (* the shift law between all depths >= 1, for every call that stays out of the known findings *)
  Theorem checked_shift_pos :
    conforms -> check_depth inv al quarantine = true ->
    forall f a, (forall g, enters f a g -> ~ In g quarantine) ->
    forall d, sem f a (S d) = map (shift d) (sem f a 1).
  Proof.
    intros HD Hc f a Hq d. destruct (HD f a (avoids_dirty f a Hc Hq)) as [t [_ Ht]].
    rewrite !Ht. apply trace_shift_pos.
  Qed.

  Corollary checked_shift_pos_rel :
    conforms -> check_depth inv al quarantine = true ->
    forall f a, (forall g, enters f a g -> ~ In g quarantine) ->
    forall d e, sem f a (S (d + e)) = map (shift d) (sem f a (S e)).
  Proof.
    intros HD Hc f a Hq d e.
    rewrite (checked_shift_pos HD Hc f a Hq (d + e)), (checked_shift_pos HD Hc f a Hq e), map_shift_shift.
    reflexivity.
  Qed.

  (* the law for ALL depths, for a call that starts in a set of functions closed under offset-0
     calls and free of depth tests *)
  Theorem checked_shift_guarded (S : list string) :
    conforms -> check_depth inv al quarantine = true ->
    closed_b inv S = true -> test_free_b inv S = true ->
    forall f a, str_in f S = true -> (forall g, enters f a g -> ~ In g quarantine) ->
    forall d, sem f a d = map (shift d) (sem f a 0).
  Proof.
    intros HD Hc Hcl Htf f a HS Hq d. destruct (HD f a (avoids_dirty f a Hc Hq)) as [t [Hwf Ht]].
    rewrite !Ht. apply trace_shift_guarded. eapply guarded_of_wf; eauto.
  Qed.

  (* and, if the inventory has no depth test at all, for every function *)
  Theorem checked_shift_no_tests :
    conforms -> check_depth inv al quarantine = true ->
    (forall u, In u (di_uses inv) -> u_kind u <> "depth-test") ->
    forall f a, (forall g, enters f a g -> ~ In g quarantine) ->
    forall d, sem f a d = map (shift d) (sem f a 0).
  Proof.
    intros HD Hc Hno f a Hq d. destruct (HD f a (avoids_dirty f a Hc Hq)) as [t [Hwf Ht]].
    rewrite !Ht. apply trace_shift_no_tests.
    destruct (test_sites t) as [|s r] eqn:E; [reflexivity|].
    destruct (test_sites_of_wf inv f t Hwf s) as [u [Hu [Hk _]]]; [rewrite E; left; reflexivity|].
    exfalso. exact (Hno u Hu Hk).
  Qed.

  (* the printer-side statement of C07: a context whose trace prints its operand by a call at
     depth + k contains the operand's own output (what the same callee prints at depth 0),
     shifted, as one contiguous block *)
  Theorem checked_embedding (S : list string) :
    conforms -> check_depth inv al quarantine = true ->
    closed_b inv S = true -> test_free_b inv S = true ->
    forall ctx a c q k pre post tq,
      (forall g, enters ctx a g -> ~ In g quarantine) ->
      (forall g, enters c q g -> ~ In g quarantine) ->
      str_in c S = true ->
      (* the trace of the context call is  pre ; c(q) at depth+k ; post  *)
      (forall d, sem ctx a d = denote (TSeq pre (TSeq (TCall c k tq) post)) d) ->
      (* and tq is the trace of the operand's own rendering *)
      (forall d, sem c q d = denote tq d) ->
      forall d, sem ctx a d = denote pre d ++ map (shift (d + k)) (sem c q 0) ++ denote post d.
  Proof.
    intros HD Hc Hcl Htf ctx a c q k pre post tq Hq1 Hq2 HS Hctx Htq d.
    rewrite Hctx. cbn [denote]. unfold seq, call_deeper. rewrite <- Htq.
    rewrite (checked_shift_guarded S HD Hc Hcl Htf c q HS Hq2 (d + k)). reflexivity.
  Qed.
End Claim.

(* ------------------------------------------------------------------------------------------ *)
(** * The hypotheses are satisfiable: a two-function package *)

Definition toy_inv : dinventory :=
  mk_dinventory
    [mk_dfun "p" "outer" true true true "start" ""; mk_dfun "p" "inner" true true true "start" ""]
    [mk_duse "outer" "indent" "indent-prefix" [0%Z] "" "fmt.Fprintf(sb, ""%sOuter\n"", indent)" "p|outer|1";
     mk_duse "outer" "depth" "pass-deeper" [1%Z] "inner" "inner(sb, indent+"" "", depth+1)" "p|outer|2";
     mk_duse "inner" "indent" "indent-prefix" [1%Z] "" "fmt.Fprintf(sb, ""%s Inner\n"", indent)" "p|inner|1"]
    []
    [mk_dpair "outer" "inner" [1%Z] [1%Z] true false "p|outer|2"].

Definition toy_allow : allow := mk_allow [] [] [].

Definition toy_sem (f : string) (a : unit) : printer :=
  if String.eqb f "outer" then seq (emit_line 0 [79]%N (Some 1)) (call_deeper 1 (emit_line 1 [73]%N None))
  else if String.eqb f "inner" then emit_line 1 [73]%N None
  else skip.

Example toy_check : check_depth_clean toy_inv toy_allow = true.
Proof. reflexivity. Qed.

Example toy_conforms : conforms toy_inv toy_allow unit toy_sem (fun _ _ _ => False).
Proof.
  intros f a _. unfold toy_sem.
  destruct (String.eqb f "outer") eqn:E1; [apply String.eqb_eq in E1; subst|].
  - exists (TSeq (TEmit 0 [79]%N (Some 1)) (TCall "inner" 1 (TEmit 1 [73]%N None))). split; [|reflexivity].
    constructor.
    + eapply wf_emit with (u := nth 0 (di_uses toy_inv) (mk_duse "" "" "" [] "" "" "")); cbn; auto.
    + eapply wf_call with (p := nth 0 (di_pairs toy_inv) (mk_dpair "" "" [] [] false false "")); cbn; auto.
      eapply wf_emit with (u := nth 2 (di_uses toy_inv) (mk_duse "" "" "" [] "" "" "")); cbn; auto.
  - destruct (String.eqb f "inner") eqn:E2; [apply String.eqb_eq in E2; subst|].
    + exists (TEmit 1 [73]%N None). split; [|reflexivity].
      eapply wf_emit with (u := nth 2 (di_uses toy_inv) (mk_duse "" "" "" [] "" "" "")); cbn; auto.
    + exists TSkip. split; [constructor|reflexivity].
Qed.
