(* The per-run obligations of C07 over the GENERATED inventory (Gen/DepthUses.v) and the committed
   allow-lists (Gen/DepthAllowed.v), discharged by computation.  Re-checked whenever either file
   changes.  The [Print]ed values come first and never fail, so that a check script can say WHICH
   obligation broke and at which site before the corresponding lemma stops the compilation. *)
From Coq Require Import String List Bool ZArith.
From DC Require Import Tree.LineTree Tree.LineTreeProof.
From DC Require Import Embed.DepthInv Embed.DepthShift Embed.DepthCheck.
From DC Require Import Gen.DepthUses Gen.DepthAllowed.
Import ListNotations.
Local Open Scope string_scope.

Definition c07_allow : allow := mk_allow allowed_depth_tests allowed_root_writes allowed_skewed.

(* the functions from which a SELECT query is printed: explainSelectWithUnionQuery is what Node
   dispatches a *ast.SelectWithUnionQuery to, explainSelectWithUnionQueryTail is what CREATE ... AS,
   INSERT ... SELECT and EXPLAIN call directly (with a tail), the others print the members *)
Definition select_roots : list string :=
  [ "explainSelectWithUnionQuery"; "explainSelectWithUnionQueryTail";
    "explainSelectWithUnionQueryWithInheritedWith"; "explainSelectQuery";
    "explainSelectIntersectExceptQuery" ].

(* closed under calls at offset 0 (computed here, validated by closed_b below) *)
Definition select_zero_closure : list string := Eval vm_compute in
  zero_closure 200 depth_inventory select_roots.
Print select_zero_closure.

Definition obligations : list (string * bool) := Eval vm_compute in
  [ ("C07.check_depth", check_depth depth_inventory c07_allow quarantined_funcs);
    ("C07.check_depth_clean", check_depth_clean depth_inventory c07_allow);
    ("C07.no_other_uses", is_nil (bad_uses depth_inventory c07_allow));
    ("C07.no_raw_writes", is_nil (bad_writes depth_inventory c07_allow));
    ("C07.pairs_consistent", is_nil (bad_pairs depth_inventory));
    ("C07.skews_listed", is_nil (bad_funs depth_inventory c07_allow));
    ("C07.select_closure_closed", closed_b depth_inventory select_zero_closure);
    ("C07.select_closure_test_free", test_free_b depth_inventory select_zero_closure) ].
Print obligations.

(* keys of the sites that make a function dirty *)
Definition C07_bad_use_keys : list string := Eval vm_compute in map u_key (bad_uses depth_inventory c07_allow).
Print C07_bad_use_keys.
Definition C07_bad_write_keys : list string := Eval vm_compute in map w_key (bad_writes depth_inventory c07_allow).
Print C07_bad_write_keys.
Definition C07_bad_pair_keys : list string := Eval vm_compute in map p_key (bad_pairs depth_inventory).
Print C07_bad_pair_keys.
Definition C07_bad_skew_keys : list string := Eval vm_compute in map f_skew_key (bad_funs depth_inventory c07_allow).
Print C07_bad_skew_keys.

(* dirty functions; those not quarantined are VIOLATIONS, the quarantined ones KNOWN-FINDINGs *)
Definition C07_dirty_funcs : list string := Eval vm_compute in
  nodup string_dec (dirty_funcs depth_inventory c07_allow).
Print C07_dirty_funcs.
Definition C07_unlisted_dirty_funcs : list string := Eval vm_compute in
  filter (fun f => negb (str_in f quarantined_funcs)) C07_dirty_funcs.
Print C07_unlisted_dirty_funcs.
Definition C07_stale_quarantine : list string := Eval vm_compute in
  stale_quarantine depth_inventory c07_allow quarantined_funcs.
Print C07_stale_quarantine.
Definition C07_stale_depth_tests : list string := Eval vm_compute in
  stale_depth_tests depth_inventory c07_allow.
Print C07_stale_depth_tests.
Definition C07_depth_test_keys : list string := Eval vm_compute in
  map u_key (filter (fun u => String.eqb (u_kind u) "depth-test") (di_uses depth_inventory)).
Print C07_depth_test_keys.

(* whether the inventory is clean without any quarantine (false while known findings exist) *)
Definition C07_clean : bool := Eval vm_compute in check_depth_clean depth_inventory c07_allow.

(* ---- obligations ---- *)

Lemma C07_check_depth_ok : check_depth depth_inventory c07_allow quarantined_funcs = true.
Proof. vm_compute. reflexivity. Qed.

Lemma C07_select_closed : closed_b depth_inventory select_zero_closure = true.
Proof. vm_compute. reflexivity. Qed.

Lemma C07_select_test_free : test_free_b depth_inventory select_zero_closure = true.
Proof. vm_compute. reflexivity. Qed.

Lemma C07_select_roots_in_closure :
  forallb (fun f => str_in f select_zero_closure) select_roots = true.
Proof. vm_compute. reflexivity. Qed.

Lemma C07_clean_spec : check_depth_clean depth_inventory c07_allow = C07_clean.
Proof. vm_compute. reflexivity. Qed.

(* ---- consequences for the generated inventory ---- *)

Section Generated.
  Variable data : Type.
  Variable sem : string -> data -> printer.
  Variable enters : string -> data -> string -> Prop.
  Hypothesis HD : conforms depth_inventory c07_allow data sem enters.

  Definition avoids_findings (f : string) (a : data) : Prop :=
    forall g, enters f a g -> ~ In g quarantined_funcs.

  (* every function of the package, any two depths >= 1 *)
  Lemma C07_shift_pos f a :
    avoids_findings f a -> forall d, sem f a (S d) = map (shift d) (sem f a 1).
  Proof. intros Hq. exact (checked_shift_pos _ _ _ _ _ _ HD C07_check_depth_ok f a Hq). Qed.

  (* the SELECT printers, all depths *)
  Lemma C07_shift_select f a :
    In f select_roots -> avoids_findings f a -> forall d, sem f a d = map (shift d) (sem f a 0).
  Proof.
    intros Hf Hq.
    apply (checked_shift_guarded _ _ _ _ _ _ select_zero_closure HD C07_check_depth_ok
             C07_select_closed C07_select_test_free); [|exact Hq].
    pose proof C07_select_roots_in_closure as H. rewrite forallb_forall in H. apply H. exact Hf.
  Qed.

  (* Node on a SelectWithUnionQuery: the type switch of Node (explain.go, `case
     *ast.SelectWithUnionQuery: explainSelectWithUnionQuery(sb, n, indent, depth)`) is read as the
     hypothesis [Hdispatch] *)
  Variable is_union : data -> Prop.
  Hypothesis Hdispatch :
    forall q d, is_union q -> sem "Node" q d = sem "explainSelectWithUnionQuery" q d.

  Lemma C07_shift_node_union q :
    is_union q -> avoids_findings "explainSelectWithUnionQuery" q ->
    forall d, sem "Node" q d = map (shift d) (sem "Node" q 0).
  Proof.
    intros Hu Hq d. rewrite !Hdispatch by exact Hu.
    apply C07_shift_select; [left; reflexivity|exact Hq].
  Qed.
End Generated.
